import Mrm.Props.All
open Mrm
#print axioms C05_step_kind
#print axioms C05_step
#print axioms C05_holds
#print axioms C05_nonstrict_history
#print axioms C05_any_exception
