import Mrm.Xml
import Mrm.Py
import Mrm.Model.Basic
import Mrm.Model.Classify
import Mrm.Model.Timing
import Mrm.Model.Merge
