import Mrm.Props.All
open Mrm
#print axioms C01_order
#print axioms C01_perm
#print axioms order_story
#print axioms perm_any
