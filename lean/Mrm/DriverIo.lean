/-
  Mrm/DriverIo.lean — "listkeys" and "cli" requests (C18, C19).
-/
import Lean.Data.Json
import Mrm.Model.Io

open Lean

namespace Mrm

def out1J : Out1 → Json
  | .stdout s => Json.arr #[.str "out", .str s]
  | .stderr s => Json.arr #[.str "err", .str s]

def handleListKeys (j : Json) : Except String Json := do
  let suffix ← (j.getObjVal? "suffix").bind (·.getStr?)
  let pagesJ ← (j.getObjVal? "pages").bind (·.getArr?)
  let pages ← pagesJ.toList.mapM fun p =>
    match p with
    | .null => pure (none : Page)
    | _ => do
      let a ← p.getArr?
      pure (some (← a.toList.mapM (·.getStr?)))
  pure (Json.mkObj [("keys", toJson (listKeys suffix pages))])

end Mrm
