/-
  Mrm/Xml.lean — the value model of an `xml.etree.ElementTree.Element`.

  An element is its tag, its attributes in document order, its `text`, its `tail`
  (ElementTree stores the character data that follows an element on that element, so a
  tail travels with its element when it is moved) and its children.

  No Mathlib import: this file is linked into the compiled driver.
-/

inductive Xml where
  | node (tag : String) (attrs : List (String × String)) (text : Option String)
         (tail : Option String) (kids : List Xml)
deriving Repr, Inhabited

namespace Xml

mutual
def decEq : (a b : Xml) → Decidable (a = b)
  | .node t1 a1 x1 l1 k1, .node t2 a2 x2 l2 k2 =>
    if h1 : t1 = t2 then
      if h2 : a1 = a2 then
        if h3 : x1 = x2 then
          if h4 : l1 = l2 then
            match decEqList k1 k2 with
            | isTrue h5 => isTrue (by subst h1 h2 h3 h4 h5; rfl)
            | isFalse h5 => isFalse (by intro h; injection h with _ _ _ _ h; exact h5 h)
          else isFalse (by intro h; injection h with _ _ _ h _; exact h4 h)
        else isFalse (by intro h; injection h with _ _ h _ _; exact h3 h)
      else isFalse (by intro h; injection h with _ h _ _ _; exact h2 h)
    else isFalse (by intro h; injection h with h _ _ _ _; exact h1 h)
def decEqList : (as bs : List Xml) → Decidable (as = bs)
  | [], [] => isTrue rfl
  | [], _ :: _ => isFalse (by intro h; cases h)
  | _ :: _, [] => isFalse (by intro h; cases h)
  | a :: as, b :: bs =>
    match decEq a b, decEqList as bs with
    | isTrue h1, isTrue h2 => isTrue (by subst h1 h2; rfl)
    | isFalse h1, _ => isFalse (by intro h; injection h with h _; exact h1 h)
    | _, isFalse h2 => isFalse (by intro h; injection h with _ h; exact h2 h)
end

instance : DecidableEq Xml := decEq

def tag : Xml → String | .node t _ _ _ _ => t
def attrs : Xml → List (String × String) | .node _ a _ _ _ => a
def text : Xml → Option String | .node _ _ x _ _ => x
def tail : Xml → Option String | .node _ _ _ l _ => l
def kids : Xml → List Xml | .node _ _ _ _ k => k

@[simp] theorem tag_node (t a x l k) : (Xml.node t a x l k).tag = t := rfl
@[simp] theorem attrs_node (t a x l k) : (Xml.node t a x l k).attrs = a := rfl
@[simp] theorem text_node (t a x l k) : (Xml.node t a x l k).text = x := rfl
@[simp] theorem tail_node (t a x l k) : (Xml.node t a x l k).tail = l := rfl
@[simp] theorem kids_node (t a x l k) : (Xml.node t a x l k).kids = k := rfl

/-- `e.tag = t` (assignment to the tag of a copy) -/
def withTag (x : Xml) (t : String) : Xml := .node t x.attrs x.text x.tail x.kids
/-- the element with its child list replaced (all mutation of a parent goes through this) -/
def withKids (x : Xml) (ks : List Xml) : Xml := .node x.tag x.attrs x.text x.tail ks

@[simp] theorem withKids_kids (x : Xml) (ks : List Xml) : (x.withKids ks).kids = ks := rfl
@[simp] theorem withKids_tag (x : Xml) (ks : List Xml) : (x.withKids ks).tag = x.tag := rfl
@[simp] theorem withKids_text (x : Xml) (ks : List Xml) : (x.withKids ks).text = x.text := rfl
@[simp] theorem withKids_tail (x : Xml) (ks : List Xml) : (x.withKids ks).tail = x.tail := rfl
@[simp] theorem withKids_attrs (x : Xml) (ks : List Xml) : (x.withKids ks).attrs = x.attrs := rfl
@[simp] theorem withKids_self (x : Xml) : x.withKids x.kids = x := by cases x; rfl
@[simp] theorem withKids_withKids (x : Xml) (a b : List Xml) :
    (x.withKids a).withKids b = x.withKids b := rfl
@[simp] theorem withTag_kids (x : Xml) (t : String) : (x.withTag t).kids = x.kids := rfl
@[simp] theorem withTag_tag (x : Xml) (t : String) : (x.withTag t).tag = t := rfl

/-- `Element.find(t)`: first direct child with tag `t` -/
def find (x : Xml) (t : String) : Option Xml := x.kids.find? (fun c => c.tag == t)
/-- `Element.findall(t)`: all direct children with tag `t`, in order -/
def findall (x : Xml) (t : String) : List Xml := x.kids.filter (fun c => c.tag == t)
/-- `e.find(t).text` inside `try … except AttributeError: None` (also for `e is None`) -/
def childText (x : Option Xml) (t : String) : Option String :=
  (x.bind (·.find t)).bind (·.text)
/-- `Element.findtext(t)`: `None` when absent, `''` when the child has no text -/
def findtext (x : Xml) (t : String) : Option String :=
  (x.find t).map (fun e => e.text.getD "")
/-- `Element.get(k)` / `attrib.get(k)` -/
def attr (x : Xml) (k : String) : Option String := (x.attrs.find? (fun p => p.1 == k)).map (·.2)

/-- number of elements in the tree -/
def size : Xml → Nat
  | .node _ _ _ _ k => 1 + sizeList k
where sizeList : List Xml → Nat
  | [] => 0
  | x :: xs => x.size + sizeList xs

/-- `Element.iter()` without the root: all descendants in document (pre-)order -/
def descendants : Xml → List Xml
  | .node _ _ _ _ k => go k
where go : List Xml → List Xml
  | [] => []
  | x :: xs => x :: x.descendants ++ go xs

end Xml
