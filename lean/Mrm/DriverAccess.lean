/-
  Mrm/DriverAccess.lean — JSON codec for accessor views and the "access" request.
-/
import Lean.Data.Json
import Mrm.Model.Access
import Mrm.Spec.AccessHolds

open Lean

namespace Mrm

def optNatJ : Option Nat → Json | none => .null | some n => toJson n
def optStrJ : Option String → Json | none => .null | some s => .str s

def itemViewJ (v : ItemView) : Json :=
  Json.mkObj [("id", optStrJ v.id), ("slug", optStrJ v.slug), ("type", optStrJ v.type),
    ("object_id", optStrJ v.objectId), ("mos_id", optStrJ v.mosId), ("note", optStrJ v.note)]

def bodyElJ : BodyEl → Json
  | .text s => Json.mkObj [("p", .str s)]
  | .item v => Json.mkObj [("item", itemViewJ v)]

def storyViewJ (v : StoryView) : Json :=
  Json.mkObj [("id", optStrJ v.id), ("slug", optStrJ v.slug), ("duration", optNatJ v.duration),
    ("offset", optNatJ v.offset), ("start", optNatJ v.start), ("stop", optNatJ v.stop),
    ("script", toJson v.script), ("body", .arr (v.body.map bodyElJ).toArray),
    ("items", .arr (v.items.map itemViewJ).toArray)]

def roViewJ (v : RoView) : Json :=
  Json.mkObj [("ro_slug", optStrJ v.roSlug), ("start", optNatJ v.start), ("stop", optNatJ v.stop),
    ("duration", optNatJ v.duration), ("completed", .bool v.completed), ("script", toJson v.script),
    ("body", .arr (v.body.map bodyElJ).toArray), ("stories", .arr (v.stories.map storyViewJ).toArray)]

def getOptNat (j : Json) (k : String) : Except String (Option Nat) :=
  match j.getObjVal? k with
  | .ok .null => pure none
  | .ok v => (v.getNat?).map some
  | .error e => throw e

def getOptStr (j : Json) (k : String) : Except String (Option String) :=
  match j.getObjVal? k with
  | .ok .null => pure none
  | .ok (.str s) => pure (some s)
  | .ok _ => throw s!"{k}: not a string"
  | .error e => throw e

def itemViewOfJson (j : Json) : Except String ItemView := do
  pure { id := ← getOptStr j "id", slug := ← getOptStr j "slug", type := ← getOptStr j "type",
         objectId := ← getOptStr j "object_id", mosId := ← getOptStr j "mos_id", note := ← getOptStr j "note" }

def bodyElOfJson (j : Json) : Except String BodyEl :=
  match j.getObjVal? "p" with
  | .ok (.str s) => pure (.text s)
  | _ => do
    let it ← j.getObjVal? "item"
    pure (.item (← itemViewOfJson it))

def strList (j : Json) (k : String) : Except String (List String) := do
  let a ← (j.getObjVal? k).bind (·.getArr?)
  a.toList.mapM (·.getStr?)

def storyViewOfJson (j : Json) : Except String StoryView := do
  let body ← (j.getObjVal? "body").bind (·.getArr?)
  let items ← (j.getObjVal? "items").bind (·.getArr?)
  pure { id := ← getOptStr j "id", slug := ← getOptStr j "slug", duration := ← getOptNat j "duration",
         offset := ← getOptNat j "offset", start := ← getOptNat j "start", stop := ← getOptNat j "stop",
         script := ← strList j "script", body := ← body.toList.mapM bodyElOfJson,
         items := ← items.toList.mapM itemViewOfJson }

def roViewOfJson (j : Json) : Except String RoView := do
  let body ← (j.getObjVal? "body").bind (·.getArr?)
  let stories ← (j.getObjVal? "stories").bind (·.getArr?)
  let completed ← (j.getObjVal? "completed").bind (·.getBool?)
  pure { roSlug := ← getOptStr j "ro_slug", start := ← getOptNat j "start", stop := ← getOptNat j "stop",
         duration := ← getOptNat j "duration", completed := completed, script := ← strList j "script",
         body := ← body.toList.mapM bodyElOfJson, stories := ← stories.toList.mapM storyViewOfJson }

def pyExcName : PyExc → String
  | .AttributeError => "AttributeError" | .KeyError => "KeyError" | .ValueError => "ValueError"
  | .IndexError => "IndexError" | .TypeError => "TypeError" | .NotImplementedError => "NotImplementedError"

/-- {"op":"access","ro":T,"impl":{"view":…}|{"crash":…}} -/
def handleAccess (ro : Xml) (implJ : Option Json) : Except String Json := do
  let modelJ : Json := match roView ro with
    | .ok v => Json.mkObj [("view", roViewJ v)]
    | .error e => Json.mkObj [("crash", .str (pyExcName e))]
  let dom := Json.mkObj [("WfAcc", .bool (WfAcc ro)), ("ids_nodup", .bool (storyIdsNodup ro))]
  let base := [("model", modelJ), ("dom", dom)]
  match implJ with
  | none => pure (Json.mkObj base)
  | some ij =>
    match ij.getObjVal? "view" with
    | .error _ => pure (Json.mkObj base)
    | .ok vj =>
      let v ← roViewOfJson vj
      let holds := Json.mkObj [("C15", .bool (holdsC15 ro v)), ("C16", .bool (holdsC16 ro v)),
        ("C17", .bool (holdsC17 ro v))]
      pure (Json.mkObj (base ++ [("holds", holds)]))

end Mrm
