/-
  Mrm/Py.lean — CPython list primitives used by `mosromgr.utils.xml`, as total functions.

  `Element.insert(i, x)` is `list.insert`: it clamps an index past the end (it never fails),
  so `List.insertIdx` (which leaves the list alone past the end) is *not* the right model.
  `Element.remove(x)` removes the first child that *is* `x`; the callers always hold the index
  at which they found `x`, so it is `eraseIdx` at that index (the no-aliasing condition that
  makes this exact is property C13, modelled in `Model/Heap.lean`).
-/

variable {α : Type}

/-- `list.insert(i, x)` for `i ≥ 0` -/
def pyInsert (l : List α) (i : Nat) (x : α) : List α := l.take i ++ x :: l.drop i

/-- `for k, x in enumerate(xs, start=i): l.insert(k, x)` -/
def insertMany : List α → Nat → List α → List α
  | l, _, [] => l
  | l, i, x :: xs => insertMany (pyInsert l i x) (i+1) xs

/-- the closed form of `insertMany`, used by the model (`insertMany_eq_insertAt` below) -/
def insertAt (l : List α) (i : Nat) (xs : List α) : List α := l.take i ++ xs ++ l.drop i

theorem pyInsert_split (a b : List α) (x : α) : pyInsert (a ++ b) a.length x = a ++ x :: b := by
  simp [pyInsert]

theorem insertMany_split (a b xs : List α) :
    insertMany (a ++ b) a.length xs = a ++ xs ++ b := by
  induction xs generalizing a with
  | nil => simp [insertMany]
  | cons x xs ih =>
    simp only [insertMany, pyInsert_split]
    have := ih (a ++ [x])
    simpa using this

/-- the Python loop and the closed form agree for every index (clamping included) -/
theorem insertMany_eq_insertAt (l : List α) (i : Nat) (xs : List α) :
    insertMany l i xs = insertAt l i xs := by
  unfold insertAt
  by_cases h : i ≤ l.length
  · have := insertMany_split (l.take i) (l.drop i) xs
    simpa [List.length_take, Nat.min_eq_left h] using this
  · have hl : l.length ≤ i := by omega
    -- past the end every insert appends
    have key : ∀ (xs : List α) (l : List α) (i : Nat), l.length ≤ i → insertMany l i xs = l ++ xs := by
      intro xs
      induction xs with
      | nil => intro l i _; simp [insertMany]
      | cons x xs ih =>
        intro l i hi
        simp only [insertMany]
        have hp : pyInsert l i x = l ++ [x] := by
          simp [pyInsert, List.take_of_length_le hi, List.drop_of_length_le hi]
        rw [hp, ih (l ++ [x]) (i+1) (by simp; omega)]
        simp
    rw [key xs l i hl, List.take_of_length_le hl, List.drop_of_length_le hl]
    simp

theorem insertAt_split (a b xs : List α) : insertAt (a ++ b) a.length xs = a ++ xs ++ b := by
  simp [insertAt]

theorem insertAt_length_le (l : List α) (i : Nat) (xs : List α) (h : l.length ≤ i) :
    insertAt l i xs = l ++ xs := by
  simp [insertAt, List.take_of_length_le h, List.drop_of_length_le h]

/-- `parent.remove(old); for k, x in enumerate(xs, start=i): parent.insert(k, x)` in split form -/
theorem replace_split (a b xs : List α) (x : α) :
    insertAt ((a ++ x :: b).eraseIdx a.length) a.length xs = a ++ xs ++ b := by
  have : (a ++ x :: b).eraseIdx a.length = a ++ b := by
    simp [List.eraseIdx_append_of_length_le]
  rw [this, insertAt_split]

/-- split a list at a valid index -/
theorem split_at_index (l : List α) (i : Nat) (h : i < l.length) :
    l = l.take i ++ l[i] :: l.drop (i+1) ∧ (l.take i).length = i := by
  constructor
  · simp
  · simp [List.length_take]; omega

/-- `a, b = xs` -/
def unpack2 (xs : List α) : Option (α × α) :=
  match xs with
  | [a, b] => some (a, b)
  | _ => none
