/-
  C16 / C17 "in every reachable state": the accessor relations composed with C15's reachability.
-/
import Mrm.Props.C15
import Mrm.Props.C16
import Mrm.Props.C17

namespace Mrm

/-- C16 (histories): after any sequence of shaped messages with well-formed payloads — reordering,
    inserting, replacing or deleting stories, strict or not — the accessors return and every
    arithmetic relation of C16 holds again of the state reached -/
theorem C16_reachable (ro : Xml) (rs : List Reader) (ws : List Warn) (strict : Bool) (h : WfAcc ro = true)
    (hr : ∀ r ∈ rs, readerAccOk r = true) :
    ∃ v rc, roView (mergeLoop strict ro rs ws).ro = .ok v ∧ rcOf (mergeLoop strict ro rs ws).ro = some rc ∧
      v.stories.map (·.duration) = durationsOf (rc.findall "story") ∧
      v.duration = (if v.stories.all (fun s => s.duration.isSome)
                    then some ((v.stories.map (fun s => s.duration.getD 0)).sum) else none) ∧
      v.stop = (v.stories.getLast?).bind (·.stop) ∧
      (∀ k (hk : k < v.stories.length), (v.stories[k]).offset = some (prefixSum (durationsOf (rc.findall "story")) k)) := by
  obtain ⟨v, hv⟩ := C15_reachable ro rs ws strict h hr
  obtain ⟨rc, hrc, _, hstop, hdur, hds, hoff, _⟩ := C16_view_consistent _ v hv
  exact ⟨v, rc, hv, hrc, hds, hdur, hstop, hoff⟩

/-- C17 (histories): in every such reachable state the running order's script and body are the
    concatenation of its stories' (each the specification of its paragraphs/items), in running order -/
theorem C17_reachable (ro : Xml) (rs : List Reader) (ws : List Warn) (strict : Bool) (h : WfAcc ro = true)
    (hr : ∀ r ∈ rs, readerAccOk r = true) :
    ∃ v rc, roView (mergeLoop strict ro rs ws).ro = .ok v ∧ rcOf (mergeLoop strict ro rs ws).ro = some rc ∧
      v.script = (rc.findall "story").flatMap scriptSpec ∧ v.body = (rc.findall "story").flatMap bodySpec := by
  obtain ⟨v, hv⟩ := C15_reachable ro rs ws strict h hr
  obtain ⟨rc, hrc, hs, hb, _, _⟩ := C17_ro_concat _ v hv
  exact ⟨v, rc, hv, hrc, hs, hb⟩

end Mrm
