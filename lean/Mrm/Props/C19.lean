/-
  Property C19 — the command line reports and writes exactly what the library computes.
  Proved on the CLI model (control flow, per-file isolation, exit codes, what is written);
  argparse, real stdout/stderr and file writing are checked by differential execution of
  `mosromgr.cli.main` in-process.
-/
import Mrm.Model.Io
import Mrm.Props.C20

namespace Mrm

/-- C19: `detect` prints, for every listed file in order, the line determined by that file alone -/
theorem C19_detect_pointwise (fs : String → FsEntry) (files : List String) (acc : List Out1) :
    detectLoop fs files acc = acc ++ files.map (fun f => detectLine f (fs f)) := by
  induction files generalizing acc with
  | nil => simp [detectLoop]
  | cons f rest ih => simp [detectLoop, ih]

/-- C19: one bad or unreadable file never prevents the others from being processed, and never
    changes their lines: the output for a file list is the concatenation of the per-file outputs,
    and two file systems that agree on a file give it the same line -/
theorem C19_detect_isolation (fs fs' : String → FsEntry) (pre post : List String) (f : String)
    (hpre : ∀ g ∈ pre, fs g = fs' g) (hpost : ∀ g ∈ post, fs g = fs' g) :
    ∃ l l', detectLoop fs (pre ++ f :: post) [] = (pre.map (fun g => detectLine g (fs g))) ++ l :: (post.map (fun g => detectLine g (fs g))) ∧
            detectLoop fs' (pre ++ f :: post) [] = (pre.map (fun g => detectLine g (fs g))) ++ l' :: (post.map (fun g => detectLine g (fs g))) := by
  refine ⟨detectLine f (fs f), detectLine f (fs' f), ?_, ?_⟩
  · simp [C19_detect_pointwise]
  · simp only [C19_detect_pointwise, List.nil_append, List.map_append, List.map_cons]
    congr 1
    · exact List.map_congr_left (fun g hg => by rw [hpre g hg])
    · congr 1
      exact List.map_congr_left (fun g hg => by rw [hpost g hg])

/-- C19: a file is marked invalid (on stderr) exactly when it cannot be read, is not XML, or is
    not a recognisable MOS message -/
theorem C19_detect_invalid_iff (path : String) (e : FsEntry) :
    (∃ s, detectLine path e = .stderr s) ↔
      (match e with | .xml doc => (∃ err, classify doc = .error err) | _ => True) := by
  cases e with
  | missing => simp [detectLine]
  | directory => simp [detectLine]
  | notXml => simp [detectLine]
  | xml doc =>
    simp only [detectLine]
    cases h : classify doc with
    | error err => simp
    | ok k => simp

/-- C19: `inspect` never aborts on a classifiable message whose required tags are present -/
theorem C19_inspect_never_aborts (fs : String → FsEntry) (files : List String) (acc : List Out1)
    (h : ∀ f ∈ files, ∀ doc k, fs f = .xml doc → classify doc = .ok k → shapedInspect k doc = true) :
    (inspectLoop fs files acc).2 = 0 := by
  induction files generalizing acc with
  | nil => rfl
  | cons f rest ih =>
    have hrest := fun g hg => h g (List.mem_cons_of_mem _ hg)
    unfold inspectLoop
    cases hf : fs f with
    | xml doc =>
      simp only
      cases hc : classify doc with
      | error e => simp only; exact ih _ hrest
      | ok k =>
        simp only
        obtain ⟨ls, hls⟩ := C20_inspect_total k doc (h f List.mem_cons_self doc k hf hc)
        simp only [hls]
        exact ih _ hrest
    | notXml => exact ih _ hrest
    | missing => exact ih _ hrest
    | directory => exact ih _ hrest

theorem mergeResult_status (docs : List Xml) (o : Option (String × Bool)) (i n : Bool) :
    (mergeResult docs o i n).status = 0 ∨ (mergeResult docs o i n).status = 2 := by
  unfold mergeResult
  split
  · split
    · right; rfl
    · split
      · left; rfl
      · split
        · left; rfl
        · right; rfl
  · right; rfl

/-- C19: exit status is 0 (success) or 2 (any error) -/
theorem C19_merge_status (fs : String → FsEntry) (files : List String) (o : Option (String × Bool)) (i n : Bool) :
    (cliMerge fs files o i n).status = 0 ∨ (cliMerge fs files o i n).status = 2 := by
  unfold cliMerge
  split
  · right; rfl
  · split
    · right; rfl
    · exact mergeResult_status _ o i n

theorem readAll_some (fs : String → FsEntry) (files : List String) (docs : List Xml)
    (h : readAll fs files = some docs) : files.map fs = docs.map FsEntry.xml := by
  induction files generalizing docs with
  | nil => simp [readAll] at h; subst h; rfl
  | cons f rest ih =>
    unfold readAll at h
    split at h
    · rename_i d ds hf hr
      cases h
      simp [hf, ih ds hr]
    · cases h

/-- C19: on success `merge` writes (to stdout or to the -o file) exactly the serialisation of the
    library's merged collection, built with `allow_incomplete = --incomplete` and merged with
    `strict = not --non-strict`; success means: every file is readable XML, the collection is
    accepted and the merge raises nothing -/
theorem C19_merge_output (fs : String → FsEntry) (files : List String) (o : Option (String × Bool)) (i n : Bool)
    (h : (cliMerge fs files o i n).status = 0) :
    ∃ docs run, files.map fs = docs.map FsEntry.xml ∧
      (collection docs i (!n)).err = none ∧ (collection docs i (!n)).run = some run ∧ run.err = none ∧
      (match o with
       | none => (cliMerge fs files o i n).stdout = some (serialize run.ro) ∧ (cliMerge fs files o i n).written = none
       | some p => p.2 = true ∧ (cliMerge fs files o i n).written = some (serialize run.ro)) := by
  by_cases hne : files.isEmpty = true
  · simp [cliMerge, hne, cliFail] at h
  · cases hr : readAll fs files with
    | none => simp [cliMerge, hne, hr, cliFail] at h
    | some docs =>
      have hcm : cliMerge fs files o i n = mergeResult docs o i n := by simp [cliMerge, hne, hr]
      rw [hcm] at h ⊢
      refine ⟨docs, ?_⟩
      unfold mergeResult at h ⊢
      cases he : (collection docs i (!n)).err with
      | some e => simp [he, cliFail] at h
      | none =>
        cases hrun : (collection docs i (!n)).run with
        | none => simp [he, hrun, cliFail] at h
        | some run =>
          simp only [he, hrun] at h ⊢
          cases hre : run.err with
          | some e => simp [hre, cliFail] at h
          | none =>
            refine ⟨run, readAll_some fs files docs hr, by simp, by simp, hre, ?_⟩
            cases o with
            | none => simp
            | some p =>
              cases hw : p.2 with
              | true => simp [hw]
              | false => simp [hre, hw, cliFail] at h

/-- C19: conversely, any unreadable or non-XML file, a rejected collection, or an exception during
    the merge gives status 2 and writes nothing -/
theorem C19_merge_failure (fs : String → FsEntry) (files : List String) (o : Option (String × Bool)) (i n : Bool)
    (h : (cliMerge fs files o i n).status = 2) : cliMerge fs files o i n = cliFail := by
  by_cases hne : files.isEmpty = true
  · simp [cliMerge, hne]
  · cases hr : readAll fs files with
    | none => simp [cliMerge, hne, hr]
    | some docs =>
      have hcm : cliMerge fs files o i n = mergeResult docs o i n := by simp [cliMerge, hne, hr]
      rw [hcm] at h ⊢
      unfold mergeResult at h ⊢
      cases he : (collection docs i (!n)).err with
      | some e => simp
      | none =>
        cases hrun : (collection docs i (!n)).run with
        | none => simp
        | some run =>
          simp only [he, hrun] at h ⊢
          cases hre : run.err with
          | some e => simp
          | none =>
            simp only [hre] at h
            cases o with
            | none => simp at h
            | some p =>
              cases hw : p.2 with
              | true => simp [hw] at h
              | false => simp [hw]

/-- C19: an outfile that cannot be opened for writing is an error like any other: status 2, nothing
    printed to stdout, nothing written - whatever the inputs -/
theorem C19_merge_unwritable (fs : String → FsEntry) (files : List String) (p : String) (i n : Bool) :
    cliMerge fs files (some (p, false)) i n = cliFail := by
  unfold cliMerge
  split
  · rfl
  · split
    · rfl
    · unfold mergeResult
      split
      · split
        · rfl
        · simp
      · rfl

end Mrm
