/-
  Property C17 — script and body list the story text and items faithfully and in order.
  (Paragraphs containing inline child elements are outside the claim, as the property says.)
-/
import Mrm.Proofs.ScriptP
import Mrm.Spec.AccessHolds

namespace Mrm

/-- C17: a story's body lists every paragraph (as its text, empty string when empty) and every
    item, in document order — for every story with any interleaving of p, item and other elements. -/
theorem C17_body (s : Xml) : storyBody s = bodySpec s := body_eq_spec s

/-- C17: the script is exactly the non-empty paragraphs that are not technical notes (text wrapped
    in round or angle brackets), stripped, in order. -/
theorem C17_script (s : Xml) : storyScript s = scriptSpec s := script_eq_spec s

/-- C17: stripping removes exactly the maximal prefix and suffix of `str.isspace` characters. -/
theorem C17_strip (cs : List Char) :
    ∃ pre suf, cs = pre ++ pyStripL cs ++ suf ∧ pre.all pyIsSpace = true ∧ suf.all pyIsSpace = true ∧
      (∀ c, (pyStripL cs).head? = some c → pyIsSpace c = false) ∧
      (∀ c, (pyStripL cs).getLast? = some c → pyIsSpace c = false) := strip_spec cs

/-- C17: the running order's script and body are the concatenation of its stories', in running
    order — in every state in which the accessors return (every reachable state, by C15). -/
theorem C17_ro_concat (d : Xml) (v : RoView) (h : roView d = .ok v) :
    ∃ rc, rcOf d = some rc ∧
      v.script = (rc.findall "story").flatMap scriptSpec ∧
      v.body = (rc.findall "story").flatMap bodySpec ∧
      v.stories.map (·.script) = (rc.findall "story").map scriptSpec ∧
      v.stories.map (·.body) = (rc.findall "story").map bodySpec := ro_script_concat d v h

/-- C17 (roStorySend bodies): the arriving story's body is what preceded the storyBody, the
    storyBody's children in their order (storyItem as item), then what followed it. -/
theorem C17_send_body (base story : Xml) (h : convertSpec base = some story) :
    ∃ j body, base.kids.findIdx? (fun c => c.tag == "storyBody") = some j ∧ base.kids[j]? = some body ∧
      bodySpec story = kidsBody (base.kids.take j) ++
        kidsBody (body.kids.map (fun c => if c.tag == "storyItem" then c.withTag "item" else c)) ++
        kidsBody (base.kids.drop (j+1)) := send_body base story h

/-- non-vacuity: a story with an empty, a bracketed, a half-bracketed and a padded paragraph -/
example :
    storyScript (.node "story" [] none none
      [.node "p" [] none none [], .node "p" [] (some " (note) ") none [], .node "item" [] none none [],
       .node "p" [] (some "(half") none [], .node "p" [] (some "  text  ") none []]) = ["(half", "text"] := by
  decide

/-- C17 on EVERY running order that has a `roCreate`, whatever its timing metadata says (script and body do not
    read it since the repair): `ro.script` and `ro.body` return, and are the concatenation of the stories'
    specifications in running order.  (With `C12_history_any`: in every state reachable by schema-shaped messages.) -/
theorem C17_text_any (d rc : Xml) (h : d.find "roCreate" = some rc) :
    roScript d = .ok ((rc.findall "story").flatMap scriptSpec) ∧
    roBody d = .ok ((rc.findall "story").flatMap bodySpec) := by
  have hs : storyScript = scriptSpec := funext C17_script
  have hb : storyBody = bodySpec := funext C17_body
  simp only [roScript, roBody, h, hs, hb, and_self]

theorem C17_text_holds (d rc : Xml) (s : List String) (b : List BodyEl) (h : d.find "roCreate" = some rc)
    (hs : roScript d = .ok s) (hb : roBody d = .ok b) : holdsC17text d s b = true := by
  obtain ⟨h1, h2⟩ := C17_text_any d rc h
  rw [h1] at hs; rw [h2] at hb
  cases hs; cases hb
  simp [holdsC17text, storiesOfDoc, rcOf, h]

/-- non-vacuity: a running order whose story duration is not a number and whose start does not parse -/
example :
    roScript (.node "mos" [] none none [.node "roCreate" [] none none
      [.node "roEdStart" [] (some "junk") none [],
       .node "story" [] none none [.node "storyID" [] (some "S") none [],
         .node "mosExternalMetadata" [] none none [.node "mosPayload" [] none none [.node "StoryDuration" [] (some "00:01:30") none []]],
         .node "p" [] (some " text ") none [], .node "p" [] (some "(note)") none []]]]) = .ok ["text"] := by
  rfl

end Mrm
