/-
  Property C17 — script and body list the story text and items faithfully and in order.
  (Paragraphs containing inline child elements are outside the claim, as the property says.)
-/
import Mrm.Proofs.ScriptP

namespace Mrm

/-- C17: a story's body lists every paragraph (as its text, empty string when empty) and every
    item, in document order — for every story with any interleaving of p, item and other elements. -/
theorem C17_body (s : Xml) : storyBody s = bodySpec s := body_eq_spec s

/-- C17: the script is exactly the non-empty paragraphs that are not technical notes (text wrapped
    in round or angle brackets), stripped, in order. -/
theorem C17_script (s : Xml) : storyScript s = scriptSpec s := script_eq_spec s

/-- C17: stripping removes exactly the maximal prefix and suffix of `str.isspace` characters. -/
theorem C17_strip (cs : List Char) :
    ∃ pre suf, cs = pre ++ pyStripL cs ++ suf ∧ pre.all pyIsSpace = true ∧ suf.all pyIsSpace = true ∧
      (∀ c, (pyStripL cs).head? = some c → pyIsSpace c = false) ∧
      (∀ c, (pyStripL cs).getLast? = some c → pyIsSpace c = false) := strip_spec cs

/-- C17: the running order's script and body are the concatenation of its stories', in running
    order — in every state in which the accessors return (every reachable state, by C15). -/
theorem C17_ro_concat (d : Xml) (v : RoView) (h : roView d = .ok v) :
    ∃ rc, rcOf d = some rc ∧
      v.script = (rc.findall "story").flatMap scriptSpec ∧
      v.body = (rc.findall "story").flatMap bodySpec ∧
      v.stories.map (·.script) = (rc.findall "story").map scriptSpec ∧
      v.stories.map (·.body) = (rc.findall "story").map bodySpec := ro_script_concat d v h

/-- C17 (roStorySend bodies): the arriving story's body is what preceded the storyBody, the
    storyBody's children in their order (storyItem as item), then what followed it. -/
theorem C17_send_body (base story : Xml) (h : convertSpec base = some story) :
    ∃ j body, base.kids.findIdx? (fun c => c.tag == "storyBody") = some j ∧ base.kids[j]? = some body ∧
      bodySpec story = kidsBody (base.kids.take j) ++
        kidsBody (body.kids.map (fun c => if c.tag == "storyItem" then c.withTag "item" else c)) ++
        kidsBody (base.kids.drop (j+1)) := send_body base story h

/-- non-vacuity: a story with an empty, a bracketed, a half-bracketed and a padded paragraph -/
example :
    storyScript (.node "story" [] none none
      [.node "p" [] none none [], .node "p" [] (some " (note) ") none [], .node "item" [] none none [],
       .node "p" [] (some "(half") none [], .node "p" [] (some "  text  ") none []]) = ["(half", "text"] := by
  decide

end Mrm
