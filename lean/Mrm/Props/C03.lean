/-
  Property C03 — a merge changes only what the message names.
-/
import Mrm.Proofs.Frame

namespace Mrm

/-- C03: for every well-formed running order and every schema-shaped message of every class, with
    each reference existing, unknown, blank or absent: outside the `roCreate` nothing changes; every
    child of the `roCreate` (story-level) or of the addressed story (item-level) that the message
    does not name by tag and non-blank ID is identical and keeps its relative order; an item-level
    message leaves every other story identical and in place; roMetadataReplace leaves every child
    whose (tag, mosSchema) key it does not carry identical and in order. -/
theorem C03_frame (i : MergeInput) (h : DomC03 i = true) :
    holdsC03 i (addK i.k i.d i.m) = true :=
  frame_any i h

end Mrm
