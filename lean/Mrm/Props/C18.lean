/-
  Property C18 — file, string, bytes and S3 sources are interchangeable; readers are faithful.
  Proved: the paginated listing loop and the reader bookkeeping.  Real file I/O, bytes decoding and
  the boto3 protocol are checked by differential execution through an injected fake client
  (the real `get_mos_files` / `get_file_contents` / `from_s3` bodies run).
-/
import Mrm.Model.Io

namespace Mrm

/-- how S3 answers: either one page without 'Contents' (an empty listing) or only pages with it -/
def NoGap (pages : List Page) : Prop := pages = [none] ∨ ∀ p ∈ pages, p.isSome = true

/-- all keys of all pages, in listing order -/
def allKeys (pages : List Page) : List String := (pages.filterMap id).flatten

theorem listKeys_of_all_some (suffix : String) (pages : List Page) (h : ∀ p ∈ pages, p.isSome = true) :
    listKeys suffix pages = (allKeys pages).filter (fun k => k.endsWith suffix) := by
  induction pages with
  | nil => rfl
  | cons p ps ih =>
    cases p with
    | none => have := h none List.mem_cons_self; simp at this
    | some ks =>
      have ih' := ih (fun q hq => h q (List.mem_cons_of_mem _ hq))
      simp only [listKeys, ih', allKeys, List.filterMap_cons, id_eq, List.flatten_cons, List.filter_append]

/-- C18: the listing returns every key under the prefix that has the suffix, across ALL result
    pages, in listing order, and nothing else -/
theorem C18_listing (suffix : String) (pages : List Page) (h : NoGap pages) :
    listKeys suffix pages = (allKeys pages).filter (fun k => k.endsWith suffix) := by
  rcases h with h | h
  · subst h; rfl
  · exact listKeys_of_all_some suffix pages h

theorem C18_suffix_filter (suffix : String) (pages : List Page) (h : NoGap pages) (k : String) :
    k ∈ listKeys suffix pages ↔ k ∈ allKeys pages ∧ k.endsWith suffix = true := by
  rw [C18_listing suffix pages h]; simp

/-- the hypothesis is forced: an empty page in front of a non-empty one hides the later keys (no S3
    listing looks like this; recorded as the limit of the claim) -/
example : listKeys ".xml" [none, some ["a.xml"]] = [] := rfl

/-- C18: a reader reports the message ID, running-order ID and class of the document it restores,
    and restoring yields that document again (equal content every time) -/
theorem C18_reader_metadata (doc : Xml) (r : Reader) (h : mkReader doc = .ok r) :
    classify doc = .ok r.kind ∧ messageId doc = .ok r.msgId ∧ r.doc = doc ∧
    r.roId = ((doc.find r.kind.baseTag).bind (fun b => Xml.childText (some b) "roID")) := by
  unfold mkReader at h
  cases hc : classify doc with
  | error e => simp [hc] at h
  | ok k =>
    cases hm : messageId doc with
    | error e => simp [hc, hm] at h
    | ok n =>
      cases hb : doc.find k.baseTag with
      | none => simp [hc, hm, hb] at h
      | some base =>
        cases hr : base.find "roID" with
        | none => simp [hc, hm, hb, hr] at h
        | some ro =>
          simp only [hc, hm, hb, hr, Except.ok.injEq] at h
          subst h
          simp [hb, Xml.childText, hr]

end Mrm
