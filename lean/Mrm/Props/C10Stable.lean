/-
  Property C10, ties: messages that share a message ID are applied in the order in which they were
  supplied (Python's `sorted` is stable; so is the model's `mergeSort`).
-/
import Mrm.Props.C10
import Mrm.Proofs.SortStable

namespace Mrm

/-- C10 (ties): sorting keeps the supplied relative order of the readers that carry one message ID -/
theorem C10_stable (l : List Reader) (k : Nat) :
    (sortReaders l).filter (fun r => r.msgId == k) = l.filter (fun r => r.msgId == k) := by
  -- the supplied readers with ID `k` are pairwise `le`, so they survive as a sublist of the sorted list
  have hpw : (l.filter (fun r => r.msgId == k)).Pairwise (fun a b => Reader.le a b = true) := by
    rw [List.pairwise_iff_forall_sublist]
    intro a b hab
    have ha : a ∈ l.filter (fun r => r.msgId == k) := hab.subset (by simp)
    have hb : b ∈ l.filter (fun r => r.msgId == k) := hab.subset (by simp)
    have ha' : a.msgId = k := by simpa using (List.mem_filter.mp ha).2
    have hb' : b.msgId = k := by simpa using (List.mem_filter.mp hb).2
    simp [Reader.le, ha', hb']
  have hsub : (l.filter (fun r => r.msgId == k)).Sublist (sortReaders l) :=
    List.sublist_mergeSort Reader.le_trans Reader.le_total hpw List.filter_sublist
  have hsub' := hsub.filter (fun r => r.msgId == k)
  rw [List.filter_filter] at hsub'
  simp only [Bool.and_self] at hsub'
  have hlen : (l.filter (fun r => r.msgId == k)).length =
      ((sortReaders l).filter (fun r => r.msgId == k)).length :=
    ((C10_sort_perm l).filter _).length_eq.symm
  exact (hsub'.eq_of_length hlen).symm

/-- consequently the sorted list is determined by the multiset of IDs and, per ID, the supplied order:
    two lists with the same readers per ID in the same order sort to the same list -/
theorem C10_stable_determined (l l' : List Reader) (hp : l'.Perm l)
    (h : ∀ k, l'.filter (fun r => r.msgId == k) = l.filter (fun r => r.msgId == k)) :
    sortReaders l' = sortReaders l := by
  -- `hp` follows from `h` and is not needed: the per-ID filters determine the sorted list
  have _ := hp
  apply sorted_eq_of_filters _ _ (C10_sorted l') (C10_sorted l)
  intro k
  rw [C10_stable, C10_stable, h k]

end Mrm
