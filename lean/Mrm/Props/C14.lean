/-
  Property C14 — every reachable running order serialises to XML that reads back identically.
  Proved: the token-level write/read round trip, the character-data and attribute-value escaping
  round trips, and the envelope invariants along every history.  Checked by differential execution
  only: tag/attribute lexing (the character-level grammar) — `serialize` is compared byte for byte
  with `str(ro)` and the re-read tree with ElementTree's at every explored state.
  One open known finding: U+000D in character data (see `C14_cr_counterexample`).
-/
import Mrm.Proofs.SerializeP
import Mrm.Proofs.LexerP
import Mrm.Proofs.RoIdP

namespace Mrm

/-- C14: the element/text/tail structure of ANY tree survives a write/read cycle (tokens) -/
theorem C14_tokens_roundtrip (t : Xml) : parseTokens (tokens t) = some t := tokens_roundtrip t

/-- C14: text and tails survive with all markup-significant characters intact, provided they hold
    no carriage return -/
theorem C14_cdata_roundtrip (cs : List Char) (h : '\r' ∉ cs) : unescapeL (escapeCdataL cs) = cs :=
  cdata_roundtrip cs h

/-- C14: attribute values survive for every string -/
theorem C14_attr_roundtrip (cs : List Char) : unescapeL (escapeAttrL cs) = cs := attr_roundtrip cs

/-- the hypothesis of `C14_cdata_roundtrip` is forced: U+000D in character data is written raw by
    `ElementTree.tostring` and read back as U+000A (reproduces on the real code: open known finding) -/
theorem C14_cr_counterexample : unescapeL (escapeCdataL "a\rb".toList) = "a\nb".toList :=
  cdata_cr_counterexample

/-- C14 (envelope, one step, every input): the root element and every root child that is not a
    `roCreate` are untouched; the only growth is one `mosromgrmeta` appended by a roDelete merged
    into a running order that is not completed -/
theorem C14_root_step (k : Kind) (d m : Xml) :
    (addK k d m).ro.tag = d.tag ∧ (addK k d m).ro.attrs = d.attrs ∧ (addK k d m).ro.text = d.text ∧
    (addK k d m).ro.tail = d.tail ∧
    (∀ (j : Nat) (c : Xml), d.kids[j]? = some c → c.tag ≠ "roCreate" → (addK k d m).ro.kids[j]? = some c) ∧
    (rootTags (addK k d m).ro = rootTags d ∨
      (rootTags (addK k d m).ro = rootTags d ++ ["mosromgrmeta"] ∧ k = .RunningOrderEnd ∧ completed d = false)) :=
  root_step k d m

/-- C14 (envelope, every reachable state): from a roCreate document without a completion record, any
    sequence of messages of any type — roReplace, roMetadataReplace, roStorySend, roDelete included,
    strict or not, whatever fails — keeps exactly the running-order element(s) it had, the original
    message ID, and at most one completion record -/
theorem C14_envelope_reachable (d0 : Xml) (rs : List Reader) (ws : List Warn) (strict : Bool)
    (h0 : (rootTags d0).count "mosromgrmeta" = 0) : EnvInv d0 (mergeLoop strict d0 rs ws).ro :=
  envInv_reachable d0 rs ws strict h0

/-- C14 at character level: every tree with valid element/attribute names and non-empty,
    carriage-return-free character data reads back from its serialisation as exactly itself — text,
    tails, attribute values (any string, CR/LF/TAB included), markup-significant characters intact.
    (`parseXml` is the model's lexer + tree builder, tied to ElementTree's parser by the C14
    correspondence: it reads every explored serialisation exactly as ElementTree does.) -/
theorem C14_parse_serialize (t : Xml) (h : wfSer t = true) : parseXml (serialize t) = some t :=
  parse_serialize t h

/-- C14: serialise ∘ read ∘ serialise = serialise -/
theorem C14_idempotent (t t' : Xml) (h : wfSer t = true) (hp : parseXml (serialize t) = some t') :
    serialize t' = serialize t := serialize_idempotent t t' h hp

/-- C14 (envelope): a message addressed to the running order — the only writers of the roID are
    roReplace and roMetadataReplace, which must then carry that ID — keeps the running-order ID -/
theorem C14_roid_step (i : MergeInput) (h : DomC03 i = true) (hid : hasRoId i.d = true) (hs : sameRo i = true) :
    roIdText (addK i.k i.d i.m).ro = roIdText i.d ∧ hasRoId (addK i.k i.d i.m).ro = true :=
  roid_step i h hid hs

/-- C07 (round trip): a completed running order written out and read back (token level) is the same
    document, hence still completed and still classified as a RunningOrder -/
theorem C07_roundtrip_completed (d : Xml) (hc : completed d = true) :
    ∃ d', parseTokens (tokens d) = some d' ∧ completed d' = true ∧ classify d' = classify d :=
  ⟨d, tokens_roundtrip d, hc, rfl⟩

end Mrm
