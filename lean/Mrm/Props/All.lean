import Mrm.Props.C03
import Mrm.Props.C05
import Mrm.Props.C07
import Mrm.Props.C09
import Mrm.Props.C10
import Mrm.Props.C11
import Mrm.Props.C12
