import Mrm.Props.C05
