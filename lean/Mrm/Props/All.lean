import Mrm.Props.C05
import Mrm.Props.C07
import Mrm.Props.C12
