/-
  Property C10 — the merge result is independent of the order in which inputs are supplied;
  messages are applied in ascending numeric message-ID order.
-/
import Mrm.Model.Collection

namespace Mrm

theorem Reader.le_trans (a b c : Reader) : Reader.le a b = true → Reader.le b c = true → Reader.le a c = true := by
  simp [Reader.le]; omega

theorem Reader.le_total (a b : Reader) : (Reader.le a b || Reader.le b a) = true := by
  simp [Reader.le]; omega

/-- C10: the readers are applied in ascending message-ID order -/
theorem C10_sorted (l : List Reader) : (sortReaders l).Pairwise (fun a b => a.msgId ≤ b.msgId) := by
  have := List.pairwise_mergeSort Reader.le_trans Reader.le_total l
  simpa [sortReaders, Reader.le] using this

/-- sorting neither adds nor loses a reader -/
theorem C10_sort_perm (l : List Reader) : (sortReaders l).Perm l := List.mergeSort_perm l _

theorem inj_of_nodup_ids {l : List Reader} (h : (l.map (·.msgId)).Nodup) {a b : Reader}
    (ha : a ∈ l) (hb : b ∈ l) (e : a.msgId = b.msgId) : a = b := by
  induction l with
  | nil => simp at ha
  | cons x xs ih =>
    simp only [List.map_cons, List.nodup_cons, List.mem_map, not_exists, not_and] at h
    simp only [List.mem_cons] at ha hb
    rcases ha with rfl | ha <;> rcases hb with rfl | hb
    · rfl
    · exact absurd e.symm (h.1 b hb)
    · exact absurd e (h.1 a ha)
    · exact ih h.2 ha hb

/-- C10: for messages with distinct IDs the sorted reader list does not depend on the order in
    which they were supplied — for every permutation of every list. -/
theorem C10_perm_invariant (l l' : List Reader) (hnd : (l.map (·.msgId)).Nodup) (hp : l'.Perm l) :
    sortReaders l' = sortReaders l := by
  have srt : ∀ l : List Reader, (sortReaders l).Pairwise (fun a b => Reader.le a b = true) :=
    fun l => List.pairwise_mergeSort Reader.le_trans Reader.le_total l
  apply List.Perm.eq_of_pairwise (le := fun a b => Reader.le a b = true)
  · intro a b ha hb hab hba
    have ha' : a ∈ l := hp.subset (List.mem_mergeSort.mp ha)
    have hb' : b ∈ l := List.mem_mergeSort.mp hb
    have hid : a.msgId = b.msgId := by simp [Reader.le] at hab hba; omega
    exact inj_of_nodup_ids hnd ha' hb' hid
  · exact srt l'
  · exact srt l
  · exact ((List.mergeSort_perm l' _).trans hp).trans (List.mergeSort_perm l _).symm

theorem mapM'_ok_iff {α β : Type} (f : α → Except Err β) (l : List α) (bs : List β) :
    mapM' f l = .ok bs ↔ l.map f = bs.map .ok := by
  induction l generalizing bs with
  | nil => cases bs <;> simp [mapM']
  | cons a l ih =>
    unfold mapM'
    cases hfa : f a with
    | error e => cases bs <;> simp [hfa]
    | ok b =>
      cases hm : mapM' f l with
      | error e =>
        cases bs with
        | nil => simp
        | cons b' bs' =>
          simp only [List.map_cons, hfa, List.cons.injEq, Except.ok.injEq, reduceCtorEq, false_iff, not_and]
          intro _ h
          have := (ih bs').mpr h
          rw [hm] at this; cases this
      | ok bs0 =>
        have h0 := (ih bs0).mp hm
        cases bs with
        | nil => simp
        | cons b' bs' =>
          simp only [Except.ok.injEq, List.cons.injEq, List.map_cons, hfa]
          constructor
          · rintro ⟨rfl, rfl⟩; exact ⟨rfl, h0⟩
          · rintro ⟨rfl, h⟩
            refine ⟨rfl, ?_⟩
            have : mapM' f l = .ok bs' := (ih bs').mpr h
            rw [hm] at this; cases this; rfl

/-- reading every document succeeds, with these readers -/
def readsAs (docs : List Xml) (rs : List Reader) : Prop := mapM' mkReader docs = .ok rs

theorem readsAs_perm {docs docs' : List Xml} {rs : List Reader} (h : readsAs docs rs) (hp : docs'.Perm docs) :
    ∃ rs', readsAs docs' rs' ∧ rs'.Perm rs := by
  induction hp generalizing rs with
  | nil => exact ⟨rs, h, List.Perm.refl _⟩
  | cons x _ ih =>
    unfold readsAs at h
    rw [mapM'_ok_iff] at h
    cases rs with
    | nil => simp at h
    | cons r rs =>
      simp only [List.map_cons, List.cons.injEq] at h
      obtain ⟨rs', h1, h2⟩ := ih (rs := rs) (by unfold readsAs; rw [mapM'_ok_iff]; exact h.2)
      refine ⟨r :: rs', ?_, h2.cons r⟩
      unfold readsAs at h1 ⊢
      rw [mapM'_ok_iff] at h1 ⊢
      simp [h.1, h1]
  | swap x y l =>
    unfold readsAs at h
    rw [mapM'_ok_iff] at h
    match rs, h with
    | [], h => simp at h
    | [_], h => simp at h
    | r1 :: r2 :: rs, h =>
      simp only [List.map_cons, List.cons.injEq] at h
      refine ⟨r2 :: r1 :: rs, ?_, List.Perm.swap _ _ _⟩
      unfold readsAs
      rw [mapM'_ok_iff]
      simp [h.1, h.2.1, h.2.2]
  | trans _ _ ih1 ih2 =>
    obtain ⟨rs2, h2, p2⟩ := ih2 h
    obtain ⟨rs1, h1, p1⟩ := ih1 h2
    exact ⟨rs1, h1, p1.trans p2⟩

/-- C10: building and merging a collection gives the same result — same acceptance, same reader
    order, same merged running order, same warnings — for every ordering of the supplied
    documents, provided they can all be read and their message IDs are distinct. -/
theorem C10_collection_perm_invariant (docs docs' : List Xml) (rs : List Reader) (allow strict : Bool)
    (h : readsAs docs rs) (hnd : (rs.map (·.msgId)).Nodup) (hp : docs'.Perm docs) :
    (collection docs' allow strict).err = (collection docs allow strict).err ∧
    (collection docs' allow strict).readerIds = (collection docs allow strict).readerIds ∧
    (collection docs' allow strict).run = (collection docs allow strict).run := by
  obtain ⟨rs', h', p'⟩ := readsAs_perm h hp
  unfold readsAs at h h'
  have hs : sortReaders rs' = sortReaders rs := C10_perm_invariant rs rs' hnd p'
  unfold collection
  simp only [h, h', hs]
  cases validate (sortReaders rs) allow with
  | error e => simp
  | ok p => simp

/-- C10 (numeric, not lexical): the message ID of an ASCII digit string is its numeric value -/
theorem C10_numeric_examples :
    digitsVal "9".toList = 9 ∧ digitsVal "10".toList = 10 ∧ digitsVal "100".toList = 100 ∧
    digitsVal "0100".toList = 100 := by decide

theorem digitsVal_append_digit (cs : List Char) (c : Char) :
    digitsVal (cs ++ [c]) = 10 * digitsVal cs + (c.toNat - '0'.toNat) := by
  simp [digitsVal, List.foldl_append]

/-- 9 before 10 before 100, whatever the supply order -/
example :
    let r (n : Nat) : Reader := ⟨n, none, .ReadyToAir, .node "mos" [] none none []⟩
    sortReaders [r 100, r 9, r 10] = [r 9, r 10, r 100] := by
  intro r
  have h := C10_perm_invariant [r 9, r 10, r 100] [r 100, r 9, r 10] (by decide) (by decide)
  rw [h]; exact List.mergeSort_of_pairwise (by decide)

end Mrm
