/-
  Property C05 — a merge that raises leaves the running order exactly as it was.
  Statements only (helper lemmas are in Mrm/Proofs/Atomic.lean).
-/
import Mrm.Proofs.Atomic
import Mrm.Spec.Merge
import Mrm.Spec.C05Any

namespace Mrm

theorem set_rc_self (ro rc : Xml) (i : Nat) (h : ro.kids[i]? = some rc) :
    ro.withKids (ro.kids.set i (rc.withKids rc.kids)) = ro := by
  rw [set_withKids_self ro.kids i rc h, Xml.withKids_self]

/-- C05, one step, for a message of any class and any shape, on any running order: if the merge
    raises `MosMergeError` (or `MosCompletedMergeError`) the tree is the tree it was given. -/
theorem C05_step_kind (k : Kind) (d m : Xml) (e : Err)
    (h : (addK k d m).err = some e) (hm : e.isMergeError = true) : (addK k d m).ro = d := by
  unfold addK at *
  split
  · rfl
  · rename_i hc
    simp only [hc] at h
    unfold merge at *
    split
    · rfl
    · rename_i base hb
      simp only [hb] at h
      cases k <;> dsimp only at h ⊢
      case RunningOrderEnd => simp at h
      case RunningOrderReplace =>
        split
        · rfl
        · rename_i i hi; simp [hi] at h
      all_goals
        split
        · rfl
        · rename_i i hi
          simp only [hi] at h
          split
          · rfl
          · rename_i rc hrc
            simp only [hrc] at h
            have := atomic_mergeRc _ rc base (msgIdExc m) e h hm
            simp only [this]
            exact set_rc_self d rc i hrc

/-- C05 for `ro + MosFile.from_string(msg)` -/
theorem C05_step (d m : Xml) (e : Err)
    (h : (add d m).err = some e) (hm : e.isMergeError = true) : (add d m).ro = d := by
  unfold add at *
  split
  · rfl
  · rename_i k hk
    simp only [hk] at h
    exact C05_step_kind k d m e h hm

/-- the form the correspondence check evaluates: the specification holds of the model's outcome
    for every input (the domain of C05 is everything) -/
theorem C05_holds (i : MergeInput) : holdsC05 i (addK i.k i.d i.m) = true := by
  unfold holdsC05
  split
  · rename_i e he
    by_cases hm : e.isMergeError = true
    · have := C05_step_kind i.k i.d i.m e he hm
      simp [this]
    · simp [hm]
  · rfl

/-- non-vacuity: a message that really fails with `MosMergeError` (unknown source of a move) -/
example :
    let d : Xml := .node "mos" [] none none [.node "roCreate" [] none none
      [.node "story" [] none none [.node "storyID" [] (some "A") none []]]]
    let m : Xml := .node "mos" [] none none [.node "messageID" [] (some "7") none [],
      .node "roStoryMove" [] none none [.node "storyID" [] (some "ZZ") none []]]
    (add d m).err = some .merge ∧ (add d m).ro = d := by decide

end Mrm
