/-
  Mrm/Props/WarnDoc.lean — the model warns in the documented `MosRoMgrWarning` categories only:
  `Warn.other` ("any other category") exists so that the driver can decode what an implementation
  emitted; no merge and no collection merge of the model ever produces it.
-/
import Mrm.Model.Collection
import Mrm.Props.C09
import Mrm.Proofs.WarnDocP

namespace Mrm

/-- every warning of `ro + msg` is of a documented category -/
theorem warns_documented (k : Kind) (ro m : Xml) : ∀ w ∈ (addK k ro m).warns, w ≠ Warn.other :=
  docW_addK k ro m

/-- every warning of a collection merge (strict or not) is of a documented category -/
theorem warns_documented_loop (strict : Bool) (ro : Xml) (rs : List Reader) (ws : List Warn)
    (h : ∀ w ∈ ws, w ≠ Warn.other) :
    ∀ w ∈ (mergeLoop strict ro rs ws).warns, w ≠ Warn.other := by
  induction rs generalizing ro ws with
  | nil => exact h
  | cons r rs ih =>
    have hstep : DocW (ws ++ (addK r.kind ro r.doc).warns) := docW_append h (docW_addK _ _ _)
    rw [mergeLoop_cons]
    split
    · exact ih _ _ hstep
    · split
      · exact ih _ _ (docW_append hstep (docW_single (by decide)))
      · exact hstep

end Mrm
