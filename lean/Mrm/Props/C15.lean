/-
  Property C15 — read accessors never raise and agree with the XML in every reachable state.
-/
import Mrm.Proofs.AccessP

namespace Mrm

/-- C15: on every running order whose stories have a storyID and whose items have an itemID,
    carrying ANY subset of the optional data (numeric durations and parseable times where
    present), every documented read accessor of the running order, its stories and its items
    returns — none raises. -/
theorem C15_total (d : Xml) (h : WfAcc d = true) : ∃ v, roView d = .ok v := wfAcc_total d h

/-- C15: stories and items are listed in document order with the IDs and slugs present in the XML -/
theorem C15_in_order (d : Xml) (v : RoView) (h : roView d = .ok v) :
    ∃ rc, rcOf d = some rc ∧
      v.stories.map (fun s => (s.id, s.slug)) =
        (rc.findall "story").map (fun s => (Xml.childText (some s) "storyID", Xml.childText (some s) "storySlug")) ∧
      v.stories.map (fun s => s.items.map (fun it => (it.id, it.slug))) =
        (rc.findall "story").map (fun s => (s.findall "item").map
          (fun it => (Xml.childText (some it) "itemID", Xml.childText (some it) "itemSlug"))) ∧
      v.roSlug = Xml.childText (some rc) "roSlug" ∧ v.completed = completed d := stories_in_order d v h

/-- C15: every field of every item agrees with the document - ID, slug, type, object ID, MOS ID, and
    the note: the first `studioCommand type="note"` at any depth under the item's payload -/
theorem C15_items_agree (d : Xml) (v : RoView) (h : roView d = .ok v) :
    ∃ rc, rcOf d = some rc ∧
      v.stories.map (fun s => s.items.map (fun it => (it.id, it.slug, it.type, it.objectId, it.mosId, it.note))) =
        (rc.findall "story").map (fun s => (s.findall "item").map (fun it =>
          (Xml.childText (some it) "itemID", Xml.childText (some it) "itemSlug", Xml.childText (some it) "objType",
           Xml.childText (some it) "objID", Xml.childText (some it) "mosID", noteSpec it))) := items_agree d v h

/-- C15: an item without payload, or whose payload holds no note command, has no note -/
theorem C15_note_absent (it : Xml)
    (h : payloadOf it = none ∨ ∀ p, payloadOf it = some p →
      p.descendants.find? (fun c => c.tag == "studioCommand" && c.attr "type" == some "note") = none) :
    noteSpec it = none := by
  unfold noteSpec
  cases hp : payloadOf it with
  | none => rfl
  | some p =>
    rcases h with h | h
    · rw [hp] at h; cases h
    · simp [h p hp]

/-- C15: absent optional data yields None instead of an exception -/
theorem C15_absent_is_none (d : Xml) (v : RoView) (h : roView d = .ok v) :
    ∃ rc, rcOf d = some rc ∧
      (rc.find "roEdStart" = none → v.start = none) ∧
      (∀ k (hk : k < v.stories.length) (hk' : k < (rc.findall "story").length),
        (payloadOf ((rc.findall "story")[k]) = none →
          (v.stories[k]).duration = none ∧ ((v.stories[k]).start = none ∨ v.start.isSome) ∧
          ((v.stories[k]).stop = none))) := absent_is_none d v h

/-- C15: merges that insert, append or replace stories with or without timing metadata preserve
    the domain -/
theorem C15_preserved (i : MergeInput) (h : WfAcc i.d = true) (hs : shaped i.k i.m = true)
    (hp : payloadAccOk i.k i.m = true) : WfAcc (addK i.k i.d i.m).ro = true := wfAcc_preserved i h hs hp

/-- C15 (every reachable state): after any sequence of such messages, merged strictly or not, every
    accessor returns -/
theorem C15_reachable (ro : Xml) (rs : List Reader) (ws : List Warn) (strict : Bool) (h : WfAcc ro = true)
    (hr : ∀ r ∈ rs, readerAccOk r = true) : ∃ v, roView (mergeLoop strict ro rs ws).ro = .ok v :=
  acc_reachable ro rs ws strict h hr

/-- non-vacuity: a running order mixing a story with a duration and one without any metadata -/
example :
    WfAcc (.node "mos" [] none none [.node "roCreate" [] none none
      [.node "roSlug" [] (some "x") none [],
       .node "story" [] none none [.node "storyID" [] (some "A") none [],
         .node "mosExternalMetadata" [] none none [.node "mosPayload" [] none none
           [.node "StoryDuration" [] (some "2.5") none []]]],
       .node "story" [] none none [.node "storyID" [] (some "B") none []]]]) = true := by decide

end Mrm
