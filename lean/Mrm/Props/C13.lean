/-
  Property C13 — merging depends only on content; message objects stay independent.
  Object identity is runtime behaviour that a value model cannot exhibit, so the property is split:
  proved here on the aliasing model (Model/Heap.lean: labelled trees, mutations reach every
  occurrence of a label); observed on the real objects by the sharing monitor of the C13 check
  (id()-disjointness, str(msg) unchanged, re-use == fresh parse after every step of every history).
-/
import Mrm.Proofs.HeapP
import Mrm.Proofs.HeapValueP

namespace Mrm

open LX

/-- C13 (frame): a mutation of an object that is not part of a message cannot change the message -/
theorem C13_frame (l : Nat) (f : List LX → List LX) (t : LX) (h : l ∉ t.labels) : t.upd l f = t :=
  upd_of_not_mem l f t h

/-- C13: a deep copy carries the same content (so merging a re-used object, whose payload is copied
    again, gives the content a freshly parsed copy would give) under entirely fresh identities -/
theorem C13_copy (n : Nat) (t : LX) :
    (t.copy n).1.erase = t.erase ∧
    (∀ l ∈ (t.copy n).1.labels, n ≤ l ∧ l < (t.copy n).2) ∧ (t.copy n).1.labels.Nodup :=
  ⟨erase_copy n t, (copy_fresh n t).1, (copy_fresh n t).2.1⟩

/-- C13 (one merge operation): on a separated world, an operation on an object of the running order
    that inserts payload as a copy keeps the world separated and leaves every message object and
    every other running order exactly as it was -/
theorem C13_step (ro : LX) (rest : List LX) (n : Nat) (op : Op) (hs : World.Sep ⟨ro :: rest, n⟩)
    (hr : op.isRef = false) (hp : op.parent ∈ ro.labels) :
    World.Sep (World.apply ⟨ro :: rest, n⟩ op) ∧
    ∃ ro', (World.apply ⟨ro :: rest, n⟩ op).trees = ro' :: rest := sep_step ro rest n op hs hr hp

/-- C13 (all histories): for every sequence of merge operations in which payloads are inserted as
    copies — any number of merges, later edits inside carried stories, removals, moves, swaps —
    separation is invariant and every message object keeps its identity structure and content -/
theorem C13_history (ro : LX) (rest : List LX) (n : Nat) (ops : List Op) (w' : World)
    (hs : World.Sep ⟨ro :: rest, n⟩) (hrun : World.run ⟨ro :: rest, n⟩ ops = some w') :
    World.Sep w' ∧ ∃ ro', w'.trees = ro' :: rest := sep_history ro rest n ops w' hs hrun

/-- C13: two running orders never come to share mutable content through a message -/
theorem C13_two_ros (w : World) (hs : w.Sep) (i j : Nat) (hij : i ≠ j) (ti tj : LX)
    (hi : w.trees[i]? = some ti) (hj : w.trees[j]? = some tj) : ∀ l ∈ ti.labels, l ∉ tj.labels :=
  sep_disjoint w hs i j hij ti tj hi hj

/-- C13 ⇒ value semantics: in a tree without repeated labels, mutating object `l` is, on the content,
    exactly the plain-value edit at the path of `l` — what licenses modelling `parent.remove(node)`,
    `insert`, move and swap on values in Model/Merge.lean -/
theorem C13_erase_upd (l : Nat) (f : List LX → List LX) (g : List Xml → List Xml) (hn : Natural f g) (t : LX)
    (hnd : t.labels.Nodup) (p : List Nat) (hp : pathOf l t = some p) :
    (t.upd l f).erase = updV g p t.erase := erase_upd l f g hn t hnd p hp

/-- on a separated world a removal through the running order changes the running order's content as
    the value-level `eraseIdx` at the addressed node does, and no other tree's content at all -/
theorem C13_value_model_sound (ro : LX) (rest : List LX) (n : Nat) (p i : Nat) (path : List Nat)
    (hs : World.Sep ⟨ro :: rest, n⟩) (hp : pathOf p ro = some path) :
    ((World.apply ⟨ro :: rest, n⟩ (.removeAt p i)).trees.map LX.erase) =
      updV (fun ks => ks.eraseIdx i) path ro.erase :: rest.map LX.erase :=
  value_model_sound ro rest n p i path hs hp

/-- the hypothesis "inserted as copies" is necessary: by-reference insertion (the pinned code's
    behaviour, repaired by a fix: commit) lets a later edit of the running order change the message -/
theorem C13_ref_counterexample :
    let item : LX := .node 3 "item" [] none none []
    let story : LX := .node 2 "story" [] none none [item]
    let msg : LX := .node 1 "roStoryAppend" [] none none [story]
    let ro : LX := .node 0 "roCreate" [] none none []
    let w : World := ⟨[ro, msg], 4⟩
    let w1 := w.apply (.insertRef 0 0 story)
    let w2 := w1.apply (.removeAt 2 0)
    (w2.trees[1]?.map LX.erase) ≠ (w.trees[1]?.map LX.erase) := ref_counterexample

end Mrm
