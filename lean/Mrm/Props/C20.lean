/-
  Property C20 — message objects expose exactly the targets and sources the message names.
-/
import Mrm.Proofs.ElementsP

namespace Mrm

/-- C20: for every schema-shaped message of every class — 1..n sources, blank or present targets —
    the accessors return without raising and expose exactly the IDs named in the message, in message
    order, one element per ID; a blank target is reported as absent (None), never as another ID. -/
theorem C20_exposed (k : Kind) (m base : Xml) (hs : shaped k m = true) (hb : m.find k.baseTag = some base) :
    ∃ ex, exposed k base = .ok ex ∧ holdsC20 k base ex = true := exposed_spec k m base hs hb

/-- C20: `inspect()` prints without raising on every shaped message (compact or pretty-printed:
    whitespace text is not an element child and plays no part) -/
theorem C20_inspect_total (k : Kind) (m : Xml) (hs : shapedInspect k m = true) :
    ∃ ls, inspectLines k m = .ok ls := inspect_total k m hs

/-- C20: `inspect()` mentions every source / carried ID the message names -/
theorem C20_inspect_mentions (k : Kind) (m base : Xml) (ls : List Line) (hb : m.find k.baseTag = some base)
    (hk : k ≠ .StorySend) (h : inspectLines k m = .ok ls) :
    ∀ x ∈ mentionIds k base, ∃ l ∈ ls, l.2 = pyStr x := inspect_mentions k m base ls hb hk h

end Mrm
