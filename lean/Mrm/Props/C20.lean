/-
  Property C20 — message objects expose exactly the targets and sources the message names.
-/
import Mrm.Proofs.ElementsP

namespace Mrm

/-- C20: for every schema-shaped message of every class — 1..n sources, blank or present targets —
    the accessors return without raising and expose exactly the IDs named in the message, in message
    order, one element per ID; a blank target is reported as absent (None), never as another ID. -/
theorem C20_exposed (k : Kind) (m base : Xml) (hs : shaped k m = true) (hb : m.find k.baseTag = some base) :
    ∃ ex, exposed k base = .ok ex ∧ holdsC20 k base ex = true := exposed_spec k m base hs hb

/-- C20: `inspect()` prints without raising on every shaped message (compact or pretty-printed:
    whitespace text is not an element child and plays no part) -/
theorem C20_inspect_total (k : Kind) (m : Xml) (hs : shapedInspect k m = true) :
    ∃ ls, inspectLines k m = .ok ls := inspect_total k m hs

/-- C20: `inspect()` mentions every source / carried ID the message names -/
theorem C20_inspect_mentions (k : Kind) (m base : Xml) (ls : List Line) (hb : m.find k.baseTag = some base)
    (hk : k ≠ .StorySend) (h : inspectLines k m = .ok ls) :
    ∀ x ∈ mentionIds k base, ∃ l ∈ ls, l.2 = pyStr x := inspect_mentions k m base ls hb hk h

/-- non-vacuity for running-order documents: `inspect()` never looks at the timing metadata, so a
    story duration that is not a number and an unparseable `roEdStart` are inside the domain -/
def exC20ro : Xml := .node "mos" [] none none [.node "roCreate" [] none none
  [.node "roID" [] (some "RO1") none [], .node "roSlug" [] (some "slug") none [],
   .node "roEdStart" [] (some "junk") none [],
   .node "story" [] none none [.node "storyID" [] (some "S1") none [],
     .node "mosExternalMetadata" [] none none [.node "mosPayload" [] none none
       [.node "StoryDuration" [] (some "00:01:30") none []]]]]]

example : shapedInspect .RunningOrder exC20ro = true ∧
    inspectLines .RunningOrder exC20ro = .ok [("RO: ", "slug"), ("STORY: ", "S1")] ∧
    mentionIds .RunningOrder (.node "roCreate" [] none none
      [.node "story" [] none none [.node "storyID" [] (some "S1") none []]]) = [some "S1"] := ⟨by decide, by rfl, by decide⟩

end Mrm
