/-
  Property C03 along histories: what NO message of a history names is still there at the end,
  identical and in the same relative order.
-/
import Mrm.Props.C03
import Mrm.Model.Collection
import Mrm.Props.Examples

namespace Mrm

/-- does the story-level message `r` name the roCreate child `c`? (by tag and non-blank ID among the
    IDs it may touch, or by being deep-equal to a story it carries) -/
def namesChild (r : Reader) (c : Xml) : Bool :=
  match r.doc.find r.kind.baseTag with
  | none => false
  | some base =>
    let nm := namedOf r.kind base
    isTouched "story" (touchedIds r.kind "story" nm) nm.carried c

/-- every message of the history is a story-level message in the domain of C03 at the state it is
    applied to -/
def DomFrameRun (ro : Xml) : List Reader → Prop
  | [] => True
  | r :: rs => DomC03 ⟨ro, r.doc, r.kind⟩ = true ∧ r.kind.isStoryLevel = true ∧
      DomFrameRun (addK r.kind ro r.doc).ro rs

def rcKids (d : Xml) : List Xml := match rcOf d with | some rc => rc.kids | none => []

theorem filter_of_imp {α : Type} (p q : α → Bool) (l : List α) (h : ∀ a, p a = true → q a = true) :
    l.filter p = (l.filter q).filter p := by
  rw [List.filter_filter]
  apply List.filter_congr
  intro a _
  cases hp : p a
  · rfl
  · simp [h a hp]

theorem editsRc_of_storyLevel {k : Kind} (h : k.isStoryLevel = true) : k.editsRc = true := by
  cases k <;> first | rfl | (simp [Kind.isStoryLevel] at h)

/-- one step, restated for an arbitrary predicate that avoids everything the message names -/
theorem C03_step_filter (i : MergeInput) (h : DomC03 i = true) (hs : i.k.isStoryLevel = true)
    (p : Xml → Bool)
    (hp : ∀ c, p c = true → namesChild ⟨0, none, i.k, i.m⟩ c = false) :
    (rcKids (addK i.k i.d i.m).ro).filter p = (rcKids i.d).filter p := by
  obtain ⟨d, m, k⟩ := i
  simp only at hs hp ⊢
  simp only [DomC03, Bool.and_eq_true] at h
  obtain ⟨hwf, hsh⟩ := h
  obtain ⟨rc, hrc⟩ := wf_of_WfRO hwf
  obtain ⟨_, base, hb, _, hsend⟩ := shaped_facts hsh
  by_cases hc : completed d = true
  · have hadd : addK k d m = ⟨d, [], some .completed⟩ := by simp [addK, hc]
    rw [hadd]
  · have hc' : completed d = false := by simpa using hc
    rw [addK_editsRc k d m rc base (editsRc_of_storyLevel hs) hc' hrc hb]
    have hq : ∀ c, p c = true → storyQ k base c = true := by
      intro c hpc
      have := hp c hpc
      simp only [namesChild, hb] at this
      simp only [storyQ, this, Bool.not_false]
    have hfr := storyLevel_filter k rc base (msgIdExc m) hs
      (fun hks story hst => by
        obtain ⟨body, hbody, hn⟩ := hsend hks
        exact convertStorySend_id hbody hn hst)
    simp only [rcKids, rcOf_setRcKids d rc _ hrc, hrc, Xml.withKids_kids]
    rw [filter_of_imp p (storyQ k base) _ hq, hfr, ← filter_of_imp p (storyQ k base) _ hq]

/-- the history theorem for an arbitrary predicate that avoids everything any message names -/
theorem C03_history_gen (strict : Bool) (ro : Xml) (rs : List Reader) (ws : List Warn)
    (p : Xml → Bool) (hp : ∀ c, p c = true → ∀ r ∈ rs, namesChild r c = false)
    (h : DomFrameRun ro rs) :
    (rcKids (mergeLoop strict ro rs ws).ro).filter p = (rcKids ro).filter p := by
  induction rs generalizing ro ws with
  | nil => simp [mergeLoop]
  | cons r rs ih =>
    obtain ⟨hd, hs, hrest⟩ := h
    have hstep := C03_step_filter ⟨ro, r.doc, r.kind⟩ hd hs p
      (fun c hc => hp c hc r List.mem_cons_self)
    simp only at hstep
    have hp' : ∀ c, p c = true → ∀ r' ∈ rs, namesChild r' c = false :=
      fun c hc r' hr' => hp c hc r' (List.mem_cons_of_mem _ hr')
    unfold mergeLoop
    simp only
    split
    · rw [ih _ _ hp' hrest, hstep]
    · split
      · rw [ih _ _ hp' hrest, hstep]
      · exact hstep

/-- C03 along histories: the children of the roCreate that no message of the history names are, after
    the whole history (strict or not, whatever failed or warned on the way), identical and in the
    same relative order as at the start -/
theorem C03_history (strict : Bool) (ro : Xml) (rs : List Reader) (ws : List Warn)
    (h : DomFrameRun ro rs) :
    (rcKids (mergeLoop strict ro rs ws).ro).filter (fun c => rs.all (fun r => !namesChild r c)) =
    (rcKids ro).filter (fun c => rs.all (fun r => !namesChild r c)) := by
  apply C03_history_gen strict ro rs ws _ _ h
  intro c hc r hr
  simp only [List.all_eq_true, Bool.not_eq_true'] at hc
  exact hc r hr

/-- non-vacuity: the two-step history "move A and B before D, then swap D with A" is inside the domain -/
example : DomFrameRun exRo [⟨5, some "RO1", .EAStoryMove, exMove⟩, ⟨6, some "RO1", .EAStorySwap, exSwap⟩] :=
  ⟨by decide, by decide, by decide, by decide, trivial⟩

/-- … and what it leaves alone is not nothing: story C and the four non-story children are named by
    neither message -/
example :
    ((rcKids exRo).filter (fun c =>
      [(⟨5, some "RO1", .EAStoryMove, exMove⟩ : Reader), ⟨6, some "RO1", .EAStorySwap, exSwap⟩].all
        (fun r => !namesChild r c))).map (fun c => (c.tag, keyOf "story" c)) =
      [("roID", none), ("roChannel", none), ("story", some "C"), ("roTrigger", none), ("roEdDur", none)] := by
  decide

/-- corollary (C03/C04 along histories): a child of the roCreate - for instance a story that an earlier
    message carried in - that no later message names is still there, with identical content, after the
    whole history -/
theorem C04_persists (strict : Bool) (ro : Xml) (rs : List Reader) (ws : List Warn)
    (h : DomFrameRun ro rs) (c : Xml) (hc : c ∈ rcKids ro) (hn : ∀ r ∈ rs, namesChild r c = false) :
    c ∈ rcKids (mergeLoop strict ro rs ws).ro := by
  have hp : (fun c => rs.all (fun r => !namesChild r c)) c = true := by
    simp only [List.all_eq_true, Bool.not_eq_true']
    exact hn
  have hmem : c ∈ (rcKids ro).filter (fun c => rs.all (fun r => !namesChild r c)) :=
    List.mem_filter.mpr ⟨hc, hp⟩
  rw [← C03_history strict ro rs ws h] at hmem
  exact (List.mem_filter.mp hmem).1

end Mrm
