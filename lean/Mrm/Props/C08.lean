/-
  Property C08 — classification is total, and decided only by the message element.
  (Proved on the model; that malformed XML raises MosInvalidXML, that the outcome does not depend on
  the interpreter's warning filter, and that file / str / bytes sources agree are checked by
  differential execution — the XML parser and the `warnings` machinery are outside the model.)
-/
import Mrm.Proofs.ClassifyP

namespace Mrm

/-- C08: the model of `MosFile._classify` equals the specification, which reads nothing but the
    message elements among the root's children and decides by fixed table order -/
theorem C08_spec (d : Xml) : classify d = specClassify d := classify_eq_spec d

/-- C08: the outcome does not depend on other content, sibling order relative to non-message
    elements, whitespace, root tag or attributes -/
theorem C08_congr (d d' : Xml) (h : msgElems d = msgElems d') : classify d = classify d' :=
  classify_congr d d' h

/-- C08: a document with one message element gets the class determined solely by that element -/
theorem C08_single (d e : Xml) (h : msgElems d = [e]) : classify d = kindOfElem e := classify_single d e h

/-- C08: for roElementAction: by the operation and by whether target and source carry item IDs —
    the written-out 10-row table; anything else is UnknownMosFileType -/
theorem C08_ea_table (ea : Xml) : classifyEA ea = specClassifyEA ea := classifyEA_eq_spec ea

theorem C08_ea_shape_only (e e' : Xml) (ht : e.tag = "roElementAction") (ht' : e'.tag = "roElementAction")
    (hs : eaShape e = eaShape e') : kindOfElem e = kindOfElem e' := kindOfElem_ea_shape e e' ht ht' hs

/-- C08: for the 15 other message elements the class depends on the tag only (an empty or text-only
    message element classifies like a full one) -/
theorem C08_payload_irrelevant (e e' : Xml) (ht : e.tag = e'.tag) (hne : e.tag ≠ "roElementAction") :
    kindOfElem e = kindOfElem e' := kindOfElem_tag_only e e' ht hne

/-- C08: no recognised message element ⇒ UnknownMosFileType -/
theorem C08_unknown (d : Xml) (h : msgElems d = []) : classify d = .error .unknownType := classify_none d h

/-- C08/C12: classification is total — a class or UnknownMosFileType, never KeyError/AttributeError -/
theorem C08_total (d : Xml) : (∃ k, classify d = .ok k) ∨ classify d = .error .unknownType :=
  classify_total d

/-- non-vacuity: a roElementAction MOVE whose target has an itemID but whose source has none is not
    in the table -/
example : specEA "MOVE" true false = none ∧ specEA "MOVE" true true = some .EAItemMove := by decide

end Mrm
