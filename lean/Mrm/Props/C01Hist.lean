/-
  Property C01, "and the same from every state reached by a prior merge history": the one-step
  theorem composed along the collection's merge loop.
-/
import Mrm.Props.C01
import Mrm.Model.Collection

namespace Mrm

/-- every message of the history is a story-level message in the domain of C01 *at the state it is
    applied to* (the state the model reaches, which by `C01_order` is the protocol's) -/
def DomOrderRun (ro : Xml) : List Reader → Prop
  | [] => True
  | r :: rs => DomOrder ⟨ro, r.doc, r.kind⟩ = true ∧ r.kind.isStoryLevel = true ∧
      DomOrderRun (addK r.kind ro r.doc).ro rs

/-- the protocol run on the story-ID sequence alone -/
def specRun (ids : List Key) : List Reader → List Key
  | [] => ids
  | r :: rs =>
    match r.doc.find r.kind.baseTag with
    | some base => specRun (specIds r.kind "story" (namedOf r.kind base) ids) rs
    | none => specRun ids rs

theorem holdsOrder_story_unpack (i : MergeInput) (o : Res) (hs : i.k.isStoryLevel = true)
    (h : holdsOrder i o = true) :
    o.err = none ∧ ∃ base, i.m.find i.k.baseTag = some base ∧
      storyIds o.ro = specIds i.k "story" (namedOf i.k base) (storyIds i.d) := by
  unfold holdsOrder at h
  cases hb : i.m.find i.k.baseTag with
  | none => simp [hb] at h
  | some base =>
    simp only [hb] at h
    unfold containerIds at h
    cases hr : rcOf i.d with
    | none => simp [hr] at h
    | some rc =>
      cases hr' : rcOf o.ro with
      | none => simp [hr, hr', hs] at h
      | some rc' =>
        simp [hr, hr', hs, levelTag] at h
        refine ⟨h.1, base, rfl, ?_⟩
        simp [storyIds, hr, hr', h.2]

/-- C01 along histories: after any sequence of story-level messages, each resolving at the state it
    meets, merged strictly or not, nothing was raised and the story-ID sequence is the protocol's
    run from the initial sequence -/
theorem C01_history (strict : Bool) (ro : Xml) (rs : List Reader) (ws : List Warn)
    (h : DomOrderRun ro rs) :
    (mergeLoop strict ro rs ws).err = none ∧
    storyIds (mergeLoop strict ro rs ws).ro = specRun (storyIds ro) rs := by
  induction rs generalizing ro ws with
  | nil => simp [mergeLoop, specRun]
  | cons r rs ih =>
    obtain ⟨hd, hs, hrest⟩ := h
    have hstep := C01_order ⟨ro, r.doc, r.kind⟩ hd hs
    obtain ⟨herr, base, hbase, hids⟩ := holdsOrder_story_unpack ⟨ro, r.doc, r.kind⟩ _ hs hstep
    simp only at herr hbase hids
    unfold mergeLoop
    simp only [herr]
    have := ih (addK r.kind ro r.doc).ro (ws ++ (addK r.kind ro r.doc).warns) hrest
    refine ⟨this.1, ?_⟩
    rw [this.2]
    simp only [specRun, hbase, hids]

end Mrm
