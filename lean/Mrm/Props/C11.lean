/-
  Property C11 — a collection is accepted exactly when it describes one running order.
  (That `python -O` cannot weaken the checks is interpreter behaviour: checked by differential
  execution in a `-O` subprocess; the repaired code has no `assert` left to strip.)
-/
import Mrm.Model.Collection
import Mrm.Spec.Collection

namespace Mrm

def countKind (k : Kind) (rs : List Reader) : Nat := (rs.filter (fun r => r.kind == k)).length

/-- the specification: one running-order ID, exactly one roCreate, at most one roDelete, and exactly
    one unless incompleteness is allowed -/
def describesOne (rs : List Reader) (allow : Bool) : Prop :=
  rs ≠ [] ∧ (∀ a ∈ rs, ∀ b ∈ rs, a.roId = b.roId) ∧ countKind .RunningOrder rs = 1 ∧
  countKind .RunningOrderEnd rs ≤ 1 ∧ (allow = false → countKind .RunningOrderEnd rs = 1)

theorem all_same_iff (r0 : Reader) (rs : List Reader) (h0 : r0 ∈ rs) :
    (rs.all (fun r => r.roId == r0.roId)) = true ↔ ∀ a ∈ rs, ∀ b ∈ rs, a.roId = b.roId := by
  simp only [List.all_eq_true, beq_iff_eq]
  constructor
  · intro h a ha b hb; rw [h a ha, h b hb]
  · intro h r hr; exact h r hr r0 h0

/-- C11: acceptance ⇔ the collection describes one running order — for every list of readers,
    including the empty one, and both settings of `allow_incomplete`. -/
theorem C11_iff (rs : List Reader) (allow : Bool) :
    (∃ p, validate rs allow = .ok p) ↔ describesOne rs allow := by
  unfold describesOne
  cases rs with
  | nil => simp [validate]
  | cons r0 rest =>
    have hall := all_same_iff r0 (r0 :: rest) List.mem_cons_self
    unfold validate
    by_cases h1 : ((r0 :: rest).all (fun r => r.roId == r0.roId)) = true
    · simp only [h1, Bool.not_true, Bool.false_eq_true, if_false]
      have h1' := hall.mp h1
      cases hc : (r0 :: rest).filter (fun r => r.kind == Kind.RunningOrder) with
      | nil => simp [countKind, hc]
      | cons c cs =>
        cases cs with
        | cons c2 cs2 => simp [countKind, hc]
        | nil =>
          simp only
          by_cases h2 : ((r0 :: rest).filter (fun r => r.kind == Kind.RunningOrderEnd)).length < 2
          · simp only [h2, decide_true, Bool.not_true, Bool.false_eq_true, if_false]
            by_cases h3 : (!allow && ((r0 :: rest).filter (fun r => r.kind == Kind.RunningOrderEnd)).length != 1) = true
            · simp only [h3, if_true]
              simp only [Bool.and_eq_true, Bool.not_eq_true', bne_iff_ne, ne_eq] at h3
              simp only [reduceCtorEq, exists_false, false_iff, not_and]
              intro _ _ _ _ h5
              exact h3.2 (h5 h3.1)
            · simp only [h3, Bool.false_eq_true, if_false, Except.ok.injEq, exists_eq', true_iff]
              refine ⟨by simp, h1', by simp [countKind, hc], by simp only [countKind]; omega, ?_⟩
              intro ha
              simp only [ha, Bool.not_false, Bool.true_and, bne_iff_ne, ne_eq, Decidable.not_not] at h3
              simpa [countKind] using h3
          · simp only [h2, decide_false, Bool.not_false, if_true]
            simp only [reduceCtorEq, exists_false, false_iff, not_and]
            intro _ _ _ h5
            simp only [countKind] at h5
            omega
    · simp only [h1, Bool.not_false, if_true]
      simp only [reduceCtorEq, exists_false, false_iff, not_and]
      intro _ h
      exact absurd (hall.mpr h) h1

/-- C11: every rejection is `InvalidMosCollection` — never IndexError or anything else. -/
theorem C11_rejects_with_InvalidMosCollection (rs : List Reader) (allow : Bool) (e : Err)
    (h : validate rs allow = .error e) : e = .invalidCollection := by
  unfold validate at h
  split at h
  · cases h; rfl
  · split at h
    · cases h; rfl
    · dsimp only at h
      split at h
      · split at h
        · cases h; rfl
        · split at h
          · cases h; rfl
          · cases h
      · cases h; rfl

/-- C11: after acceptance the collection's running order is the (unique) roCreate, freshly
    restored, and the remaining readers are all the others, in the same order. -/
theorem C11_accepts_result (rs : List Reader) (allow : Bool) (ro : Xml) (rest : List Reader)
    (h : validate rs allow = .ok (ro, rest)) :
    (∃ c, rs.filter (fun r => r.kind == .RunningOrder) = [c] ∧ ro = c.doc) ∧
    rest = rs.filter (fun r => r.kind != .RunningOrder) := by
  unfold validate at h
  split at h
  · cases h
  · split at h
    · cases h
    · dsimp only at h
      split at h
      · rename_i c hc
        split at h
        · cases h
        · split at h
          · cases h
          · cases h
            exact ⟨⟨c, hc, rfl⟩, rfl⟩
      · cases h

/-- the empty list is rejected (with InvalidMosCollection, by the theorem above) -/
example (allow : Bool) : validate [] allow = .error .invalidCollection := rfl

/-- non-vacuity: a roCreate followed by a roDelete is accepted -/
example :
    let d : Xml := .node "mos" [] none none []
    ∃ p, validate [⟨1, some "R", .RunningOrder, d⟩, ⟨2, some "R", .RunningOrderEnd, d⟩] false = .ok p :=
  ⟨_, rfl⟩

end Mrm

namespace Mrm
/-- the Boolean form evaluated by the driver is the specification -/
theorem describesOneB_iff (rs : List Reader) (allow : Bool) :
    describesOneB rs allow = true ↔ describesOne rs allow := by
  unfold describesOneB describesOne countKind
  simp only [Bool.and_eq_true, Bool.not_eq_true', List.isEmpty_eq_false_iff, List.all_eq_true, beq_iff_eq,
    decide_eq_true_eq, Bool.or_eq_true, ne_eq]
  constructor
  · rintro ⟨⟨⟨⟨h1, h2⟩, h3⟩, h4⟩, h5⟩
    refine ⟨h1, h2, h3, h4, ?_⟩
    intro ha; rcases h5 with h | h
    · rw [ha] at h; cases h
    · exact h
  · rintro ⟨h1, h2, h3, h4, h5⟩
    refine ⟨⟨⟨⟨h1, h2⟩, h3⟩, h4⟩, ?_⟩
    cases allow with
    | true => left; rfl
    | false => right; exact h5 rfl
end Mrm
