/-
  Property C04 — stories, items and metadata carried by a message arrive intact.
-/
import Mrm.Proofs.Payload

namespace Mrm

/-- C04: when the merge succeeds, every carried story/item that is not skipped as a duplicate is in
    the edited container as one contiguous block, in message order, deep-equal to what was sent; a
    roStorySend arrives as `pre ++ body children (storyItem→item) ++ post`; after roReplace the
    `roCreate` is the sent element retagged; every carried metadata element (distinct keys) is present. -/
theorem C04_payload (i : MergeInput) (h : DomC04 i = true) :
    holdsC04 i (addK i.k i.d i.m) = true :=
  payload_any i h

end Mrm
