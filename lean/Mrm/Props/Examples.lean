/-
  Non-vacuity: concrete, non-trivial inputs inside the domains of the merge theorems, evaluated by
  the kernel (`decide`).  A 4-story running order with metadata before, between and after the stories.
-/
import Mrm.Props.C01
import Mrm.Props.C02
import Mrm.Props.C03
import Mrm.Props.C06
import Mrm.Props.C01Hist

namespace Mrm

def exLeaf (t s : String) : Xml := .node t [] (some s) none []
def exItem (i : String) : Xml := .node "item" [] none none [exLeaf "itemID" i]
def exStory (s : String) (items : List String) : Xml :=
  .node "story" [] none none (exLeaf "storyID" s :: .node "p" [] (some "text") none [] :: items.map exItem)

/-- roID, A, roChannel, B, C, roTrigger, D, roEdDur -/
def exRo : Xml := .node "mos" [] none none [exLeaf "messageID" "1",
  .node "roCreate" [] none none
    [exLeaf "roID" "R", exStory "A" ["I1", "I2", "I3"], exLeaf "roChannel" "x", exStory "B" ["I1"], exStory "C" [],
     exLeaf "roTrigger" "t", exStory "D" ["I1", "I2"], exLeaf "roEdDur" "1"]]

def exMsg (base : Xml) : Xml := .node "mos" [] none none [exLeaf "messageID" "7", base]

/-- a forward multi-source move: A and B before D -/
def exMove : Xml := exMsg (.node "roElementAction" [("operation", "MOVE")] none none
  [.node "element_target" [] none none [exLeaf "storyID" "D"],
   .node "element_source" [] none none [exLeaf "storyID" "A", exLeaf "storyID" "B"]])

example : DomOrder ⟨exRo, exMove, .EAStoryMove⟩ = true := by decide
example : storyIds (addK .EAStoryMove exRo exMove).ro = [some "C", some "A", some "B", some "D"] := by decide

/-- a reversed swap: D with A -/
def exSwap : Xml := exMsg (.node "roElementAction" [("operation", "SWAP")] none none
  [.node "element_source" [] none none [exLeaf "storyID" "D", exLeaf "storyID" "A"]])

example : DomOrder ⟨exRo, exSwap, .EAStorySwap⟩ = true := by decide
example : storyIds (addK .EAStorySwap exRo exSwap).ro = [some "D", some "B", some "C", some "A"] := by decide

/-- a forward item move inside story A (same item IDs exist in B and D): I1 before I3 -/
def exItemMove : Xml := exMsg (.node "roItemMoveMultiple" [] none none
  [exLeaf "storyID" "A", exLeaf "itemID" "I1", exLeaf "itemID" "I3"])

example : DomOrder ⟨exRo, exItemMove, .ItemMoveMultiple⟩ = true := by decide
example : DomC03 ⟨exRo, exItemMove, .ItemMoveMultiple⟩ = true := by decide

/-- a delete naming one present and one unknown story: inside the domain of C06 -/
def exDelete : Xml := exMsg (.node "roStoryDelete" [] none none [exLeaf "storyID" "B", exLeaf "storyID" "ZZ"])

example : DomC06 ⟨exRo, exDelete, .StoryDelete⟩ = true := by decide
example : (addK .StoryDelete exRo exDelete).warns = [.storyNotFound] ∧
    storyIds (addK .StoryDelete exRo exDelete).ro = [some "A", some "C", some "D"] := by decide

/-- a blank reference names nothing: roStoryReplace with an empty storyID fails and changes nothing -/
def exBlank : Xml := exMsg (.node "roStoryReplace" [] none none
  [.node "storyID" [] none none [], exStory "X" []])

example : DomC03 ⟨exRo, exBlank, .StoryReplace⟩ = true := by decide
example : (addK .StoryReplace exRo exBlank).err = some .merge ∧ (addK .StoryReplace exRo exBlank).ro = exRo := by decide

/-- a two-step history: the move, then a swap of D with A at the state the move produced -/
example : DomOrderRun exRo [⟨5, some "RO1", .EAStoryMove, exMove⟩, ⟨6, some "RO1", .EAStorySwap, exSwap⟩] :=
  ⟨by decide, by decide, by decide, by decide, trivial⟩
example : specRun (storyIds exRo) [⟨5, some "RO1", .EAStoryMove, exMove⟩, ⟨6, some "RO1", .EAStorySwap, exSwap⟩] =
    [some "C", some "D", some "B", some "A"] := by decide

/-- nothing is assumed of the IDs of the running order's own children: a story holding I1, an item
    WITHOUT an itemID, and I2 is inside the domain of C12; roItemDelete of [I1, I2] skips the ID-less
    item while searching, deletes both named items, warns of nothing and raises nothing -/
def exNoIdItem : Xml := .node "item" [] none none [exLeaf "itemSlug" "no id"]
def exRoNoId : Xml := .node "mos" [] none none [exLeaf "messageID" "1",
  .node "roCreate" [] none none
    [exLeaf "roID" "R",
     .node "story" [] none none [exLeaf "storyID" "A", exItem "I1", exNoIdItem, exItem "I2"]]]
def exItemDelete : Xml := exMsg (.node "roItemDelete" [] none none
  [exLeaf "storyID" "A", exLeaf "itemID" "I1", exLeaf "itemID" "I2"])

example : DomC12 ⟨exRoNoId, exItemDelete, .ItemDelete⟩ = true ∧
    DomC03 ⟨exRoNoId, exItemDelete, .ItemDelete⟩ = true ∧
    (addK .ItemDelete exRoNoId exItemDelete).err = none ∧
    (addK .ItemDelete exRoNoId exItemDelete).warns = [] ∧
    (rcOf (addK .ItemDelete exRoNoId exItemDelete).ro).map (·.kids) =
      some [exLeaf "roID" "R", .node "story" [] none none [exLeaf "storyID" "A", exNoIdItem]] := by
  decide

/-- stories with a BLANK ID are inside the domain of C01: [blank, "A", "None", "B"]; roStoryDelete of
    ["None"] deletes exactly the story whose ID text is "None" (a blank ID is the key `none`, never
    the string "None"), and the blank story stays where it was -/
def exBlankStory : Xml := .node "story" [] none none [.node "storyID" [] none none []]
def exRoBlank : Xml := .node "mos" [] none none [exLeaf "messageID" "1",
  .node "roCreate" [] none none
    [exLeaf "roID" "R", exBlankStory, exStory "A" [], exStory "None" [], exStory "B" []]]
def exDeleteNone : Xml := exMsg (.node "roStoryDelete" [] none none [exLeaf "storyID" "None"])

example : DomOrder ⟨exRoBlank, exDeleteNone, .StoryDelete⟩ = true := by decide
example : storyIds exRoBlank = [none, some "A", some "None", some "B"] := by decide
example : (addK .StoryDelete exRoBlank exDeleteNone).err = none ∧
    (addK .StoryDelete exRoBlank exDeleteNone).warns = [] ∧
    storyIds (addK .StoryDelete exRoBlank exDeleteNone).ro = [none, some "A", some "B"] ∧
    (rcOf (addK .StoryDelete exRoBlank exDeleteNone).ro).map (·.kids) =
      some [exLeaf "roID" "R", exBlankStory, exStory "A" [], exStory "B" []] := by decide

/-- a BLANK reference names nothing: roStoryDelete of [blank] on the same running order is inside the
    domain, deletes nothing (one StoryNotFound warning), and the protocol's sequence keeps the blank
    story (`specIds` removes only present IDs that are named) -/
def exDeleteBlank : Xml := exMsg (.node "roStoryDelete" [] none none [.node "storyID" [] none none []])
example : DomOrder ⟨exRoBlank, exDeleteBlank, .StoryDelete⟩ = true := by decide
example : (addK .StoryDelete exRoBlank exDeleteBlank).warns = [.storyNotFound] ∧
    storyIds (addK .StoryDelete exRoBlank exDeleteBlank).ro = [none, some "A", some "None", some "B"] ∧
    holdsOrder ⟨exRoBlank, exDeleteBlank, .StoryDelete⟩ (addK .StoryDelete exRoBlank exDeleteBlank) = true := by
  decide

/-- nothing is assumed of the IDs of the edited container in C06: story "W" holds the items
    [w0, DUP, w1, DUP] (one itemID twice); roItemDelete of [DUP, ZZ, DUP] is inside the domain of C06,
    removes the first DUP on the first mention and the second on the second, warns exactly once
    (ItemNotFound for ZZ), and leaves [w0, w1] -/
def exRoDup : Xml := .node "mos" [] none none [exLeaf "messageID" "1",
  .node "roCreate" [] none none [exLeaf "roID" "R", exStory "W" ["w0", "DUP", "w1", "DUP"]]]
def exDeleteDup : Xml := exMsg (.node "roItemDelete" [] none none
  [exLeaf "storyID" "W", exLeaf "itemID" "DUP", exLeaf "itemID" "ZZ", exLeaf "itemID" "DUP"])

example : DomC06 ⟨exRoDup, exDeleteDup, .ItemDelete⟩ = true ∧
    (addK .ItemDelete exRoDup exDeleteDup).err = none ∧
    (addK .ItemDelete exRoDup exDeleteDup).warns = [.itemNotFound] ∧
    (rcOf (addK .ItemDelete exRoDup exDeleteDup).ro).map (fun rc => rc.kids.map (keysOf "item" ·.kids)) =
      some [[], [some "w0", some "w1"]] ∧
    holdsC06 ⟨exRoDup, exDeleteDup, .ItemDelete⟩ (addK .ItemDelete exRoDup exDeleteDup) = true := by
  decide

end Mrm
