/-
  Property C05 over ALL inputs: whatever the running order (well-formed or not) and whatever the
  message (schema-shaped or not), if the addition raises ANYTHING - a MosMergeError or a built-in
  exception - the running order is unchanged; the one exception is a message whose envelope has no
  readable messageID (building the warning/error text then raises in the middle of a loop).
-/
import Mrm.Props.C05
import Mrm.Props.C12
import Mrm.Proofs.AtomicCrash

namespace Mrm

/-- one step, any class, any shape, any running order, any error: the tree is the tree it was given -/
theorem C05_total_step (k : Kind) (d m : Xml) (hmid : msgIdExc m = none) (e : Err)
    (h : (addK k d m).err = some e) : (addK k d m).ro = d := by
  unfold addK at *
  split
  · rfl
  · rename_i hc
    simp only [hc] at h
    unfold merge at *
    split
    · rfl
    · rename_i base hb
      simp only [hb] at h
      cases k <;> dsimp only at h ⊢
      case RunningOrderEnd => simp at h
      case RunningOrderReplace =>
        split
        · rfl
        · rename_i i hi; simp [hi] at h
      all_goals
        split
        · rfl
        · rename_i i hi
          simp only [hi] at h
          split
          · rfl
          · rename_i rc hrc
            simp only [hrc, hmid] at h ⊢
            have := total_mergeRc _ rc base e h
            simp only [this]
            exact set_rc_self d rc i hrc

/-- C05, total: for every running order and every message with a readable message ID -/
theorem C05_total (i : MergeInput) (h : msgIdExc i.m = none) :
    holdsC05any i (addK i.k i.d i.m) = true := by
  unfold holdsC05any
  split
  · rename_i e he
    have := C05_total_step i.k i.d i.m h e he
    simp [this]
  · rfl

/-- the excluded case is real (in the model as in the code): a delete of [I1, unknown] by a message
    without a readable messageID removes I1 and then raises ValueError from the warning text -/
theorem C05_bad_message_id_counterexample :
    ∃ i : MergeInput, (msgIdExc i.m).isSome ∧ holdsC05any i (addK i.k i.d i.m) = false :=
  ⟨⟨.node "mos" [] none none [.node "roCreate" [] none none
      [.node "story" [] none none [.node "storyID" [] (some "A") none [],
        .node "item" [] none none [.node "itemID" [] (some "I1") none []],
        .node "item" [] none none [.node "itemID" [] (some "I2") none []]]]],
    .node "mos" [] none none [.node "messageID" [] (some "+") none [],
      .node "roItemDelete" [] none none [.node "storyID" [] (some "A") none [],
        .node "itemID" [] (some "I1") none [], .node "itemID" [] (some "ZZ") none []]],
    .ItemDelete⟩, by decide⟩

end Mrm
