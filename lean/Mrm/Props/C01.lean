/-
  Property C01 — story order after a story-level merge follows the MOS protocol.
  Property theorems only; helper lemmas live in Mrm/Proofs.
-/
import Mrm.Proofs.Order

namespace Mrm

/-- C01: for every running order (any number of stories, any non-story children interleaved
    anywhere) with unique story IDs and every story-level message whose references resolve, the
    merge succeeds and the story-ID sequence afterwards is the protocol's (`specIds`). -/
theorem C01_order (i : MergeInput) (h : DomOrder i = true) (hs : i.k.isStoryLevel = true) :
    holdsOrder i (addK i.k i.d i.m) = true :=
  order_story i h hs

/-- C01, second sentence: moves and swaps never add or lose a story — for EVERY input (no
    hypothesis on the running order or the message; also when the merge raises). -/
theorem C01_perm (i : MergeInput) (_hs : i.k.isStoryLevel = true) :
    holdsPerm i (addK i.k i.d i.m) = true :=
  perm_any i

end Mrm
