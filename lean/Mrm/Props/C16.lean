/-
  Property C16 — durations, offsets, start and end times are arithmetically consistent.
  Arithmetic is over exact microseconds (decimal durations with up to six decimals; IEEE rounding is not
  modelled; see DESIGN.md §8).
-/
import Mrm.Proofs.TimingP

namespace Mrm

/-- C16: a story's duration is its StoryDuration if present, otherwise TextTime plus MediaTime
    (a missing one counting as zero), otherwise absent. -/
theorem C16_duration_precedence (s p : Xml) (hp : payloadOf s = some p) (sd tt mt : Option Nat)
    (h1 : fieldVal p "StoryDuration" = .ok sd) (h2 : fieldVal p "TextTime" = .ok tt)
    (h3 : fieldVal p "MediaTime" = .ok mt) : storyDuration s = .ok (durationSpec sd tt mt) :=
  duration_precedence s p hp sd tt mt h1 h2 h3

theorem C16_no_payload (s : Xml) (h : payloadOf s = none) : storyDuration s = .ok none :=
  duration_no_payload s h

/-- C16: the running order's duration is the sum of the stories' when every story has one. -/
theorem C16_ro_duration (vs : List StoryView) :
    sumDurations vs =
      if vs.all (fun v => v.duration.isSome) then some ((vs.map (fun v => v.duration.getD 0)).sum) else none :=
  ro_duration vs

/-- C16: the offset table is the list of prefix sums of the durations, by position -/
theorem C16_offsets_prefix (ss : List Xml) (t : Nat) (tbl : List Nat)
    (h : storyOffsetsFrom ss t = .ok tbl) :
    tbl = (List.range ss.length).map (fun k => t + prefixSum (durationsOf ss) k) :=
  offsets_prefix ss t tbl h

/-- C16: each story's offset is the sum of the durations before it - whether or not story IDs repeat -/
theorem C16_offset_lookup (ss : List Xml) (tbl : List Nat) (h : storyOffsetsFrom ss 0 = .ok tbl)
    (k : Nat) (hk : k < ss.length) :
    tbl[k]? = some (prefixSum (durationsOf ss) k) :=
  offset_lookup ss tbl h k hk

theorem C16_offsets_monotone (ds : List (Option Nat)) (k k' : Nat) (h : k ≤ k') :
    prefixSum ds k ≤ prefixSum ds k' := prefixSum_mono ds k k' h

/-- C16: a story starts at its explicit StoryStarted, else at the running-order start plus its offset -/
theorem C16_story_start (s : Xml) (ps off r : Option Nat) (h : storyStart s ps off = .ok r) :
    ∃ ex, payloadTime s "StoryStarted" = .ok ex ∧
      r = match ex with
          | some t => some t
          | none => match ps, off with | some p, some o => some (p + o) | _, _ => none :=
  story_start_spec s ps off r h

/-- C16: a story ends at its explicit StoryEnded, else at its start plus its duration -/
theorem C16_story_end (s : Xml) (ps off r : Option Nat) (h : storyEnd s ps off = .ok r) :
    ∃ ex, payloadTime s "StoryEnded" = .ok ex ∧
      (match ex with
       | some t => r = some t
       | none => ∃ st du, storyStart s ps off = .ok st ∧ storyDuration s = .ok du ∧
                  r = match st, du with | some a, some b => some (a + b) | _, _ => none) :=
  story_end_spec s ps off r h

/-- C16, all relations at once, in every state in which the accessors return (hence, by C15, in
    every state reached by any sequence of merges): durations, offsets = prefix sums (repeated IDs or not),
    starts, ends, running-order duration = sum, running order ends when its last story ends. -/
theorem C16_view_consistent (d : Xml) (v : RoView) (h : roView d = .ok v) :
    ∃ rc, rcOf d = some rc ∧ v.stories.length = (rc.findall "story").length ∧
      v.stop = (v.stories.getLast?).bind (·.stop) ∧
      v.duration = (if v.stories.all (fun s => s.duration.isSome)
                    then some ((v.stories.map (fun s => s.duration.getD 0)).sum) else none) ∧
      v.stories.map (·.duration) = durationsOf (rc.findall "story") ∧
      (∀ k (hk : k < v.stories.length), (v.stories[k]).offset = some (prefixSum (durationsOf (rc.findall "story")) k)) ∧
      (∀ k (hk : k < v.stories.length) (hk' : k < (rc.findall "story").length),
        storyStart ((rc.findall "story")[k]) v.start (v.stories[k]).offset = .ok (v.stories[k]).start ∧
        storyEnd ((rc.findall "story")[k]) v.start (v.stories[k]).offset = .ok (v.stories[k]).stop) :=
  view_consistent d v h

/-- non-vacuity, with a REPEATED story ID: stories A (10 s), B (5 s), A (7 s) — the accessors return
    and each story gets the sum of the durations before it (in microseconds), the second "A"
    included (an ID-keyed table would have given both "A" stories the same offset) -/
example :
    let dur (t : String) : Xml := .node "mosExternalMetadata" [] none none
      [.node "mosPayload" [] none none [.node "StoryDuration" [] (some t) none []]]
    let story (id t : String) : Xml := .node "story" [] none none
      [.node "storyID" [] (some id) none [], dur t]
    let d : Xml := .node "mos" [] none none [.node "roCreate" [] none none
      [.node "roSlug" [] (some "show") none [], story "A" "10", story "B" "5", story "A" "7"]]
    (match roView d with
     | .ok v => v.stories.map (fun s => (s.id, s.offset))
     | .error _ => []) =
      [(some "A", some 0), (some "B", some 10000000), (some "A", some 15000000)] := by
  decide

end Mrm
