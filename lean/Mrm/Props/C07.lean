/-
  Property C07 — completion by roDelete is faithful, terminal and survives a round trip
  (the step-level and classification statements; histories are in Props/C09.lean, the
  serialisation round trip in Props/C14.lean).
-/
import Mrm.Proofs.NoCompleted
import Mrm.Proofs.Classify
import Mrm.Proofs.Rc

namespace Mrm

theorem find?_isSome_eq_any {α : Type} (p : α → Bool) (l : List α) : (l.find? p).isSome = l.any p := by
  induction l with
  | nil => rfl
  | cons a l ih =>
    simp only [List.find?_cons, List.any_cons]
    cases h : p a <;> simp [ih]

theorem completed_eq_any (x : Xml) : completed x = x.kids.any (fun c => c.tag == "mosromgrmeta") := by
  simp only [completed, Xml.find, find?_isSome_eq_any]

theorem any_set_same_tag (l : List Xml) (i : Nat) (y x : Xml) (p : Xml → Bool)
    (hx : l[i]? = some x) (hp : p y = p x) : (l.set i y).any p = l.any p := by
  induction l generalizing i with
  | nil => simp
  | cons a l ih =>
    cases i with
    | zero => simp at hx; subst hx; simp [hp]
    | succ i => simp at hx; simp [ih i hx]

theorem pyInsert_eraseIdx_eq_set (l : List Xml) (i : Nat) (y : Xml) (h : i < l.length) :
    pyInsert (l.eraseIdx i) i y = l.set i y := by
  induction l generalizing i with
  | nil => simp at h
  | cons a l ih =>
    cases i with
    | zero => simp [pyInsert]
    | succ i =>
      have := ih i (by simpa using h)
      simp only [pyInsert] at this
      simp [pyInsert, this]

/-- C07 (terminal, one step): a completed running order refuses every message of every class and
    shape with MosCompletedMergeError, emits nothing and is left untouched. -/
theorem C07_refuses (k : Kind) (d m : Xml) (hc : completed d = true) :
    addK k d m = ⟨d, [], some .completed⟩ := by
  simp [addK, hc]

/-- C07 (faithful): merging a roDelete into a running order that is not completed succeeds without
    warnings, appends exactly one `mosromgrmeta` record holding the roDelete element after the
    existing root children (so the running-order content is unchanged), and marks it completed. -/
theorem C07_delete_marks (d m base : Xml) (hc : completed d = false) (hb : m.find "roDelete" = some base) :
    addK .RunningOrderEnd d m =
      ⟨d.withKids (d.kids ++ [.node "mosromgrmeta" [] none none [base]]), [], none⟩ ∧
    completed (addK .RunningOrderEnd d m).ro = true := by
  have hb' : m.find Kind.RunningOrderEnd.baseTag = some base := hb
  have h1 : addK .RunningOrderEnd d m =
      ⟨d.withKids (d.kids ++ [.node "mosromgrmeta" [] none none [base]]), [], none⟩ := by
    simp [addK, hc, merge, hb']
  refine ⟨h1, ?_⟩
  rw [h1, completed_eq_any]
  simp

/-- C07 (never spuriously completed): no message of any other class marks a running order
    completed, and only the completed guard raises MosCompletedMergeError — for every input. -/
theorem C07_not_spuriously_completed (k : Kind) (d m : Xml) (hc : completed d = false)
    (hk : k ≠ .RunningOrderEnd) :
    completed (addK k d m).ro = false ∧ (addK k d m).err ≠ some .completed := by
  unfold addK
  simp only [hc, Bool.false_eq_true, if_false]
  unfold merge
  split
  · exact ⟨hc, by simp⟩
  · rename_i base hb
    cases k <;> dsimp only
    case RunningOrderEnd => exact absurd rfl hk
    case RunningOrderReplace =>
      split
      · exact ⟨hc, by simp⟩
      · rename_i i hi
        refine ⟨?_, by simp⟩
        obtain ⟨rc, hget, _, htag⟩ := rcOf_eq_getElem d hi
        have hlt : i < d.kids.length := (List.getElem?_eq_some_iff.mp hget).1
        rw [completed_eq_any, Xml.withKids_kids, pyInsert_eraseIdx_eq_set _ _ _ hlt,
          any_set_same_tag d.kids i _ rc _ hget (by simp [htag]), ← completed_eq_any, hc]
    all_goals first
      | exact ⟨hc, by simp⟩
      | (split
         · exact ⟨hc, by simp⟩
         · rename_i i hi
           split
           · exact ⟨hc, by simp⟩
           · rename_i rc hget
             refine ⟨?_, fun h => by rcases nc_mergeRc _ rc base (msgIdExc m) _ h with h | ⟨x, h⟩ <;> cases h⟩
             rw [completed_eq_any, Xml.withKids_kids,
               any_set_same_tag d.kids i _ rc _ hget (by simp), ← completed_eq_any, hc])

/-- the form the correspondence check evaluates (`holdsC07`), for every input whose message element
    exists (which classification guarantees: `classify_base`) -/
theorem C07_step (i : MergeInput) (hb : (i.m.find i.k.baseTag).isSome = true) :
    holdsC07 i (addK i.k i.d i.m) = true := by
  unfold holdsC07
  by_cases hc : completed i.d = true
  · simp [hc, C07_refuses i.k i.d i.m hc]
  · have hc' : completed i.d = false := by simpa using hc
    simp only [hc', Bool.false_eq_true, if_false]
    by_cases hk : i.k = .RunningOrderEnd
    · obtain ⟨base, hbase⟩ := Option.isSome_iff_exists.mp hb
      rw [hk] at hbase
      have hbase' : i.m.find "roDelete" = some base := hbase
      obtain ⟨h1, h2⟩ := C07_delete_marks i.d i.m base hc' hbase'
      simp only [hk, beq_self_eq_true, if_true, hbase']
      rw [h1] at h2 ⊢
      simp [h2]
    · obtain ⟨h1, h2⟩ := C07_not_spuriously_completed i.k i.d i.m hc' hk
      have : (i.k == Kind.RunningOrderEnd) = false := by simpa using hk
      simp [this, h1, h2]

/-- C07 (round trip, classification half): a document with a `roCreate` child of the root is a
    RunningOrder whatever else the root holds — the completion record does not change the class,
    and the recorded roDelete (nested inside `mosromgrmeta`) is not seen by classification. -/
theorem C07_classify_completed (d : Xml) (h : (rcOf d).isSome = true) :
    classify d = .ok .RunningOrder := classify_of_rc h

/-- completion adds nothing that classification could see: after a roDelete the document still
    classifies as RunningOrder -/
theorem C07_classify_after_delete (d m base : Xml) (hrc : (rcOf d).isSome = true)
    (hc : completed d = false) (hb : m.find "roDelete" = some base) :
    classify (addK .RunningOrderEnd d m).ro = .ok .RunningOrder := by
  rw [(C07_delete_marks d m base hc hb).1]
  apply classify_of_rc
  obtain ⟨rc, hrc⟩ := Option.isSome_iff_exists.mp hrc
  unfold rcOf Xml.find at *
  simp only [Xml.withKids_kids, List.find?_append, hrc]
  rfl

/-- non-vacuity: a roDelete merged into a two-story running order, then any further message refused -/
example :
    let d : Xml := .node "mos" [] none none [.node "roCreate" [] none none
      [.node "story" [] none none [.node "storyID" [] (some "A") none []]]]
    let m : Xml := .node "mos" [] none none [.node "messageID" [] (some "9") none [],
      .node "roDelete" [] none none [.node "roID" [] (some "R") none []]]
    completed d = false ∧ completed (add d m).ro = true ∧ (add (add d m).ro m).err = some .completed := by
  decide

end Mrm
