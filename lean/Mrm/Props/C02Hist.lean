/-
  Property C02, "from the initial running order and from every state reached by earlier merges":
  the one-step theorems C02_order and C03_frame composed along the collection's merge loop.
-/
import Mrm.Props.C02
import Mrm.Props.C03
import Mrm.Model.Collection
import Mrm.Proofs.ItemTable
import Mrm.Props.Examples

namespace Mrm

/-- per story, in document order: its ID and the ID sequence of its items -/
def itemTable (d : Xml) : List (Key × List Key) :=
  match rcOf d with
  | none => []
  | some rc => (rc.kids.filter (fun c => c.tag == "story")).map (fun s => (keyOf "story" s, keysOf "item" s.kids))

/-- the protocol's effect of one item-level message on the table: the first story whose ID is the
    message's (non-blank) story reference gets the protocol's item sequence; every other row stays -/
def specItemStep (k : Kind) (nm : Named) (tbl : List (Key × List Key)) : List (Key × List Key) :=
  match nm.story with
  | none => tbl
  | some _ =>
    match tbl.findIdx? (fun row => row.1 == nm.story) with
    | none => tbl
    | some j =>
      match tbl[j]? with
      | none => tbl
      | some row => tbl.set j (row.1, specIds k "item" nm row.2)

def specItemRun (tbl : List (Key × List Key)) : List Reader → List (Key × List Key)
  | [] => tbl
  | r :: rs =>
    match r.doc.find r.kind.baseTag with
    | some base => specItemRun (specItemStep r.kind (namedOf r.kind base) tbl) rs
    | none => specItemRun tbl rs

/-- every message of the history is an item-level message in the domain of C02 at the state it is
    applied to -/
def DomItemRun (ro : Xml) : List Reader → Prop
  | [] => True
  | r :: rs => DomOrder ⟨ro, r.doc, r.kind⟩ = true ∧ r.kind.isItemLevel = true ∧
      DomItemRun (addK r.kind ro r.doc).ro rs

/-- one step on the table (C02_order for the addressed story, C03_frame for every other story and
    for the story IDs) -/
theorem C02_table_step (i : MergeInput) (h : DomOrder i = true) (hs : i.k.isItemLevel = true) :
    (addK i.k i.d i.m).err = none ∧
    ∃ base, i.m.find i.k.baseTag = some base ∧
      itemTable (addK i.k i.d i.m).ro = specItemStep i.k (namedOf i.k base) (itemTable i.d) := by
  obtain ⟨d, m, k⟩ := i
  obtain ⟨rc, base, j, s, items', hrc, hb, ha, hsj, herr, hrc', hkeys, hid⟩ := item_step_shape h hs
  refine ⟨herr, base, hb, ?_⟩
  obtain ⟨x, j', hsid, hfind, hget, hset⟩ :=
    table_step rc.kids (namedOf k base).story j s (s.withKids items') ha hsj rfl hid
  have e1 : itemTable (addK k d m).ro = tableOf (rc.kids.set j (s.withKids items')) := by
    unfold itemTable; rw [hrc']; rfl
  have e2 : itemTable d = tableOf rc.kids := by
    unfold itemTable; rw [hrc]; rfl
  simp only
  rw [e1, e2, hset]
  unfold specItemStep
  rw [hsid] at hfind ⊢
  simp only [hfind, hget, Xml.withKids_kids, hkeys]

/-- C02 along histories: after any sequence of item-level messages, each resolving at the state it
    meets, merged strictly or not, nothing was raised and the item-ID sequence of EVERY story is the
    protocol's run from the initial table (the addressed story of each message changed as the
    protocol says, all other stories' sequences and all story IDs untouched) -/
theorem C02_history (strict : Bool) (ro : Xml) (rs : List Reader) (ws : List Warn)
    (h : DomItemRun ro rs) :
    (mergeLoop strict ro rs ws).err = none ∧
    itemTable (mergeLoop strict ro rs ws).ro = specItemRun (itemTable ro) rs := by
  induction rs generalizing ro ws with
  | nil => simp [mergeLoop, specItemRun]
  | cons r rs ih =>
    obtain ⟨hd, hs, hrest⟩ := h
    obtain ⟨herr, base, hbase, htbl⟩ := C02_table_step ⟨ro, r.doc, r.kind⟩ hd hs
    simp only at herr hbase htbl
    unfold mergeLoop
    simp only [herr]
    have := ih (addK r.kind ro r.doc).ro (ws ++ (addK r.kind ro r.doc).warns) hrest
    refine ⟨this.1, ?_⟩
    rw [this.2]
    simp only [specItemRun, hbase, htbl]

/-! ### Non-vacuity: a concrete history inside `DomItemRun`, and the table the protocol run gives -/

example : DomItemRun exRo [⟨5, some "RO1", .ItemMoveMultiple, exItemMove⟩] :=
  ⟨by decide, by decide, trivial⟩

example : itemTable exRo =
    [(some "A", [some "I1", some "I2", some "I3"]), (some "B", [some "I1"]), (some "C", []),
     (some "D", [some "I1", some "I2"])] := by decide

/-- I1 moves before I3 inside story A only; B and D, which carry the same item IDs, are untouched -/
example : specItemRun (itemTable exRo) [⟨5, some "RO1", .ItemMoveMultiple, exItemMove⟩] =
    [(some "A", [some "I2", some "I1", some "I3"]), (some "B", [some "I1"]), (some "C", []),
     (some "D", [some "I1", some "I2"])] := by decide

/-- and the model agrees (an instance of `C02_history`) -/
example : itemTable (mergeLoop true exRo [⟨5, some "RO1", .ItemMoveMultiple, exItemMove⟩] []).ro =
    [(some "A", [some "I2", some "I1", some "I3"]), (some "B", [some "I1"]), (some "C", []),
     (some "D", [some "I1", some "I2"])] := by decide

end Mrm
