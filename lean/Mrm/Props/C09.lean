/-
  Property C09 — collection merge equals adding the messages one by one; strict / non-strict.
  Also the history forms of C05 (failures leave no trace) and C07 (completion is terminal).
-/
import Mrm.Model.Collection
import Mrm.Props.C05
import Mrm.Props.C07

namespace Mrm

/-- adding the messages one by one (each freshly restored), ignoring exceptions -/
def foldAdd (ro : Xml) (rs : List Reader) : Xml :=
  rs.foldl (fun s r => (addK r.kind s r.doc).ro) ro

/-- does the step fail in the state it is applied to? -/
def stepFails (s : Xml) (r : Reader) : Bool := (addK r.kind s r.doc).err.isSome

theorem mergeLoop_cons (strict : Bool) (ro : Xml) (r : Reader) (rs : List Reader) (ws : List Warn) :
    mergeLoop strict ro (r :: rs) ws =
      match (addK r.kind ro r.doc).err with
      | none => mergeLoop strict (addK r.kind ro r.doc).ro rs (ws ++ (addK r.kind ro r.doc).warns)
      | some e =>
        if e.isMergeError && !strict then
          mergeLoop strict (addK r.kind ro r.doc).ro rs (ws ++ (addK r.kind ro r.doc).warns ++ [.nonStrict])
        else ⟨(addK r.kind ro r.doc).ro, ws ++ (addK r.kind ro r.doc).warns, some e⟩ := rfl

/-- C09: whenever `MosCollection.merge` returns normally (strict: every message merged;
    non-strict: nothing but MosMergeErrors occurred), the running order is exactly the result of
    adding each message, in reader order, to the roCreate. -/
theorem C09_result_is_fold (strict : Bool) (ro : Xml) (rs : List Reader) (ws : List Warn)
    (h : (mergeLoop strict ro rs ws).err = none) : (mergeLoop strict ro rs ws).ro = foldAdd ro rs := by
  induction rs generalizing ro ws with
  | nil => rfl
  | cons r rs ih =>
    rw [mergeLoop_cons] at h ⊢
    simp only [foldAdd, List.foldl_cons]
    cases he : (addK r.kind ro r.doc).err with
    | none => simp only [he] at h ⊢; exact ih _ _ h
    | some e =>
      simp only [he] at h ⊢
      by_cases hm : (e.isMergeError && !strict) = true
      · simp only [hm, if_true] at h ⊢; exact ih _ _ h
      · simp [hm] at h

/-- C09 (strict): in strict mode an error is the error of the first failing message, every earlier
    message has been applied, and — the error being a MosMergeError — the failing message has
    left no trace. -/
theorem C09_strict_first_error (ro : Xml) (rs : List Reader) (ws : List Warn) (e : Err)
    (h : (mergeLoop true ro rs ws).err = some e) :
    ∃ pre r post, rs = pre ++ r :: post ∧
      (mergeLoop true ro pre ws).err = none ∧
      (addK r.kind (foldAdd ro pre) r.doc).err = some e ∧
      (mergeLoop true ro rs ws).ro = (addK r.kind (foldAdd ro pre) r.doc).ro ∧
      (e.isMergeError = true → (mergeLoop true ro rs ws).ro = foldAdd ro pre) := by
  induction rs generalizing ro ws with
  | nil => simp [mergeLoop] at h
  | cons r rs ih =>
    rw [mergeLoop_cons] at h
    cases he : (addK r.kind ro r.doc).err with
    | none =>
      simp only [he] at h
      obtain ⟨pre, r', post, hsplit, h1, h2, h3, h4⟩ := ih _ _ h
      refine ⟨r :: pre, r', post, by simp [hsplit], ?_, ?_, ?_, ?_⟩
      · rw [mergeLoop_cons]; simp only [he]; exact h1
      · simpa [foldAdd] using h2
      · rw [mergeLoop_cons]; simp only [he]; simpa [foldAdd] using h3
      · intro hm; rw [mergeLoop_cons]; simp only [he]; simpa [foldAdd] using h4 hm
    | some e' =>
      simp only [he, Bool.not_true, Bool.and_false, Bool.false_eq_true, if_false] at h
      cases h
      refine ⟨[], r, rs, rfl, rfl, by simpa [foldAdd] using he, ?_, ?_⟩
      · rw [mergeLoop_cons]; simp [he, foldAdd]
      · intro hm
        rw [mergeLoop_cons]
        simp only [he, Bool.not_true, Bool.and_false, Bool.false_eq_true, if_false, foldAdd, List.foldl_nil]
        exact C05_step_kind r.kind ro r.doc _ he hm

/-- the warnings a non-strict run must show: each step's own warnings, then one
    MosMergeNonStrictWarning iff that step failed, in order -/
def expectedRunWarns : Xml → List Reader → List Warn
  | _, [] => []
  | s, r :: rs =>
    (addK r.kind s r.doc).warns ++ (if stepFails s r then [.nonStrict] else []) ++
      expectedRunWarns (addK r.kind s r.doc).ro rs

/-- C09 (non-strict): a non-strict merge never stops on a MosMergeError: the only exception that
    can leave it is a built-in one (excluded on well-formed input by C12). -/
theorem C09_nonstrict_no_merge_error (ro : Xml) (rs : List Reader) (ws : List Warn) (e : Err)
    (h : (mergeLoop false ro rs ws).err = some e) : e.isMergeError = false := by
  induction rs generalizing ro ws with
  | nil => simp [mergeLoop] at h
  | cons r rs ih =>
    rw [mergeLoop_cons] at h
    cases he : (addK r.kind ro r.doc).err with
    | none => simp only [he] at h; exact ih _ _ h
    | some e' =>
      simp only [he, Bool.not_false, Bool.and_true] at h
      by_cases hm : e'.isMergeError = true
      · simp only [hm, if_true] at h; exact ih _ _ h
      · simp only [hm, Bool.false_eq_true, if_false] at h
        cases h; simpa using hm

/-- C09 (non-strict): each failing message is skipped with exactly one MosMergeNonStrictWarning,
    every other message is applied and keeps its own warnings — for any number and placement of
    failing messages. -/
theorem C09_nonstrict_warnings (ro : Xml) (rs : List Reader) (ws : List Warn)
    (h : (mergeLoop false ro rs ws).err = none) :
    (mergeLoop false ro rs ws).warns = ws ++ expectedRunWarns ro rs := by
  induction rs generalizing ro ws with
  | nil => simp [mergeLoop, expectedRunWarns]
  | cons r rs ih =>
    rw [mergeLoop_cons] at h ⊢
    unfold expectedRunWarns
    cases he : (addK r.kind ro r.doc).err with
    | none =>
      simp only [he] at h ⊢
      simp only [stepFails, he, Option.isSome_none, Bool.false_eq_true, if_false, List.append_nil]
      rw [ih _ _ h]; simp
    | some e =>
      simp only [he, Bool.not_false, Bool.and_true] at h ⊢
      by_cases hm : e.isMergeError = true
      · simp only [hm, if_true] at h ⊢
        simp only [stepFails, he, Option.isSome_some, if_true]
        rw [ih _ _ h]; simp
      · simp [hm] at h

/-- C05 (histories): in a non-strict run that returns normally the final running order is the fold
    over the messages that succeeded in context — a failed message leaves no trace at all. -/
theorem C05_nonstrict_history (ro : Xml) (rs : List Reader) (ws : List Warn)
    (h : (mergeLoop false ro rs ws).err = none) :
    (mergeLoop false ro rs ws).ro =
      rs.foldl (fun s r => if stepFails s r then s else (addK r.kind s r.doc).ro) ro := by
  induction rs generalizing ro ws with
  | nil => rfl
  | cons r rs ih =>
    rw [mergeLoop_cons] at h ⊢
    simp only [List.foldl_cons]
    cases he : (addK r.kind ro r.doc).err with
    | none =>
      simp only [he] at h ⊢
      simp only [stepFails, he, Option.isSome_none, Bool.false_eq_true, if_false]
      exact ih _ _ h
    | some e =>
      simp only [he, Bool.not_false, Bool.and_true] at h ⊢
      by_cases hm : e.isMergeError = true
      · simp only [hm, if_true] at h ⊢
        simp only [stepFails, he, Option.isSome_some, if_true]
        have hro := C05_step_kind r.kind ro r.doc e he hm
        rw [hro] at h ⊢
        exact ih _ _ h
      · simp [hm] at h

/-- C07 (terminal, histories, non-strict): once completed, every further message of every class is
    skipped with one MosMergeNonStrictWarning and the running order never changes. -/
theorem C07_terminal_history_nonstrict (ro : Xml) (rs : List Reader) (ws : List Warn)
    (hc : completed ro = true) :
    mergeLoop false ro rs ws = ⟨ro, ws ++ List.replicate rs.length .nonStrict, none⟩ := by
  induction rs generalizing ws with
  | nil => simp [mergeLoop]
  | cons r rs ih =>
    rw [mergeLoop_cons]
    simp only [C07_refuses r.kind ro r.doc hc, Err.isMergeError, Bool.not_false, Bool.and_self, if_true]
    rw [ih]
    simp [List.replicate_succ]

/-- C07 (terminal, strict): the first message after completion raises MosCompletedMergeError and
    the running order is unchanged. -/
theorem C07_terminal_history_strict (ro : Xml) (r : Reader) (rs : List Reader) (ws : List Warn)
    (hc : completed ro = true) :
    mergeLoop true ro (r :: rs) ws = ⟨ro, ws, some .completed⟩ := by
  rw [mergeLoop_cons]
  simp [C07_refuses r.kind ro r.doc hc]

/-- C07/C09: everything that follows the roDelete is a failing step: after a roDelete has been
    merged, the rest of a non-strict run only adds one warning per remaining message. -/
theorem C09_after_delete (ro : Xml) (d : Reader) (base : Xml) (rs : List Reader) (ws : List Warn)
    (hk : d.kind = .RunningOrderEnd) (hc : completed ro = false) (hb : d.doc.find "roDelete" = some base) :
    mergeLoop false ro (d :: rs) ws =
      ⟨ro.withKids (ro.kids ++ [.node "mosromgrmeta" [] none none [base]]),
       ws ++ List.replicate rs.length .nonStrict, none⟩ := by
  rw [mergeLoop_cons]
  obtain ⟨h1, h2⟩ := C07_delete_marks ro d.doc base hc hb
  rw [hk]
  rw [h1] at h2
  simp only [h1, List.append_nil]
  exact C07_terminal_history_nonstrict _ rs ws h2

/-- C07 (never spuriously completed, histories): a history without a roDelete never yields a
    completed running order. -/
theorem C07_history_without_delete (ro : Xml) (rs : List Reader) (hc : completed ro = false)
    (hk : ∀ r ∈ rs, r.kind ≠ .RunningOrderEnd) : completed (foldAdd ro rs) = false := by
  induction rs generalizing ro with
  | nil => exact hc
  | cons r rs ih =>
    simp only [foldAdd, List.foldl_cons]
    apply ih
    · exact (C07_not_spuriously_completed r.kind ro r.doc hc (hk r List.mem_cons_self)).1
    · intro q hq; exact hk q (List.mem_cons_of_mem _ hq)

end Mrm
