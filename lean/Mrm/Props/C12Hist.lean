/-
  Property C12, history form — "consequently a non-strict collection merge always runs to the end".
-/
import Mrm.Props.C12
import Mrm.Props.C09
import Mrm.Proofs.HistInv

namespace Mrm

/-- a message a history may contain: schema-shaped, with a payload that keeps stories/items
    well-formed (IDs possibly blank, unknown, repeated or self-referential) -/
def readerOk (r : Reader) : Bool := shaped r.kind r.doc && payloadOk r.kind r.doc

/-- C12 (step, under the history invariant) -/
theorem C12_step_inv (r : Reader) (ro : Xml) (h : HistInv ro = true) (hr : readerOk r = true) :
    holdsC12 ⟨ro, r.doc, r.kind⟩ (addK r.kind ro r.doc) = true ∧ HistInv (addK r.kind ro r.doc).ro = true := by
  simp only [readerOk, Bool.and_eq_true] at hr
  obtain ⟨hw, _⟩ := histInv_implies_dom ro h
  refine ⟨C12_add ⟨ro, r.doc, r.kind⟩ (by simp [DomC12, hw, hr.1]), ?_⟩
  exact histInv_preserved ⟨ro, r.doc, r.kind⟩ h hr.1 hr.2

/-- C12 (histories): from any running order satisfying the history invariant, a non-strict
    collection merge of any sequence of shaped messages — of any length, any class mix, any number
    and placement of failing messages — always runs to the end: no exception leaves it, and the
    invariant (hence well-formedness and readable timing) holds of the result. -/
theorem C12_history (ro : Xml) (rs : List Reader) (ws : List Warn) (h : HistInv ro = true)
    (hr : ∀ r ∈ rs, readerOk r = true) :
    (mergeLoop false ro rs ws).err = none ∧ HistInv (mergeLoop false ro rs ws).ro = true := by
  induction rs generalizing ro ws with
  | nil => exact ⟨rfl, h⟩
  | cons r rs ih =>
    obtain ⟨h12, hinv⟩ := C12_step_inv r ro h (hr r List.mem_cons_self)
    have hrest : ∀ q ∈ rs, readerOk q = true := fun q hq => hr q (List.mem_cons_of_mem _ hq)
    rw [mergeLoop_cons]
    cases he : (addK r.kind ro r.doc).err with
    | none => simp only; exact ih _ _ hinv hrest
    | some e =>
      simp only [Bool.not_false, Bool.and_true]
      have hm : e.isMergeError = true := by
        unfold holdsC12 at h12
        rw [he] at h12
        cases e with
        | crash x => simp at h12
        | merge => rfl
        | completed => rfl
        | unknownType =>
          exfalso
          unfold addK at he
          split at he
          · simp at he
          · exact absurd he (merge_err_ne_unknown _ _ _)
        | invalidCollection =>
          exfalso
          unfold addK at he
          split at he
          · simp at he
          · exact absurd he (merge_err_ne_invalid _ _ _)
      simp only [hm, if_true]
      exact ih _ _ hinv hrest

/-- C12 (histories, strict): in strict mode the only exception that can leave the merge is a
    MosMergeError. -/
theorem C12_history_strict (ro : Xml) (rs : List Reader) (ws : List Warn) (h : HistInv ro = true)
    (hr : ∀ r ∈ rs, readerOk r = true) (e : Err) (he : (mergeLoop true ro rs ws).err = some e) :
    e.isMergeError = true := by
  induction rs generalizing ro ws with
  | nil => simp [mergeLoop] at he
  | cons r rs ih =>
    obtain ⟨h12, hinv⟩ := C12_step_inv r ro h (hr r List.mem_cons_self)
    have hrest : ∀ q ∈ rs, readerOk q = true := fun q hq => hr q (List.mem_cons_of_mem _ hq)
    rw [mergeLoop_cons] at he
    cases hs : (addK r.kind ro r.doc).err with
    | none => simp only [hs] at he; exact ih _ _ hinv hrest he
    | some e' =>
      simp only [hs, Bool.not_true, Bool.and_false, Bool.false_eq_true, if_false] at he
      cases he
      unfold holdsC12 at h12
      rw [hs] at h12
      cases e with
      | crash x => simp at h12
      | merge => rfl
      | completed => rfl
      | unknownType =>
        exfalso
        unfold addK at hs
        split at hs
        · simp at hs
        · exact absurd hs (merge_err_ne_unknown _ _ _)
      | invalidCollection =>
        exfalso
        unfold addK at hs
        split at hs
        · simp at hs
        · exact absurd hs (merge_err_ne_invalid _ _ _)

end Mrm
