/-
  Mrm/Props/C12Any.lean — C12 along histories with NO hypothesis on the running order beyond "has a roCreate":
  since story inserts stopped evaluating timing metadata (fix 04c82e2) the one-step theorem `C12_add` needs
  only `WfRO` and `shaped`, and `WfRO` is kept by every merge, so the history theorem no longer needs the
  history invariant `HistInv` (IDs present, readable durations, parseable roEdStart) nor `payloadOk`.
-/
import Mrm.Props.C12
import Mrm.Props.C12Hist
import Mrm.Proofs.WfRoP

namespace Mrm

set_option linter.unusedVariables false in  -- `hs` is not needed: see `wfRO_addK`
/-- every merge of a schema-shaped message keeps "has a roCreate" (whatever the outcome) -/
theorem wfRO_preserved (k : Kind) (ro m : Xml) (h : WfRO ro = true) (hs : shaped k m = true) :
    WfRO (addK k ro m).ro = true := wfRO_addK k ro m h

/-- a step of a history on a running order with a roCreate: the exception, if any, is a MosMergeError -/
theorem C12_step_any (r : Reader) (ro : Xml) (h : WfRO ro = true) (hs : shaped r.kind r.doc = true)
    (e : Err) (he : (addK r.kind ro r.doc).err = some e) : e.isMergeError = true := by
  have h12 := C12_add ⟨ro, r.doc, r.kind⟩ (by simp [DomC12, h, hs])
  unfold holdsC12 at h12
  simp only [he] at h12
  cases e with
  | crash x => simp at h12
  | merge => rfl
  | completed => rfl
  | unknownType =>
    exfalso
    unfold addK at he
    split at he
    · simp at he
    · exact absurd he (merge_err_ne_unknown _ _ _)
  | invalidCollection =>
    exfalso
    unfold addK at he
    split at he
    · simp at he
    · exact absurd he (merge_err_ne_invalid _ _ _)

/-- C12 along every history: a non-strict merge of any sequence of schema-shaped messages into ANY running
    order that has a roCreate runs to the end (no exception of any kind leaves the loop) -/
theorem C12_history_any (ro : Xml) (rs : List Reader) (ws : List Warn) (h : WfRO ro = true)
    (hr : ∀ r ∈ rs, shaped r.kind r.doc = true) :
    (mergeLoop false ro rs ws).err = none ∧ WfRO (mergeLoop false ro rs ws).ro = true := by
  induction rs generalizing ro ws with
  | nil => exact ⟨rfl, h⟩
  | cons r rs ih =>
    have hsh := hr r List.mem_cons_self
    have hinv := wfRO_preserved r.kind ro r.doc h hsh
    have hrest : ∀ q ∈ rs, shaped q.kind q.doc = true := fun q hq => hr q (List.mem_cons_of_mem _ hq)
    rw [mergeLoop_cons]
    cases he : (addK r.kind ro r.doc).err with
    | none => simp only; exact ih _ _ hinv hrest
    | some e =>
      simp only [Bool.not_false, Bool.and_true]
      have hm : e.isMergeError = true := C12_step_any r ro h hsh e he
      simp only [hm, if_true]
      exact ih _ _ hinv hrest

/-- ... and only a `MosMergeError` can leave a strict one -/
theorem C12_history_any_strict (ro : Xml) (rs : List Reader) (ws : List Warn) (h : WfRO ro = true)
    (hr : ∀ r ∈ rs, shaped r.kind r.doc = true) (e : Err) (he : (mergeLoop true ro rs ws).err = some e) :
    e.isMergeError = true := by
  induction rs generalizing ro ws with
  | nil => simp [mergeLoop] at he
  | cons r rs ih =>
    have hsh := hr r List.mem_cons_self
    have hinv := wfRO_preserved r.kind ro r.doc h hsh
    have hrest : ∀ q ∈ rs, shaped q.kind q.doc = true := fun q hq => hr q (List.mem_cons_of_mem _ hq)
    rw [mergeLoop_cons] at he
    cases hs : (addK r.kind ro r.doc).err with
    | none => simp only [hs] at he; exact ih _ _ hinv hrest he
    | some e' =>
      simp only [hs, Bool.not_true, Bool.and_false, Bool.false_eq_true, if_false] at he
      cases he
      exact C12_step_any r ro h hsh e hs

end Mrm
