/-
  Property C06 — nothing named by a message is skipped silently.
-/
import Mrm.Proofs.Warns

namespace Mrm

/-- C06: on a well-formed running order (any container: blank and repeated IDs included) a schema-shaped
    message either raises `MosMergeError`, or succeeds with exactly the documented warnings — one
    per named element that cannot be found at the time it is looked up, one per duplicate story an
    insert skips, in message order, nothing else — and every other named element is applied. -/
theorem C06_warns (i : MergeInput) (h : DomC06 i = true) :
    holdsC06 i (addK i.k i.d i.m) = true :=
  warns_any i h

end Mrm
