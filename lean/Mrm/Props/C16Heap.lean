/-
  C16 × C13: the offset table of the code is a dictionary keyed by the story *element* (its identity);
  the model's table is positional.  They agree exactly when no story element occurs twice among the
  stories - which is what C13's separation invariant guarantees in every reachable world.
-/
import Mrm.Model.Heap
import Mrm.Model.Timing
import Mrm.Props.C16

namespace Mrm

def LX.lbl : LX → Nat
  | .node l _ _ _ _ _ => l

/-- `_get_story_offsets` at object level: `story_offsets[story] = t` for each story element in turn;
    assignment order is kept, a later binding of the same element shadows an earlier one -/
def labelOffsetsFrom : List LX → Nat → Except PyExc (List (Nat × Nat))
  | [], _ => .ok []
  | s :: ss, t => do
    let d ← storyDuration s.erase
    let rest ← labelOffsetsFrom ss (t + d.getD 0)
    pure ((s.lbl, t) :: rest)

/-- `dict.get(element)` after sequential assignment: the last binding wins -/
def lookupLabel (tbl : List (Nat × Nat)) (l : Nat) : Option Nat :=
  (tbl.reverse.find? (fun p => p.1 == l)).map (·.2)

theorem labelOffsetsFrom_cons {s : LX} {ss : List LX} {t : Nat} {tbl : List (Nat × Nat)}
    (h : labelOffsetsFrom (s :: ss) t = .ok tbl) :
    ∃ d rest, storyDuration s.erase = .ok d ∧
      labelOffsetsFrom ss (t + d.getD 0) = .ok rest ∧ tbl = (s.lbl, t) :: rest := by
  unfold labelOffsetsFrom at h
  cases hd : storyDuration s.erase with
  | error e => simp only [hd, bind, Except.bind] at h; cases h
  | ok d =>
    cases hr : labelOffsetsFrom ss (t + d.getD 0) with
    | error e => simp only [hd, bind, Except.bind, hr] at h; cases h
    | ok rest =>
      simp only [hd, bind, Except.bind, hr, pure, Except.pure] at h
      cases h
      exact ⟨d, rest, rfl, hr, rfl⟩

theorem eraseL_length (ss : List LX) : (LX.eraseL ss).length = ss.length := by
  induction ss with
  | nil => rfl
  | cons s ss ih => simp [LX.eraseL, ih]

/-- in an assignment list with pairwise distinct keys, looking a key up finds its own binding -/
theorem find?_unique_label {l : List (Nat × Nat)} (hn : (l.map (·.1)).Nodup)
    {x : Nat × Nat} (hx : x ∈ l) : l.find? (fun p => p.1 == x.1) = some x := by
  induction l with
  | nil => cases hx
  | cons a l ih =>
    simp only [List.map_cons, List.nodup_cons] at hn
    by_cases ha : a.1 = x.1
    · have : a = x := by
        rcases List.mem_cons.mp hx with e | e
        · exact e.symm
        · exfalso; apply hn.1; rw [ha]; exact List.mem_map_of_mem e
      simp [this]
    · have hx' : x ∈ l := by
        rcases List.mem_cons.mp hx with e | e
        · exact absurd (by rw [e]) ha
        · exact e
      have hb : (a.1 == x.1) = false := by simpa using ha
      simp only [List.find?_cons, hb]
      exact ih hn.2 hx'

/-- the object-level table has the positional table's values, in order -/
theorem C16_label_table_values (ss : List LX) (t : Nat) (tbl : List (Nat × Nat))
    (h : labelOffsetsFrom ss t = .ok tbl) :
    storyOffsetsFrom (LX.eraseL ss) t = .ok (tbl.map (·.2)) ∧ tbl.map (·.1) = ss.map LX.lbl := by
  induction ss generalizing t tbl with
  | nil =>
    simp only [labelOffsetsFrom, Except.ok.injEq] at h
    subst h
    exact ⟨rfl, rfl⟩
  | cons s ss ih =>
    obtain ⟨d, rest, hd, hrest, rfl⟩ := labelOffsetsFrom_cons h
    obtain ⟨ih1, ih2⟩ := ih _ _ hrest
    constructor
    · simp only [LX.eraseL, storyOffsetsFrom, hd, ih1, bind, Except.bind, pure, Except.pure,
        List.map_cons]
    · simp only [List.map_cons, ih2]

/-- C16 × C13: when no story element occurs twice (separation), looking a story element up in the
    element-keyed dictionary gives the k-th entry of the positional table, i.e. the sum of the
    durations of the stories before it -/
theorem C16_offsets_by_element (ss : List LX) (tbl : List (Nat × Nat))
    (h : labelOffsetsFrom ss 0 = .ok tbl) (hsep : (ss.map LX.lbl).Nodup) (k : Nat) (hk : k < ss.length) :
    lookupLabel tbl (ss[k]).lbl = some (prefixSum (durationsOf (LX.eraseL ss)) k) := by
  obtain ⟨h1, h2⟩ := C16_label_table_values ss 0 tbl h
  have hlen : tbl.length = ss.length := by
    have := congrArg List.length h2; simpa using this
  have hk' : k < tbl.length := by omega
  have hel : (LX.eraseL ss).length = ss.length := eraseL_length ss
  have hpos := C16_offset_lookup (LX.eraseL ss) (tbl.map (·.2)) h1 k (by omega)
  have e1 : (tbl[k]).1 = (ss[k]).lbl := by
    have : (tbl.map (·.1))[k]'(by simpa using hk') = (ss[k]).lbl := by
      simp only [h2, List.getElem_map]
    simpa using this
  have e2 : (tbl[k]).2 = prefixSum (durationsOf (LX.eraseL ss)) k := by
    rw [List.getElem?_map, List.getElem?_eq_getElem hk'] at hpos
    simpa using hpos
  unfold lookupLabel
  rw [← e1, find?_unique_label (by rw [List.map_reverse, (List.reverse_perm _).nodup_iff, h2]; exact hsep)
    (List.mem_reverse.mpr (List.getElem_mem hk'))]
  simp [e2]

/-- without separation the two differ: the same element at two positions reports the later offset
    at both (what a merge by reference - seeded defect C16_7 - produces) -/
theorem C16_offsets_shared_element_counterexample :
    ∃ (ss : List LX) (tbl : List (Nat × Nat)), labelOffsetsFrom ss 0 = .ok tbl ∧
      lookupLabel tbl (ss[0]!).lbl ≠ some (prefixSum (durationsOf (LX.eraseL ss)) 0) := by
  -- the same story element (label 1, StoryDuration 10 s) at positions 0 and 1
  let a : LX := .node 1 "story" [] none none
    [.node 2 "storyID" [] (some "A") none [],
     .node 3 "mosExternalMetadata" [] none none
       [.node 4 "mosPayload" [] none none [.node 5 "StoryDuration" [] (some "10") none []]]]
  exact ⟨[a, a], [(1, 0), (1, 10000000)], by rfl, by decide⟩

end Mrm
