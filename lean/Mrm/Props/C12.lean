/-
  Property C12 — well-formed input fails only with the library's own exceptions (merge step).
  Classification totality is in Props/C08.lean; the history form in Props/C09.lean.
-/
import Mrm.Proofs.NoCrash
import Mrm.Proofs.Rc
import Mrm.Props.C05
import Mrm.Proofs.NoCompleted

namespace Mrm

theorem wfRO_unpack {d : Xml} (h : WfRO d = true) : ∃ rc, rcOf d = some rc :=
  Option.isSome_iff_exists.mp h

theorem shaped_unpack {k : Kind} {m : Xml} (h : shaped k m = true) :
    msgIdExc m = none ∧ ∃ base, m.find k.baseTag = some base := by
  unfold shaped at h
  simp only [Bool.and_eq_true, Option.isNone_iff_eq_none] at h
  refine ⟨h.1, ?_⟩
  cases hb : m.find k.baseTag with
  | none => simp [hb] at h
  | some base => exact ⟨base, rfl⟩

/-- the merges on the `roCreate` children never produce a built-in exception on a well-formed
    running order and a schema-shaped message -/
theorem nx_mergeRc (k : Kind) (rc base m : Xml)
    (hb : m.find k.baseTag = some base) (hs : shaped k m = true) :
    NX (mergeRc k rc base none) := by
  unfold shaped at hs
  simp only [hb, Bool.and_eq_true] at hs
  have hs2 := hs.2
  cases k <;> simp only [mergeRc]
  case StorySend =>
    simp only at hs2
    cases hbody : base.find "storyBody" with
    | none => simp [hbody] at hs2
    | some body =>
      have : ∃ i, findChildAny base.kids "storyBody" = some i ∧ ∃ b, base.kids[i]? = some b := by
        unfold Xml.find at hbody
        have hmem := List.mem_of_find?_eq_some hbody
        have hp := List.find?_some hbody
        cases hfi : findChildAny base.kids "storyBody" with
        | none =>
          unfold findChildAny at hfi
          rw [List.findIdx?_eq_none_iff] at hfi
          have := hfi body hmem
          simp [hp] at this
        | some i =>
          refine ⟨i, rfl, ?_⟩
          unfold findChildAny at hfi
          rw [List.findIdx?_eq_some_iff_getElem] at hfi
          obtain ⟨hlt, _, _⟩ := hfi
          exact ⟨base.kids[i], by simp [hlt]⟩
      obtain ⟨i, hfi, b, hget⟩ := this
      simp only [convertStorySend, hfi, hget]
      rw [findChildId_ok "story" rc.kids _]
      split
      · rename_i heq; cases heq
      · exact nx_ok _ _
      · exact nx_ok _ _
  case MetaDataReplace => exact nx_ok _ _
  case StoryAppend => exact nx_ok _ _
  case StoryDelete => exact nx_deleteLoop _ _ _ _ _
  case ItemDelete => exact nx_inStory _ _ _ (fun items => nx_deleteLoop _ _ _ _ _)
  case StoryInsert =>
    split
    · rename_i e h; exact nx_of_merge (findRequired_err h)
    · exact nx_insertDedup _ _ _ _ _
  case ItemInsert => exact nx_inStory _ _ _ (fun items => nx_insertBefore _ _ _ _)
  case StoryMove =>
    split
    · exact nx_raise _ _
    · split
      · rename_i e h; exact nx_of_merge (findTarget_err h)
      · split
        · rename_i e h; exact nx_of_merge (findRequired_err h)
        · split <;> exact nx_ok _ _
  case ItemMoveMultiple =>
    split
    · exact nx_raise _ _
    · apply nx_inStory _ _ _
      intro items
      simp only at hs2
      cases hl : (idTexts base "itemID").getLast? with
      | none =>
        exfalso
        rw [List.getLast?_eq_none_iff] at hl
        simp [idTexts] at hl
        simp [hl] at hs2
      | some t => exact nx_moveMany _ _ _ _
  case StoryReplace =>
    split
    · rename_i e h; exact nx_of_merge (findRequired_err h)
    · split
      · exact nx_raise _ _
      · exact nx_ok _ _
  case ItemReplace =>
    apply nx_inStory _ _ _
    intro items
    split
    · rename_i e h; exact nx_of_merge (findRequired_err h)
    · exact nx_ok _ _
  case ReadyToAir => exact nx_ok _ _
  case EAStoryReplace =>
    split
    · rename_i e h; exact nx_of_merge (findRequired_err h)
    · exact nx_ok _ _
  case EAItemReplace =>
    apply nx_inStory _ _ _
    intro items
    split
    · rename_i e h; exact nx_of_merge (findRequired_err h)
    · exact nx_ok _ _
  case EAStoryDelete => exact nx_deleteLoop _ _ _ _ _
  case EAItemDelete =>
    rw [findChildId_ok "story" rc.kids _]
    cases hl : locate "story" rc.kids (elemId (base.find "element_target") "storyID") with
    | none => exact nx_ok _ _
    | some k =>
      obtain ⟨key, _, hk, hc, _⟩ := locate_some hl
      apply nx_inStoryAt _ _ _ hk
      apply nx_deleteLoop
  case EAStoryInsert =>
    split
    · rename_i e h; exact nx_of_merge (findTarget_err h)
    · exact nx_insertDedup _ _ _ _ _
  case EAItemInsert => exact nx_inStory _ _ _ (fun items => nx_insertBefore _ _ _ _)
  case EAStorySwap =>
    simp only at hs2
    cases hsrc : base.find "element_source" with
    | none => simp [hsrc] at hs2
    | some src =>
      simp only [hsrc, Option.map_some, Option.getD_some, beq_iff_eq] at hs2 ⊢
      exact nx_swapTwo _ _ _ (by simpa [idTexts] using hs2)
  case EAItemSwap =>
    apply nx_inStory _ _ _
    intro items
    simp only at hs2
    cases hsrc : base.find "element_source" with
    | none => simp [hsrc] at hs2
    | some src =>
      simp only [hsrc, Option.map_some, Option.getD_some, beq_iff_eq] at hs2 ⊢
      exact nx_swapTwo _ _ _ (by simpa [idTexts] using hs2)
  case EAStoryMove => exact nx_moveMany _ _ _ _
  case EAItemMove => exact nx_inStory _ _ _ (fun items => nx_moveMany _ _ _ _)
  case RunningOrder => exact nx_ok _ _
  case RunningOrderReplace => exact nx_ok _ _
  case RunningOrderEnd => exact nx_ok _ _

/-- C12 (merge step): adding a schema-shaped message of any of the 24 mergeable classes — IDs blank,
    unknown, repeated or self-referential — to any well-formed running order (stories with or without
    timing metadata, readable or not: story inserts no longer evaluate it) either succeeds or raises a mosromgr exception:
    the outcome is never a built-in exception. -/
theorem C12_add (i : MergeInput) (h : DomC12 i = true) : holdsC12 i (addK i.k i.d i.m) = true := by
  unfold DomC12 at h
  simp only [Bool.and_eq_true] at h
  obtain ⟨hwf, hsh⟩ := h
  obtain ⟨rc, hrc⟩ := wfRO_unpack hwf
  obtain ⟨hmid, base, hb⟩ := shaped_unpack hsh
  unfold holdsC12
  by_cases hc : completed i.d = true
  · simp [addK, hc]
  · have hc' : completed i.d = false := by simpa using hc
    by_cases hk : i.k.editsRc = true
    · rw [addK_editsRc i.k i.d i.m rc base hk hc' hrc hb, hmid]
      have := nx_mergeRc i.k rc base i.m hb hsh
      split
      · rename_i x hx; exact absurd hx (this x)
      · rfl
    · obtain ⟨j, hj, hget⟩ := rcIndex_of_rcOf hrc
      have hk' : i.k = .RunningOrder ∨ i.k = .RunningOrderReplace ∨ i.k = .RunningOrderEnd := by
        cases hkk : i.k <;> simp [hkk, Kind.editsRc] at hk ⊢
      rcases hk' with hk' | hk' | hk'
      · -- a roCreate is not a mergeable message: excluded by `shaped`
        exfalso
        rw [hk'] at hb
        unfold shaped at hsh
        rw [hk'] at hsh
        simp [hb] at hsh
      · rw [hk'] at hb
        rw [hk']
        simp [addK, hc', merge, hb, findChildAny_eq_rcIndex, hj]
      · rw [hk'] at hb
        rw [hk']
        simp [addK, hc', merge, hb]

/-- C05 at full strength: on a well-formed running order and a schema-shaped message, if the
    addition raises at all — by C12 it can only be a MosMergeError — the running order is unchanged;
    this includes self-contradictory messages (swapping an element with itself does not even raise). -/
theorem C05_any_exception (i : MergeInput) (h : DomC12 i = true) :
    holdsC05any i (addK i.k i.d i.m) = true := by
  unfold holdsC05any
  have h12 := C12_add i h
  unfold holdsC12 at h12
  cases he : (addK i.k i.d i.m).err with
  | none => rfl
  | some e =>
    simp only
    cases e with
    | crash x => simp [he] at h12
    | merge => simpa using C05_step_kind i.k i.d i.m _ he rfl
    | completed => simpa using C05_step_kind i.k i.d i.m _ he rfl
    | unknownType =>
      -- merges never produce this class: only classification does
      exfalso
      unfold addK at he
      split at he
      · simp at he
      · exact absurd he (merge_err_ne_unknown _ _ _)
    | invalidCollection =>
      exfalso
      unfold addK at he
      split at he
      · simp at he
      · exact absurd he (merge_err_ne_invalid _ _ _)

/-- non-vacuity: a shaped, self-referential message (swap of a story with itself) on a well-formed
    running order whose stories have no timing metadata is inside the domain -/
def exC12d : Xml := .node "mos" [] none none [.node "roCreate" [] none none
  [.node "story" [] none none [.node "storyID" [] (some "A") none []]]]
def exC12m : Xml := .node "mos" [] none none [.node "messageID" [] (some "7") none [],
  .node "roElementAction" [("operation", "SWAP")] none none
    [.node "element_source" [] none none
      [.node "storyID" [] (some "A") none [], .node "storyID" [] (some "A") none []]]]

example : (match classify exC12m with | .ok .EAStorySwap => true | _ => false) = true ∧
    DomC12 ⟨exC12d, exC12m, .EAStorySwap⟩ = true ∧ (add exC12d exC12m).err = none := by decide

/-- non-vacuity: a running order whose story duration is "nan" is inside the domain (`float("nan")`
    returns; evaluating `ro.stories` raises nothing) -/
example : storiesExc (Xml.node "roCreate" [] none none [Xml.node "story" [] none none
    [Xml.node "storyID" [] (some "S") none [], Xml.node "mosExternalMetadata" [] none none
      [Xml.node "mosPayload" [] none none [Xml.node "TextTime" [] (some "nan") none []]]]]) = none := by decide

example : pyFloatAccepts "-inf" = true := by decide
example : pyFloatAccepts " 1_000.5e-3 " = true := by decide
example : pyFloatAccepts "1__0" = false := by decide
example : pyFloatAccepts "0x10" = false := by decide
example : pyFloatAccepts "1\x1f" = false := by decide

end Mrm

/-! ### C12 along histories -/
