/-
  Property C02 — item order inside the addressed story follows the MOS protocol.
-/
import Mrm.Proofs.Order

namespace Mrm

/-- C02: the item-ID sequence of the addressed story (the first story whose ID is the message's
    story reference) after an item-level merge is the protocol's; item IDs need to be unique only
    inside that story. -/
theorem C02_order (i : MergeInput) (h : DomOrder i = true) (hs : i.k.isItemLevel = true) :
    holdsOrder i (addK i.k i.d i.m) = true :=
  order_item i h hs

/-- moves and swaps never add or lose an item, nor touch the multiset of children of any story,
    for EVERY input -/
theorem C02_perm (i : MergeInput) (_hs : i.k.isItemLevel = true) :
    holdsPerm i (addK i.k i.d i.m) = true :=
  perm_any i

end Mrm
