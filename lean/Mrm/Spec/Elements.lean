/-
  Mrm/Spec/Elements.lean — C20: the exposed targets and sources are exactly what the message names.
-/
import Mrm.Model.Elements
import Mrm.Spec.Merge

namespace Mrm

/-- the ID an accessor reports: `none` for an absent object and for an object whose id is None -/
def Exp.reported : Exp → Option String
  | .one k => k
  | .absent => none
  | .many _ => none

def lookupExp (ex : List (String × Exp)) (name : String) : Option Exp :=
  (ex.find? (fun p => p.1 == name)).map (·.2)

/-- the IDs the list-valued accessor of class `k` must expose, in message order -/
def specMany (k : Kind) (nm : Named) : List Key :=
  match k.group with
  | .delete | .move | .swap => nm.sources
  | _ => nm.carried.map (keyOf (levelTag k))

/-- the target reference as reported: END / blank ↦ None -/
def flatTarget (nm : Named) : Key := nm.target.bind id

/-- C20 on the accessor values `ex` of a message of class `k` -/
def holdsC20 (k : Kind) (base : Xml) (ex : List (String × Exp)) : Bool :=
  let nm := namedOf k base
  ex.all fun (name, v) =>
    match name, v with
    | "stories", .many ids => ids == specMany k nm
    | "items", .many ids => ids == specMany k nm
    | "source_stories", .many ids => ids == specMany k nm
    | "story", v => !(match v with | .many _ => true | _ => false) &&
        v.reported == (if k.isItemLevel then nm.story else flatTarget nm)
    | "item", v => !(match v with | .many _ => true | _ => false) && v.reported == flatTarget nm
    | "target_story", v => !(match v with | .many _ => true | _ => false) && v.reported == flatTarget nm
    | "source_story", v =>
        (match nm.sources, v with
         | [], .absent => true
         | s :: _, .one k' => k' == s
         | _, _ => false)
    | _, _ => false

/-- the IDs `inspect()` must mention: every named source and every carried element's ID;
    for a running-order document, every story of the running order -/
def mentionIds (k : Kind) (base : Xml) : List Key :=
  if k == .RunningOrder then (base.findall "story").map (keyOf "story") else
  let nm := namedOf k base
  nm.sources ++ nm.carried.map (keyOf (levelTag k))

/-- shaped, plus the roID that `RunningOrderEnd.inspect` prints; for a running-order document, the
    `roSlug` that `RunningOrder.inspect` dereferences (`self.base_tag.find('roSlug').text`) -/
def shapedInspect (k : Kind) (m : Xml) : Bool :=
  if k == .RunningOrder then ((m.find "roCreate").bind (·.find "roSlug")).isSome else
  shaped k m &&
  (k != .RunningOrderEnd || ((m.find "roDelete").bind (·.find "roID")).isSome)

end Mrm
