/-
  Mrm/Spec/Merge.lean — declarative statements of the merge properties (C01–C07, C12),
  written against the *documents* (running order before, message, outcome), with no reference to
  the merge model.  Each `HoldsCxx` is a decidable proposition: the driver evaluates it on the
  outcome observed from the real implementation, the theorems in `Mrm/Props` prove it of the model.
-/
import Mrm.Model.Basic
import Mrm.Model.Classify
import Mrm.Model.Timing

namespace Mrm

/-- an ID as read from the document: `none` is a blank ID tag -/
abbrev Key := Option String

/-! ### Reading the documents -/

/-- the running order's `roCreate` -/
def rcOf (d : Xml) : Option Xml := d.find "roCreate"

/-- ID of a `<story>`/`<item>` element: text of its first ID tag (`none` if blank or absent) -/
def keyOf (tag : String) (c : Xml) : Key := Xml.childText (some c) (tag ++ "ID")

/-- IDs of the children with the given tag, in document order -/
def keysOf (tag : String) (cs : List Xml) : List Key :=
  (cs.filter (fun c => c.tag == tag)).map (keyOf tag)

def storyIds (d : Xml) : List Key := match rcOf d with | some rc => keysOf "story" rc.kids | none => []

/-- every child with the tag has its ID tag (the MOS schema's required tag; it is what
    `find_child` dereferences) -/
def WfKids (tag : String) (cs : List Xml) : Bool :=
  cs.all (fun c => c.tag != tag || (c.find (tag ++ "ID")).isSome)

/-- a running order: has a `roCreate` (nothing is assumed of its stories and items: `find_child`
    skips a child without its ID tag, and listing the stories does not read the IDs) -/
def WfRO (d : Xml) : Bool := (rcOf d).isSome

/-- timing metadata, where present, is numeric / parseable: evaluating `ro.stories` cannot fail.  No merge
    depends on it since 04c82e2 (story inserts no longer list `ro.stories`); implied by `HistInv` (`histInv_dom`). -/
def TimingOk (d : Xml) : Bool :=
  match rcOf d with
  | none => false
  | some rc => (storiesExc rc).isNone

/-- the first story with the given ID (the story an item-level message addresses) -/
def addressed (cs : List Xml) (sid : Key) : Option Nat :=
  match sid with
  | none => none
  | some _ => cs.findIdx? (fun c => c.tag == "story" && keyOf "story" c == sid)

/-! ### What a message names (read directly from the message text, Appendix A of DESIGN.md) -/

structure Named where
  /-- item-level classes: the story reference -/
  story : Key := none
  /-- the target reference; `none` = "at the end" (blank or absent where the protocol allows it) -/
  target : Option Key := none
  /-- named source IDs (moves, deletes, swaps), in message order -/
  sources : List Key := []
  /-- carried stories / items, in message order -/
  carried : List Xml := []
deriving Repr

def Kind.isStoryLevel : Kind → Bool
  | .StorySend | .StoryAppend | .StoryDelete | .StoryInsert | .StoryMove | .StoryReplace
  | .EAStoryReplace | .EAStoryDelete | .EAStoryInsert | .EAStorySwap | .EAStoryMove => true
  | _ => false

def Kind.isItemLevel : Kind → Bool
  | .ItemDelete | .ItemInsert | .ItemMoveMultiple | .ItemReplace
  | .EAItemReplace | .EAItemDelete | .EAItemInsert | .EAItemSwap | .EAItemMove => true
  | _ => false

def Kind.isMoveOrSwap : Kind → Bool
  | .StoryMove | .ItemMoveMultiple | .EAStorySwap | .EAItemSwap | .EAStoryMove | .EAItemMove => true
  | _ => false

/-- blank or absent ⇒ END -/
def endIfBlank (k : Key) : Option Key := match k with | none => none | some s => some (some s)

def textsOf (x : Option Xml) (t : String) : List Key :=
  match x with | none => [] | some x => (x.findall t).map (·.text)

def elemsOf (x : Option Xml) (t : String) : List Xml :=
  match x with | none => [] | some x => x.findall t

/-- all IDs of all `element_source` tags -/
def allSourceIds (base : Xml) (t : String) : List Key :=
  (base.findall "element_source").flatMap (fun s => (s.findall t).map (·.text))

/-- the elements named by a message of class `k` whose message element is `base` -/
def namedOf (k : Kind) (base : Xml) : Named :=
  let tgt := base.find "element_target"
  let src := base.find "element_source"
  let b := some base
  match k with
  | .StorySend => { target := some (Xml.childText b "storyID") }
  | .StoryAppend => { carried := base.findall "story" }
  | .StoryDelete => { sources := textsOf b "storyID" }
  | .StoryInsert => { target := some (Xml.childText b "storyID"), carried := base.findall "story" }
  | .StoryReplace => { target := some (Xml.childText b "storyID"), carried := base.findall "story" }
  | .StoryMove =>
    { sources := (textsOf b "storyID").take 1,
      target := match (textsOf b "storyID").drop 1 with | [] => none | t :: _ => endIfBlank t }
  | .ItemDelete => { story := Xml.childText b "storyID", sources := textsOf b "itemID" }
  | .ItemInsert => { story := Xml.childText b "storyID", target := endIfBlank (Xml.childText b "itemID"),
                     carried := base.findall "item" }
  | .ItemReplace => { story := Xml.childText b "storyID", target := some (Xml.childText b "itemID"),
                      carried := base.findall "item" }
  | .ItemMoveMultiple =>
    { story := Xml.childText b "storyID", sources := (textsOf b "itemID").dropLast,
      target := match (textsOf b "itemID").getLast? with | none => none | some t => endIfBlank t }
  | .EAStoryReplace => { target := some (Xml.childText tgt "storyID"), carried := elemsOf src "story" }
  | .EAItemReplace => { story := Xml.childText tgt "storyID", target := some (Xml.childText tgt "itemID"),
                        carried := elemsOf src "item" }
  | .EAStoryDelete => { sources := allSourceIds base "storyID" }
  | .EAItemDelete => { story := Xml.childText tgt "storyID", sources := allSourceIds base "itemID" }
  | .EAStoryInsert => { target := endIfBlank (Xml.childText tgt "storyID"), carried := elemsOf src "story" }
  | .EAItemInsert => { story := Xml.childText tgt "storyID", target := endIfBlank (Xml.childText tgt "itemID"),
                       carried := elemsOf src "item" }
  | .EAStorySwap => { sources := textsOf src "storyID" }
  | .EAItemSwap => { story := Xml.childText tgt "storyID", sources := textsOf src "itemID" }
  | .EAStoryMove => { target := endIfBlank (Xml.childText tgt "storyID"), sources := allSourceIds base "storyID" }
  | .EAItemMove => { story := Xml.childText tgt "storyID", target := endIfBlank (Xml.childText tgt "itemID"),
                     sources := textsOf src "itemID" }
  | _ => {}

/-! ### The protocol on ID sequences -/

/-- `ns` immediately before `t`, or at the end -/
def insBefore (t : Option Key) (ns ids : List Key) : List Key :=
  match t with
  | none => ids ++ ns
  | some t =>
    match ids.idxOf? t with
    | some i => ids.take i ++ ns ++ ids.drop i
    | none => ids ++ ns

/-- `ns` in the place of `t` -/
def replaceKey (t : Key) (ns ids : List Key) : List Key :=
  match ids.idxOf? t with
  | some i => ids.take i ++ ns ++ ids.drop (i+1)
  | none => ids

/-- `a` and `b` exchange positions -/
def swapKeys (a b : Key) (ids : List Key) : List Key :=
  ids.map (fun x => if x = a then b else if x = b then a else x)

/-- the operation classes share one protocol per group -/
inductive Group where
  | append | insert | replace | move | delete | send | swap | none
deriving DecidableEq, Repr

def Kind.group : Kind → Group
  | .StoryAppend => .append
  | .StoryInsert | .EAStoryInsert | .ItemInsert | .EAItemInsert => .insert
  | .StoryReplace | .EAStoryReplace | .ItemReplace | .EAItemReplace => .replace
  | .StoryMove | .EAStoryMove | .ItemMoveMultiple | .EAItemMove => .move
  | .StoryDelete | .EAStoryDelete | .ItemDelete | .EAItemDelete => .delete
  | .StorySend => .send
  | .EAStorySwap | .EAItemSwap => .swap
  | _ => .none

/-- does an insert skip carried elements whose ID is already present? (stories only) -/
def Kind.dedups : Kind → Bool
  | .StoryInsert | .EAStoryInsert => true
  | _ => false

/-- the protocol's ID sequence after the merge -/
def specIds (k : Kind) (tag : String) (nm : Named) (ids : List Key) : List Key :=
  let cids := nm.carried.map (keyOf tag)
  match k.group with
  | .append => ids ++ cids
  | .insert =>
    insBefore nm.target (if k.dedups then cids.filter (fun c => !ids.contains c) else cids) ids
  | .replace => match nm.target with | some t => replaceKey t cids ids | none => ids
  | .move => insBefore nm.target nm.sources (ids.filter (fun x => !nm.sources.contains x))
  -- a blank reference names nothing: only present IDs that are named go
  | .delete => ids.filter (fun x => !(x.isSome && nm.sources.contains x))
  | .send => ids
  | .swap => match nm.sources with | [a, b] => swapKeys a b ids | _ => ids
  | .none => ids

/-- every reference resolves (the hypothesis of C01/C02), on the ID sequence of the container -/
def resolves (k : Kind) (nm : Named) (ids : List Key) : Bool :=
  let tgtOk := match nm.target with | none => true | some t => t.isSome && ids.contains t
  match k.group with
  | .append => true
  | .insert => tgtOk
  | .replace => (match nm.target with | none => false | some t => t.isSome && ids.contains t) &&
                (k != .StoryReplace || !nm.carried.isEmpty)
  | .move => tgtOk && nm.sources.all (fun s => s.isSome && ids.contains s) &&
             decide nm.sources.Nodup &&
             (match nm.target with | none => true | some t => !nm.sources.contains t) &&
             (k != .StoryMove || nm.sources.length == 1)
  | .delete => true
  | .send => true
  | .swap => nm.sources.length == 2 && nm.sources.all (fun s => s.isSome && ids.contains s)
  | .none => true

/-! ### Shape of a message (required tags present) -/

/-- the tags a message of class `k` must carry for the merge code to read it -/
def shaped (k : Kind) (m : Xml) : Bool :=
  (msgIdExc m).isNone &&
  match m.find k.baseTag with
  | none => false
  | some base =>
    match k with
    | .StorySend =>
      -- the storyBody exists and (as the MOS schema says) holds no storyID of its own, so that the
      -- converted story's ID is the roStorySend's storyID
      (match base.find "storyBody" with | some b => (b.find "storyID").isNone | none => false)
    | .ItemMoveMultiple => !(base.findall "itemID").isEmpty
    | .EAStorySwap => ((base.find "element_source").map (fun s => (s.findall "storyID").length == 2)).getD false
    | .EAItemSwap => ((base.find "element_source").map (fun s => (s.findall "itemID").length == 2)).getD false
    | .RunningOrder => false
    | _ => true

/-! ### C01 / C02 — order of stories / items -/

structure MergeInput where
  d : Xml
  m : Xml
  k : Kind

/-- the container a class edits and its ID tag: the `roCreate` children (stories) or the
    addressed story's children (items) -/
def containerIds (k : Kind) (nm : Named) (d : Xml) : Option (List Key) :=
  match rcOf d with
  | none => none
  | some rc =>
    if k.isStoryLevel then some (keysOf "story" rc.kids)
    else match addressed rc.kids nm.story with
      | none => none
      | some i => (rc.kids[i]?).map (fun s => keysOf "item" s.kids)

def levelTag (k : Kind) : String := if k.isStoryLevel then "story" else "item"

/-- domain of C01 (story-level) and C02 (item-level): well-formed running order, the PRESENT IDs of
    the edited container unique (blank or missing IDs — key `none` — may occur any number of times:
    no reference resolves to them), schema-shaped message, references resolve -/
def DomOrder (i : MergeInput) : Bool :=
  WfRO i.d && !completed i.d && shaped i.k i.m && (i.k.isStoryLevel || i.k.isItemLevel) &&
  match i.m.find i.k.baseTag with
  | none => false
  | some base =>
    let nm := namedOf i.k base
    match containerIds i.k nm i.d with
    | none => false
    | some ids => decide (ids.filter (·.isSome)).Nodup && resolves i.k nm ids

/-- C01/C02: no error, and the ID sequence of the edited container is the protocol's -/
def holdsOrder (i : MergeInput) (o : Res) : Bool :=
  match i.m.find i.k.baseTag with
  | none => false
  | some base =>
    let nm := namedOf i.k base
    match containerIds i.k nm i.d, containerIds i.k nm o.ro with
    | some ids, some ids' => o.err == none && ids' == specIds i.k (levelTag i.k) nm ids
    | _, _ => false

/-- "moves and swaps never add or lose a story/item, whatever the input": the children of the
    `roCreate` (story level), or of each of its children position by position (item level), are a
    permutation of what they were -/
def holdsPerm (i : MergeInput) (o : Res) : Bool :=
  !i.k.isMoveOrSwap ||
  match rcOf i.d, rcOf o.ro with
  | some rc, some rc' =>
    if i.k.isStoryLevel then rc'.kids.isPerm rc.kids
    else rc'.kids.length == rc.kids.length &&
         (rc.kids.zip rc'.kids).all (fun p => p.2.kids.isPerm p.1.kids)
  | none, none => true
  | _, _ => false

/-! ### C05 — a raising merge leaves the running order unchanged -/

def holdsC05 (i : MergeInput) (o : Res) : Bool :=
  match o.err with
  | some e => !e.isMergeError || o.ro == i.d
  | none => true

/-! ### C07 — completion (one step) -/

def holdsC07 (i : MergeInput) (o : Res) : Bool :=
  if completed i.d then o == ⟨i.d, [], some .completed⟩
  else if i.k == .RunningOrderEnd then
    match i.m.find "roDelete" with
    | none => false
    | some base =>
      o.err == none && o.warns == [] && completed o.ro &&
      o.ro == i.d.withKids (i.d.kids ++ [.node "mosromgrmeta" [] none none [base]])
  else o.err != some .completed && !completed o.ro

/-! ### C12 — no built-in exception on well-formed input -/

def DomC12 (i : MergeInput) : Bool :=
  WfRO i.d && shaped i.k i.m

def holdsC12 (_ : MergeInput) (o : Res) : Bool :=
  match o.err with
  | some (.crash _) => false
  | _ => true

end Mrm
