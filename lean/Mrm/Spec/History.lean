/-
  Mrm/Spec/History.lean — the invariant that makes C12 compose along merge histories:
  a running order that is well-formed and whose timing metadata is readable, and messages whose
  carried payload keeps it so.
-/
import Mrm.Spec.Merge

namespace Mrm

/-- a `<story>` with a storyID, whose items have itemIDs and whose duration fields are numeric -/
def storyOk (s : Xml) : Bool :=
  (s.find "storyID").isSome && WfKids "item" s.kids &&
  (match storyDuration s with | .ok _ => true | .error _ => false)

/-- children of a `roCreate`: every story is `storyOk` and `roEdStart`, when present and non-blank,
    parses -/
def rcOk (cs : List Xml) : Bool :=
  cs.all (fun c => c.tag != "story" || storyOk c) &&
  (match Xml.childText (some (Xml.node "roCreate" [] none none cs)) "roEdStart" with
   | none => true
   | some t => (parseTime t).isSome)

/-- the history invariant: a `roCreate` exists and its children are `rcOk` -/
def HistInv (d : Xml) : Bool :=
  match rcOf d with
  | none => false
  | some rc => rcOk rc.kids

/-- the payload a message of class `k` carries keeps the invariant -/
def payloadOk (k : Kind) (m : Xml) : Bool :=
  match m.find k.baseTag with
  | none => false
  | some base =>
    let src := base.find "element_source"
    match k with
    | .StorySend =>
      -- the converted story: a storyID among the direct children, storyItem children of the body
      -- (renamed item) and direct item children with itemIDs, readable durations
      (match base.find "storyBody" with
       | none => false
       | some body =>
         (base.find "storyID").isSome &&
         body.kids.all (fun c => (c.tag != "storyItem" && c.tag != "item") || (c.find "itemID").isSome) &&
         base.kids.all (fun c => c.tag != "item" || (c.find "itemID").isSome) &&
         (match storyDuration base with | .ok _ => true | .error _ => false) &&
         -- the body carries no metadata block that would shadow the story's own first block
         (body.find "mosExternalMetadata").isNone)
    | .StoryAppend | .StoryInsert | .StoryReplace => (base.findall "story").all storyOk
    | .EAStoryReplace | .EAStoryInsert => (elemsOf src "story").all storyOk
    | .ItemInsert | .ItemReplace => (base.findall "item").all (fun c => (c.find "itemID").isSome)
    | .EAItemReplace | .EAItemInsert => (elemsOf src "item").all (fun c => (c.find "itemID").isSome)
    | .RunningOrderReplace => rcOk base.kids
    | .MetaDataReplace =>
      base.kids.all (fun c => (c.tag != "story" || storyOk c) &&
        (c.tag != "roEdStart" || (match c.text with | none => true | some t => (parseTime t).isSome)))
    | _ => true

end Mrm
