/-
  Mrm/Spec/Collection.lean — executable form of the acceptance specification of C11.
-/
import Mrm.Model.Collection

namespace Mrm

/-- one running-order ID, exactly one roCreate, at most one roDelete, exactly one unless
    incompleteness is allowed (Boolean form of `describesOne` in Props/C11.lean) -/
def describesOneB (rs : List Reader) (allow : Bool) : Bool :=
  !rs.isEmpty && rs.all (fun a => rs.all (fun b => a.roId == b.roId)) &&
  (rs.filter (fun r => r.kind == .RunningOrder)).length == 1 &&
  decide ((rs.filter (fun r => r.kind == .RunningOrderEnd)).length ≤ 1) &&
  (allow || (rs.filter (fun r => r.kind == .RunningOrderEnd)).length == 1)

end Mrm
