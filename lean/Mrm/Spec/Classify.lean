/-
  Mrm/Spec/Classify.lean — C08: what classification may depend on, stated on the document.
-/
import Mrm.Model.Classify

namespace Mrm

/-- the 16 message-element names -/
def msgTags : List String :=
  ["roCreate", "roStorySend", "roStoryAppend", "roStoryDelete", "roStoryInsert", "roStoryMove",
   "roStoryReplace", "roItemDelete", "roItemInsert", "roItemMoveMultiple", "roItemReplace", "roReplace",
   "roMetadataReplace", "roReadyToAir", "roDelete", "roElementAction"]

/-- the direct children of the root that are message elements, in document order: the ONLY part of
    a document classification may look at -/
def msgElems (d : Xml) : List Xml := d.kids.filter (fun c => msgTags.contains c.tag)

/-- the class named by a message-element tag (`none` = roElementAction: decided by its shape) -/
def kindOfTag : String → Option (Option Kind)
  | "roCreate" => some (some .RunningOrder) | "roStorySend" => some (some .StorySend)
  | "roStoryAppend" => some (some .StoryAppend) | "roStoryDelete" => some (some .StoryDelete)
  | "roStoryInsert" => some (some .StoryInsert) | "roStoryMove" => some (some .StoryMove)
  | "roStoryReplace" => some (some .StoryReplace) | "roItemDelete" => some (some .ItemDelete)
  | "roItemInsert" => some (some .ItemInsert) | "roItemMoveMultiple" => some (some .ItemMoveMultiple)
  | "roItemReplace" => some (some .ItemReplace) | "roReplace" => some (some .RunningOrderReplace)
  | "roMetadataReplace" => some (some .MetaDataReplace) | "roReadyToAir" => some (some .ReadyToAir)
  | "roDelete" => some (some .RunningOrderEnd) | "roElementAction" => some none
  | _ => none

/-- the roElementAction table, written out: (operation, target carries an itemID, source carries an
    itemID) ↦ class -/
def specEA (op : String) (targetItem sourceItem : Bool) : Option Kind :=
  match op, targetItem, sourceItem with
  | "REPLACE", false, false => some .EAStoryReplace
  | "REPLACE", true, false => some .EAItemReplace
  | "DELETE", false, false => some .EAStoryDelete
  | "DELETE", false, true => some .EAItemDelete
  | "INSERT", false, false => some .EAStoryInsert
  | "INSERT", true, false => some .EAItemInsert
  | "SWAP", false, false => some .EAStorySwap
  | "SWAP", false, true => some .EAItemSwap
  | "MOVE", false, false => some .EAStoryMove
  | "MOVE", true, true => some .EAItemMove
  | _, _, _ => none

/-- what the class of a roElementAction may depend on: the operation attribute, whether the first
    element_target has an itemID child, whether there is an element_source and whether the first one
    has an itemID child -/
def eaShape (ea : Xml) : Option String × Bool × Option Bool :=
  (ea.attr "operation",
   (match ea.find "element_target" with | none => false | some t => !(t.findall "itemID").isEmpty),
   (ea.find "element_source").map (fun s => !(s.findall "itemID").isEmpty))

def specClassifyEA (ea : Xml) : Except Err Kind :=
  match eaShape ea with
  | (some op, t, some s) => match specEA op t s with | some k => .ok k | none => .error .unknownType
  | _ => .error .unknownType

/-- the class decided by one message element alone -/
def kindOfElem (e : Xml) : Except Err Kind :=
  match kindOfTag e.tag with
  | some (some k) => .ok k
  | some none => specClassifyEA e
  | none => .error .unknownType

/-- the specification of classification: among the message elements present, the one whose tag comes
    first in the fixed table order decides (documents with several message elements are not MOS, but
    the outcome is still determined by `msgElems d` alone) -/
def specClassify (d : Xml) : Except Err Kind :=
  match msgTags.filterMap (fun t => (msgElems d).find? (fun e => e.tag == t)) with
  | [] => .error .unknownType
  | e :: _ => kindOfElem e

end Mrm
