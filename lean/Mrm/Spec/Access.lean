/-
  Mrm/Spec/Access.lean — declarative statements for the read accessors (C15, C16, C17).
-/
import Mrm.Model.Access
import Mrm.Spec.History

namespace Mrm

/-! ### C15 — domain: what "optional data, numeric/parseable where present" means -/

/-- StoryStarted / StoryEnded of a story, where present, are non-blank and parse -/
def storyTimesOk (s : Xml) : Bool :=
  (match payloadTime s "StoryStarted" with | .ok _ => true | .error _ => false) &&
  (match payloadTime s "StoryEnded" with | .ok _ => true | .error _ => false)

/-- the running orders the accessors are documented for: the history invariant (IDs present,
    numeric durations, parseable roEdStart), a roSlug, parseable explicit story times.  Every
    optional datum may be absent. -/
def WfAcc (d : Xml) : Bool :=
  HistInv d &&
  match rcOf d with
  | none => false
  | some rc => (rc.find "roSlug").isSome && rc.kids.all (fun c => c.tag != "story" || storyTimesOk c)

/-- a message keeps `WfAcc`: payload as for the history invariant, carried stories with parseable
    times, a roReplace carrying a roSlug, a roMetadataReplace not … (metadata children are
    replaced by same-tag children, so a roSlug stays) -/
def payloadAccOk (k : Kind) (m : Xml) : Bool :=
  payloadOk k m &&
  match m.find k.baseTag with
  | none => false
  | some base =>
    let src := base.find "element_source"
    match k with
    | .StorySend => storyTimesOk base
    | .StoryAppend | .StoryInsert | .StoryReplace => (base.findall "story").all storyTimesOk
    | .EAStoryReplace | .EAStoryInsert => (elemsOf src "story").all storyTimesOk
    | .RunningOrderReplace =>
      (base.find "roSlug").isSome && base.kids.all (fun c => c.tag != "story" || storyTimesOk c)
    | .MetaDataReplace => base.kids.all (fun c => c.tag != "story" || storyTimesOk c)
    | _ => true

/-! ### C16 — arithmetic -/

/-- the durations of the stories of a `roCreate`, in order (`none` = no duration) -/
def durationsOf (ss : List Xml) : List (Option Nat) :=
  ss.map (fun s => match storyDuration s with | .ok d => d | .error _ => none)

/-- the protocol's duration of one story from its payload fields (in microseconds) -/
def durationSpec (storyDur textTime mediaTime : Option Nat) : Option Nat :=
  match storyDur with
  | some d => some d
  | none =>
    match textTime, mediaTime with
    | none, none => none
    | a, b => some (a.getD 0 + b.getD 0)

/-! ### C17 — script and body -/

/-- paragraphs (as text, empty string when empty) and items, in document order -/
def bodySpec (s : Xml) : List BodyEl :=
  (s.kids.filter (fun c => c.tag == "item" || c.tag == "p")).map
    (fun c => if c.tag == "item" then .item (itemView c) else .text (c.text.getD ""))

/-- the non-empty paragraphs that are not wrapped in round or angle brackets, stripped, in order -/
def scriptSpec (s : Xml) : List String :=
  (((s.findall "p").map (fun p => pyStripL (p.text.getD "").toList)).filter
    (fun u => !u.isEmpty && !isBracketed u)).map String.ofList

end Mrm
