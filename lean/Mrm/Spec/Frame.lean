/-
  Mrm/Spec/Frame.lean — C03 (no collateral edits), C04 (carried payload arrives intact),
  C06 (nothing named is skipped silently), as Boolean predicates over the documents.
-/
import Mrm.Spec.Merge

namespace Mrm

/-! ### C03 — what a message may touch -/

/-- IDs of the children already in the running order that a merge of class `k` may remove, replace
    or move.  Carried elements are recognised by deep equality (`isTouched`), not by their ID: an
    element of the running order that merely shares its ID with a carried one is NOT named. -/
def touchedIds (k : Kind) (_tag : String) (nm : Named) : List Key :=
  let tgt := match nm.target with | some t => [t] | none => []
  match k.group with
  | .append | .insert => []
  | .replace => tgt
  | .move | .delete | .swap => nm.sources
  | .send => tgt
  | .none => []

/-- a child the message names: right tag and either a non-blank ID among the touched IDs, or
    deep-equal to an element the message carries (a carried element may lack an ID) -/
def isTouched (tag : String) (ids : List Key) (carried : List Xml) (c : Xml) : Bool :=
  c.tag == tag && (((keyOf tag c).isSome && ids.contains (keyOf tag c)) || carried.contains c)

/-- everything not named is identical and in the same relative order -/
def frame (tag : String) (ids : List Key) (carried before after : List Xml) : Bool :=
  before.filter (fun c => !isTouched tag ids carried c) == after.filter (fun c => !isTouched tag ids carried c)

/-- index of the running order's `roCreate` among the root's children -/
def rcIndex (d : Xml) : Option Nat := d.kids.findIdx? (fun c => c.tag == "roCreate")

/-- the running order with the children of its `roCreate` replaced -/
def setRcKids (d : Xml) (cs : List Xml) : Xml :=
  match rcIndex d with
  | none => d
  | some i =>
    match d.kids[i]? with
    | none => d
    | some rc => d.withKids (d.kids.set i (rc.withKids cs))

/-- metadata key: the tag, and for `mosExternalMetadata` also the `mosSchema` -/
def sameMdKey (s c : Xml) : Bool :=
  c.tag == s.tag && (s.tag != "mosExternalMetadata" || c.findtext "mosSchema" == s.findtext "mosSchema")

def DomC03 (i : MergeInput) : Bool := WfRO i.d && shaped i.k i.m

/-- C03: outside the `roCreate` nothing changes; inside it (story level) or inside the addressed
    story (item level) everything the message does not name is identical and keeps its order;
    an item-level message leaves every other story identical and in place -/
def holdsC03 (i : MergeInput) (o : Res) : Bool :=
  match i.m.find i.k.baseTag, rcOf i.d with
  | some base, some rc =>
    let nm := namedOf i.k base
    match i.k with
    | .ReadyToAir => o.ro == i.d
    | .RunningOrderEnd => o.ro.kids.take i.d.kids.length == i.d.kids && o.ro.withKids i.d.kids == i.d
    | .RunningOrderReplace =>
      (match rcIndex i.d with
       | some j => o.ro.withKids (o.ro.kids.eraseIdx j) == i.d.withKids (i.d.kids.eraseIdx j)
       | none => false)
    | .MetaDataReplace =>
      (match rcOf o.ro with
       | some rc' =>
         o.ro == setRcKids i.d rc'.kids &&
         rc.kids.filter (fun c => !base.kids.any (fun s => sameMdKey s c)) ==
           rc'.kids.filter (fun c => !base.kids.any (fun s => sameMdKey s c))
       | none => false)
    | .RunningOrder => true
    | _ =>
      match rcOf o.ro with
      | none => false
      | some rc' =>
        o.ro == setRcKids i.d rc'.kids &&
        if i.k.isStoryLevel then
          frame "story" (touchedIds i.k "story" nm) nm.carried rc.kids rc'.kids
        else
          match addressed rc.kids nm.story with
          | none => rc'.kids == rc.kids
          | some j =>
            match rc.kids[j]?, rc'.kids[j]? with
            | some s, some s' =>
              rc'.kids == rc.kids.set j (s.withKids s'.kids) &&
              frame "item" (touchedIds i.k "item" nm) nm.carried s.kids s'.kids
            | _, _ => false
  | _, _ => false

/-! ### C04 — carried payload arrives intact -/

/-- `xs` occurs in `l` as a contiguous block, in order, with deep equality -/
def isInfixB (xs l : List Xml) : Bool :=
  (List.range (l.length + 1)).any (fun j => (l.drop j).take xs.length == xs)

/-- the `<story>` a roStorySend must arrive as: the sent element retagged `story`, with the children
    of its (first) `storyBody` spliced in place of the body, `storyItem` children renamed `item` -/
def convertSpec (base : Xml) : Option Xml :=
  match base.kids.findIdx? (fun c => c.tag == "storyBody") with
  | none => none
  | some j =>
    match base.kids[j]? with
    | none => none
    | some body =>
      some (.node "story" base.attrs base.text base.tail
        (base.kids.take j ++ body.kids.map (fun c => if c.tag == "storyItem" then c.withTag "item" else c)
          ++ base.kids.drop (j+1)))

/-- container children after the merge (the `roCreate` or the addressed story) -/
def containerKids (k : Kind) (nm : Named) (d : Xml) : Option (List Xml) :=
  match rcOf d with
  | none => none
  | some rc =>
    if k.isStoryLevel then some rc.kids
    else match addressed rc.kids nm.story with
      | none => none
      | some j => (rc.kids[j]?).map (·.kids)

def DomC04 (i : MergeInput) : Bool := WfRO i.d && shaped i.k i.m

/-- C04: when the merge succeeds, every carried story/item that is not skipped as a duplicate is in
    the container, contiguous, in message order, deep-equal; roStorySend arrives converted;
    roReplace's content becomes the running order; every carried metadata element is present -/
def holdsC04 (i : MergeInput) (o : Res) : Bool :=
  match i.m.find i.k.baseTag with
  | none => false
  | some base =>
    let nm := namedOf i.k base
    o.err.isSome ||
    match i.k with
    | .StorySend =>
      (match convertSpec base, rcOf o.ro with
       | some st, some rc' => o.warns == [.storyNotFound] || rc'.kids.contains st
       | _, _ => false)
    | .RunningOrderReplace => rcOf o.ro == some (base.withTag "roCreate")
    | .MetaDataReplace =>
      (match rcOf o.ro with
       | some rc' =>
         -- carried keys pairwise distinct ⇒ every carried element is present
         !(base.kids.zipIdx.all (fun p => base.kids.zipIdx.all (fun q => p.2 == q.2 || !sameMdKey p.1 q.1)))
           || base.kids.all (fun c => rc'.kids.contains c)
       | none => false)
    | _ =>
      match i.k.group with
      | .append | .insert | .replace =>
        (match containerIds i.k nm i.d, containerKids i.k nm o.ro with
         | some ids, some cs' =>
           let kept := if i.k.dedups then nm.carried.filter (fun c => !ids.contains (keyOf "story" c))
                       else nm.carried
           isInfixB kept cs'
         | _, _ => false)
      | _ => true

/-! ### C06 — warnings -/

/-- one warning per named ID that cannot be found *at the time it is looked up* (a repeated ID is
    found once) -/
def delWarns (w : Warn) : List Key → List Key → List Warn
  | [], _ => []
  | s :: ss, ids =>
    if s.isSome && ids.contains s then delWarns w ss (ids.erase s)
    else w :: delWarns w ss ids

/-- the warnings the documentation promises for a message that does not raise -/
def expectedWarns (k : Kind) (nm : Named) (d : Xml) : List Warn :=
  match rcOf d with
  | none => []
  | some rc =>
    let sids := keysOf "story" rc.kids
    match k with
    | .StorySend =>
      (match nm.target with
       | some t => if t.isSome && sids.contains t then [] else [.storyNotFound]
       | none => [.storyNotFound])
    | .StoryDelete | .EAStoryDelete => delWarns .storyNotFound nm.sources sids
    | .StoryInsert | .EAStoryInsert =>
      nm.carried.filterMap (fun c => if sids.contains (keyOf "story" c) then some .duplicateStory else none)
    | .ItemDelete | .EAItemDelete =>
      (match addressed rc.kids nm.story with
       | none => [.storyNotFound]        -- EAItemDelete only; roItemDelete raises
       | some j => delWarns .itemNotFound nm.sources (((rc.kids[j]?).map (fun s => keysOf "item" s.kids)).getD []))
    | _ => []

/-- what a delete leaves of an ID sequence: for each named source in message order, a blank
    reference names nothing, a present ID loses its FIRST remaining occurrence (so an ID held by two
    children goes twice only when it is named twice), an unknown ID changes nothing.  On sequences
    whose present IDs are unique this is the filter `specIds` uses (C01/C02). -/
def delKeys (sources ids : List Key) : List Key :=
  sources.foldl (fun acc s => if s.isSome then acc.erase s else acc) ids

/-- the ID sequence C06 promises for the edited container: the protocol's (`specIds`), except that
    deletes are stated occurrence by occurrence so that repeated and blank IDs are covered -/
def c06Ids (k : Kind) (tag : String) (nm : Named) (ids : List Key) : List Key :=
  match k.group with
  | .delete => delKeys nm.sources ids
  | _ => specIds k tag nm ids

/-- domain of C06: a running order (whatever its timing metadata says), a schema-shaped message.  Nothing is asked of
    the IDs of the edited container: they may be blank, missing or repeated. -/
def DomC06 (i : MergeInput) : Bool :=
  WfRO i.d && shaped i.k i.m

/-- C06: the merge raises `MosMergeError`, or it emits exactly the promised warnings and applies
    every other named element -/
def holdsC06 (i : MergeInput) (o : Res) : Bool :=
  match i.m.find i.k.baseTag with
  | none => false
  | some base =>
    let nm := namedOf i.k base
    (match o.err with | some e => e.isMergeError | none => false) ||
    (o.err == none && o.warns == expectedWarns i.k nm i.d &&
      match i.k.group with
      | .delete | .send =>
        (match containerIds i.k nm i.d, containerIds i.k nm o.ro with
         | some ids, some ids' => ids' == c06Ids i.k (levelTag i.k) nm ids
         | none, _ => o.ro == i.d
         | _, _ => false)
      | .insert =>
        (match containerIds i.k nm i.d, containerIds i.k nm o.ro with
         | some ids, some ids' => ids' == c06Ids i.k (levelTag i.k) nm ids
         | _, _ => false)
      | _ => true)

end Mrm
