/-
  Mrm/Spec/AccessHolds.lean — the accessor properties as Boolean predicates over the document and
  an observed view (the implementation's or the model's).
-/
import Mrm.Spec.Access

namespace Mrm

def storiesOfDoc (d : Xml) : List Xml := match rcOf d with | some rc => rc.findall "story" | none => []

/-- a numeric payload field read directly: absent or unreadable → none -/
def fieldOpt (p : Xml) (tag : String) : Option Nat :=
  match p.find tag with
  | none => none
  | some e => match floatOfText e with | .ok v => some v | .error _ => none

/-- the protocol's duration of a story, from its payload fields -/
def specDuration (s : Xml) : Option Nat :=
  match payloadOf s with
  | none => none
  | some p => durationSpec (fieldOpt p "StoryDuration") (fieldOpt p "TextTime") (fieldOpt p "MediaTime")

def specTime (s : Xml) (tag : String) : Option Nat :=
  match (payloadOf s).bind (·.find tag) with
  | none => none
  | some e => e.text.bind parseTime

def prefixSums (ds : List (Option Nat)) : List Nat :=
  (List.range ds.length).map (fun k => ((ds.take k).map (·.getD 0)).sum)

/-- the note of an item, read from the document: the `text` child of the first element - in document
    order, at any depth under the item's first `mosExternalMetadata/mosPayload` - that is a
    `studioCommand` with `type="note"`; no payload, no such element or no `text` child: none -/
def noteSpec (it : Xml) : Option String :=
  match payloadOf it with
  | none => none
  | some p =>
    match p.descendants.find? (fun c => c.tag == "studioCommand" && c.attr "type" == some "note") with
    | none => none
    | some n => Xml.childText (some n) "text"

/-- C15: stories and items in document order with the IDs and slugs of the XML -/
def holdsC15 (d : Xml) (v : RoView) : Bool :=
  let ss := storiesOfDoc d
  v.stories.map (fun s => (s.id, s.slug)) ==
    ss.map (fun s => (Xml.childText (some s) "storyID", Xml.childText (some s) "storySlug")) &&
  v.stories.map (fun s => s.items.map (fun it => (it.id, it.slug, it.type, it.objectId, it.mosId))) ==
    ss.map (fun s => (s.findall "item").map (fun it =>
      (Xml.childText (some it) "itemID", Xml.childText (some it) "itemSlug", Xml.childText (some it) "objType",
       Xml.childText (some it) "objID", Xml.childText (some it) "mosID"))) &&
  v.stories.map (fun s => s.items.map (·.note)) == ss.map (fun s => (s.findall "item").map noteSpec) &&
  v.roSlug == (rcOf d).bind (fun rc => Xml.childText (some rc) "roSlug") &&
  v.completed == completed d &&
  -- absent optional data yields None: no roEdStart ⇒ no start; a story without payload has no duration
  (((rcOf d).bind (fun rc => rc.find "roEdStart")).isSome || v.start == none) &&
  (v.stories.zip ss).all (fun (sv, s) => (payloadOf s).isSome || sv.duration == none)

/-- C16: every arithmetic relation, recomputed from the XML; each story's offset is the sum of the
    durations before it, whether or not story IDs repeat -/
def holdsC16 (d : Xml) (v : RoView) : Bool :=
  let ss := storiesOfDoc d
  let ds := ss.map specDuration
  let roSt := (rcOf d).bind (fun rc => (Xml.childText (some rc) "roEdStart").bind parseTime)
  v.stories.map (·.duration) == ds &&
  v.start == roSt &&
  v.stories.map (·.offset) == (prefixSums ds).map some &&
  v.duration == (if ds.all (·.isSome) then some ((ds.map (·.getD 0)).sum) else none) &&
  v.stop == (v.stories.getLast?).bind (·.stop) &&
  (v.stories.zip ss).all (fun (sv, s) =>
    sv.start == (match specTime s "StoryStarted" with
                 | some t => some t
                 | none => match roSt, sv.offset with | some p, some o => some (p + o) | _, _ => none) &&
    sv.stop == (match specTime s "StoryEnded" with
                | some t => some t
                | none => match sv.start, sv.duration with | some a, some b => some (a + b) | _, _ => none))

/-- C17: body and script per story and concatenated -/
def holdsC17 (d : Xml) (v : RoView) : Bool :=
  let ss := storiesOfDoc d
  v.stories.map (·.script) == ss.map scriptSpec &&
  v.stories.map (·.body) == ss.map bodySpec &&
  v.script == ss.flatMap scriptSpec &&
  v.body == ss.flatMap bodySpec

def storyIdsNodup (d : Xml) : Bool :=
  decide ((storiesOfDoc d).map (fun s => Xml.childText (some s) "storyID")).Nodup

/-- C17 for the running order's own `script` / `body` accessors, on ANY running order (nothing is asked of
    its timing metadata): the concatenation of the stories' specifications, in running order -/
def holdsC17text (d : Xml) (script : List String) (body : List BodyEl) : Bool :=
  let ss := storiesOfDoc d
  script == ss.flatMap scriptSpec && body == ss.flatMap bodySpec

end Mrm
