/-
  Mrm/Spec/C05Any.lean — C05 at full strength on well-formed input: if the addition raises
  *anything*, the running order is unchanged.
-/
import Mrm.Spec.Merge

namespace Mrm

def holdsC05any (i : MergeInput) (o : Res) : Bool :=
  match o.err with
  | some _ => o.ro == i.d
  | none => true

end Mrm
