/-
  Mrm/DriverOps.lean — JSON codecs and the request dispatcher of the driver.
  A tree is `[tag, [[k,v]…], text|null, tail|null, [children…]]`.
-/
import Lean.Data.Json
import Mrm.Model.Basic
import Mrm.Model.Classify
import Mrm.Model.Timing
import Mrm.Model.Merge
import Mrm.Spec.Merge
import Mrm.Spec.Frame
import Mrm.Spec.C05Any
import Mrm.Model.Collection
import Mrm.Spec.Collection
import Mrm.DriverAccess
import Mrm.Spec.Classify
import Mrm.DriverElements
import Mrm.Model.Serialize
import Mrm.DriverIo
import Mrm.Model.Lexer

open Lean

namespace Mrm

def optStr : Json → Except String (Option String)
  | .null => pure none
  | .str s => pure (some s)
  | _ => throw "optStr"

partial def xmlOfJson : Json → Except String Xml
  | .arr #[.str tag, .arr attrs, tx, tl, .arr kids] => do
    let as ← attrs.toList.mapM fun
      | .arr #[.str k, .str v] => pure (k, v)
      | _ => throw "attr"
    let ks ← kids.toList.mapM xmlOfJson
    pure (.node tag as (← optStr tx) (← optStr tl) ks)
  | _ => throw "node"

def optJ : Option String → Json | none => .null | some s => .str s

partial def xmlToJson : Xml → Json
  | .node t a x tl ks =>
    .arr #[.str t, .arr (a.map fun (k, v) => .arr #[.str k, .str v]).toArray, optJ x, optJ tl,
           .arr (ks.map xmlToJson).toArray]

def PyExc.name : PyExc → String
  | .AttributeError => "AttributeError" | .KeyError => "KeyError" | .ValueError => "ValueError"
  | .IndexError => "IndexError" | .TypeError => "TypeError"
  | .NotImplementedError => "NotImplementedError"

def Err.name : Err → String
  | .merge => "MosMergeError" | .completed => "MosCompletedMergeError"
  | .unknownType => "UnknownMosFileType" | .invalidCollection => "InvalidMosCollection"
  | .crash e => "crash:" ++ PyExc.name e

def Warn.name : Warn → String
  | .storyNotFound => "StoryNotFoundWarning" | .itemNotFound => "ItemNotFoundWarning"
  | .duplicateStory => "DuplicateStoryWarning" | .nonStrict => "MosMergeNonStrictWarning"
  | .other => "MosRoMgrWarning(other category)"

def Kind.name : Kind → String
  | .RunningOrder => "RunningOrder" | .StorySend => "StorySend" | .StoryAppend => "StoryAppend"
  | .StoryDelete => "StoryDelete" | .StoryInsert => "StoryInsert" | .StoryMove => "StoryMove"
  | .StoryReplace => "StoryReplace" | .ItemDelete => "ItemDelete" | .ItemInsert => "ItemInsert"
  | .ItemMoveMultiple => "ItemMoveMultiple" | .ItemReplace => "ItemReplace"
  | .RunningOrderReplace => "RunningOrderReplace" | .MetaDataReplace => "MetaDataReplace"
  | .ReadyToAir => "ReadyToAir" | .RunningOrderEnd => "RunningOrderEnd"
  | .EAStoryReplace => "EAStoryReplace" | .EAItemReplace => "EAItemReplace"
  | .EAStoryDelete => "EAStoryDelete" | .EAItemDelete => "EAItemDelete"
  | .EAStoryInsert => "EAStoryInsert" | .EAItemInsert => "EAItemInsert"
  | .EAStorySwap => "EAStorySwap" | .EAItemSwap => "EAItemSwap"
  | .EAStoryMove => "EAStoryMove" | .EAItemMove => "EAItemMove"

def errJ : Option Err → Json
  | none => .null
  | some e => .str (Err.name e)

def errOfJson : Json → Except String (Option Err)
  | .null => pure none
  | .str "MosMergeError" => pure (some .merge)
  | .str "MosCompletedMergeError" => pure (some .completed)
  | .str "UnknownMosFileType" => pure (some .unknownType)
  | .str "InvalidMosCollection" => pure (some .invalidCollection)
  | .str s =>
    match s with
    | "crash:AttributeError" => pure (some (.crash .AttributeError))
    | "crash:KeyError" => pure (some (.crash .KeyError))
    | "crash:ValueError" => pure (some (.crash .ValueError))
    | "crash:IndexError" => pure (some (.crash .IndexError))
    | "crash:TypeError" => pure (some (.crash .TypeError))
    | "crash:NotImplementedError" => pure (some (.crash .NotImplementedError))
    | _ => pure (some (.crash .KeyError))   -- any other built-in: still a crash
  | _ => throw "err"

def warnOfString : String → Except String Warn
  | "StoryNotFoundWarning" => pure .storyNotFound
  | "ItemNotFoundWarning" => pure .itemNotFound
  | "DuplicateStoryWarning" => pure .duplicateStory
  | "MosMergeNonStrictWarning" => pure .nonStrict
  | _ => pure .other        -- a category the library does not document: an observation, not a protocol error

def resJ (r : Res) : Json :=
  Json.mkObj [("err", errJ r.err), ("warns", toJson (r.warns.map Warn.name)), ("ro", xmlToJson r.ro)]

def resOfJson (j : Json) : Except String Res := do
  let ro ← (j.getObjVal? "ro").bind xmlOfJson
  let err ← (j.getObjVal? "err").bind errOfJson
  let ws ← (j.getObjVal? "warns").bind (fun w => w.getArr?)
  let ws ← ws.toList.mapM (fun w => w.getStr?.bind warnOfString)
  pure ⟨ro, ws, err⟩

def classifyJ (x : Xml) : Json :=
  match classify x with
  | .ok k => Json.mkObj [("kind", .str (Kind.name k))]
  | .error e => Json.mkObj [("err", .str (Err.name e))]

def handle (j : Json) : Except String Json := do
  let op ← (j.getObjVal? "op").bind (·.getStr?)
  match op with
  | "classify" =>
    let d ← (j.getObjVal? "doc").bind xmlOfJson
    let specJ : Json := match specClassify d with
      | .ok k => Json.mkObj [("kind", .str (Kind.name k))]
      | .error e => Json.mkObj [("err", .str (Err.name e))]
    pure ((classifyJ d).mergeObj (Json.mkObj [("spec", specJ), ("msg_elems", toJson ((msgElems d).map (·.tag)))]))
  | "add" =>
    -- model outcome of `ro + msg`; when the implementation's outcome is supplied ("impl"), every
    -- merge property is evaluated on it with the same definitions the theorems are about
    let ro ← (j.getObjVal? "ro").bind xmlOfJson
    let msg ← (j.getObjVal? "msg").bind xmlOfJson
    let model := add ro msg
    let base := [("model", resJ model)]
    match classify msg with
    | .error e => pure (Json.mkObj (base ++ [("classify_err", .str (Err.name e))]))
    | .ok k =>
      let base := base ++ [("kind", .str (Kind.name k))]
      match j.getObjVal? "impl" with
      | .error _ => pure (Json.mkObj base)
      | .ok ij =>
        let o ← resOfJson ij
        let i : MergeInput := ⟨ro, msg, k⟩
        let pj (dom holds : Bool) : Json := Json.mkObj [("dom", .bool dom), ("holds", .bool holds)]
        let orderDom := DomOrder i
        let props := Json.mkObj [
          ("C01", pj (orderDom && k.isStoryLevel) (holdsOrder i o)),
          ("C01perm", pj (k.isStoryLevel) (holdsPerm i o)),
          ("C02", pj (orderDom && k.isItemLevel) (holdsOrder i o)),
          ("C02perm", pj (k.isItemLevel) (holdsPerm i o)),
          ("C03", pj (DomC03 i) (holdsC03 i o)),
          ("C04", pj (DomC04 i) (holdsC04 i o)),
          ("C05", pj true (holdsC05 i o)),
          ("C05any", pj true (holdsC05any i o)),
          ("C05total", pj (msgIdExc msg).isNone (holdsC05any i o)),
          ("C06", pj (DomC06 i) (holdsC06 i o)),
          ("C07", pj true (holdsC07 i o)),
          ("C12", pj (DomC12 i) (holdsC12 i o))]
        pure (Json.mkObj (base ++ [("props", props)]))
  | "access" =>
    let ro ← (j.getObjVal? "ro").bind xmlOfJson
    handleAccess ro (j.getObjVal? "impl").toOption
  | "elements" =>
    let m ← (j.getObjVal? "msg").bind xmlOfJson
    handleElements m (j.getObjVal? "impl_exposed").toOption
  | "serialize" =>
    let d ← (j.getObjVal? "doc").bind xmlOfJson
    pure (Json.mkObj [("text", .str (serialize d)),
      ("root_tags", toJson (rootTags d)), ("tokens_roundtrip", .bool (parseTokens (tokens d) == some d)),
      ("wf", .bool (wfSer d)), ("reparse_ok", .bool (parseXml (serialize d) == some d))])
  | "listkeys" => handleListKeys j
  | "cli" =>
    -- files: [[path, entry]] with entry = tree | "notxml" | "missing" | "directory"
    let filesJ ← (j.getObjVal? "files").bind (·.getArr?)
    let files ← filesJ.toList.mapM fun p => do
      let q ← p.getArr?
      match q.toList with
      | [.str path, .str "notxml"] => pure (path, FsEntry.notXml)
      | [.str path, .str "missing"] => pure (path, FsEntry.missing)
      | [.str path, .str "directory"] => pure (path, FsEntry.directory)
      | [.str path, t] => do pure (path, FsEntry.xml (← xmlOfJson t))
      | _ => throw "cli file"
    let fs : String → FsEntry := fun p => ((files.find? (fun q => q.1 == p)).map (·.2)).getD .missing
    let paths := files.map (·.1)
    let cmd ← (j.getObjVal? "cmd").bind (·.getStr?)
    match cmd with
    | "detect" =>
      let r := cliDetect fs paths
      pure (Json.mkObj [("lines", .arr (r.1.map out1J).toArray), ("status", toJson r.2)])
    | "inspect" =>
      let r := if paths.isEmpty then cliDetect fs paths else inspectLoop fs paths []
      pure (Json.mkObj [("lines", .arr (r.1.map out1J).toArray), ("status", toJson r.2)])
    | "merge" =>
      let inc ← (j.getObjVal? "incomplete").bind (·.getBool?)
      let ns ← (j.getObjVal? "non_strict").bind (·.getBool?)
      let writable := ((j.getObjVal? "outfile_writable").toOption.bind (fun v => v.getBool?.toOption)).getD true
      let outfile := ((j.getObjVal? "outfile").toOption.bind (fun v => v.getStr?.toOption)).map (fun o => (o, writable))
      let r := cliMerge fs paths outfile inc ns
      pure (Json.mkObj [("status", toJson r.status), ("stdout", match r.stdout with | some s => .str s | none => .null),
        ("written", match r.written with | some s => .str s | none => .null)])
    | _ => throw "cli cmd"
  | "parse" =>
    -- the model's reading of serialised XML (lexer + tree builder)
    let text ← (j.getObjVal? "text").bind (·.getStr?)
    match parseXml text with
    | some t => pure (Json.mkObj [("doc", xmlToJson t), ("wf", .bool (wfSer t))])
    | none => pure (Json.mkObj [("doc", .null)])
  | "tables" =>
    -- the model's classification tables, for the static comparison with the Python source (C08)
    let tt := tagTable.map (fun (t, k) => Json.arr #[.str t, match k with | some k => .str (Kind.name k) | none => .str "ElementAction"])
    let et := eaTable.map (fun ((op, t, s), k) => Json.arr #[.str op, .bool t, .bool s, .str (Kind.name k)])
    pure (Json.mkObj [("tag_table", .arr tt.toArray), ("ea_table", .arr et.toArray)])
  | "spaces" =>
    -- every scalar value the model treats as whitespace (the table behind `pyStrip`)
    let cps := (List.range 0x110000).filter (fun n => (n < 0xD800 || n > 0xDFFF) && pyIsSpace (Char.ofNat n))
    pure (Json.mkObj [("spaces", toJson cps)])
  | "rotext" =>
    -- `ro.script` / `ro.body` of a running order (no timing involved); with the implementation's observation, C17's spec
    let ro ← (j.getObjVal? "ro").bind xmlOfJson
    let modelJ : Json := match roScript ro, roBody ro with
      | .ok s, .ok b => Json.mkObj [("script", toJson s), ("body", .arr (b.map bodyElJ).toArray)]
      | .error e, _ => Json.mkObj [("crash", .str (pyExcName e))]
      | _, .error e => Json.mkObj [("crash", .str (pyExcName e))]
    let holds : Json := match (j.getObjVal? "impl").toOption with
      | none => .null
      | some ij =>
        match strList ij "script", (ij.getObjVal? "body").bind (·.getArr?) with
        | .ok s, .ok ba =>
          match ba.toList.mapM bodyElOfJson with
          | .ok b => .bool (holdsC17text ro s b)
          | .error _ => .null
        | _, _ => .null
    pure (Json.mkObj [("model", modelJ), ("dom", .bool (rcOf ro).isSome), ("holds", holds)])
  | "numbers" =>
    -- the model's reading of number literals: does float() accept, the value models of float() and int()
    let ssJ ← (j.getObjVal? "strings").bind (·.getArr?)
    let ss ← ssJ.toList.mapM (·.getStr?)
    let one (s : String) : Json := Json.mkObj [("accepts", .bool (pyFloatAccepts s)),
      ("float", match pyFloat s with | .ok n => toJson n | .error _ => .null),
      ("int", match pyInt s with | some n => toJson n | none => .null)]
    pure (Json.mkObj [("numbers", .arr (ss.map one).toArray)])
  | "numspaces" =>
    -- every scalar value the model lets int()/float() strip
    let cps := (List.range 0x110000).filter (fun n => (n < 0xD800 || n > 0xDFFF) && pyIsNumSpace (Char.ofNat n))
    pure (Json.mkObj [("spaces", toJson cps)])
  | "collection" =>
    let docsJ ← (j.getObjVal? "docs").bind (·.getArr?)
    let docs ← docsJ.toList.mapM xmlOfJson
    let allow ← (j.getObjVal? "allow_incomplete").bind (·.getBool?)
    let strict ← (j.getObjVal? "strict").bind (·.getBool?)
    let r := collection docs allow strict
    let runJ : Json := match r.run with
      | none => .null
      | some run => Json.mkObj [("ro", xmlToJson run.ro), ("warns", toJson (run.warns.map Warn.name)), ("err", errJ run.err)]
    -- the specification of acceptance (C11), decided from the classes / running-order IDs alone
    let accept : Json := match mapM' mkReader docs with
      | .error _ => .null
      | .ok rs => .bool (decide (describesOneB rs allow = true))
    pure (Json.mkObj [("err", errJ r.err), ("reader_ids", toJson r.readerIds),
      ("ro_msg_id", match r.roMsgId with | some n => toJson n | none => .null), ("run", runJ),
      ("spec_accepts", accept)])
  | _ => throw s!"unknown op {op}"

end Mrm
