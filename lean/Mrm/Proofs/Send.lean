/-
  Mrm/Proofs/Send.lean — roStorySend: the model's conversion is the spec's `convertSpec`, and the
  converted story keeps the roStorySend's own storyID when the storyBody holds none.
-/
import Mrm.Proofs.Edit
import Mrm.Proofs.Clean

namespace Mrm

theorem find_w?_of_findIdx? {α : Type} (p : α → Bool) (l : List α) (i : Nat) (h : l.findIdx? p = some i) :
    ∃ a x b, l = a ++ x :: b ∧ a.length = i ∧ l[i]? = some x ∧ l.find? p = some x ∧ p x = true ∧
      ∀ c ∈ a, p c = false := by
  rw [List.findIdx?_eq_some_iff_getElem] at h
  obtain ⟨hi, hp, hlt⟩ := h
  obtain ⟨a, x, b, hl, hal, hx⟩ := split_of_lt l i hi
  have hxi : l[i] = x := by
    rw [List.getElem?_eq_getElem hi] at hx; exact Option.some.inj hx
  rw [hxi] at hp
  have ha : ∀ c ∈ a, p c = false := by
    intro c hc
    obtain ⟨j, hj, hcj⟩ := List.getElem_of_mem hc
    have := hlt j (by omega)
    have e : l[j]'(by omega) = c := by
      subst hl; rw [List.getElem_append_left hj]; exact hcj
    rw [e] at this; simpa using this
  refine ⟨a, x, b, hl, hal, hx, ?_, hp, ha⟩
  subst hl
  rw [List.find?_append, List.find?_eq_none.mpr (by intro c hc; simp [ha c hc])]
  simp [hp]

theorem splice_split (a b children : List Xml) (x : Xml) :
    (insertMany (a ++ x :: b) a.length children).eraseIdx (a.length + children.length) =
      a ++ children ++ b := by
  rw [insertMany_split]
  have := eraseIdx_split (a ++ children) b x
  simpa using this

theorem convertStorySend_eq (base : Xml) :
    convertStorySend base =
      match convertSpec base with
      | some st => .ok st
      | none => .error .AttributeError := by
  unfold convertStorySend convertSpec findChildAny
  cases h : base.kids.findIdx? (fun c => c.tag == "storyBody") with
  | none => rfl
  | some i =>
    obtain ⟨a, x, b, hl, hal, hx, _, _, _⟩ := find_w?_of_findIdx? _ _ _ h
    simp only [hx]
    subst hal
    rw [hl, splice_split, take_split, drop_split_succ]
    rfl

/-- the converted story's own ID is the roStorySend's, when the storyBody holds no storyID -/
theorem convertSpec_key (base st : Xml) (hsh : shapedBase .StorySend base = true)
    (h : convertSpec base = some st) :
    st.tag = "story" ∧ keyOf "story" st = Xml.childText (some base) "storyID" := by
  unfold convertSpec at h
  cases hi : base.kids.findIdx? (fun c => c.tag == "storyBody") with
  | none => simp [hi] at h
  | some i =>
    obtain ⟨a, x, b, hl, hal, hx, hf, hp, _⟩ := find_w?_of_findIdx? _ _ _ hi
    simp only [hi, hx] at h
    cases h
    refine ⟨rfl, ?_⟩
    subst hal
    have hbody : x.kids.find? (fun c => c.tag == "storyID") = none := by
      simp only [shapedBase, Xml.find, hf] at hsh
      simpa [Xml.find] using hsh
    have hxt : x.tag = "storyBody" := by simpa using hp
    simp only [keyOf, Xml.childText, Xml.find, Option.bind_some, Xml.kids_node]
    rw [hl, take_split, drop_split_succ]
    have e : ("story" ++ "ID" : String) = "storyID" := by decide
    rw [e]
    congr 1
    simp only [List.find?_append, List.find?_cons]
    have h1 : (x.tag == "storyID") = false := by rw [hxt]; decide
    have h2 : (x.kids.map (fun c => if c.tag == "storyItem" then c.withTag "item" else c)).find?
        (fun c => c.tag == "storyID") = none := by
      rw [List.find?_eq_none] at hbody ⊢
      intro c hc
      obtain ⟨c0, hc0, rfl⟩ := List.mem_map.mp hc
      by_cases ht : (c0.tag == "storyItem") = true
      · simp only [ht, if_true, Xml.withTag_tag]; decide
      · simp only [ht]; exact hbody c0 hc0
    rw [h1, h2]
    simp

end Mrm

namespace Mrm

theorem convertSpec_isSome (base : Xml) (hsh : shapedBase .StorySend base = true) :
    ∃ st, convertSpec base = some st := by
  unfold convertSpec
  cases hi : base.kids.findIdx? (fun c => c.tag == "storyBody") with
  | none =>
    exfalso
    have : base.find "storyBody" = none := by
      unfold Xml.find
      rw [List.findIdx?_eq_none_iff] at hi
      rw [List.find?_eq_none]
      intro c hc; simpa using hi c hc
    simp [shapedBase, this] at hsh
  | some i =>
    obtain ⟨a, x, b, hl, hal, hx, hf, hp, _⟩ := find_w?_of_findIdx? _ _ _ hi
    simp only [hx]
    exact ⟨_, rfl⟩

end Mrm
