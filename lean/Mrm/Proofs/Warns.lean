/-
  Mrm/Proofs/Warns.lean — C06: warnings and the ID sequence of the container, class by class.
-/
import Mrm.Proofs.Container

namespace Mrm

/-- the group-specific conjunct of `holdsC06`, on child lists -/
def GrpOk (k : Kind) (nm : Named) (cs cs' : List Xml) : Prop :=
  match k.group with
  | .delete | .send =>
    (match cIds k nm cs with
     | some ids => cIds k nm cs' = some (c06Ids k (levelTag k) nm ids)
     | none => cs' = cs)
  | .insert =>
    (match cIds k nm cs with
     | some ids => cIds k nm cs' = some (c06Ids k (levelTag k) nm ids)
     | none => False)
  | _ => True

theorem holdsC06_intro (d m : Xml) (k : Kind) (rc base : Xml) (o : Out)
    (hrc : rcOf d = some rc) (hb : m.find k.baseTag = some base)
    (hres : addK k d m = ⟨setRcKids d o.kids, o.warns, o.err⟩)
    (H : o.err = some .merge ∨
      (o.err = none ∧ o.warns = expectedWarns k (namedOf k base) d ∧ GrpOk k (namedOf k base) rc.kids o.kids)) :
    holdsC06 ⟨d, m, k⟩ (addK k d m) = true := by
  rw [hres]
  simp only [holdsC06, hb]
  rcases H with h | ⟨h1, h2, h3⟩
  · simp [h, Err.isMergeError]
  · simp only [h1, h2, beq_self_eq_true, Bool.true_and, Bool.false_or]
    unfold GrpOk at h3
    rw [containerIds_eq _ _ _ _ hrc, containerIds_setRcKids _ _ _ _ _ hrc]
    cases hg : k.group <;> simp only [hg] at h3 ⊢
    all_goals
      cases hc : cIds k (namedOf k base) rc.kids <;> simp only [hc] at h3 ⊢
    all_goals
      first
      | exact h3.elim
      | (rw [h3, setRcKids_self_w d rc hrc]; simp)
      | (rw [h3]; simp)

/-! ### key sequences of the edits -/

theorem insBefore_split (l1 l2 ns : List Key) (t : Key) (h : t ∉ l1) :
    insBefore (some t) ns (l1 ++ t :: l2) = l1 ++ ns ++ t :: l2 := by
  simp only [insBefore, idxOf?_split l1 l2 t h, take_split, drop_split]

/-- what an item-level (or story-level) edit of one child list must establish -/
structure EditOk (tag : String) (cs : List Xml) (o : Out) (ws : List Warn) (ids' : List Key) : Prop where
  err : o.err = none
  warns : o.warns = ws
  keeps : KeepsOthers tag cs o.kids
  keys : keysOf tag o.kids = ids'

theorem insertBefore_closed (tag : String) (cs : List Xml) (id : Key) (xs : List Xml) (hxs : ∀ c ∈ xs, c.tag = tag) :
    (insertBefore tag none cs id xs).err = some .merge ∨
    EditOk tag cs (insertBefore tag none cs id xs) []
      (insBefore (endIfBlank id) (xs.map (keyOf tag)) (keysOf tag cs)) := by
  rw [insertBefore_ok tag cs id xs]
  have hnil : xs.filter (fun c => !(c.tag == tag)) = [] := by
    rw [List.filter_eq_nil_iff]; intro c hc; simp [hxs c hc]
  cases id with
  | none =>
    right
    refine ⟨rfl, rfl, ?_, ?_⟩
    · simp [KeepsOthers, List.filter_append, hnil]
    · simp [keysOf_append, keysOf_all_tag tag xs hxs, insBefore, endIfBlank]
  | some k =>
    simp only
    cases hl : locate tag cs (some k) with
    | none => left; rfl
    | some i =>
      right
      obtain ⟨k', a, x, b, hid, hcs, hal, hx1, hx2, ha⟩ := locate_split hl
      cases hid
      subst hcs hal
      obtain ⟨hk, hka⟩ := keysOf_split_of_locate (b := b) hx1 hx2 ha
      simp only [insertMany_split]
      refine ⟨rfl, rfl, ?_, ?_⟩
      · simp [KeepsOthers, List.filter_append, hnil]
      · rw [hk, endIfBlank, insBefore_split _ _ _ _ hka, keysOf_append, keysOf_append,
          keysOf_all_tag tag xs hxs, keysOf_cons_tag _ _ _ hx1, hx2]

/-! ### the goal on the `roCreate` children, class by class -/

def C06Out (k : Kind) (d rc base : Xml) : Prop :=
  (mergeRc k rc base none).err = some .merge ∨
  ((mergeRc k rc base none).err = none ∧
   (mergeRc k rc base none).warns = expectedWarns k (namedOf k base) d ∧
   GrpOk k (namedOf k base) rc.kids (mergeRc k rc base none).kids)

/-- item level: from the edit of the addressed story's children to the container IDs -/
theorem item_compose (k : Kind) (nm : Named) (a b : List Xml) (x : Xml) (key : String) (fo : Out)
    (ws : List Warn) (ids' : List Key)
    (hk : k.isStoryLevel = false) (hst : nm.story = some key)
    (hx : isChild "story" key x = true) (ha : ∀ c ∈ a, isChild "story" key c = false)
    (he : EditOk "item" x.kids fo ws ids') :
    cIds k nm (a ++ x :: b) = some (keysOf "item" x.kids) ∧
    cIds k nm (a ++ x.withKids fo.kids :: b) = some ids' := by
  refine ⟨cIds_item_split k nm a b x key hk hst hx ha, ?_⟩
  rw [cIds_item_split k nm a b _ key hk hst (isChild_story_withKids x fo.kids he.keeps hx) ha]
  simp [he.keys]

theorem c06_ItemInsert (d rc base : Xml) (hrc : rcOf d = some rc) :
    C06Out .ItemInsert d rc base := by
  unfold C06Out
  simp only [mergeRc]
  rcases inStory_cases rc.kids (elemId (some base) "storyID")
    (fun items => insertBefore "item" none items (elemId (some base) "itemID") (base.findall "item"))
    with h | ⟨key, a, x, b, hsid, hcs, hxm, hxt, hx, ha, ho⟩
  · left; exact h
  · rw [ho]
    rcases insertBefore_closed "item" x.kids (elemId (some base) "itemID") (base.findall "item")
      (findall_tag _ _) with h | he
    · left; exact h
    · right
      obtain ⟨c1, c2⟩ := item_compose .ItemInsert (namedOf .ItemInsert base) a b x key _ _ _ rfl hsid hx ha he
      refine ⟨he.err, ?_, ?_⟩
      · simp only [he.warns, expectedWarns, hrc]
      · unfold GrpOk
        simp only [Kind.group]
        rw [hcs, c1]
        simp only
        rw [c2]
        rfl

theorem c06_EAItemInsert (d rc base : Xml) (hrc : rcOf d = some rc) :
    C06Out .EAItemInsert d rc base := by
  unfold C06Out
  simp only [mergeRc, elemsOf_eq]
  rcases inStory_cases rc.kids (elemId (base.find "element_target") "storyID")
    (fun items => insertBefore "item" none items (elemId (base.find "element_target") "itemID")
      (elemsOf (base.find "element_source") "item"))
    with h | ⟨key, a, x, b, hsid, hcs, hxm, hxt, hx, ha, ho⟩
  · left; exact h
  · rw [ho]
    rcases insertBefore_closed "item" x.kids (elemId (base.find "element_target") "itemID")
      (elemsOf (base.find "element_source") "item")
      (elemsOf_tag _ _) with h | he
    · left; exact h
    · right
      obtain ⟨c1, c2⟩ := item_compose .EAItemInsert (namedOf .EAItemInsert base) a b x key _ _ _ rfl hsid hx ha he
      refine ⟨he.err, ?_, ?_⟩
      · simp only [he.warns, expectedWarns, hrc]
      · unfold GrpOk
        simp only [Kind.group]
        rw [hcs, c1]
        simp only
        rw [c2]
        rfl

/-! ### deletes -/

theorem deleteLoop_editOk (tag : String) (w : Warn) (ids : List Key) (cs : List Xml) :
    EditOk tag cs (deleteLoop tag w none cs ids []) (delWarns w ids (keysOf tag cs))
      (delKeys ids (keysOf tag cs)) := by
  obtain ⟨cs', h1, h2, h3⟩ := deleteLoop_closed tag w ids cs []
  rw [h1]
  exact ⟨rfl, by simp, h3, h2⟩

theorem c06_StoryDelete (d rc base : Xml) (hrc : rcOf d = some rc) :
    C06Out .StoryDelete d rc base := by
  unfold C06Out
  simp only [mergeRc]
  have he := deleteLoop_editOk "story" .storyNotFound (idTexts base "storyID") rc.kids
  right
  refine ⟨he.err, ?_, ?_⟩
  · simp only [he.warns, expectedWarns, hrc]; rfl
  · unfold GrpOk
    simp only [Kind.group]
    rw [cIds_story _ _ _ rfl, cIds_story _ _ _ rfl, he.keys]
    rfl

theorem c06_EAStoryDelete (d rc base : Xml) (hrc : rcOf d = some rc) :
    C06Out .EAStoryDelete d rc base := by
  unfold C06Out
  simp only [mergeRc]
  have he := deleteLoop_editOk "story" .storyNotFound (eaSourceIds base "storyID") rc.kids
  right
  refine ⟨he.err, ?_, ?_⟩
  · simp only [he.warns, expectedWarns, hrc]; rfl
  · unfold GrpOk
    simp only [Kind.group]
    rw [cIds_story _ _ _ rfl, cIds_story _ _ _ rfl, he.keys]
    rfl

theorem c06_ItemDelete (d rc base : Xml) (hrc : rcOf d = some rc) :
    C06Out .ItemDelete d rc base := by
  unfold C06Out
  simp only [mergeRc]
  rcases inStory_cases rc.kids (elemId (some base) "storyID")
    (fun items => deleteLoop "item" .itemNotFound none items (idTexts base "itemID") [])
    with h | ⟨key, a, x, b, hsid, hcs, hxm, hxt, hx, ha, ho⟩
  · left; exact h
  · rw [ho]
    have c0 := cIds_item_split .ItemDelete (namedOf .ItemDelete base) a b x key rfl hsid hx ha
    rw [← hcs] at c0
    have he := deleteLoop_editOk "item" .itemNotFound (idTexts base "itemID") x.kids
    obtain ⟨c1, c2⟩ := item_compose .ItemDelete (namedOf .ItemDelete base) a b x key _ _ _ rfl hsid hx ha he
    right
    refine ⟨he.err, ?_, ?_⟩
    · have hadd : addressed rc.kids (namedOf .ItemDelete base).story = some a.length := by
        have : (namedOf .ItemDelete base).story = some key := hsid
        rw [addressed_eq_locate, this, hcs]; exact locate_of_split hx ha
      simp only [he.warns, expectedWarns, hrc, hadd]
      rw [hcs]; simp; rfl
    · unfold GrpOk
      simp only [Kind.group]
      rw [c0]
      simp only
      rw [c2]
      rfl

theorem c06_EAItemDelete (d rc base : Xml) (hrc : rcOf d = some rc) :
    C06Out .EAItemDelete d rc base := by
  unfold C06Out
  simp only [mergeRc]
  rw [findChildId_ok "story" rc.kids _]
  cases hl : locate "story" rc.kids (elemId (base.find "element_target") "storyID") with
  | none =>
    simp only
    right
    have hadd : addressed rc.kids (namedOf .EAItemDelete base).story = none := by
      rw [addressed_eq_locate]; exact hl
    refine ⟨trivial, ?_, ?_⟩
    · simp only [expectedWarns, hrc, hadd]
    · unfold GrpOk
      simp only [Kind.group]
      rw [cIds_item_none _ _ _ rfl hl]
      trivial
  | some j =>
    simp only
    obtain ⟨key, a, x, b, hsid, hcs, hxm, hxt, hx, ha, ho⟩ := inStoryAt_cases rc.kids _ j
      (fun items => deleteLoop "item" .itemNotFound none items (eaSourceIds base "itemID") []) hl
    rw [ho]
    have c0 := cIds_item_split .EAItemDelete (namedOf .EAItemDelete base) a b x key rfl hsid hx ha
    rw [← hcs] at c0
    have he := deleteLoop_editOk "item" .itemNotFound (eaSourceIds base "itemID") x.kids
    obtain ⟨c1, c2⟩ := item_compose .EAItemDelete (namedOf .EAItemDelete base) a b x key _ _ _ rfl hsid hx ha he
    right
    refine ⟨he.err, ?_, ?_⟩
    · have hadd : addressed rc.kids (namedOf .EAItemDelete base).story = some a.length := by
        have : (namedOf .EAItemDelete base).story = some key := hsid
        rw [addressed_eq_locate, this, hcs]; exact locate_of_split hx ha
      simp only [he.warns, expectedWarns, hrc, hadd]
      rw [hcs]; simp; rfl
    · unfold GrpOk
      simp only [Kind.group]
      rw [c0]
      simp only
      rw [c2]
      rfl

/-! ### story inserts -/

theorem filter_map_keys (ids : List Key) (ss : List Xml) :
    (ss.filter (fun s => !ids.contains (keyOf "story" s))).map (keyOf "story") =
      (ss.map (keyOf "story")).filter (fun c => !ids.contains c) := by
  rw [List.filter_map]; rfl

theorem storyInsert_keys (a b ss : List Xml) (x : Xml) (key : String) (ids : List Key)
    (hx1 : x.tag = "story") (hx2 : keyOf "story" x = some key)
    (ha : ∀ c ∈ a, isChild "story" key c = false) (hss : ∀ c ∈ ss, c.tag = "story") :
    keysOf "story" (a ++ ss.filter (fun s => !ids.contains (keyOf "story" s)) ++ x :: b) =
      insBefore (some (some key)) ((ss.map (keyOf "story")).filter (fun c => !ids.contains c))
        (keysOf "story" (a ++ x :: b)) := by
  obtain ⟨hk, hka⟩ := keysOf_split_of_locate (b := b) hx1 hx2 ha
  rw [hk, insBefore_split _ _ _ _ hka, keysOf_append, keysOf_append, keysOf_cons_tag _ _ _ hx1, hx2,
    keysOf_all_tag "story" _ (fun c hc => hss c (List.mem_filter.mp hc).1), filter_map_keys]

theorem storyInsert_keys_end (cs ss : List Xml) (ids : List Key) (hss : ∀ c ∈ ss, c.tag = "story") :
    keysOf "story" (cs ++ ss.filter (fun s => !ids.contains (keyOf "story" s))) =
      insBefore none ((ss.map (keyOf "story")).filter (fun c => !ids.contains c)) (keysOf "story" cs) := by
  rw [keysOf_append, keysOf_all_tag "story" _ (fun c hc => hss c (List.mem_filter.mp hc).1), filter_map_keys]
  rfl

theorem c06_StoryInsert (d rc base : Xml) (hrc : rcOf d = some rc) :
    C06Out .StoryInsert d rc base := by
  unfold C06Out
  simp only [mergeRc]
  rw [findRequired_ok "story" none rc.kids _]
  cases hl : locate "story" rc.kids (elemId (some base) "storyID") with
  | none => left; rfl
  | some i =>
    simp only
    obtain ⟨key, a, x, b, hid, hcs, hal, hx1, hx2, ha⟩ := locate_split hl
    subst hal
    rw [roStoryIds_eq]
    have hins := insertDedup_closed (keysOf "story" rc.kids) (base.findall "story") a (x :: b) []
    rw [← hcs] at hins
    rw [hins]
    right
    refine ⟨rfl, ?_, ?_⟩
    · simp only [expectedWarns, hrc, List.nil_append]; rfl
    · unfold GrpOk
      simp only [Kind.group]
      rw [cIds_story _ _ _ rfl, cIds_story _ _ _ rfl]
      simp only
      rw [storyInsert_keys a b _ x key _ hx1 hx2 ha (findall_tag _ _), ← hcs]
      have : (namedOf .StoryInsert base).target = some (some key) := by
        show some (elemId (some base) "storyID") = _
        rw [hid]
      simp only [c06Ids, specIds, Kind.group, Kind.dedups, this, if_true]
      rfl

theorem c06_EAStoryInsert (d rc base : Xml) (hrc : rcOf d = some rc) :
    C06Out .EAStoryInsert d rc base := by
  unfold C06Out
  simp only [mergeRc, elemsOf_eq]
  rw [findTarget_ok "story" none rc.kids _]
  cases hid : elemId (base.find "element_target") "storyID" with
  | none =>
    have ht : (namedOf .EAStoryInsert base).target = none := by
      show endIfBlank (elemId (base.find "element_target") "storyID") = _
      rw [hid]; rfl
    simp only [Option.getD_none, roStoryIds_eq, insertDedup_closed_end]
    right
    refine ⟨trivial, ?_, ?_⟩
    · simp only [expectedWarns, hrc, List.nil_append]; rfl
    · unfold GrpOk
      simp only [Kind.group]
      rw [cIds_story _ _ _ rfl, cIds_story _ _ _ rfl]
      simp only
      rw [storyInsert_keys_end _ _ _ (elemsOf_tag _ _)]
      simp only [c06Ids, specIds, Kind.group, Kind.dedups, ht, if_true]
      rfl
  | some key =>
    have ht : (namedOf .EAStoryInsert base).target = some (some key) := by
      show endIfBlank (elemId (base.find "element_target") "storyID") = _
      rw [hid]; rfl
    simp only
    cases hl : locate "story" rc.kids (some key) with
    | none => left; rfl
    | some i =>
      simp only [Option.getD_some]
      obtain ⟨key', a, x, b, hid', hcs, hal, hx1, hx2, ha⟩ := locate_split hl
      cases hid'
      subst hal
      rw [roStoryIds_eq]
      have hins := insertDedup_closed (keysOf "story" rc.kids) (elemsOf (base.find "element_source") "story")
        a (x :: b) []
      rw [← hcs] at hins
      rw [hins]
      right
      refine ⟨rfl, ?_, ?_⟩
      · simp only [expectedWarns, hrc, List.nil_append]; rfl
      · unfold GrpOk
        simp only [Kind.group]
        rw [cIds_story _ _ _ rfl, cIds_story _ _ _ rfl]
        simp only
        rw [storyInsert_keys a b _ x key _ hx1 hx2 ha (elemsOf_tag _ _), ← hcs]
        simp only [c06Ids, specIds, Kind.group, Kind.dedups, ht, if_true]
        rfl

/-! ### roStorySend -/

theorem c06_StorySend (d rc base : Xml) (hrc : rcOf d = some rc)
    (hsh : shapedBase .StorySend base = true) :
    C06Out .StorySend d rc base := by
  unfold C06Out
  simp only [mergeRc, convertStorySend_eq]
  obtain ⟨st, hc⟩ := convertSpec_isSome base hsh
  obtain ⟨ht, hk⟩ := convertSpec_key base st hsh hc
  have e : elemId (some st) "storyID" = Xml.childText (some base) "storyID" := hk
  simp only [hc, e]
  rw [findChildId_ok "story" rc.kids _]
  have htg : (namedOf .StorySend base).target = some (Xml.childText (some base) "storyID") := rfl
  cases hl : locate "story" rc.kids (Xml.childText (some base) "storyID") with
  | none =>
    simp only
    right
    refine ⟨trivial, ?_, ?_⟩
    · simp only [expectedWarns, hrc, htg]
      have : (Option.isSome (Xml.childText (some base) "storyID") &&
          (keysOf "story" rc.kids).contains (Xml.childText (some base) "storyID")) = false := by
        rcases locate_none hl with h | h
        · rw [h]; rfl
        · simp [h]
      rw [this]; rfl
    · unfold GrpOk
      simp only [Kind.group]
      rw [cIds_story _ _ _ rfl]
      rfl
  | some i =>
    simp only
    obtain ⟨key, a, x, b, hid, hcs, hal, hx1, hx2, ha⟩ := locate_split hl
    subst hal
    obtain ⟨hkk, hka⟩ := keysOf_split_of_locate (b := b) hx1 hx2 ha
    right
    refine ⟨trivial, ?_, ?_⟩
    · simp only [expectedWarns, hrc, htg]
      have : (Option.isSome (Xml.childText (some base) "storyID") &&
          (keysOf "story" rc.kids).contains (Xml.childText (some base) "storyID")) = true := by
        rw [hid, hcs, hkk]; simp
      rw [this]; rfl
    · unfold GrpOk
      simp only [Kind.group]
      rw [cIds_story _ _ _ rfl, cIds_story _ _ _ rfl]
      simp only
      rw [hcs, eraseIdx_split, pyInsert_split, hkk, keysOf_append, keysOf_cons_tag _ _ _ ht, hk, hid]
      rfl

/-! ### assembling -/

theorem c06_quiet (k : Kind) (d rc base : Xml) (hrc : rcOf d = some rc)
    (hsb : shapedBase k base = true) (hq : k.isQuiet = true) : C06Out k d rc base := by
  unfold C06Out
  rcases clean_mergeRc k rc base hsb hq with h | ⟨h1, h2⟩
  · left; exact h
  · right
    refine ⟨h1, ?_, ?_⟩
    · rw [h2]
      cases k <;> first | exact absurd hq (by decide) | simp only [expectedWarns, hrc]
    · unfold GrpOk
      cases k <;> first | exact absurd hq (by decide) | trivial

theorem warns_any (i : MergeInput) (h : DomC06 i = true) :
    holdsC06 i (addK i.k i.d i.m) = true := by
  obtain ⟨d, m, k⟩ := i
  unfold DomC06 at h
  simp only [Bool.and_eq_true] at h
  obtain ⟨hwf, hsh⟩ := h
  obtain ⟨rc, hrc⟩ := wfRO_unpack_w hwf
  obtain ⟨base, hb⟩ : ∃ base, m.find k.baseTag = some base := by
    cases hb : m.find k.baseTag with
    | none => simp [shaped, hb] at hsh
    | some base => exact ⟨base, rfl⟩
  obtain ⟨hmid, hsb⟩ := shaped_unpack_w hsh hb
  by_cases hc : completed d = true
  · simp [holdsC06, hb, addK, hc, Err.isMergeError]
  · have hc' : completed d = false := by simpa using hc
    by_cases hk : k.editsRc = true
    · have hres := addK_editsRc k d m rc base hk hc' hrc hb
      rw [hmid] at hres
      apply holdsC06_intro d m k rc base (mergeRc k rc base none) hrc hb hres
      show C06Out k d rc base
      by_cases hq : k.isQuiet = true
      · exact c06_quiet k d rc base hrc hsb hq
      · have hq' : k.isQuiet = false := by simpa using hq
        cases k <;> first | exact absurd hq' (by decide) | skip
        · exact c06_StorySend d rc base hrc hsb
        · exact c06_StoryDelete d rc base hrc
        · exact c06_StoryInsert d rc base hrc
        · exact c06_ItemDelete d rc base hrc
        · exact c06_ItemInsert d rc base hrc
        · exact c06_EAStoryDelete d rc base hrc
        · exact c06_EAItemDelete d rc base hrc
        · exact c06_EAStoryInsert d rc base hrc
        · exact c06_EAItemInsert d rc base hrc
    · obtain ⟨j, hj, _⟩ := rcIndex_of_rcOf hrc
      cases k <;> first | exact absurd rfl hk | skip
      · exact absurd hsb (by simp [shapedBase])
      · simp [holdsC06, hb, addK, hc', merge, findChildAny_eq_rcIndex, hj, expectedWarns, hrc, Kind.group]
      · simp [holdsC06, hb, addK, hc', merge, expectedWarns, hrc, Kind.group]

/-! ### consistency with C01/C02: on unique present IDs `delKeys` is the protocol's filter -/

theorem erase_eq_filter_of_nodup_some (k : String) : ∀ (ids : List Key),
    (ids.filter (·.isSome)).Nodup → ids.erase (some k) = ids.filter (fun x => x != some k) := by
  intro ids
  induction ids with
  | nil => intro _; rfl
  | cons a t ih =>
    intro hn
    by_cases ha : a = some k
    · subst ha
      simp only [List.filter_cons, Option.isSome_some, if_true, List.nodup_cons] at hn
      have hk : some k ∉ t := by
        intro hm; exact hn.1 (List.mem_filter.mpr ⟨hm, rfl⟩)
      rw [List.erase_cons_head, List.filter_cons]
      simp only [bne_self_eq_false, Bool.false_eq_true, if_false]
      symm
      rw [List.filter_eq_self]
      intro x hx
      have : x ≠ some k := by intro e; rw [e] at hx; exact hk hx
      simpa using this
    · have hn' : (t.filter (·.isSome)).Nodup := by
        rw [List.filter_cons] at hn
        split at hn
        · exact (List.nodup_cons.mp hn).2
        · exact hn
      have hne : (a == some k) = false := by simpa using ha
      rw [List.erase_cons, List.filter_cons]
      simp only [hne, Bool.false_eq_true, if_false, bne, Bool.not_false, if_true]
      rw [ih hn']
      rfl

theorem delKeys_eq_filter (ss : List Key) : ∀ (ids : List Key), (ids.filter (·.isSome)).Nodup →
    delKeys ss ids = ids.filter (fun x => !(x.isSome && ss.contains x)) := by
  induction ss with
  | nil =>
    intro ids _
    rw [delKeys_nil]
    exact (List.filter_eq_self.mpr (by intros; simp)).symm
  | cons s ss ih =>
    intro ids hn
    rw [delKeys_cons]
    cases s with
    | none =>
      simp only [Option.isSome_none, Bool.false_eq_true, if_false]
      rw [ih ids hn]
      apply List.filter_congr
      intro x _
      cases x <;> simp
    | some k =>
      simp only [Option.isSome_some, if_true]
      have hn' : ((ids.erase (some k)).filter (·.isSome)).Nodup :=
        (List.erase_sublist.filter _).nodup hn
      rw [ih _ hn', erase_eq_filter_of_nodup_some k ids hn, List.filter_filter]
      apply List.filter_congr
      intro x _
      by_cases hx : x = some k
      · subst hx; simp
      · have : (x == some k) = false := by simpa using hx
        cases x <;> simp_all

/-- under the uniqueness hypothesis of C01/C02 the sequence C06 promises is the protocol's -/
theorem c06Ids_eq_specIds (k : Kind) (tag : String) (nm : Named) (ids : List Key)
    (hn : (ids.filter (·.isSome)).Nodup) : c06Ids k tag nm ids = specIds k tag nm ids := by
  unfold c06Ids specIds
  cases hg : k.group <;> simp only
  exact delKeys_eq_filter _ _ hn

end Mrm
