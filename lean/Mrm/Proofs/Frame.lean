/-
  Mrm/Proofs/Frame.lean — C03: a merge changes only what the message names.
-/
import Mrm.Proofs.FrameItem
import Mrm.Proofs.Atomic

namespace Mrm

/-! ### the domain -/

theorem wf_of_WfRO {d : Xml} (h : WfRO d = true) : ∃ rc, rcOf d = some rc :=
  Option.isSome_iff_exists.mp h

theorem setRcKids_self {d rc : Xml} (h : rcOf d = some rc) : setRcKids d rc.kids = d := by
  obtain ⟨i, hi, hget⟩ := rcIndex_of_rcOf h
  unfold setRcKids
  simp only [hi, hget]
  rw [set_withKids_self d.kids i rc hget, Xml.withKids_self]

/-! ### the item-level clause from `ItemShape` -/

theorem ItemShape_refl (q : Xml → Bool) (cs : List Xml) (sid : Key) : ItemShape q cs sid cs := by
  unfold ItemShape
  split
  · rfl
  · rename_i j hl
    have hj := locate_lt hl
    refine ⟨cs[j], cs[j].kids, List.getElem?_eq_getElem hj, ?_, rfl⟩
    rw [Xml.withKids_self, List.set_getElem_self]

theorem itemClause_of_shape (ids : List Key) (carried : List Xml) (cs cs' : List Xml) (sid : Key)
    (h : ItemShape (fun c => !isTouched "item" ids carried c) cs sid cs') :
    (match addressed cs sid with
     | none => cs' == cs
     | some j =>
       match cs[j]?, cs'[j]? with
       | some s, some s' =>
         cs' == cs.set j (s.withKids s'.kids) && frame "item" ids carried s.kids s'.kids
       | _, _ => false) = true := by
  rw [addressed_eq_locate]
  unfold ItemShape at h
  cases hl : locate "story" cs sid with
  | none => rw [hl] at h; simp [h]
  | some j =>
    rw [hl] at h
    obtain ⟨s, ks', hget, hcs', hf⟩ := h
    have hj := locate_lt hl
    have hget' : cs'[j]? = some (s.withKids ks') := by
      rw [hcs', List.getElem?_set_self hj]
    simp only [hget, hget', Xml.withKids_kids, frame, Bool.and_eq_true, beq_iff_eq]
    exact ⟨hcs', hf.symm⟩

/-! ### the classes that edit the `roCreate` children -/

/-- the frame predicate of roMetadataReplace -/
abbrev mdQ (base : Xml) : Xml → Bool := fun c => !base.kids.any (fun s => sameMdKey s c)

theorem holdsC03_of_setRc (d m rc base : Xml) (k : Kind) (cs' : List Xml) (ws : List Warn)
    (e : Option Err) (hrc : rcOf d = some rc) (hb : m.find k.baseTag = some base)
    (hk : k.editsRc = true)
    (h1 : k = .ReadyToAir → cs' = rc.kids)
    (h2 : k = .MetaDataReplace → rc.kids.filter (mdQ base) = cs'.filter (mdQ base))
    (h3 : k.isStoryLevel = true → cs'.filter (storyQ k base) = rc.kids.filter (storyQ k base))
    (h4 : k.isItemLevel = true → ItemShape (itemQ k base) rc.kids (namedOf k base).story cs') :
    holdsC03 ⟨d, m, k⟩ ⟨setRcKids d cs', ws, e⟩ = true := by
  have hrc' := rcOf_setRcKids d rc cs' hrc
  cases k <;> first | (simp [Kind.editsRc] at hk; done) | skip
  case ReadyToAir =>
    simp only [holdsC03, hb, hrc, h1 rfl, setRcKids_self hrc, beq_self_eq_true]
  case MetaDataReplace =>
    simp only [holdsC03, hb, hrc, hrc', Xml.withKids_kids, beq_self_eq_true, Bool.true_and,
      beq_iff_eq]
    exact h2 rfl
  all_goals
    simp only [holdsC03, hb, hrc, hrc', Xml.withKids_kids, beq_self_eq_true, Bool.true_and,
      Kind.isStoryLevel, if_true, Bool.false_eq_true, if_false]
    first
    | (simp only [frame, beq_iff_eq]; exact (h3 rfl).symm)
    | exact itemClause_of_shape _ _ _ _ _ (h4 rfl)

/-! ### the root-level classes -/

theorem holdsC03_roEnd (d m rc base ro : Xml) (ws : List Warn) (e : Option Err)
    (hrc : rcOf d = some rc) (hb : m.find Kind.RunningOrderEnd.baseTag = some base)
    (hro : ro = d ∨ ∃ x, ro = d.withKids (d.kids ++ [x])) :
    holdsC03 ⟨d, m, .RunningOrderEnd⟩ ⟨ro, ws, e⟩ = true := by
  simp only [holdsC03, hb, hrc, Bool.and_eq_true, beq_iff_eq]
  rcases hro with rfl | ⟨x, rfl⟩
  · simp
  · simp

theorem holdsC03_roReplace (d m rc base ro : Xml) (ws : List Warn) (e : Option Err)
    (hrc : rcOf d = some rc) (hb : m.find Kind.RunningOrderReplace.baseTag = some base)
    (hro : ro = d ∨ ∃ j x, rcIndex d = some j ∧ ro = d.withKids (pyInsert (d.kids.eraseIdx j) j x)) :
    holdsC03 ⟨d, m, .RunningOrderReplace⟩ ⟨ro, ws, e⟩ = true := by
  obtain ⟨i, hi, hget⟩ := rcIndex_of_rcOf hrc
  simp only [holdsC03, hb, hrc, hi, beq_iff_eq]
  rcases hro with rfl | ⟨j, x, hj, rfl⟩
  · rfl
  · rw [hi] at hj; cases hj
    have hlt : i < d.kids.length := (List.getElem?_eq_some_iff.mp hget).1
    obtain ⟨a, y, b, hk, hal, _⟩ := exists_split d.kids i hlt
    simp only [Xml.withKids_kids, Xml.withKids_withKids]
    congr 1
    rw [hk, ← hal, List.eraseIdx_append_of_length_le (Nat.le_refl _)]
    simp only [Nat.sub_self, List.eraseIdx_zero, List.tail_cons, pyInsert, List.take_left',
      List.drop_left']
    rw [List.eraseIdx_append_of_length_le (Nat.le_refl _)]
    simp

/-! ### the domain, continued -/

theorem shaped_facts {k : Kind} {m : Xml} (h : shaped k m = true) :
    msgIdExc m = none ∧ ∃ base, m.find k.baseTag = some base ∧ k ≠ .RunningOrder ∧
      (k = .StorySend → ∃ body, base.find "storyBody" = some body ∧ body.find "storyID" = none) := by
  unfold shaped at h
  simp only [Bool.and_eq_true, Option.isNone_iff_eq_none] at h
  obtain ⟨hmid, h⟩ := h
  refine ⟨hmid, ?_⟩
  split at h
  · cases h
  · rename_i base hb
    refine ⟨base, hb, ?_, ?_⟩
    · rintro rfl; simp at h
    · rintro rfl
      simp only at h
      split at h
      · rename_i body hbody
        exact ⟨body, hbody, by simpa using h⟩
      · cases h

theorem sameMdKey_self (s : Xml) : sameMdKey s s = true := by
  simp [sameMdKey]

/-! ### C03 -/

theorem frame_any (i : MergeInput) (h : DomC03 i = true) :
    holdsC03 i (addK i.k i.d i.m) = true := by
  obtain ⟨d, m, k⟩ := i
  simp only [DomC03, Bool.and_eq_true] at h
  obtain ⟨hwf, hsh⟩ := h
  obtain ⟨rc, hrc⟩ := wf_of_WfRO hwf
  obtain ⟨hmid, base, hb, hne, hsend⟩ := shaped_facts hsh
  by_cases hc : completed d = true
  · have hadd : addK k d m = ⟨d, [], some .completed⟩ := by simp [addK, hc]
    simp only [hadd]
    by_cases hk : k.editsRc = true
    · have := holdsC03_of_setRc d m rc base k rc.kids [] (some .completed) hrc hb hk
        (fun _ => rfl) (fun _ => rfl) (fun _ => rfl) (fun _ => ItemShape_refl _ _ _)
      rw [setRcKids_self hrc] at this
      exact this
    · cases k <;> first | (simp [Kind.editsRc] at hk; done) | skip
      · exact absurd rfl hne
      · exact holdsC03_roReplace d m rc base d _ _ hrc hb (Or.inl rfl)
      · exact holdsC03_roEnd d m rc base d _ _ hrc hb (Or.inl rfl)
  · have hc' : completed d = false := by simpa using hc
    by_cases hk : k.editsRc = true
    · simp only [addK_editsRc k d m rc base hk hc' hrc hb]
      apply holdsC03_of_setRc d m rc base k _ _ _ hrc hb hk
      · rintro rfl; rfl
      · rintro rfl
        simp only [mergeRc]
        symm
        apply metadataLoop_filter
        · intro s hs c hsc
          simp only [mdQ, Bool.not_eq_false', List.any_eq_true]
          exact ⟨s, hs, hsc⟩
        · intro s hs
          simp only [mdQ, Bool.not_eq_false', List.any_eq_true]
          exact ⟨s, hs, sameMdKey_self s⟩
      · intro hsl
        apply storyLevel_filter k rc base _ hsl
        intro hks story hst
        obtain ⟨body, hbody, hn⟩ := hsend hks
        exact convertStorySend_id hbody hn hst
      · intro hil
        exact itemLevel_shape k rc base _ hil
    · obtain ⟨j, hj, hget⟩ := rcIndex_of_rcOf hrc
      cases k <;> first | (simp [Kind.editsRc] at hk; done) | skip
      · exact absurd rfl hne
      · have hadd : addK .RunningOrderReplace d m =
            ⟨d.withKids (pyInsert (d.kids.eraseIdx j) j (base.withTag "roCreate")), [], none⟩ := by
          unfold addK merge
          simp only [hc', hb, findChildAny_eq_rcIndex, hj]
          rfl
        simp only [hadd]
        exact holdsC03_roReplace d m rc base _ _ _ hrc hb (Or.inr ⟨j, _, hj, rfl⟩)
      · have hadd : addK .RunningOrderEnd d m =
            ⟨d.withKids (d.kids ++ [.node "mosromgrmeta" [] none none [base]]), [], none⟩ := by
          unfold addK merge
          simp only [hc', hb]
          rfl
        simp only [hadd]
        exact holdsC03_roEnd d m rc base _ _ _ hrc hb (Or.inr ⟨_, rfl⟩)

end Mrm
