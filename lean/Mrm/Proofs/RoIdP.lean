/-
  Mrm/Proofs/RoIdP.lean — C14: the running-order ID is kept by messages addressed to that running
  order (targets).
-/
import Mrm.Proofs.Frame
import Mrm.Model.Collection
import Mrm.Proofs.RoIdLemmas

namespace Mrm

/-- the running order's ID: text of the first roID child of its roCreate -/
def roIdText (d : Xml) : Option String := (rcOf d).bind (fun rc => Xml.childText (some rc) "roID")

/-- the roCreate has a roID child (the schema's required tag) -/
def hasRoId (d : Xml) : Bool := ((rcOf d).bind (fun rc => rc.find "roID")).isSome

/-- "addressed to that running order": the only messages that write the roID are roReplace (whose
    content becomes the roCreate) and roMetadataReplace (which replaces same-tag children); they must
    carry the running order's own ID — roReplace exactly one way: a roID child with that text;
    roMetadataReplace: every roID child it carries has that text -/
def sameRo (i : MergeInput) : Bool :=
  match i.m.find i.k.baseTag with
  | none => false
  | some base =>
    match i.k with
    | .RunningOrderReplace => (base.find "roID").isSome && Xml.childText (some base) "roID" == roIdText i.d
    | .MetaDataReplace => (base.findall "roID").all (fun r => r.text == roIdText i.d)
    | _ => true

theorem roid_of {d' rc' : Xml} {T : Option String} (hrc : rcOf d' = some rc')
    (h : RoIdIs T rc'.kids) : roIdText d' = T ∧ hasRoId d' = true := by
  obtain ⟨e, he, ht⟩ := h
  have hf : rc'.find "roID" = some e := he
  simp [roIdText, hasRoId, hrc, Xml.childText, hf, ht]

theorem roIdIs_of_has {d rc : Xml} (hrc : rcOf d = some rc) (hid : hasRoId d = true) :
    RoIdIs (roIdText d) rc.kids := by
  simp only [hasRoId, hrc, Option.bind_some] at hid
  obtain ⟨e, he⟩ := Option.isSome_iff_exists.mp hid
  refine ⟨e, he, ?_⟩
  simp [roIdText, hrc, Xml.childText, he]

/-- one merge step keeps the running-order ID -/
theorem roid_step (i : MergeInput) (h : DomC03 i = true) (hid : hasRoId i.d = true) (hs : sameRo i = true) :
    roIdText (addK i.k i.d i.m).ro = roIdText i.d ∧ hasRoId (addK i.k i.d i.m).ro = true := by
  obtain ⟨d, m, k⟩ := i
  simp only at h hid hs ⊢
  simp only [DomC03, Bool.and_eq_true] at h
  obtain ⟨hwf, hsh⟩ := h
  obtain ⟨rc, hrc⟩ := wf_of_WfRO hwf
  obtain ⟨_, base, hb, hne, _⟩ := shaped_facts hsh
  have h0 := roIdIs_of_has hrc hid
  simp only [sameRo, hb] at hs
  by_cases hc : completed d = true
  · have hadd : addK k d m = ⟨d, [], some .completed⟩ := by simp [addK, hc]
    rw [hadd]; exact roid_of hrc h0
  · have hc' : completed d = false := by simpa using hc
    by_cases hk : k.editsRc = true
    · rw [addK_editsRc k d m rc base hk hc' hrc hb]
      apply roid_of (rcOf_setRcKids d rc _ hrc)
      simp only [Xml.withKids_kids]
      apply roIdIs_mergeRc k rc base _ h0
      rintro rfl s hs1 hs2
      simp only [List.all_eq_true, beq_iff_eq] at hs
      exact hs s (by simp [Xml.findall, hs1, hs2])
    · obtain ⟨j, hj, hget⟩ := rcIndex_of_rcOf hrc
      cases k <;> first | (simp [Kind.editsRc] at hk; done) | skip
      · exact absurd rfl hne
      · have hadd : addK .RunningOrderReplace d m =
            ⟨d.withKids (pyInsert (d.kids.eraseIdx j) j (base.withTag "roCreate")), [], none⟩ := by
          unfold addK merge
          simp only [hc', hb, findChildAny_eq_rcIndex, hj]
          rfl
        rw [hadd]
        unfold rcIndex at hj
        obtain ⟨a, x, b, hkids, hal, _, ha⟩ := findIdx_split hj
        have hnone : a.find? (fun c => c.tag == "roCreate") = none := by
          rw [List.find?_eq_none]; intro y hy; simp [ha y hy]
        have hrc' : rcOf (d.withKids (pyInsert (d.kids.eraseIdx j) j (base.withTag "roCreate"))) =
            some (base.withTag "roCreate") := by
          unfold rcOf Xml.find
          simp only [Xml.withKids_kids]
          rw [hkids, ← hal, List.eraseIdx_append_of_length_le (Nat.le_refl _)]
          simp [pyInsert, List.find?_append, hnone]
        apply roid_of hrc'
        simp only [Bool.and_eq_true, beq_iff_eq] at hs
        obtain ⟨e, he⟩ := Option.isSome_iff_exists.mp hs.1
        refine ⟨e, he, ?_⟩
        rw [← hs.2]
        simp [Xml.childText, he]
      · have hadd : addK .RunningOrderEnd d m =
            ⟨d.withKids (d.kids ++ [.node "mosromgrmeta" [] none none [base]]), [], none⟩ := by
          unfold addK merge
          simp only [hc', hb]
          rfl
        rw [hadd]
        have hrc' : rcOf (d.withKids (d.kids ++ [.node "mosromgrmeta" [] none none [base]])) =
            some rc := by
          unfold rcOf Xml.find at hrc ⊢
          simp [List.find?_append, hrc]
        exact roid_of hrc' h0

end Mrm
