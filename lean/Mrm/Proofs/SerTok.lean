/-
  Mrm/Proofs/SerTok.lean — the token stream of a tree parses back to the tree.
-/
import Mrm.Model.Serialize

namespace Mrm

/-- rest must not start with chars (else it would be swallowed as a tail) -/
def NoLeadChars : List Tok → Prop
  | .chars _ :: _ => False
  | _ => True

theorem takeChars_opt (o : Option String) (r : List Tok) (h : NoLeadChars r) :
    takeChars (optChars o ++ r) = (o, r) := by
  cases o with
  | none =>
    simp [optChars]
    cases r with
    | nil => rfl
    | cons t r => cases t <;> simp_all [takeChars, NoLeadChars]
  | some s => simp [optChars, takeChars]

theorem noLead_tokens (t : Xml) (r : List Tok) : NoLeadChars (tokens t ++ r) := by
  cases t; simp [tokens, NoLeadChars]

theorem noLead_tokensL_cl (ks : List Xml) (r : List Tok) : NoLeadChars (tokensL ks ++ .cl :: r) := by
  cases ks with
  | nil => simp [tokensL, NoLeadChars]
  | cons k ks => simp only [tokensL, List.append_assoc]; exact noLead_tokens _ _

mutual
theorem parseElem_tokens (t : Xml) (r : List Tok) (n : Nat) (hn : xsz t < n) (hr : NoLeadChars r) :
    parseElem n (tokens t ++ r) = some (t, r) := by
  match t, n with
  | .node tg a x tl ks, n+1 =>
    simp only [tokens, List.cons_append, List.append_assoc, parseElem]
    rw [takeChars_opt x _ (noLead_tokensL_cl ks _)]
    simp only
    have hk : xszL ks < n := by simp [xsz] at hn; omega
    have := parseKids_tokens ks (optChars tl ++ r) n hk
    rw [List.nil_append, this]
    simp only
    rw [takeChars_opt tl r hr]
theorem parseKids_tokens (ks : List Xml) (r : List Tok) (n : Nat) (hn : xszL ks < n) :
    parseKids n (tokensL ks ++ .cl :: r) = some (ks, r) := by
  match ks, n with
  | [], n+1 => simp [tokensL, parseKids]
  | k :: ks, n+1 =>
    have h1 : xsz k < n := by simp [xszL] at hn; omega
    have h2 : xszL ks < n := by simp [xszL] at hn; omega
    have e1 := parseElem_tokens k (tokensL ks ++ .cl :: r) n h1 (noLead_tokensL_cl ks r)
    have e2 := parseKids_tokens ks r n h2
    simp only [tokensL, List.append_assoc]
    cases k with
    | node tg a x tl kk =>
      simp only [tokens, List.cons_append, List.append_assoc] at e1 ⊢
      simp only [parseKids]
      rw [e1]; simp only; rw [e2]
end

mutual
theorem xsz_le (t : Xml) : xsz t + 1 ≤ 2 * (tokens t).length := by
  match t with
  | .node tg a x tl ks =>
    have := xszL_le ks
    simp only [xsz, tokens, List.length_cons, List.length_append, List.length_nil]
    omega
theorem xszL_le (ks : List Xml) : xszL ks ≤ 2 * (tokensL ks).length + 1 := by
  match ks with
  | [] => simp [xszL, tokensL]
  | k :: ks =>
    have h1 := xsz_le k
    have h2 := xszL_le ks
    simp only [xszL, tokensL, List.length_append]
    omega
end

theorem tokens_roundtrip' (t : Xml) : parseTokens (tokens t) = some t := by
  have hsz := xsz_le t
  have := parseElem_tokens t [] (2 * (tokens t).length + 2) (by omega) (by simp [NoLeadChars])
  rw [List.append_nil] at this
  simp only [parseTokens, this]

end Mrm
