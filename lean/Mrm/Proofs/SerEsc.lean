/-
  Mrm/Proofs/SerEsc.lean — character data: `decodeEntities` and `normalizeEol` against the
  serialiser's escaping.
-/
import Mrm.Model.Serialize

namespace Mrm

theorem decodeEntities_cons_ne (c : Char) (r : List Char) (h : c ≠ '&') :
    decodeEntities (c :: r) = c :: decodeEntities r := by
  rw [decodeEntities.eq_def]
  split <;> first
    | rfl
    | (rename_i heq; simp only [List.cons.injEq] at heq; exact absurd heq.1 h)
    | (rename_i heq; simp only [List.cons.injEq] at heq; obtain ⟨rfl, rfl⟩ := heq; rfl)
    | (rename_i heq; cases heq)

theorem normalizeEol_cons_ne (c : Char) (r : List Char) (h : c ≠ '\r') :
    normalizeEol (c :: r) = c :: normalizeEol r := by
  rw [normalizeEol.eq_def]
  split <;> first
    | rfl
    | (rename_i heq; simp only [List.cons.injEq] at heq; exact absurd heq.1 h)
    | (rename_i heq; simp only [List.cons.injEq] at heq; obtain ⟨rfl, rfl⟩ := heq; rfl)
    | (rename_i heq; cases heq)

/-- end-of-line normalisation is the identity on text without a carriage return -/
theorem normalizeEol_id (cs : List Char) (h : '\r' ∉ cs) : normalizeEol cs = cs := by
  induction cs with
  | nil => rfl
  | cons c cs ih =>
    simp only [List.mem_cons, not_or] at h
    rw [normalizeEol_cons_ne c cs (fun hc => h.1 hc.symm), ih h.2]

theorem escapeCdataL_other (c : Char) (cs : List Char) (h1 : c ≠ '&') (h2 : c ≠ '<') (h3 : c ≠ '>') :
    escapeCdataL (c :: cs) = c :: escapeCdataL cs := by
  rw [escapeCdataL.eq_def]
  split <;> first
    | (rename_i heq; simp only [List.cons.injEq] at heq; first | exact absurd heq.1 h1 | exact absurd heq.1 h2 | exact absurd heq.1 h3)
    | (rename_i heq; simp only [List.cons.injEq] at heq; obtain ⟨rfl, rfl⟩ := heq; rfl)
    | (rename_i heq; cases heq)

theorem escapeAttrL_other (c : Char) (cs : List Char) (h1 : c ≠ '&') (h2 : c ≠ '<') (h3 : c ≠ '>')
    (h4 : c ≠ '"') (h5 : c ≠ '\r') (h6 : c ≠ '\n') (h7 : c ≠ '\t') :
    escapeAttrL (c :: cs) = c :: escapeAttrL cs := by
  rw [escapeAttrL.eq_def]
  split <;> first
    | (rename_i heq; simp only [List.cons.injEq] at heq
       first | exact absurd heq.1 h1 | exact absurd heq.1 h2 | exact absurd heq.1 h3
             | exact absurd heq.1 h4 | exact absurd heq.1 h5 | exact absurd heq.1 h6 | exact absurd heq.1 h7)
    | (rename_i heq; simp only [List.cons.injEq] at heq; obtain ⟨rfl, rfl⟩ := heq; rfl)
    | (rename_i heq; cases heq)

/-- entity decoding inverts `_escape_cdata` -/
theorem decode_escapeCdata' (cs : List Char) : decodeEntities (escapeCdataL cs) = cs := by
  induction cs with
  | nil => rfl
  | cons c cs ih =>
    by_cases h1 : c = '&'
    · subst h1; simp [escapeCdataL, decodeEntities, ih]
    · by_cases h2 : c = '<'
      · subst h2; simp [escapeCdataL, decodeEntities, ih]
      · by_cases h3 : c = '>'
        · subst h3; simp [escapeCdataL, decodeEntities, ih]
        · rw [escapeCdataL_other c cs h1 h2 h3, decodeEntities_cons_ne c _ h1, ih]

theorem escapeCdataL_no_cr (cs : List Char) (h : '\r' ∉ cs) : '\r' ∉ escapeCdataL cs := by
  induction cs with
  | nil => simp [escapeCdataL]
  | cons c cs ih =>
    simp only [List.mem_cons, not_or] at h
    have ih' := ih h.2
    by_cases h1 : c = '&'
    · subst h1; simp [escapeCdataL, ih']
    · by_cases h2 : c = '<'
      · subst h2; simp [escapeCdataL, ih']
      · by_cases h3 : c = '>'
        · subst h3; simp [escapeCdataL, ih']
        · rw [escapeCdataL_other c cs h1 h2 h3]
          simp only [List.mem_cons, not_or]
          exact ⟨h.1, ih'⟩

theorem escapeAttrL_no_cr (cs : List Char) : '\r' ∉ escapeAttrL cs := by
  induction cs with
  | nil => simp [escapeAttrL]
  | cons c cs ih =>
    by_cases h1 : c = '&'
    · subst h1; simp [escapeAttrL, ih]
    by_cases h2 : c = '<'
    · subst h2; simp [escapeAttrL, ih]
    by_cases h3 : c = '>'
    · subst h3; simp [escapeAttrL, ih]
    by_cases h4 : c = '"'
    · subst h4; simp [escapeAttrL, ih]
    by_cases h5 : c = '\r'
    · subst h5; simp [escapeAttrL, ih]
    by_cases h6 : c = '\n'
    · subst h6; simp [escapeAttrL, ih]
    by_cases h7 : c = '\t'
    · subst h7; simp [escapeAttrL, ih]
    rw [escapeAttrL_other c cs h1 h2 h3 h4 h5 h6 h7]
    simp only [List.mem_cons, not_or]
    exact ⟨fun hc => h5 hc.symm, ih⟩

theorem decode_escapeAttr (cs : List Char) : decodeEntities (escapeAttrL cs) = cs := by
  induction cs with
  | nil => rfl
  | cons c cs ih =>
    by_cases h1 : c = '&'
    · subst h1; simp [escapeAttrL, decodeEntities, ih]
    by_cases h2 : c = '<'
    · subst h2; simp [escapeAttrL, decodeEntities, ih]
    by_cases h3 : c = '>'
    · subst h3; simp [escapeAttrL, decodeEntities, ih]
    by_cases h4 : c = '"'
    · subst h4; simp [escapeAttrL, decodeEntities, ih]
    by_cases h5 : c = '\r'
    · subst h5; simp [escapeAttrL, decodeEntities, ih]
    by_cases h6 : c = '\n'
    · subst h6; simp [escapeAttrL, decodeEntities, ih]
    by_cases h7 : c = '\t'
    · subst h7; simp [escapeAttrL, decodeEntities, ih]
    rw [escapeAttrL_other c cs h1 h2 h3 h4 h5 h6 h7, decodeEntities_cons_ne c _ h1, ih]

end Mrm
