/-
  Mrm/Proofs/LexMain.lean — lexing the serialisation of a well-formed tree yields its tokens.
-/
import Mrm.Proofs.LexLemmas

namespace Mrm

theorem serChars_cons (t : Xml) : ∃ r, serChars t = '<' :: r := by
  cases t with
  | node tag attrs text tail kids =>
    simp only [serChars, List.cons_append]
    exact ⟨_, rfl⟩

/-- `hasText` of the serialiser -/
def hasTextB (text : Option String) : Bool :=
  match text with
  | some t => !t.isEmpty
  | none => false

theorem serChars_node (tag : String) (attrs : List (String × String)) (text tail : Option String)
    (kids : List Xml) :
    serChars (.node tag attrs text tail kids) =
      ('<' :: tag.toList ++ attrsL attrs ++
        (if hasTextB text || !kids.isEmpty then
           '>' :: optCdataL text ++ serCharsL kids ++ '<' :: '/' :: tag.toList ++ ['>']
         else [' ', '/', '>'])) ++ optCdataL tail := by
  simp only [serChars, hasTextB]
  rfl

theorem okRest_serCharsL (ks : List Xml) (Z : List Char) (hZ : OkRest Z) : OkRest (serCharsL ks ++ Z) := by
  cases ks with
  | nil => simpa [serCharsL] using hZ
  | cons k ks =>
    obtain ⟨r, hr⟩ := serChars_cons k
    simp only [serCharsL, hr, List.cons_append]
    exact okRest_lt _

theorem lex_optCdata (o : Option String) (Y : List Char) (n : Nat) (hok : cdataOk o = true)
    (hY : OkRest Y) (hn : (optCdataL o ++ Y).length ≤ n) :
    ∃ n', Y.length ≤ n' ∧ lexGo n (optCdataL o ++ Y) = (lexGo n' Y).map (optChars o ++ ·) := by
  cases o with
  | none =>
    refine ⟨n, by simpa [optCdataL] using hn, ?_⟩
    simp [optCdataL, optChars]
  | some s =>
    have hne : escapeCdataL s.toList ≠ [] := by
      apply escapeCdataL_ne_nil
      intro h
      have : s = "" := String.toList_eq_nil_iff.mp h
      subst this
      simp [cdataOk] at hok
    have hlen : 1 ≤ (escapeCdataL s.toList).length := by
      cases h : escapeCdataL s.toList with
      | nil => exact absurd h hne
      | cons _ _ => simp
    simp only [optCdataL, List.length_append] at hn
    cases n with
    | zero => omega
    | succ m =>
      refine ⟨m, by omega, ?_⟩
      simp only [optCdataL, optChars]
      rw [lex_cdata s Y m hok hY]
      rfl

mutual
theorem lex_elem (t : Xml) (h : wfSer t = true) (rest : List Char) (hr : OkRest rest) (n : Nat)
    (hn : (serChars t ++ rest).length ≤ n) :
    ∃ n', rest.length ≤ n' ∧ lexGo n (serChars t ++ rest) = (lexGo n' rest).map (tokens t ++ ·) := by
  match t with
  | .node tag attrs text tail kids =>
    simp only [wfSer, Bool.and_eq_true, List.all_eq_true] at h
    obtain ⟨⟨⟨⟨hvt, hva⟩, htext⟩, htail⟩, hkids⟩ := h
    have hal := attrsL_length attrs
    by_cases hcond : (hasTextB text || !kids.isEmpty) = true
    · -- `<tag …>text kids</tag>tail`
      have hshape : serChars (.node tag attrs text tail kids) ++ rest =
          '<' :: (tag.toList ++ (attrsL attrs ++ '>' :: (optCdataL text ++ (serCharsL kids ++
            ('<' :: '/' :: (tag.toList ++ '>' :: (optCdataL tail ++ rest))))))) := by
        simp only [serChars_node, hcond, if_true, List.cons_append, List.append_assoc, List.nil_append]
      rw [hshape] at hn ⊢
      simp only [List.length_cons, List.length_append] at hn
      cases n with
      | zero => omega
      | succ m =>
        rw [lex_open_gt tag attrs _ m hvt hva (by omega)]
        obtain ⟨n1, hn1, e1⟩ := lex_optCdata text
          (serCharsL kids ++ ('<' :: '/' :: (tag.toList ++ '>' :: (optCdataL tail ++ rest)))) m htext
          (okRest_serCharsL kids _ (okRest_lt _))
          (by simp only [List.length_cons, List.length_append]; omega)
        obtain ⟨n2, hn2, e2⟩ := lex_kids kids hkids
          ('<' :: '/' :: (tag.toList ++ '>' :: (optCdataL tail ++ rest))) (okRest_lt _) n1 hn1
        simp only [List.length_cons, List.length_append] at hn2
        cases n2 with
        | zero => omega
        | succ m2 =>
          have e3 := lex_close tag (optCdataL tail ++ rest) m2 hvt
          obtain ⟨n3, hn3, e4⟩ := lex_optCdata tail rest m2 htail hr
            (by simp only [List.length_append]; omega)
          refine ⟨n3, hn3, ?_⟩
          rw [e1, e2, e3, e4]
          simp only [Option.map_map, tokens]
          congr 1
          funext ts
          simp [List.append_assoc]
    · -- `<tag … />tail`
      simp only [Bool.or_eq_true, Bool.not_eq_true', not_or, Bool.not_eq_true,
        Bool.not_eq_false, List.isEmpty_iff] at hcond
      obtain ⟨hnt, hk⟩ := hcond
      subst hk
      have htn : text = none := by
        cases text with
        | none => rfl
        | some s =>
          simp only [hasTextB, Bool.not_eq_false'] at hnt
          simp [cdataOk, hnt] at htext
      subst htn
      have hshape : serChars (.node tag attrs none tail []) ++ rest =
          '<' :: (tag.toList ++ (attrsL attrs ++ ' ' :: '/' :: '>' :: (optCdataL tail ++ rest))) := by
        simp [serChars_node, hasTextB]
      rw [hshape] at hn ⊢
      simp only [List.length_cons, List.length_append] at hn
      cases n with
      | zero => omega
      | succ m =>
        rw [lex_open_empty tag attrs _ m hvt hva (by omega)]
        obtain ⟨n3, hn3, e4⟩ := lex_optCdata tail rest m htail hr
          (by simp only [List.length_append]; omega)
        refine ⟨n3, hn3, ?_⟩
        rw [e4]
        simp only [Option.map_map, tokens, tokensL, optChars]
        congr 1
theorem lex_kids (ks : List Xml) (h : wfSerL ks = true) (rest : List Char) (hr : OkRest rest) (n : Nat)
    (hn : (serCharsL ks ++ rest).length ≤ n) :
    ∃ n', rest.length ≤ n' ∧ lexGo n (serCharsL ks ++ rest) = (lexGo n' rest).map (tokensL ks ++ ·) := by
  match ks with
  | [] =>
    refine ⟨n, by simpa [serCharsL] using hn, ?_⟩
    simp [serCharsL, tokensL]
  | k :: ks =>
    simp only [wfSerL, Bool.and_eq_true] at h
    have hshape : serCharsL (k :: ks) ++ rest = serChars k ++ (serCharsL ks ++ rest) := by
      simp only [serCharsL, List.append_assoc]
    rw [hshape] at hn ⊢
    obtain ⟨n1, hn1, e1⟩ := lex_elem k h.1 _ (okRest_serCharsL ks rest hr) n hn
    obtain ⟨n2, hn2, e2⟩ := lex_kids ks h.2 rest hr n1 hn1
    refine ⟨n2, hn2, ?_⟩
    rw [e1, e2]
    simp only [Option.map_map, tokensL]
    congr 1
    funext ts
    simp [List.append_assoc]
end

theorem lex_serialize' (t : Xml) (h : wfSer t = true) :
    lexGo ((serChars t).length + 1) (serChars t) = some (tokens t) := by
  obtain ⟨n', _, e⟩ := lex_elem t h [] (stopsAt_nil _) ((serChars t).length + 1) (by simp)
  rw [List.append_nil] at e
  rw [e, lexGo.eq_1]
  simp

end Mrm
