/-
  Mrm/Proofs/AccPres.lean — the accessor domain (a roSlug, parseable explicit story times) is kept
  by every merge whose payload is well-formed.
-/
import Mrm.Spec.Access
import Mrm.Proofs.HistInv

namespace Mrm

/-- the part of `WfAcc` beyond the history invariant, on the `roCreate` children -/
def accOk (cs : List Xml) : Prop :=
  (cs.find? (fun c => c.tag == "roSlug")).isSome = true ∧
    ∀ c ∈ cs, c.tag = "story" → storyTimesOk c = true

theorem storyTimesOk_congr {s s' : Xml}
    (h : s'.find "mosExternalMetadata" = s.find "mosExternalMetadata") :
    storyTimesOk s' = storyTimesOk s := by
  unfold storyTimesOk payloadTime payloadOf
  rw [h]

/-! ### story-level and item-level edits -/

theorem accOk_of_edit {xs cs cs' : List Xml} (h : accOk cs) (he : Edit "story" xs cs cs')
    (hx : ∀ x ∈ xs, storyTimesOk x = true) : accOk cs' := by
  refine ⟨?_, ?_⟩
  · rw [find_of_filter_ne (t := "roSlug") (by decide) he.1]; exact h.1
  · intro c hc ht
    rcases he.2 c hc with h' | h'
    · exact h.2 c h' ht
    · exact hx c h'

theorem storyTimesOk_of_edit {ys ks' : List Xml} {s : Xml} (h : storyTimesOk s = true)
    (he : Edit "item" ys s.kids ks') : storyTimesOk (s.withKids ks') = true := by
  have hmd : (s.withKids ks').find "mosExternalMetadata" = s.find "mosExternalMetadata" := by
    unfold Xml.find
    exact find_of_filter_ne (by decide) he.1
  rw [storyTimesOk_congr hmd]; exact h

theorem accOk_set {cs : List Xml} {j : Nat} {s s' : Xml} (h : accOk cs)
    (hget : cs[j]? = some s) (ht : s.tag = "story") (ht' : s'.tag = "story")
    (hs' : storyTimesOk s' = true) : accOk (cs.set j s') := by
  obtain ⟨hj, hsj⟩ := List.getElem?_eq_some_iff.mp hget
  constructor
  · have : (cs.set j s').find? (fun c => c.tag == "roSlug") = cs.find? (fun c => c.tag == "roSlug") := by
      apply find_of_filter_ne (tag := "story") (by decide)
      apply filter_set_of_false
      · intro hi; rw [hsj]; simp [ht]
      · simp [ht']
    rw [this]; exact h.1
  · intro c hc hct
    rcases List.mem_or_eq_of_mem_set hc with h' | h'
    · exact h.2 c h' hct
    · rw [h']; exact hs'

theorem accOk_of_itemEdit {ys cs cs' : List Xml} (h : accOk cs) (he : ItemEdit ys cs cs') :
    accOk cs' := by
  rcases he with rfl | ⟨j, s, ks', hget, ht, rfl, hed⟩
  · exact h
  · apply accOk_set h hget ht (by simpa using ht)
    exact storyTimesOk_of_edit (h.2 s (List.mem_of_getElem? hget) ht) hed

/-! ### roMetadataReplace -/

theorem accOk_mdStep (cs : List Xml) (s : Xml) (h : accOk cs)
    (hs : s.tag = "story" → storyTimesOk s = true) :
    accOk (match mdTarget cs s with
      | none => pyInsert cs cs.length s
      | some i => pyInsert (cs.eraseIdx i) i s) := by
  constructor
  · by_cases hst : s.tag = "roSlug"
    · rw [List.find?_isSome]
      refine ⟨s, ?_, by simp [hst]⟩
      split <;> simp [pyInsert]
    · have : (match mdTarget cs s with
          | none => pyInsert cs cs.length s
          | some i => pyInsert (cs.eraseIdx i) i s).find? (fun c => c.tag == "roSlug") =
          cs.find? (fun c => c.tag == "roSlug") := by
        apply find_of_filter_ne (tag := s.tag) (fun hh => hst hh.symm)
        split
        · exact filter_pyInsert_of_false _ cs _ s (by simp)
        · rename_i i hi
          rw [filter_pyInsert_of_false _ _ _ s (by simp)]
          apply filter_eraseIdx_of_false
          intro hlt
          obtain ⟨_, hk⟩ := mdTarget_some hi
          simp only [sameMdKey, Bool.and_eq_true, beq_iff_eq] at hk
          simp [hk.1]
      rw [this]; exact h.1
  · intro c hc hct
    have : c ∈ cs ∨ c = s := by
      split at hc
      · simp only [pyInsert, List.mem_append, List.mem_cons] at hc
        rcases hc with hc | hc | hc
        · exact Or.inl (List.mem_of_mem_take hc)
        · exact Or.inr hc
        · exact Or.inl (List.mem_of_mem_drop hc)
      · simp only [pyInsert, List.mem_append, List.mem_cons] at hc
        rcases hc with hc | hc | hc
        · exact Or.inl (List.mem_of_mem_eraseIdx (List.mem_of_mem_take hc))
        · exact Or.inr hc
        · exact Or.inl (List.mem_of_mem_eraseIdx (List.mem_of_mem_drop hc))
    rcases this with h' | rfl
    · exact h.2 c h' hct
    · exact hs hct

theorem accOk_metadataLoop (cs ss : List Xml) (h : accOk cs)
    (hs : ∀ s ∈ ss, s.tag = "story" → storyTimesOk s = true) : accOk (metadataLoop cs ss) := by
  induction ss generalizing cs with
  | nil => simpa [metadataLoop] using h
  | cons s ss ih =>
    have step := accOk_mdStep cs s h (hs s List.mem_cons_self)
    have hs' : ∀ s ∈ ss, s.tag = "story" → storyTimesOk s = true :=
      fun x hx => hs x (List.mem_cons_of_mem _ hx)
    unfold metadataLoop
    split
    · rename_i hm
      rw [hm] at step
      exact ih _ step hs'
    · rename_i i hm
      rw [hm] at step
      exact ih _ step hs'

/-! ### roStorySend -/

theorem converted_find_md {base story body : Xml} (hb : base.find "storyBody" = some body)
    (h : convertStorySend base = .ok story) (hmd : body.find "mosExternalMetadata" = none) :
    story.find "mosExternalMetadata" = base.find "mosExternalMetadata" := by
  obtain ⟨a, c, hk, hsk⟩ := convertStorySend_kids hb h
  have hbt : body.tag = "storyBody" := by
    unfold Xml.find at hb
    have := List.find?_some hb
    simpa using this
  unfold Xml.find
  rw [hk, hsk]
  have hch : (body.kids.map retag).find? (fun c => c.tag == "mosExternalMetadata") = none := by
    rw [List.find?_eq_none]
    intro y hy
    rw [List.mem_map] at hy
    obtain ⟨z, hz, rfl⟩ := hy
    unfold Xml.find at hmd
    rw [List.find?_eq_none] at hmd
    unfold retag
    split
    · simp
    · exact hmd z hz
  have hne : ("storyBody" == "mosExternalMetadata") = false := by decide
  simp only [List.find?_append, hch, List.find?_cons, hbt, hne, Option.or_none]

/-! ### what `payloadAccOk` says -/

theorem payloadAcc_facts {k : Kind} {m : Xml} (hp : payloadAccOk k m = true) :
    payloadOk k m = true ∧ ∃ base, m.find k.baseTag = some base ∧
      (∀ x ∈ storyPayload k base, storyTimesOk x = true) ∧
      (k = .MetaDataReplace → ∀ s ∈ base.kids, s.tag = "story" → storyTimesOk s = true) ∧
      (k = .RunningOrderReplace → accOk base.kids) := by
  unfold payloadAccOk at hp
  simp only [Bool.and_eq_true] at hp
  obtain ⟨hpo, hp⟩ := hp
  refine ⟨hpo, ?_⟩
  split at hp
  · cases hp
  · rename_i base hb
    refine ⟨base, hb, ?_⟩
    cases k
    case StorySend =>
      simp only at hp
      refine ⟨?_, by simp, by simp⟩
      intro x hx
      simp only [storyPayload] at hx
      split at hx
      · rename_i story hst
        simp only [List.mem_singleton] at hx
        subst hx
        unfold payloadOk at hpo
        simp only [hb] at hpo
        split at hpo
        · cases hpo
        · rename_i body hbody
          simp only [Bool.and_eq_true, Option.isNone_iff_eq_none] at hpo
          rw [storyTimesOk_congr (converted_find_md hbody hst hpo.2)]
          exact hp
      · simp at hx
    case MetaDataReplace =>
      simp only [List.all_eq_true, Bool.or_eq_true, bne_iff_ne, ne_eq] at hp
      refine ⟨by simp [storyPayload], ?_, by simp⟩
      intro _ s hs ht
      rcases hp s hs with h | h
      · exact absurd ht h
      · exact h
    case RunningOrderReplace =>
      simp only [Bool.and_eq_true, List.all_eq_true, Bool.or_eq_true, bne_iff_ne, ne_eq] at hp
      refine ⟨by simp [storyPayload], by simp, ?_⟩
      intro _
      refine ⟨hp.1, ?_⟩
      intro c hc ht
      rcases hp.2 c hc with h | h
      · exact absurd ht h
      · exact h
    all_goals
      simp only [List.all_eq_true] at hp
      simp only [storyPayload, List.not_mem_nil, false_imp_iff, implies_true,
        and_true, reduceCtorEq]
      try exact hp

/-! ### the merges on the `roCreate` children -/

theorem accOk_mergeRc (k : Kind) (rc base : Xml) (mid : Option PyExc)
    (h : accOk rc.kids)
    (h1 : ∀ x ∈ storyPayload k base, storyTimesOk x = true)
    (h3 : k = .MetaDataReplace → ∀ s ∈ base.kids, s.tag = "story" → storyTimesOk s = true) :
    accOk (mergeRc k rc base mid).kids := by
  by_cases hsl : k.isStoryLevel = true
  · exact accOk_of_edit h (storyLevel_edit k rc base mid hsl) h1
  · by_cases hil : k.isItemLevel = true
    · exact accOk_of_itemEdit h (itemLevel_edit k rc base mid hil)
    · cases k <;> first | (simp [Kind.isStoryLevel] at hsl; done) | (simp [Kind.isItemLevel] at hil; done) | skip
      case MetaDataReplace =>
        simp only [mergeRc]
        exact accOk_metadataLoop _ _ h (h3 rfl)
      all_goals (simp only [mergeRc]; exact h)

theorem wfAcc_split (d : Xml) :
    WfAcc d = true ↔ HistInv d = true ∧ ∃ rc, rcOf d = some rc ∧ accOk rc.kids := by
  unfold WfAcc accOk
  cases hrc : rcOf d with
  | none => simp
  | some rc =>
    simp only [Bool.and_eq_true, List.all_eq_true, Bool.or_eq_true, bne_iff_ne, ne_eq,
      Option.some.injEq, exists_eq_left', Xml.find]
    constructor
    · rintro ⟨h0, h1, h2⟩
      refine ⟨h0, h1, fun c hc ht => ?_⟩
      rcases h2 c hc with h | h
      · exact absurd ht h
      · exact h
    · rintro ⟨h0, h1, h2⟩
      refine ⟨h0, h1, fun c hc => ?_⟩
      by_cases ht : c.tag = "story"
      · exact Or.inr (h2 c hc ht)
      · exact Or.inl ht

theorem wfAcc_preserved' (d m : Xml) (k : Kind) (h : WfAcc d = true) (hs : shaped k m = true)
    (hp : payloadAccOk k m = true) : WfAcc (addK k d m).ro = true := by
  obtain ⟨hpo, base, hb, h1, h3, h4⟩ := payloadAcc_facts hp
  rw [wfAcc_split] at h
  obtain ⟨hinv, rc, hrc, hacc⟩ := h
  have hinv' := histInv_preserved ⟨d, m, k⟩ hinv hs hpo
  simp only at hinv'
  rw [wfAcc_split]
  refine ⟨hinv', ?_⟩
  have hok : rcOk rc.kids = true := by
    unfold HistInv at hinv; rw [hrc] at hinv; exact hinv
  by_cases hc : completed d = true
  · have hadd : addK k d m = ⟨d, [], some .completed⟩ := by simp [addK, hc]
    rw [hadd]; exact ⟨rc, hrc, hacc⟩
  · have hc' : completed d = false := by simpa using hc
    by_cases hk : k.editsRc = true
    · rw [addK_editsRc k d m rc base hk hc' hrc hb]
      exact ⟨_, rcOf_setRcKids d rc _ hrc, by
        simpa using accOk_mergeRc k rc base _ hacc h1 h3⟩
    · obtain ⟨j, hj, hget⟩ := rcIndex_of_rcOf hrc
      cases k <;> first | (simp [Kind.editsRc] at hk; done) | skip
      · have hadd : (addK .RunningOrder d m).ro = d := by
          unfold addK merge
          simp only [hc', hb]
          rfl
        rw [hadd]; exact ⟨rc, hrc, hacc⟩
      · have hadd : addK .RunningOrderReplace d m =
            ⟨d.withKids (pyInsert (d.kids.eraseIdx j) j (base.withTag "roCreate")), [], none⟩ := by
          unfold addK merge
          simp only [hc', hb, findChildAny_eq_rcIndex, hj]
          rfl
        rw [hadd]
        unfold rcIndex at hj
        obtain ⟨a, x, b, hkids, hal, _, ha⟩ := findIdx_split hj
        have hnone : a.find? (fun c => c.tag == "roCreate") = none := by
          rw [List.find?_eq_none]; intro y hy; simp [ha y hy]
        have hrc' : rcOf (d.withKids (pyInsert (d.kids.eraseIdx j) j (base.withTag "roCreate"))) =
            some (base.withTag "roCreate") := by
          unfold rcOf Xml.find
          simp only [Xml.withKids_kids]
          rw [hkids, ← hal, List.eraseIdx_append_of_length_le (Nat.le_refl _)]
          simp [pyInsert, List.find?_append, hnone]
        exact ⟨_, hrc', by simpa using h4 rfl⟩
      · have hadd : addK .RunningOrderEnd d m =
            ⟨d.withKids (d.kids ++ [.node "mosromgrmeta" [] none none [base]]), [], none⟩ := by
          unfold addK merge
          simp only [hc', hb]
          rfl
        rw [hadd]
        have hrc' : rcOf (d.withKids (d.kids ++ [.node "mosromgrmeta" [] none none [base]])) =
            some rc := by
          unfold rcOf Xml.find at hrc ⊢
          simp [List.find?_append, hrc]
        exact ⟨rc, hrc', hacc⟩

end Mrm
