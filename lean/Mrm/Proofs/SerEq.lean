/-
  Mrm/Proofs/SerEq.lean — the character-list serialiser is the serialiser.
-/
import Mrm.Model.Lexer

set_option linter.unusedSimpArgs false

namespace Mrm

theorem lit_lt : ("<" : String).toList = ['<'] := by decide
theorem lit_gt : (">" : String).toList = ['>'] := by decide
theorem lit_sp : (" " : String).toList = [' '] := by decide
theorem lit_eqq : ("=\"" : String).toList = ['=', '"'] := by decide
theorem lit_q : ("\"" : String).toList = ['"'] := by decide
theorem lit_close : ("</" : String).toList = ['<', '/'] := by decide
theorem lit_empty : (" />" : String).toList = [' ', '/', '>'] := by decide
theorem lit_nil : ("" : String).toList = [] := by decide

theorem attrs_toList (attrs : List (String × String)) :
    (String.join (attrs.map (fun x => " " ++ x.fst ++ "=\"" ++ escapeAttr x.snd ++ "\""))).toList =
      attrsL attrs := by
  rw [String.toList_join]
  induction attrs with
  | nil => rfl
  | cons kv attrs ih =>
    rw [List.map_cons, List.flatMap_cons, ih]
    simp only [attrsL, attrL, String.toList_append, escapeAttr,
      String.toList_ofList, lit_sp, lit_eqq, lit_q, List.cons_append, List.nil_append,
      List.append_assoc]

mutual
theorem toList_serialize (t : Xml) : (serialize t).toList = serChars t := by
  match t with
  | .node tag attrs text tail kids =>
    have ihk := toList_serializeL kids
    cases tail <;> cases text <;>
    · simp only [serialize, serChars]
      split <;> rename_i hc <;>
      simp only [hc, if_true, if_false, Bool.false_eq_true, String.toList_append, escapeCdata, optCdataL,
        String.toList_ofList, ihk, attrs_toList, lit_lt, lit_gt, lit_close, lit_empty, lit_nil,
        List.cons_append, List.nil_append, List.append_nil, List.append_assoc]
theorem toList_serializeL (ks : List Xml) : (serializeL ks).toList = serCharsL ks := by
  match ks with
  | [] => exact lit_nil
  | k :: ks =>
    simp only [serializeL, serCharsL, String.toList_append, toList_serialize k, toList_serializeL ks]
end

theorem serialize_eq' (t : Xml) : serialize t = String.ofList (serChars t) := by
  rw [← toList_serialize t, String.ofList_toList]

end Mrm
