/-
  Mrm/Proofs/HistKinds.lean — every story-level merge is an `Edit "story"` of the `roCreate`
  children by the carried stories; every item-level merge is an `Edit "item"` of one story's
  children by the carried items.
-/
import Mrm.Proofs.HistSeq
import Mrm.Proofs.FrameStory

namespace Mrm

/-- the stories a story-level message brings into the running order -/
def storyPayload (k : Kind) (base : Xml) : List Xml :=
  match k with
  | .StorySend => (match convertStorySend base with | .ok s => [s] | .error _ => [])
  | .StoryAppend | .StoryInsert | .StoryReplace => base.findall "story"
  | .EAStoryReplace | .EAStoryInsert => elemsOf (base.find "element_source") "story"
  | _ => []

/-- the items an item-level message brings into the addressed story -/
def itemPayload (k : Kind) (base : Xml) : List Xml :=
  match k with
  | .ItemInsert | .ItemReplace => base.findall "item"
  | .EAItemReplace | .EAItemInsert => elemsOf (base.find "element_source") "item"
  | _ => []

theorem elemsOf_getD (src : Option Xml) (t : String) :
    (src.map (·.findall t)).getD [] = elemsOf src t := by
  cases src <;> rfl

theorem mem_elemsOf_tag {src : Option Xml} {t : String} {x : Xml} (h : x ∈ elemsOf src t) :
    x.tag = t := by
  cases src with
  | none => simp [elemsOf] at h
  | some b => exact mem_findall_tag h

theorem storyLevel_edit (k : Kind) (rc base : Xml) (mid : Option PyExc)
    (hk : k.isStoryLevel = true) :
    Edit "story" (storyPayload k base) rc.kids (mergeRc k rc base mid).kids := by
  cases k <;> first | (simp [Kind.isStoryLevel] at hk; done) | skip
  case StorySend =>
    simp only [mergeRc]
    split
    · exact Edit.refl _ _ _
    · rename_i story hst
      rw [findChildId_ok _ _ _]
      cases hl : locate "story" rc.kids (elemId (some story) "storyID") with
      | none => cases mid <;> exact Edit.refl _ _ _
      | some i =>
        simp only
        apply (edit_eraseIdx "story" _ rc.kids i (locate_tag hl)).trans
        apply edit_pyInsert _ _ _ _ _ (convertStorySend_tag hst)
        simp [storyPayload, hst]
  case StoryAppend =>
    simp only [mergeRc]
    exact edit_append _ _ _ _ (fun _ h => mem_findall_tag h) (fun _ h => h)
  case StoryDelete =>
    simp only [mergeRc]
    exact edit_deleteLoop _ _ _ _ _ _ _
  case EAStoryDelete =>
    simp only [mergeRc]
    exact edit_deleteLoop _ _ _ _ _ _ _
  case StoryInsert =>
    simp only [mergeRc]
    split
    · exact Edit.refl _ _ _
    · exact edit_insertDedup _ _ _ _ _ _ _ _ (fun _ h => mem_findall_tag h) (fun _ h => h)
  case EAStoryInsert =>
    simp only [mergeRc, elemsOf_getD]
    split
    · exact Edit.refl _ _ _
    · exact edit_insertDedup _ _ _ _ _ _ _ _ (fun _ h => mem_elemsOf_tag h) (fun _ h => h)
  case StoryReplace =>
    simp only [mergeRc]
    rw [findRequired_ok _ _ _ _]
    cases hl : locate "story" rc.kids (elemId (some base) "storyID") with
    | none => exact Edit.refl _ _ _
    | some i =>
      simp only
      split
      · exact Edit.refl _ _ _
      · exact edit_replaceAt _ _ _ _ _ (locate_tag hl) (fun _ h => mem_findall_tag h) (fun _ h => h)
  case EAStoryReplace =>
    simp only [mergeRc, elemsOf_getD]
    rw [findRequired_ok _ _ _ _]
    cases hl : locate "story" rc.kids (elemId (base.find "element_target") "storyID") with
    | none => exact Edit.refl _ _ _
    | some i =>
      simp only
      exact edit_replaceAt _ _ _ _ _ (locate_tag hl) (fun _ h => mem_elemsOf_tag h) (fun _ h => h)
  case EAStorySwap =>
    simp only [mergeRc]
    exact edit_swapTwo _ _ _ _ _
  case EAStoryMove =>
    simp only [mergeRc]
    exact edit_moveMany _ _ _ _ _ _
  case StoryMove =>
    simp only [mergeRc]
    split
    · exact Edit.refl _ _ _
    · rename_i sid rest hids
      split
      · exact Edit.refl _ _ _
      · rw [findRequired_ok _ _ _ _]
        cases hl : locate "story" rc.kids sid with
        | none => exact Edit.refl _ _ _
        | some s =>
          simp only
          split
          · exact Edit.refl _ _ _
          · apply edit_moveNodes
            intro i hi
            simp only [List.mem_singleton] at hi
            subst hi
            exact locate_tag hl

/-! ### item level -/

/-- the outcome of an item-level merge on the `roCreate` children: unchanged, or one story's
    children edited -/
def ItemEdit (xs cs cs' : List Xml) : Prop :=
  cs' = cs ∨ ∃ j s ks', cs[j]? = some s ∧ s.tag = "story" ∧ cs' = cs.set j (s.withKids ks') ∧
    Edit "item" xs s.kids ks'

theorem inStoryAt_edit (xs cs : List Xml) (sid : Key) (j : Nat) (f : List Xml → Out)
    (hl : locate "story" cs sid = some j)
    (hf : ∀ s ∈ cs, s.tag = "story" → Edit "item" xs s.kids (f s.kids).kids) :
    ItemEdit xs cs (inStoryAt cs j f).kids := by
  have hj := locate_lt hl
  have hget : cs[j]? = some cs[j] := List.getElem?_eq_getElem hj
  right
  refine ⟨j, cs[j], (f cs[j].kids).kids, hget, locate_tag hl hj, ?_, hf _ (List.getElem_mem hj) (locate_tag hl hj)⟩
  unfold inStoryAt
  rw [hget]

theorem inStory_edit (xs : List Xml) (mid : Option PyExc) (cs : List Xml) (sid : Key)
    (f : List Xml → Out)
    (hf : ∀ s ∈ cs, s.tag = "story" → Edit "item" xs s.kids (f s.kids).kids) :
    ItemEdit xs cs (inStory mid cs sid f).kids := by
  unfold inStory
  rw [findRequired_ok _ _ _ _]
  cases hl : locate "story" cs sid with
  | none => exact Or.inl rfl
  | some j => exact inStoryAt_edit xs cs sid j f hl hf

theorem itemLevel_edit (k : Kind) (rc base : Xml) (mid : Option PyExc)
    (hk : k.isItemLevel = true) :
    ItemEdit (itemPayload k base) rc.kids (mergeRc k rc base mid).kids := by
  cases k <;> first | (simp [Kind.isItemLevel] at hk; done) | skip
  case ItemDelete =>
    simp only [mergeRc]
    apply inStory_edit _ _ _ _ _
    intro s hs ht
    exact edit_deleteLoop _ _ _ _ _ _ _
  case EAItemDelete =>
    simp only [mergeRc]
    rw [findChildId_ok _ _ _]
    cases hl : locate "story" rc.kids (elemId (base.find "element_target") "storyID") with
    | none => cases mid <;> exact Or.inl rfl
    | some j =>
      simp only
      apply inStoryAt_edit _ _ _ _ _ hl
      intro s hs ht
      exact edit_deleteLoop _ _ _ _ _ _ _
  case ItemInsert =>
    simp only [mergeRc]
    apply inStory_edit _ _ _ _ _
    intro s hs ht
    exact edit_insertBefore _ _ _ _ _ _ (fun _ h => mem_findall_tag h) (fun _ h => h)
  case EAItemInsert =>
    simp only [mergeRc, elemsOf_getD]
    apply inStory_edit _ _ _ _ _
    intro s hs ht
    exact edit_insertBefore _ _ _ _ _ _ (fun _ h => mem_elemsOf_tag h) (fun _ h => h)
  case ItemReplace =>
    simp only [mergeRc]
    apply inStory_edit _ _ _ _ _
    intro s hs ht
    rw [findRequired_ok _ _ _ _]
    cases hl : locate "item" s.kids (elemId (some base) "itemID") with
    | none => exact Edit.refl _ _ _
    | some i =>
      simp only
      exact edit_replaceAt _ _ _ _ _ (locate_tag hl) (fun _ h => mem_findall_tag h) (fun _ h => h)
  case EAItemReplace =>
    simp only [mergeRc, elemsOf_getD]
    apply inStory_edit _ _ _ _ _
    intro s hs ht
    rw [findRequired_ok _ _ _ _]
    cases hl : locate "item" s.kids (elemId (base.find "element_target") "itemID") with
    | none => exact Edit.refl _ _ _
    | some i =>
      simp only
      exact edit_replaceAt _ _ _ _ _ (locate_tag hl) (fun _ h => mem_elemsOf_tag h) (fun _ h => h)
  case EAItemSwap =>
    simp only [mergeRc]
    apply inStory_edit _ _ _ _ _
    intro s hs ht
    exact edit_swapTwo _ _ _ _ _
  case EAItemMove =>
    simp only [mergeRc]
    apply inStory_edit _ _ _ _ _
    intro s hs ht
    exact edit_moveMany _ _ _ _ _ _
  case ItemMoveMultiple =>
    simp only [mergeRc]
    split
    · exact Or.inl rfl
    · apply inStory_edit _ _ _ _ _
      intro s hs ht
      split
      · exact Edit.refl _ _ _
      · exact edit_moveMany _ _ _ _ _ _

end Mrm
