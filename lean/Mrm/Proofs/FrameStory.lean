/-
  Mrm/Proofs/FrameStory.lean — C03 at the story level: the `roCreate` children the message does
  not name are kept, in order.
-/
import Mrm.Proofs.FrameLoops

namespace Mrm

/-! ### when is a child touched -/

theorem keyOf_of_isChild {tag k : String} {c : Xml} (h : isChild tag k c = true) :
    c.tag = tag ∧ keyOf tag c = some k := by
  simpa [isChild] using h

theorem untouched_false_of_isChild {tag : String} {ids : List Key} {carried : List Xml} {k : String}
    {c : Xml} (hc : isChild tag k c = true) (hk : some k ∈ ids) :
    (!isTouched tag ids carried c) = false := by
  obtain ⟨ht, hkey⟩ := keyOf_of_isChild hc
  simp [isTouched, ht, hkey, hk]

theorem untouched_false_of_carried {tag : String} {ids : List Key} {carried : List Xml}
    {c : Xml} (hc : c ∈ carried) (ht : c.tag = tag) :
    (!isTouched tag ids carried c) = false := by
  simp [isTouched, ht, hc]

/-- IDs: every ID of `L` is touched -/
theorem qfalse_ids {tag : String} {ids : List Key} {carried : List Xml} (L : List Key)
    (hL : ∀ x ∈ L, x ∈ ids) :
    ∀ k, some k ∈ L → ∀ c, isChild tag k c = true → (!isTouched tag ids carried c) = false :=
  fun _ hk _ hc => untouched_false_of_isChild hc (hL _ hk)

theorem qfalse_id {tag : String} {ids : List Key} {carried : List Xml} (id : Key)
    (hL : id ∈ ids) :
    ∀ k, id = some k → ∀ c, isChild tag k c = true → (!isTouched tag ids carried c) = false :=
  fun _ hk _ hc => untouched_false_of_isChild hc (hk ▸ hL)

theorem mem_findall_tag {x b : Xml} {t : String} (h : x ∈ b.findall t) : x.tag = t := by
  simp only [Xml.findall, List.mem_filter, beq_iff_eq] at h
  exact h.2

theorem qfalse_findall {tag : String} {ids : List Key} {carried : List Xml} (b : Xml)
    (hL : ∀ x ∈ b.findall tag, x ∈ carried) :
    ∀ x ∈ b.findall tag, (!isTouched tag ids carried x) = false :=
  fun x hx => untouched_false_of_carried (hL x hx) (mem_findall_tag hx)

theorem qfalse_elemsOf {tag : String} {ids : List Key} {carried : List Xml} (src : Option Xml)
    (hL : ∀ x ∈ elemsOf src tag, x ∈ carried) :
    ∀ x ∈ (src.map (·.findall tag)).getD [], (!isTouched tag ids carried x) = false := by
  cases src with
  | none => intro x hx; simp at hx
  | some b => exact qfalse_findall b hL

theorem textsOf_opt (src : Option Xml) (t : String) :
    (src.map (idTexts · t)).getD [] = textsOf src t := by
  cases src <;> rfl

/-! ### roStorySend: the converted story -/

theorem convertStorySend_tag {base story : Xml} (h : convertStorySend base = .ok story) :
    story.tag = "story" := by
  unfold convertStorySend at h
  split at h
  · cases h
  · split at h
    · cases h
    · simp only [Except.ok.injEq] at h
      rw [← h]; rfl

/-- the converted story's ID is the roStorySend's when the storyBody holds no storyID -/
theorem convertStorySend_id {base story body : Xml} (hb : base.find "storyBody" = some body)
    (hn : body.find "storyID" = none) (h : convertStorySend base = .ok story) :
    elemId (some story) "storyID" = Xml.childText (some base) "storyID" := by
  unfold convertStorySend findChildAny at h
  split at h
  · cases h
  · rename_i i hi
    rw [List.findIdx?_eq_some_iff_getElem] at hi
    obtain ⟨hlt, hp, hbefore⟩ := hi
    have hbody : base.kids[i] = body := by
      have : base.find "storyBody" = some base.kids[i] := by
        unfold Xml.find
        rw [List.find?_eq_some_iff_getElem]
        exact ⟨hp, i, hlt, rfl, fun j hj => by simpa using hbefore j hj⟩
      rw [hb] at this; cases this; rfl
    have hget : base.kids[i]? = some body := by rw [← hbody]; exact List.getElem?_eq_getElem hlt
    rw [hget] at h
    simp only [Except.ok.injEq] at h
    obtain ⟨a, x, c, hk, hal, hx⟩ := exists_split base.kids i hlt
    rw [hbody] at hx; subst hx
    have htag : body.tag = "storyBody" := by rw [← hbody]; simpa using hp
    rw [← h]
    simp only [elemId, Xml.childText, Option.bind_some, Xml.find, Xml.withKids_kids]
    rw [hk, ← hal, insertMany_split, ← List.length_append,
      List.eraseIdx_append_of_length_le (Nat.le_refl _)]
    have hchildren : (body.kids.map (fun c => if c.tag == "storyItem" then c.withTag "item" else c)).find?
        (fun c => c.tag == "storyID") = none := by
      rw [List.find?_eq_none]
      intro y hy
      rw [List.mem_map] at hy
      obtain ⟨z, hz, rfl⟩ := hy
      unfold Xml.find at hn
      rw [List.find?_eq_none] at hn
      have := hn z hz
      split
      · simp
      · exact this
    have hne : ("storyBody" == "storyID") = false := by decide
    simp only [List.find?_append, hchildren, List.find?_cons, htag, Option.or_none, hne,
      Nat.sub_self, List.eraseIdx_zero, List.tail_cons]

/-! ### replace one child (found by a required lookup) by carried elements -/

theorem replaceFound_filter (q : Xml → Bool) (tag : String) (cs : List Xml) (id : Key) (i : Nat)
    (xs : List Xml) (hl : locate tag cs id = some i)
    (hid : ∀ k, id = some k → ∀ c, isChild tag k c = true → q c = false)
    (hxs : ∀ x ∈ xs, q x = false) :
    (replaceAt cs i xs).filter q = cs.filter q :=
  filter_replaceAt_of_false q cs i xs (q_of_locate hl hid) hxs

/-! ### the story-level classes -/

/-- the frame predicate of C03 at the story level -/
abbrev storyQ (k : Kind) (base : Xml) : Xml → Bool :=
  fun c => !isTouched "story" (touchedIds k "story" (namedOf k base)) (namedOf k base).carried c

theorem storyLevel_filter (k : Kind) (rc base : Xml) (mid : Option PyExc)
    (hk : k.isStoryLevel = true)
    (hs : k = .StorySend → ∀ story, convertStorySend base = .ok story →
      elemId (some story) "storyID" = Xml.childText (some base) "storyID") :
    (mergeRc k rc base mid).kids.filter (storyQ k base) = rc.kids.filter (storyQ k base) := by
  cases k <;> first | (simp [Kind.isStoryLevel] at hk; done) | skip
  case StorySend =>
    simp only [mergeRc]
    split
    · rfl
    · rename_i story hst
      rw [findChildId_ok _ _ _]
      cases hl : locate "story" rc.kids (elemId (some story) "storyID") with
      | none => cases mid <;> rfl
      | some i =>
        simp only
        obtain ⟨k0, hk0, _⟩ := locate_some hl
        have hid := hs rfl story hst
        have hq : storyQ .StorySend base story = false := by
          have hkey : keyOf "story" story = some k0 := hk0
          have hmem : some k0 ∈ touchedIds .StorySend "story" (namedOf .StorySend base) := by
            rw [← hk0, hid]; simp [touchedIds, namedOf, Kind.group]
          simp [storyQ, isTouched, convertStorySend_tag hst, hkey, hmem]
        rw [filter_pyInsert_of_false _ _ _ _ hq]
        apply filter_eraseIdx_of_false
        apply q_of_locate hl
        apply qfalse_id
        rw [hid]; simp [touchedIds, namedOf, Kind.group]
  case StoryAppend =>
    simp only [mergeRc]
    apply filter_append_of_false
    exact qfalse_findall base (fun x hx => hx)
  case StoryDelete =>
    simp only [mergeRc]
    apply deleteLoop_filter _ _ _ _ _ _ _
    exact qfalse_ids _ (fun x hx => hx)
  case EAStoryDelete =>
    simp only [mergeRc]
    apply deleteLoop_filter _ _ _ _ _ _ _
    exact qfalse_ids _ (fun x hx => hx)
  case StoryInsert =>
    simp only [mergeRc]
    split
    · rfl
    · apply insertDedup_filter
      exact qfalse_findall base (fun x hx => hx)
  case EAStoryInsert =>
    simp only [mergeRc]
    split
    · rfl
    · apply insertDedup_filter
      exact qfalse_elemsOf _ (fun x hx => hx)
  case StoryReplace =>
    simp only [mergeRc]
    rw [findRequired_ok _ _ _ _]
    cases hl : locate "story" rc.kids (elemId (some base) "storyID") with
    | none => rfl
    | some i =>
      simp only
      split
      · rfl
      · apply replaceFound_filter _ _ _ _ _ _ hl
        · apply qfalse_id
          simp [touchedIds, namedOf, Kind.group, elemId]
        · apply qfalse_findall base
          intro x hx; exact hx
  case EAStoryReplace =>
    simp only [mergeRc]
    rw [findRequired_ok _ _ _ _]
    cases hl : locate "story" rc.kids (elemId (base.find "element_target") "storyID") with
    | none => rfl
    | some i =>
      simp only
      apply replaceFound_filter _ _ _ _ _ _ hl
      · apply qfalse_id
        simp [touchedIds, namedOf, Kind.group, elemId]
      · apply qfalse_elemsOf
        intro x hx; exact hx
  case EAStorySwap =>
    simp only [mergeRc, textsOf_opt]
    apply swapTwo_filter _ _ _ _ _
    exact qfalse_ids _ (fun x hx => hx)
  case EAStoryMove =>
    simp only [mergeRc]
    apply moveMany_filter _ _ _ _ _ _
    exact qfalse_ids _ (fun x hx => hx)
  case StoryMove =>
    simp only [mergeRc]
    split
    · rfl
    · rename_i sid rest hids
      split
      · rfl
      · rename_i target _
        rw [findRequired_ok _ _ _ _]
        cases hl : locate "story" rc.kids sid with
        | none => rfl
        | some s =>
          simp only
          split
          · rfl
          · apply filter_moveNodes_of_false
            intro i hi
            simp only [List.mem_singleton] at hi
            subst hi
            apply q_of_locate hl
            apply qfalse_id
            have : textsOf (some base) "storyID" = sid :: rest := hids
            simp [touchedIds, namedOf, Kind.group, this]

end Mrm
