/-
  Mrm/Proofs/Ops.lean — key sequences and non-keyed remainder of the list primitives
  (erase, insert, replace, swap, move) at the position of a key.
-/
import Mrm.Proofs.Keys

set_option linter.unusedSimpArgs false

namespace Mrm

section generic
variable {α : Type} (kt : α → Option Key)

theorem filter_ne_of_not_mem {l : List Key} {s : Key} (h : s ∉ l) (p : Key → Bool)
    (hp : ∀ x, x ≠ s → p x = true) : l.filter p = l := by
  rw [List.filter_eq_self]
  intro x hx
  apply hp
  intro e; subst e; exact h hx

/-- erasing the element that carries key `s` -/
theorem eraseIdx_idx {cs : List α} {s : Key} (hu : SomeNodup (ks kt cs)) (hs : s ∈ ks kt cs)
    (hsm : s.isSome = true) :
    ks kt (cs.eraseIdx (idx kt cs s)) = (ks kt cs).filter (fun x => !(x == s)) ∧
    nk kt (cs.eraseIdx (idx kt cs s)) = nk kt cs := by
  obtain ⟨a, x, b, h1, h2, h3, h4, h5⟩ := idx_split_nodup kt hu hs hsm
  rw [← h2, h1]
  have : (a ++ x :: b).eraseIdx a.length = a ++ b := by
    simp [List.eraseIdx_append_of_length_le]
  rw [this]
  constructor
  · simp only [ks_append, ks_cons_some kt h3, List.filter_append, List.filter_cons]
    have e1 : (ks kt a).filter (fun x => !(x == s)) = ks kt a :=
      filter_ne_of_not_mem h4 _ (by intro x hx; simpa using hx)
    have e2 : (ks kt b).filter (fun x => !(x == s)) = ks kt b :=
      filter_ne_of_not_mem h5 _ (by intro x hx; simpa using hx)
    simp [e1, e2]
  · simp only [nk_append, nk_cons_some kt h3]

/-- inserting keyed elements before the element that carries key `s` -/
theorem insertAt_idx {cs : List α} {s : Key} (hs : s ∈ ks kt cs) (xs : List α)
    (hx : ∀ x ∈ xs, (kt x).isSome) :
    ks kt (insertAt cs (idx kt cs s) xs) = insBefore (some s) (ks kt xs) (ks kt cs) ∧
    nk kt (insertAt cs (idx kt cs s) xs) = nk kt cs := by
  obtain ⟨a, x, b, h1, h2, h3, h4⟩ := idx_split kt hs
  rw [← h2, h1, insertAt_split]
  constructor
  · simp only [ks_append, ks_cons_some kt h3]
    rw [insBefore_split_o _ _ _ _ h4]
  · simp only [nk_append, nk_keyed kt hx, List.append_nil]

/-- inserting keyed elements at the end -/
theorem insertAt_end (cs : List α) (xs : List α) (hx : ∀ x ∈ xs, (kt x).isSome) :
    ks kt (insertAt cs cs.length xs) = insBefore none (ks kt xs) (ks kt cs) ∧
    nk kt (insertAt cs cs.length xs) = nk kt cs := by
  rw [insertAt_length_le cs cs.length xs (Nat.le_refl _)]
  constructor
  · simp [ks_append, insBefore]
  · simp only [nk_append, nk_keyed kt hx, List.append_nil]

/-- replacing the element that carries key `s` by keyed elements -/
theorem replace_idx {cs : List α} {s : Key} (hs : s ∈ ks kt cs) (xs : List α)
    (hx : ∀ x ∈ xs, (kt x).isSome) :
    ks kt (insertAt (cs.eraseIdx (idx kt cs s)) (idx kt cs s) xs) = replaceKey s (ks kt xs) (ks kt cs) ∧
    nk kt (insertAt (cs.eraseIdx (idx kt cs s)) (idx kt cs s) xs) = nk kt cs := by
  obtain ⟨a, x, b, h1, h2, h3, h4⟩ := idx_split kt hs
  rw [← h2, h1, replace_split]
  constructor
  · simp only [ks_append, ks_cons_some kt h3]
    rw [replaceKey_split _ _ _ _ h4]
  · simp only [nk_append, nk_keyed kt hx, List.append_nil, nk_cons_some kt h3]

/-! ### swap -/

theorem swapNodes_self (cs : List α) (i : Nat) : swapNodes cs i i = cs := by
  unfold swapNodes
  cases h : cs[i]? with
  | none => rfl
  | some a =>
    simp only
    obtain ⟨hi, rfl⟩ := List.getElem?_eq_some_iff.mp h
    simp

theorem swapNodes_comm (cs : List α) (i j : Nat) : swapNodes cs i j = swapNodes cs j i := by
  by_cases hij : i = j
  · subst hij; rfl
  unfold swapNodes
  cases hi : cs[i]? <;> cases hj : cs[j]? <;> simp only
  rw [List.set_comm _ _ hij]

theorem swapNodes_split (a b c : List α) (x y : α) :
    swapNodes (a ++ x :: (b ++ y :: c)) a.length (a.length + 1 + b.length) = a ++ y :: (b ++ x :: c) := by
  unfold swapNodes
  have h1 : (a ++ x :: (b ++ y :: c))[a.length]? = some x := by simp
  have h2 : (a ++ x :: (b ++ y :: c))[a.length + 1 + b.length]? = some y := by
    rw [List.getElem?_append_right (by omega)]
    have : a.length + 1 + b.length - a.length = b.length + 1 := by omega
    rw [this, List.getElem?_cons_succ, List.getElem?_append_right (by omega)]
    simp
  simp only [h1, h2]
  rw [List.set_append_right _ _ (by omega)]
  simp only [Nat.sub_self, List.set_cons_zero]
  rw [List.set_append_right _ _ (by omega)]
  have : a.length + 1 + b.length - a.length = b.length + 1 := by omega
  rw [this, List.set_cons_succ, List.set_append_right _ _ (by omega)]
  simp

theorem split_two (cs : List α) (i j : Nat) (hij : i < j) (hj : j < cs.length) :
    ∃ a x b y c, cs = a ++ x :: (b ++ y :: c) ∧ a.length = i ∧ a.length + 1 + b.length = j ∧
      x = cs[i] ∧ y = cs[j] := by
  obtain ⟨h1, h2⟩ := split_at_index cs i (by omega)
  have hlen : (cs.drop (i+1)).length = cs.length - (i+1) := by simp
  obtain ⟨h3, h4⟩ := split_at_index (cs.drop (i+1)) (j - (i+1)) (by omega)
  refine ⟨cs.take i, cs[i], (cs.drop (i+1)).take (j-(i+1)), (cs.drop (i+1))[j-(i+1)]'(by omega),
    (cs.drop (i+1)).drop (j-(i+1)+1), ?_, h2, ?_, rfl, ?_⟩
  · rw [← h3]; exact h1
  · rw [h2, h4]; omega
  · rw [List.getElem_drop]; congr 1; omega

/-- a swap is a permutation -/
theorem swapNodes_perm (cs : List α) (i j : Nat) : (swapNodes cs i j).Perm cs := by
  have key : ∀ i j, i < j → (swapNodes cs i j).Perm cs := by
    intro i j hij
    by_cases hj : j < cs.length
    · obtain ⟨a, x, b, y, c, h1, h2, h3, _, _⟩ := split_two cs i j hij hj
      rw [h1, ← h2, ← h3, swapNodes_split]
      apply List.Perm.append_left
      have p1 : (y :: (b ++ x :: c)).Perm (y :: x :: (b ++ c)) := List.Perm.cons _ List.perm_middle
      have p2 : (x :: (b ++ y :: c)).Perm (x :: y :: (b ++ c)) := List.Perm.cons _ List.perm_middle
      exact p1.trans ((List.Perm.swap x y _).trans p2.symm)
    · unfold swapNodes
      have : cs[j]? = none := by simp; omega
      simp only [this]
      cases cs[i]? <;> exact List.Perm.refl _
  rcases Nat.lt_trichotomy i j with h | h | h
  · exact key i j h
  · subst h; rw [swapNodes_self]
  · rw [swapNodes_comm]; exact key j i h

theorem swapKeys_comm (a b : Key) (ids : List Key) : swapKeys a b ids = swapKeys b a ids := by
  unfold swapKeys
  apply List.map_congr_left
  intro x _
  by_cases h1 : x = a <;> by_cases h2 : x = b
  · rw [← h1, ← h2]
  · simp [h1, h2]; intro e; exact e.symm
  · simp [h1, h2]
  · simp [h1, h2]

theorem swapKeys_fix {a b : Key} {l : List Key} (ha : a ∉ l) (hb : b ∉ l) : swapKeys a b l = l := by
  unfold swapKeys
  conv => rhs; rw [← List.map_id l]
  apply List.map_congr_left
  intro x hx
  have h1 : x ≠ a := by intro e; subst e; exact ha hx
  have h2 : x ≠ b := by intro e; subst e; exact hb hx
  simp [h1, h2]

theorem swapKeys_append (a b : Key) (l1 l2 : List Key) :
    swapKeys a b (l1 ++ l2) = swapKeys a b l1 ++ swapKeys a b l2 := by simp [swapKeys]

theorem swapKeys_self (a : Key) (l : List Key) : swapKeys a a l = l := by
  unfold swapKeys
  conv => rhs; rw [← List.map_id l]
  apply List.map_congr_left
  intro x _
  by_cases h : x = a <;> simp [h]

theorem swapKeys_cons (a b x : Key) (l : List Key) :
    swapKeys a b (x :: l) = (if x = a then b else if x = b then a else x) :: swapKeys a b l := by
  simp [swapKeys]

theorem swap_lt {cs : List α} {sa sb : Key} (hu : SomeNodup (ks kt cs)) {i j : Nat} (hij : i < j)
    (hj : j < cs.length) (ha : kt (cs[i]'(by omega)) = some sa) (hb : kt cs[j] = some sb)
    (hsa : sa.isSome = true) (hsb : sb.isSome = true) :
    ks kt (swapNodes cs i j) = swapKeys sa sb (ks kt cs) ∧ nk kt (swapNodes cs i j) = nk kt cs := by
  obtain ⟨a, x, b, y, c, h1, h2, h3, hx, hy⟩ := split_two cs i j hij hj
  rw [← hx] at ha; rw [← hy] at hb
  clear hx hy
  subst h1
  rw [← h2, ← h3, swapNodes_split]
  simp only [ks_append, ks_cons_some kt ha, ks_cons_some kt hb] at hu ⊢
  simp only [nk_append, nk_cons_some kt ha, nk_cons_some kt hb, and_true]
  -- read the uniqueness facts
  have hu2 := hu.append_right
  have hu4 := hu2.not_mem hsa
  have hu5 := hu2.tail
  have a_a : sa ∉ ks kt a := fun h => hu.disjoint hsa h List.mem_cons_self
  have b_a : sb ∉ ks kt a := fun h => hu.disjoint hsb h (by simp)
  have a_b : sa ∉ ks kt b := fun h => hu4 (by simp [h])
  have a_c : sa ∉ ks kt c := fun h => hu4 (by simp [h])
  have hne : sa ≠ sb := fun h => hu4 (by simp [h])
  have b_b : sb ∉ ks kt b := fun h => hu5.disjoint hsb h List.mem_cons_self
  have b_c : sb ∉ ks kt c := hu5.append_right.not_mem hsb
  simp only [swapKeys_append, swapKeys_cons, swapKeys_fix a_a b_a, swapKeys_fix a_b b_b,
    swapKeys_fix a_c b_c, if_true]
  have : sb ≠ sa := fun h => hne h.symm
  simp [this]

theorem swap_idx {cs : List α} {sa sb : Key} (hu : SomeNodup (ks kt cs)) (ha : sa ∈ ks kt cs)
    (hb : sb ∈ ks kt cs) (hsa : sa.isSome = true) (hsb : sb.isSome = true) :
    ks kt (swapNodes cs (idx kt cs sa) (idx kt cs sb)) = swapKeys sa sb (ks kt cs) ∧
    nk kt (swapNodes cs (idx kt cs sa) (idx kt cs sb)) = nk kt cs := by
  obtain ⟨ha1, ha2⟩ := idx_spec kt ha
  obtain ⟨hb1, hb2⟩ := idx_spec kt hb
  rcases Nat.lt_trichotomy (idx kt cs sa) (idx kt cs sb) with h | h | h
  · exact swap_lt kt hu h hb1 ha2 hb2 hsa hsb
  · have : sa = sb := by
      have e : kt cs[idx kt cs sa] = kt cs[idx kt cs sb] := by simp only [h]
      rw [ha2, hb2] at e; exact Option.some.inj e
    subst this
    rw [swapNodes_self, swapKeys_self]; exact ⟨rfl, rfl⟩
  · rw [swapNodes_comm, swapKeys_comm]
    exact swap_lt kt hu h ha1 hb2 ha2 hsb hsa

/-! ### move -/

theorem moved_keyed {cs : List α} {ss : List Key} (hss : ∀ s ∈ ss, s ∈ ks kt cs) :
    ∀ x ∈ (ss.map (idx kt cs)).filterMap (fun i => cs[i]?), (kt x).isSome := by
  intro x hx
  simp only [List.mem_filterMap, List.mem_map] at hx
  obtain ⟨i, ⟨s, hs, rfl⟩, hget⟩ := hx
  obtain ⟨h1, h2⟩ := idx_spec kt (hss s hs)
  rw [List.getElem?_eq_getElem h1] at hget
  cases hget
  simp [h2]

/-- whatever the insertion point, `move_nodes` is `rest` with `moved` spliced in -/
theorem moveNodes_form (cs : List α) (src : List Nat) (before : Option Nat) :
    ∃ pos, moveNodes cs src before =
      ((cs.zipIdx.filter (fun p => !src.contains p.2)).take pos).map (·.1) ++
        src.filterMap (fun i => cs[i]?) ++
      ((cs.zipIdx.filter (fun p => !src.contains p.2)).drop pos).map (·.1) := ⟨_, rfl⟩

theorem moveNodes_nk {cs : List α} {ss : List Key}
    (hu : SomeNodup (ks kt cs)) (hss : ∀ s ∈ ss, s ∈ ks kt cs) (hsm : ∀ s ∈ ss, s.isSome = true)
    (before : Option Nat) :
    nk kt (moveNodes cs (ss.map (idx kt cs)) before) = nk kt cs := by
  have hrest := moveNodes_rest kt hu hss hsm
  obtain ⟨pos, hpos⟩ := moveNodes_form cs (ss.map (idx kt cs)) before
  rw [hpos]
  simp only [hrest]
  simp only [nk_append, nk_keyed kt (moved_keyed kt hss), List.append_nil]
  rw [← nk_append, ← List.map_append, List.take_append_drop]
  have := untag_filter cs (fun c => !isSrc kt ss c)
  rw [this]
  simp only [nk, List.filter_filter]
  apply List.filter_congr
  intro x _
  cases hk : kt x <;> simp [isSrc, hk]

theorem nodup_zipIdx (cs : List α) : cs.zipIdx.Nodup := by
  have h : (cs.zipIdx.map Prod.snd).Nodup := by
    rw [List.zipIdx_map_snd]; exact List.nodup_range'
  rw [List.nodup_iff_pairwise_ne, List.pairwise_map] at h
  exact h.imp (fun hne e => hne (by rw [e]))

/-- `move_nodes` with distinct source nodes is a permutation (whatever the target) -/
theorem moveNodes_perm (cs : List α) (src : List Nat) (before : Option Nat) (hs : src.Nodup) :
    (moveNodes cs src before).Perm cs := by
  obtain ⟨pos, hpos⟩ := moveNodes_form cs src before
  rw [hpos]
  generalize hr : cs.zipIdx.filter (fun p => !src.contains p.2) = rest
  -- the tagged moved elements
  let U := src.filterMap (fun i => (cs[i]?).map (fun c => (c, i)))
  have hU : src.filterMap (fun i => cs[i]?) = U.map Prod.fst := by
    simp only [U, List.map_filterMap, Option.map_map]
    congr 1; funext i; cases cs[i]? <;> rfl
  have hT : (cs.zipIdx.filter (fun p => src.contains p.2)).Perm U := by
    rw [List.perm_ext_iff_of_nodup ((nodup_zipIdx cs).sublist List.filter_sublist)]
    · intro ⟨c, i⟩
      simp only [List.mem_filter, List.mk_mem_zipIdx_iff_getElem?, List.contains_eq_mem,
        decide_eq_true_eq, U, List.mem_filterMap, Option.map_eq_some_iff, Prod.mk.injEq]
      constructor
      · rintro ⟨h1, h2⟩; exact ⟨i, h2, c, h1, rfl, rfl⟩
      · rintro ⟨j, h2, c', h1, rfl, rfl⟩; exact ⟨h1, h2⟩
    · simp only [U, List.nodup_iff_pairwise_ne, List.pairwise_filterMap]
      rw [List.nodup_iff_pairwise_ne] at hs
      apply hs.imp
      intro a b hab x hx y hy e
      simp only [Option.map_eq_some_iff] at hx hy
      obtain ⟨_, _, rfl⟩ := hx
      obtain ⟨_, _, rfl⟩ := hy
      exact hab (by simpa using (Prod.mk.inj e).2)
  have h1 : ((rest.take pos).map (·.1) ++ src.filterMap (fun i => cs[i]?) ++ (rest.drop pos).map (·.1)).Perm
      (rest.map (·.1) ++ U.map Prod.fst) := by
    rw [hU]
    have : rest.map (·.1) = (rest.take pos).map (·.1) ++ (rest.drop pos).map (·.1) := by
      rw [← List.map_append, List.take_append_drop]
    rw [this, List.append_assoc, List.append_assoc]
    exact List.Perm.append_left _ List.perm_append_comm
  refine h1.trans ?_
  have h2 : (rest ++ U).Perm cs.zipIdx := by
    rw [← hr]
    refine (List.Perm.append_left _ hT.symm).trans ?_
    have := List.filter_append_perm (fun p : α × Nat => !src.contains p.2) cs.zipIdx
    simpa using this
  have h3 := h2.map Prod.fst
  rw [List.map_append, List.zipIdx_map_fst] at h3
  exact h3

end generic

end Mrm
