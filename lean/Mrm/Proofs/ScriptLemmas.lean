/-
  Mrm/Proofs/ScriptLemmas.lean — helper lemmas for C17 (script and body).
-/
import Mrm.Spec.Access
import Mrm.Spec.Frame

namespace Mrm

/-! ### generic -/

theorem filterMap_eq_filter_map {α β : Type} (p : α → Bool) (g : α → β) (f : α → Option β) (l : List α)
    (h : ∀ a, f a = if p a then some (g a) else none) :
    l.filterMap f = (l.filter p).map g := by
  induction l with
  | nil => rfl
  | cons a l ih =>
    rw [List.filterMap_cons, h a, List.filter_cons]
    by_cases hp : p a = true
    · simp only [hp, if_true, List.map_cons, ih]
    · have hp' : p a = false := by simpa using hp
      simp only [hp', Bool.false_eq_true, if_false, ih]

theorem getLast?_dropWhile {α : Type} (p : α → Bool) (l : List α) (c : α)
    (h : (l.dropWhile p).getLast? = some c) : l.getLast? = some c := by
  induction l with
  | nil => simp at h
  | cons a l ih =>
    rw [List.dropWhile_cons] at h
    by_cases hp : p a = true
    · simp only [hp, if_true] at h
      have := ih h
      cases l with
      | nil => simp at this
      | cons b l => rw [List.getLast?_cons_cons]; exact this
    · have hp' : p a = false := by simpa using hp
      simp only [hp', Bool.false_eq_true, if_false] at h
      exact h

theorem head?_dropWhile_false {α : Type} (p : α → Bool) (l : List α) (c : α)
    (h : (l.dropWhile p).head? = some c) : p c = false := by
  have := List.head?_dropWhile_not p l
  rw [h] at this
  exact this

theorem all_takeWhile {α : Type} (p : α → Bool) (l : List α) : (l.takeWhile p).all p = true := by
  induction l with
  | nil => rfl
  | cons a l ih =>
    rw [List.takeWhile_cons]
    by_cases hp : p a = true
    · simp only [hp, if_true, List.all_cons, ih, Bool.and_self]
    · have hp' : p a = false := by simpa using hp
      simp [hp']

/-! ### `mapExcept` -/

theorem mapExcept_map {α β γ : Type} (f : α → Except PyExc β) (g : β → γ) (h : α → γ)
    (hf : ∀ a v, f a = .ok v → g v = h a) :
    ∀ (l : List α) (vs : List β), mapExcept f l = .ok vs → vs.map g = l.map h := by
  intro l
  induction l with
  | nil =>
    intro vs hv
    simp only [mapExcept] at hv
    cases hv; rfl
  | cons a l ih =>
    intro vs hv
    simp only [mapExcept] at hv
    cases hfa : f a with
    | error e => rw [hfa] at hv; cases hv
    | ok b =>
      rw [hfa] at hv
      cases hl : mapExcept f l with
      | error e => rw [hl] at hv; cases hv
      | ok bs =>
        rw [hl] at hv
        have : vs = b :: bs := by
          have : (Except.ok (b :: bs) : Except PyExc (List β)) = .ok vs := hv
          cases this; rfl
        rw [this, List.map_cons, List.map_cons, hf a b hfa, ih bs hl]

end Mrm
