/-
  Mrm/Proofs/NoCompleted.lean — no merge method ever produces `MosCompletedMergeError`
  (only the guard in `RunningOrder.__add__` does), for every input.
-/
import Mrm.Model.Merge

namespace Mrm

/-- an error a merge method can produce itself: `MosMergeError` or a built-in exception -/
def Err.fromMerge (e : Err) : Prop := e = .merge ∨ ∃ x, e = .crash x

/-- the outcome's error, if any, is a `MosMergeError` proper or a built-in exception — never
    `MosCompletedMergeError`, `UnknownMosFileType`, `InvalidMosCollection` -/
def NC (o : Out) : Prop := ∀ e, o.err = some e → e.fromMerge

theorem raiseMerge_from (mid : Option PyExc) : (raiseMerge mid).fromMerge := by
  cases mid with
  | none => left; rfl
  | some x => right; exact ⟨x, rfl⟩

theorem nc_ok (cs : List Xml) (ws : List Warn) : NC ⟨cs, ws, none⟩ := by intro e h; cases h
theorem nc_crash (cs : List Xml) (ws : List Warn) (x : PyExc) : NC (failWith cs ws (.crash x)) := by
  intro e h; simp [failWith] at h; subst h; right; exact ⟨x, rfl⟩
theorem nc_raise (cs : List Xml) (ws : List Warn) (mid : Option PyExc) : NC (failWith cs ws (raiseMerge mid)) := by
  intro e h; simp [failWith] at h; subst h; exact raiseMerge_from mid

theorem findRequired_ne {tag : String} {mid : Option PyExc} {cs : List Xml} {id : Option String} {e : Err}
    (h : findRequired tag mid cs id = .error e) : e.fromMerge := by
  unfold findRequired at h
  split at h
  · cases h; right; exact ⟨_, rfl⟩
  · cases h; exact raiseMerge_from mid
  · cases h

theorem findTarget_ne {tag : String} {mid : Option PyExc} {cs : List Xml} {id : Option String} {e : Err}
    (h : findTarget tag mid cs id = .error e) : e.fromMerge := by
  unfold findTarget at h
  split at h
  · cases h
  · split at h
    · cases h; right; exact ⟨_, rfl⟩
    · cases h; exact raiseMerge_from mid
    · cases h

theorem collectSources_ne {tag : String} {mid : Option PyExc} {cs : List Xml} {t : Option Nat}
    {ids : List (Option String)} {acc : List Nat} {e : Err}
    (h : collectSources tag mid cs t ids acc = .error e) : e.fromMerge := by
  induction ids generalizing acc with
  | nil => simp [collectSources] at h
  | cons id ids ih =>
    unfold collectSources at h
    split at h
    · cases h; right; exact ⟨_, rfl⟩
    · cases h; exact raiseMerge_from mid
    · split at h
      · cases h; exact raiseMerge_from mid
      · exact ih h

theorem nc_of_err {cs : List Xml} {ws : List Warn} {e : Err} (h : e.fromMerge) : NC (failWith cs ws e) := by
  intro e' h'; simp [failWith] at h'; subst h'; exact h

theorem nc_deleteLoop (tag : String) (w : Warn) (mid : Option PyExc) (cs : List Xml)
    (ids : List (Option String)) (ws : List Warn) : NC (deleteLoop tag w mid cs ids ws) := by
  induction ids generalizing cs ws with
  | nil => simp only [deleteLoop]; exact nc_ok _ _
  | cons id ids ih =>
    unfold deleteLoop
    split
    · exact nc_crash _ _ _
    · exact ih _ _
    · split
      · exact nc_crash _ _ _
      · exact ih _ _

theorem nc_insertDedup (mid : Option PyExc) (ex : List (Option String)) (cs : List Xml) (i : Nat)
    (ss : List Xml) (ws : List Warn) : NC (insertDedup mid ex cs i ss ws) := by
  induction ss generalizing cs i ws with
  | nil => simp only [insertDedup]; exact nc_ok _ _
  | cons s ss ih =>
    unfold insertDedup
    split
    · split
      · exact nc_crash _ _ _
      · exact ih _ _ _
    · exact ih _ _ _

theorem nc_moveMany (tag : String) (mid : Option PyExc) (cs : List Xml) (t : Option String)
    (ss : List (Option String)) : NC (moveMany tag mid cs t ss) := by
  unfold moveMany
  split
  · rename_i e h; exact nc_of_err (findTarget_ne h)
  · split
    · rename_i e h; exact nc_of_err (collectSources_ne h)
    · exact nc_ok _ _

theorem nc_swapTwo (tag : String) (mid : Option PyExc) (cs : List Xml) (ids : List (Option String)) :
    NC (swapTwo tag mid cs ids) := by
  unfold swapTwo
  split
  · exact nc_crash _ _ _
  · split
    · rename_i e h; exact nc_of_err (findRequired_ne h)
    · split
      · rename_i e h; exact nc_of_err (findRequired_ne h)
      · exact nc_ok _ _

theorem nc_insertBefore (tag : String) (mid : Option PyExc) (cs : List Xml) (t : Option String)
    (xs : List Xml) : NC (insertBefore tag mid cs t xs) := by
  unfold insertBefore
  split
  · rename_i e h; exact nc_of_err (findTarget_ne h)
  · exact nc_ok _ _
  · exact nc_ok _ _

theorem nc_inStoryAt (cs : List Xml) (k : Nat) (f : List Xml → Out) (hf : ∀ items, NC (f items)) :
    NC (inStoryAt cs k f) := by
  unfold inStoryAt
  split
  · exact nc_crash _ _ _
  · exact hf _

theorem nc_inStory (mid : Option PyExc) (cs : List Xml) (sid : Option String) (f : List Xml → Out)
    (hf : ∀ items, NC (f items)) : NC (inStory mid cs sid f) := by
  unfold inStory
  split
  · rename_i e h; exact nc_of_err (findRequired_ne h)
  · exact nc_inStoryAt _ _ _ hf

theorem nc_mergeRc (k : Kind) (rc base : Xml) (mid : Option PyExc) : NC (mergeRc k rc base mid) := by
  cases k <;> simp only [mergeRc]
  case StorySend =>
    split
    · exact nc_crash _ _ _
    · split
      · exact nc_crash _ _ _
      · split
        · exact nc_crash _ _ _
        · exact nc_ok _ _
      · exact nc_ok _ _
  case MetaDataReplace => exact nc_ok _ _
  case StoryAppend => exact nc_ok _ _
  case StoryDelete => exact nc_deleteLoop _ _ _ _ _ _
  case ItemDelete => exact nc_inStory _ _ _ _ (fun _ => nc_deleteLoop _ _ _ _ _ _)
  case StoryInsert =>
    split
    · rename_i e h; exact nc_of_err (findRequired_ne h)
    · exact nc_insertDedup _ _ _ _ _ _
  case ItemInsert => exact nc_inStory _ _ _ _ (fun _ => nc_insertBefore _ _ _ _ _)
  case StoryMove =>
    split
    · exact nc_raise _ _ _
    · split
      · rename_i e h; exact nc_of_err (findTarget_ne h)
      · split
        · rename_i e h; exact nc_of_err (findRequired_ne h)
        · split <;> exact nc_ok _ _
  case ItemMoveMultiple =>
    split
    · exact nc_raise _ _ _
    · apply nc_inStory
      intro items
      split
      · exact nc_crash _ _ _
      · exact nc_moveMany _ _ _ _ _
  case StoryReplace =>
    split
    · rename_i e h; exact nc_of_err (findRequired_ne h)
    · split
      · exact nc_raise _ _ _
      · exact nc_ok _ _
  case ItemReplace =>
    apply nc_inStory
    intro items
    split
    · rename_i e h; exact nc_of_err (findRequired_ne h)
    · exact nc_ok _ _
  case ReadyToAir => exact nc_ok _ _
  case EAStoryReplace =>
    split
    · rename_i e h; exact nc_of_err (findRequired_ne h)
    · exact nc_ok _ _
  case EAItemReplace =>
    apply nc_inStory
    intro items
    split
    · rename_i e h; exact nc_of_err (findRequired_ne h)
    · exact nc_ok _ _
  case EAStoryDelete => exact nc_deleteLoop _ _ _ _ _ _
  case EAItemDelete =>
    split
    · exact nc_crash _ _ _
    · split
      · exact nc_crash _ _ _
      · exact nc_ok _ _
    · exact nc_inStoryAt _ _ _ (fun _ => nc_deleteLoop _ _ _ _ _ _)
  case EAStoryInsert =>
    split
    · rename_i e h; exact nc_of_err (findTarget_ne h)
    · exact nc_insertDedup _ _ _ _ _ _
  case EAItemInsert => exact nc_inStory _ _ _ _ (fun _ => nc_insertBefore _ _ _ _ _)
  case EAStorySwap => exact nc_swapTwo _ _ _ _
  case EAItemSwap => exact nc_inStory _ _ _ _ (fun _ => nc_swapTwo _ _ _ _)
  case EAStoryMove => exact nc_moveMany _ _ _ _ _
  case EAItemMove => exact nc_inStory _ _ _ _ (fun _ => nc_moveMany _ _ _ _ _)
  case RunningOrder => exact nc_ok _ _
  case RunningOrderReplace => exact nc_ok _ _
  case RunningOrderEnd => exact nc_ok _ _

end Mrm

namespace Mrm

/-- the errors of `merge` itself (the completed guard aside) -/
theorem merge_err_from (k : Kind) (ro msg : Xml) (e : Err) (h : (merge k ro msg).err = some e) : e.fromMerge := by
  unfold merge at h
  split at h
  · simp at h; subst h; right; exact ⟨_, rfl⟩
  · rename_i base hb
    cases k <;> dsimp only at h
    case RunningOrder => simp at h; subst h; right; exact ⟨_, rfl⟩
    case RunningOrderEnd => simp at h
    case RunningOrderReplace =>
      split at h
      · simp at h; subst h; right; exact ⟨_, rfl⟩
      · simp at h
    all_goals
      split at h
      · simp at h; subst h; right; exact ⟨_, rfl⟩
      · split at h
        · simp at h; subst h; right; exact ⟨_, rfl⟩
        · exact nc_mergeRc _ _ _ _ e h

theorem merge_err_ne_unknown (k : Kind) (ro msg : Xml) : (merge k ro msg).err ≠ some .unknownType := by
  intro h; rcases merge_err_from k ro msg _ h with h | ⟨x, h⟩ <;> cases h

theorem merge_err_ne_invalid (k : Kind) (ro msg : Xml) : (merge k ro msg).err ≠ some .invalidCollection := by
  intro h; rcases merge_err_from k ro msg _ h with h | ⟨x, h⟩ <;> cases h

theorem merge_err_ne_completed (k : Kind) (ro msg : Xml) : (merge k ro msg).err ≠ some .completed := by
  intro h; rcases merge_err_from k ro msg _ h with h | ⟨x, h⟩ <;> cases h

end Mrm
