/-
  Mrm/Proofs/NoCompleted.lean — no merge method ever produces `MosCompletedMergeError`
  (only the guard in `RunningOrder.__add__` does), for every input.
-/
import Mrm.Model.Merge

namespace Mrm

/-- the outcome's error, if any, is not `MosCompletedMergeError` -/
def NC (o : Out) : Prop := o.err ≠ some .completed

theorem raiseMerge_ne (mid : Option PyExc) : raiseMerge mid ≠ .completed := by
  cases mid <;> simp [raiseMerge]

theorem nc_ok (cs : List Xml) (ws : List Warn) : NC ⟨cs, ws, none⟩ := by simp [NC]
theorem nc_crash (cs : List Xml) (ws : List Warn) (x : PyExc) : NC (failWith cs ws (.crash x)) := by
  simp [NC, failWith]
theorem nc_raise (cs : List Xml) (ws : List Warn) (mid : Option PyExc) : NC (failWith cs ws (raiseMerge mid)) := by
  simp only [NC, failWith, ne_eq, Option.some.injEq]; exact raiseMerge_ne mid

theorem findRequired_ne {tag : String} {mid : Option PyExc} {cs : List Xml} {id : Option String} {e : Err}
    (h : findRequired tag mid cs id = .error e) : e ≠ .completed := by
  unfold findRequired at h
  split at h
  · cases h; simp
  · cases h; exact raiseMerge_ne mid
  · cases h

theorem findTarget_ne {tag : String} {mid : Option PyExc} {cs : List Xml} {id : Option String} {e : Err}
    (h : findTarget tag mid cs id = .error e) : e ≠ .completed := by
  unfold findTarget at h
  split at h
  · cases h
  · split at h
    · cases h; simp
    · cases h; exact raiseMerge_ne mid
    · cases h

theorem collectSources_ne {tag : String} {mid : Option PyExc} {cs : List Xml} {t : Option Nat}
    {ids : List (Option String)} {acc : List Nat} {e : Err}
    (h : collectSources tag mid cs t ids acc = .error e) : e ≠ .completed := by
  induction ids generalizing acc with
  | nil => simp [collectSources] at h
  | cons id ids ih =>
    unfold collectSources at h
    split at h
    · cases h; simp
    · cases h; exact raiseMerge_ne mid
    · split at h
      · cases h; exact raiseMerge_ne mid
      · exact ih h

theorem nc_of_err {cs : List Xml} {ws : List Warn} {e : Err} (h : e ≠ .completed) : NC (failWith cs ws e) := by
  simp only [NC, failWith, ne_eq, Option.some.injEq]; exact h

theorem nc_deleteLoop (tag : String) (w : Warn) (mid : Option PyExc) (cs : List Xml)
    (ids : List (Option String)) (ws : List Warn) : NC (deleteLoop tag w mid cs ids ws) := by
  induction ids generalizing cs ws with
  | nil => simp [deleteLoop, NC]
  | cons id ids ih =>
    unfold deleteLoop
    split
    · exact nc_crash _ _ _
    · exact ih _ _
    · split
      · exact nc_crash _ _ _
      · exact ih _ _

theorem nc_insertDedup (mid : Option PyExc) (ex : List (Option String)) (cs : List Xml) (i : Nat)
    (ss : List Xml) (ws : List Warn) : NC (insertDedup mid ex cs i ss ws) := by
  induction ss generalizing cs i ws with
  | nil => simp [insertDedup, NC]
  | cons s ss ih =>
    unfold insertDedup
    split
    · split
      · exact nc_crash _ _ _
      · exact ih _ _ _
    · exact ih _ _ _

theorem nc_moveMany (tag : String) (mid : Option PyExc) (cs : List Xml) (t : Option String)
    (ss : List (Option String)) : NC (moveMany tag mid cs t ss) := by
  unfold moveMany
  split
  · rename_i e h; exact nc_of_err (findTarget_ne h)
  · split
    · rename_i e h; exact nc_of_err (collectSources_ne h)
    · exact nc_ok _ _

theorem nc_swapTwo (tag : String) (mid : Option PyExc) (cs : List Xml) (ids : List (Option String)) :
    NC (swapTwo tag mid cs ids) := by
  unfold swapTwo
  split
  · exact nc_crash _ _ _
  · split
    · rename_i e h; exact nc_of_err (findRequired_ne h)
    · split
      · rename_i e h; exact nc_of_err (findRequired_ne h)
      · exact nc_ok _ _

theorem nc_insertBefore (tag : String) (mid : Option PyExc) (cs : List Xml) (t : Option String)
    (xs : List Xml) : NC (insertBefore tag mid cs t xs) := by
  unfold insertBefore
  split
  · rename_i e h; exact nc_of_err (findTarget_ne h)
  · exact nc_ok _ _
  · exact nc_ok _ _

theorem nc_inStoryAt (cs : List Xml) (k : Nat) (f : List Xml → Out) (hf : ∀ items, NC (f items)) :
    NC (inStoryAt cs k f) := by
  unfold inStoryAt
  split
  · exact nc_crash _ _ _
  · exact hf _

theorem nc_inStory (mid : Option PyExc) (cs : List Xml) (sid : Option String) (f : List Xml → Out)
    (hf : ∀ items, NC (f items)) : NC (inStory mid cs sid f) := by
  unfold inStory
  split
  · rename_i e h; exact nc_of_err (findRequired_ne h)
  · exact nc_inStoryAt _ _ _ hf

theorem nc_mergeRc (k : Kind) (rc base : Xml) (mid : Option PyExc) : NC (mergeRc k rc base mid) := by
  cases k <;> simp only [mergeRc]
  case StorySend =>
    split
    · exact nc_crash _ _ _
    · split
      · exact nc_crash _ _ _
      · split
        · exact nc_crash _ _ _
        · exact nc_ok _ _
      · exact nc_ok _ _
  case MetaDataReplace => exact nc_ok _ _
  case StoryAppend => exact nc_ok _ _
  case StoryDelete => exact nc_deleteLoop _ _ _ _ _ _
  case ItemDelete => exact nc_inStory _ _ _ _ (fun _ => nc_deleteLoop _ _ _ _ _ _)
  case StoryInsert =>
    split
    · rename_i e h; exact nc_of_err (findRequired_ne h)
    · split
      · exact nc_crash _ _ _
      · exact nc_insertDedup _ _ _ _ _ _
  case ItemInsert => exact nc_inStory _ _ _ _ (fun _ => nc_insertBefore _ _ _ _ _)
  case StoryMove =>
    split
    · exact nc_raise _ _ _
    · split
      · rename_i e h; exact nc_of_err (findTarget_ne h)
      · split
        · rename_i e h; exact nc_of_err (findRequired_ne h)
        · split <;> exact nc_ok _ _
  case ItemMoveMultiple =>
    split
    · exact nc_raise _ _ _
    · apply nc_inStory
      intro items
      split
      · exact nc_crash _ _ _
      · exact nc_moveMany _ _ _ _ _
  case StoryReplace =>
    split
    · rename_i e h; exact nc_of_err (findRequired_ne h)
    · split
      · exact nc_raise _ _ _
      · exact nc_ok _ _
  case ItemReplace =>
    apply nc_inStory
    intro items
    split
    · rename_i e h; exact nc_of_err (findRequired_ne h)
    · exact nc_ok _ _
  case ReadyToAir => exact nc_ok _ _
  case EAStoryReplace =>
    split
    · rename_i e h; exact nc_of_err (findRequired_ne h)
    · exact nc_ok _ _
  case EAItemReplace =>
    apply nc_inStory
    intro items
    split
    · rename_i e h; exact nc_of_err (findRequired_ne h)
    · exact nc_ok _ _
  case EAStoryDelete => exact nc_deleteLoop _ _ _ _ _ _
  case EAItemDelete =>
    split
    · exact nc_crash _ _ _
    · split
      · exact nc_crash _ _ _
      · exact nc_ok _ _
    · exact nc_inStoryAt _ _ _ (fun _ => nc_deleteLoop _ _ _ _ _ _)
  case EAStoryInsert =>
    split
    · rename_i e h; exact nc_of_err (findTarget_ne h)
    · split
      · exact nc_crash _ _ _
      · exact nc_insertDedup _ _ _ _ _ _
  case EAItemInsert => exact nc_inStory _ _ _ _ (fun _ => nc_insertBefore _ _ _ _ _)
  case EAStorySwap => exact nc_swapTwo _ _ _ _
  case EAItemSwap => exact nc_inStory _ _ _ _ (fun _ => nc_swapTwo _ _ _ _)
  case EAStoryMove => exact nc_moveMany _ _ _ _ _
  case EAItemMove => exact nc_inStory _ _ _ _ (fun _ => nc_moveMany _ _ _ _ _)
  case RunningOrder => exact nc_ok _ _
  case RunningOrderReplace => exact nc_ok _ _
  case RunningOrderEnd => exact nc_ok _ _

end Mrm
