/-
  Mrm/Proofs/Edit.lean — keys of edited child lists, split forms of the lookups, closed forms of
  the loops (`deleteLoop`, `insertDedup`, `insertBefore`, `replaceAt`), the item-level wrapper.
-/
import Mrm.Proofs.Rc
import Mrm.Proofs.Seq

namespace Mrm

/-! ### keys -/

theorem keysOf_nil (tag : String) : keysOf tag [] = [] := rfl

theorem keysOf_append (tag : String) (a b : List Xml) :
    keysOf tag (a ++ b) = keysOf tag a ++ keysOf tag b := by
  simp [keysOf]

theorem keysOf_cons_tag (tag : String) (c : Xml) (cs : List Xml) (h : c.tag = tag) :
    keysOf tag (c :: cs) = keyOf tag c :: keysOf tag cs := by
  simp [keysOf, h]

theorem keysOf_cons_ne (tag : String) (c : Xml) (cs : List Xml) (h : c.tag ≠ tag) :
    keysOf tag (c :: cs) = keysOf tag cs := by
  simp [keysOf, h]

theorem keysOf_all_tag (tag : String) (xs : List Xml) (h : ∀ x ∈ xs, x.tag = tag) :
    keysOf tag xs = xs.map (keyOf tag) := by
  unfold keysOf
  rw [List.filter_eq_self.mpr]
  intro x hx; simpa using h x hx

theorem mem_keysOf {tag : String} {cs : List Xml} {key : Key} :
    key ∈ keysOf tag cs ↔ ∃ c ∈ cs, c.tag = tag ∧ keyOf tag c = key := by
  simp [keysOf, and_assoc]

theorem findall_tag (x : Xml) (t : String) : ∀ c ∈ x.findall t, c.tag = t := by
  intro c hc
  simp [Xml.findall] at hc
  exact hc.2

/-! ### well-formedness is inherited -/

theorem WfKids_append {tag : String} {a b : List Xml} :
    WfKids tag (a ++ b) = true ↔ WfKids tag a = true ∧ WfKids tag b = true := by
  simp [WfKids, List.all_append]

theorem WfKids_cons {tag : String} {x : Xml} {b : List Xml} :
    WfKids tag (x :: b) = true ↔
      ((x.tag != tag || (x.find (tag ++ "ID")).isSome) = true) ∧ WfKids tag b = true := by
  simp [WfKids]

theorem WfKids_erase_split {tag : String} {a b : List Xml} {x : Xml}
    (h : WfKids tag (a ++ x :: b) = true) : WfKids tag (a ++ b) = true := by
  rw [WfKids_append] at h ⊢
  exact ⟨h.1, (WfKids_cons.mp h.2).2⟩

/-! ### split forms of `locate` -/

theorem isChild_iff {tag k : String} {c : Xml} :
    isChild tag k c = true ↔ c.tag = tag ∧ keyOf tag c = some k := by
  simp [isChild]

theorem locate_split {tag : String} {cs : List Xml} {id : Key} {i : Nat}
    (h : locate tag cs id = some i) :
    ∃ k a x b, id = some k ∧ cs = a ++ x :: b ∧ a.length = i ∧ x.tag = tag ∧ keyOf tag x = some k ∧
      ∀ c ∈ a, isChild tag k c = false := by
  obtain ⟨k, hid, hi, hp, hlt⟩ := locate_some h
  obtain ⟨a, x, b, hcs, hal, hx⟩ := split_of_lt cs i hi
  have hxi : cs[i] = x := by
    have := List.getElem?_eq_getElem hi
    rw [this] at hx; exact Option.some.inj hx
  rw [hxi] at hp
  obtain ⟨h1, h2⟩ := isChild_iff.mp hp
  refine ⟨k, a, x, b, hid, hcs, hal, h1, h2, ?_⟩
  intro c hc
  obtain ⟨j, hj, hcj⟩ := List.getElem_of_mem hc
  have hji : j < i := by omega
  have := hlt j hji
  have e : cs[j]'(by omega) = c := by
    subst hcs
    rw [List.getElem_append_left hj]; exact hcj
  rw [e] at this; exact this

theorem locate_of_split {tag k : String} {a b : List Xml} {x : Xml}
    (hx : isChild tag k x = true) (ha : ∀ c ∈ a, isChild tag k c = false) :
    locate tag (a ++ x :: b) (some k) = some a.length := by
  simp only [locate]
  rw [List.findIdx?_eq_some_iff_getElem]
  refine ⟨by simp, by simpa using hx, ?_⟩
  intro j hj
  rw [List.getElem_append_left hj]
  have := ha a[j] (List.getElem_mem hj)
  simp [this]

theorem locate_none {tag : String} {cs : List Xml} {id : Key} (h : locate tag cs id = none) :
    id = none ∨ id ∉ keysOf tag cs := by
  cases id with
  | none => left; rfl
  | some k =>
    right
    simp only [locate, List.findIdx?_eq_none_iff] at h
    intro hm
    obtain ⟨c, hc, h1, h2⟩ := mem_keysOf.mp hm
    have := h c hc
    rw [isChild_iff.mpr ⟨h1, h2⟩] at this
    cases this

theorem keysOf_split_of_locate {tag k : String} {a b : List Xml} {x : Xml}
    (hx1 : x.tag = tag) (hx2 : keyOf tag x = some k) (ha : ∀ c ∈ a, isChild tag k c = false) :
    keysOf tag (a ++ x :: b) = keysOf tag a ++ some k :: keysOf tag b ∧ some k ∉ keysOf tag a := by
  refine ⟨by rw [keysOf_append, keysOf_cons_tag _ _ _ hx1, hx2], ?_⟩
  intro hm
  obtain ⟨c, hc, h1, h2⟩ := mem_keysOf.mp hm
  have := ha c hc
  rw [isChild_iff.mpr ⟨h1, h2⟩] at this
  cases this

/-! ### closed form of `deleteLoop` -/

theorem delKeys_nil (ids : List Key) : delKeys [] ids = ids := rfl

theorem delKeys_cons (s : Key) (ss ids : List Key) :
    delKeys (s :: ss) ids = delKeys ss (if s.isSome then ids.erase s else ids) := rfl

/-- no hypothesis on the IDs: blank and repeated IDs included -/
theorem deleteLoop_closed (tag : String) (w : Warn) (ids : List Key) :
    ∀ (cs : List Xml) (ws : List Warn),
      ∃ cs', deleteLoop tag w none cs ids ws = ⟨cs', ws ++ delWarns w ids (keysOf tag cs), none⟩ ∧
        keysOf tag cs' = delKeys ids (keysOf tag cs) ∧
        cs'.filter (fun c => !(c.tag == tag)) = cs.filter (fun c => !(c.tag == tag)) := by
  induction ids with
  | nil => intro cs ws; exact ⟨cs, by simp [deleteLoop, delWarns], rfl, rfl⟩
  | cons id ids ih =>
    intro cs ws
    unfold deleteLoop
    rw [findChildId_ok tag cs id]
    cases hl : locate tag cs id with
    | none =>
      simp only
      have hnot : (id.isSome && (keysOf tag cs).contains id) = false := by
        rcases locate_none hl with h | h
        · rw [h]; rfl
        · simp [h]
      obtain ⟨cs', h1, h2, h3⟩ := ih cs (ws ++ [w])
      refine ⟨cs', ?_, ?_, h3⟩
      · rw [h1]; simp only [delWarns, hnot]; simp
      · rw [h2, delKeys_cons]
        congr 1
        rcases locate_none hl with h | h
        · rw [h]; rfl
        · split
          · exact (List.erase_of_not_mem h).symm
          · rfl
    | some i =>
      simp only
      obtain ⟨k, a, x, b, hid, hcs, hal, hx1, hx2, ha⟩ := locate_split hl
      subst hid hcs hal
      obtain ⟨hk, hka⟩ := keysOf_split_of_locate (b := b) hx1 hx2 ha
      rw [eraseIdx_split]
      obtain ⟨cs', h1, h2, h3⟩ := ih (a ++ b) ws
      refine ⟨cs', ?_, ?_, ?_⟩
      · rw [h1, hk]
        have : ((some k : Key).isSome && (keysOf tag a ++ some k :: keysOf tag b).contains (some k)) = true := by
          simp
        simp only [delWarns, this, if_true]
        rw [erase_split _ _ _ hka, keysOf_append]
      · rw [h2, hk, delKeys_cons, keysOf_append]
        simp only [Option.isSome_some, if_true]
        rw [erase_split _ _ _ hka]
      · rw [h3]
        have : (x.tag == tag) = true := by simpa using hx1
        simp [List.filter_append, this]

/-! ### closed form of `insertDedup` -/

theorem insertDedup_closed (ex : List Key) (ss : List Xml) :
    ∀ (a b : List Xml) (ws : List Warn),
      insertDedup none ex (a ++ b) a.length ss ws =
        ⟨a ++ ss.filter (fun s => !ex.contains (keyOf "story" s)) ++ b,
         ws ++ ss.filterMap (fun s => if ex.contains (keyOf "story" s) then some Warn.duplicateStory else none),
         none⟩ := by
  induction ss with
  | nil => intro a b ws; simp [insertDedup]
  | cons s ss ih =>
    intro a b ws
    unfold insertDedup
    have e : elemId (some s) "storyID" = keyOf "story" s := rfl
    rw [e]
    by_cases h : ex.contains (keyOf "story" s) = true
    · simp only [h, if_true]
      rw [ih]
      simp only [List.filter_cons, List.filterMap_cons, h, if_true, Bool.not_true, Bool.false_eq_true,
        if_false, List.append_assoc, List.singleton_append]
    · have h' : ex.contains (keyOf "story" s) = false := by simpa using h
      simp only [h', Bool.false_eq_true, if_false]
      rw [pyInsert_split]
      have := ih (a ++ [s]) b ws
      simp only [List.length_append, List.length_singleton, List.append_assoc, List.singleton_append] at this
      rw [this]
      simp only [List.filter_cons, List.filterMap_cons, h', Bool.false_eq_true, if_false, Bool.not_false,
        if_true, List.cons_append, List.append_assoc]

theorem roStoryIds_eq (cs : List Xml) : roStoryIds cs = keysOf "story" cs := rfl

/-! ### `insertBefore`, `replaceAt` -/

theorem insertMany_split_end (cs xs : List Xml) : insertMany cs cs.length xs = cs ++ xs := by
  have := insertMany_split cs [] xs
  simpa using this

theorem replaceAt_split (a b xs : List Xml) (x : Xml) :
    replaceAt (a ++ x :: b) a.length xs = a ++ xs ++ b := by
  unfold replaceAt
  rw [eraseIdx_split, insertMany_split]

theorem insertBefore_ok (tag : String) (cs : List Xml) (id : Key) (xs : List Xml) :
    insertBefore tag none cs id xs =
      match id with
      | none => ⟨cs ++ xs, [], none⟩
      | some k =>
        match locate tag cs (some k) with
        | none => failWith cs [] .merge
        | some i => ⟨insertMany cs i xs, [], none⟩ := by
  unfold insertBefore
  rw [findTarget_ok tag none cs id]
  cases id with
  | none => simp [insertMany_split_end]
  | some k =>
    simp only
    cases locate tag cs (some k) <;> simp [raiseMerge]

/-! ### the item-level wrapper -/

theorem inStoryAt_split (a b : List Xml) (s : Xml) (f : List Xml → Out) :
    inStoryAt (a ++ s :: b) a.length f =
      ⟨a ++ s.withKids (f s.kids).kids :: b, (f s.kids).warns, (f s.kids).err⟩ := by
  unfold inStoryAt
  simp

theorem inStory_ok (cs : List Xml) (sid : Key) (f : List Xml → Out) :
    inStory none cs sid f =
      match locate "story" cs sid with
      | none => failWith cs [] .merge
      | some k => inStoryAt cs k f := by
  unfold inStory
  rw [findRequired_ok "story" none cs sid]
  cases locate "story" cs sid <;> simp [raiseMerge]

/-- an edit of the children that leaves everything that is not an `<item>` alone -/
def KeepsOthers (tag : String) (l l' : List Xml) : Prop :=
  l'.filter (fun c => !(c.tag == tag)) = l.filter (fun c => !(c.tag == tag))

theorem keepsOthers_refl (tag : String) (l : List Xml) : KeepsOthers tag l l := rfl

theorem keepsOthers_insert (tag : String) (a b xs : List Xml) (x : List Xml)
    (hxs : ∀ c ∈ xs, c.tag = tag) (hx : ∀ c ∈ x, c.tag = tag) :
    KeepsOthers tag (a ++ x ++ b) (a ++ xs ++ b) := by
  unfold KeepsOthers
  simp only [List.filter_append]
  have e : ∀ l : List Xml, (∀ c ∈ l, c.tag = tag) → l.filter (fun c => !(c.tag == tag)) = [] := by
    intro l hl
    rw [List.filter_eq_nil_iff]
    intro c hc; simp [hl c hc]
  rw [e xs hxs, e x hx]

theorem keyOf_story_withKids (s : Xml) (l' : List Xml) (h : KeepsOthers "item" s.kids l') :
    keyOf "story" (s.withKids l') = keyOf "story" s := by
  unfold keyOf Xml.childText Xml.find
  simp only [Option.bind_some, Xml.withKids_kids]
  have imp : ∀ x : Xml, (x.tag == "story" ++ "ID") = true → (!(x.tag == "item")) = true := by
    intro x hx
    have : x.tag = "story" ++ "ID" := by simpa using hx
    rw [this]; decide
  rw [← find_w?_filter_of_imp _ _ l' imp, ← find_w?_filter_of_imp _ _ s.kids imp, h]

theorem isChild_story_withKids {k : String} (s : Xml) (l' : List Xml) (h : KeepsOthers "item" s.kids l')
    (hs : isChild "story" k s = true) : isChild "story" k (s.withKids l') = true := by
  rw [isChild_iff] at hs ⊢
  exact ⟨hs.1, by rw [keyOf_story_withKids s l' h]; exact hs.2⟩

end Mrm
