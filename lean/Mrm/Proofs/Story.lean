/-
  Mrm/Proofs/Story.lean — the story-level merges refine the protocol's ID-sequence functions.
-/
import Mrm.Proofs.Loops
import Mrm.Proofs.Rc

set_option linter.unusedSimpArgs false
set_option linter.unusedSectionVars false

namespace Mrm

/-! ### reading the message: model accessors = spec accessors -/

theorem keyOf_story (c : Xml) : keyOf "story" c = Xml.childText (some c) "storyID" := rfl
theorem keyOf_item (c : Xml) : keyOf "item" c = Xml.childText (some c) "itemID" := rfl
theorem elemId_eq (x : Option Xml) (t : String) : elemId x t = Xml.childText x t := rfl
theorem idTexts_eq (x : Xml) (t : String) : idTexts x t = textsOf (some x) t := rfl
theorem eaSourceIds_eq (base : Xml) (t : String) : eaSourceIds base t = allSourceIds base t := rfl
theorem srcElems_eq (src : Option Xml) (t : String) :
    (src.map (·.findall t)).getD [] = elemsOf src t := by cases src <;> rfl
theorem srcTexts_eq (src : Option Xml) (t : String) :
    (src.map (idTexts · t)).getD [] = textsOf src t := by cases src <;> rfl
theorem roStoryIds_eq_o (cs : List Xml) : roStoryIds cs = keysOf "story" cs := rfl

theorem elemsOf_tagged (src : Option Xml) (t : String) : ∀ y ∈ elemsOf src t, y.tag = t := by
  cases src with
  | none => intro y hy; cases hy
  | some x => exact findall_tagged x t

theorem mem_of_ok {t : Key} {ids : List Key} (h : t.isSome = true ∧ ids.contains t = true) : t ∈ ids := by
  simpa using h.2

theorem all_mem_of_ok {ss ids : List Key} (h : ss.all (fun s => s.isSome && ids.contains s) = true) :
    ∀ s ∈ ss, s ∈ ids := by
  rw [List.all_eq_true] at h
  intro s hs; exact mem_of_ok (by simpa using h s hs)

theorem all_some_of_ok {ss ids : List Key} (h : ss.all (fun s => s.isSome && ids.contains s) = true) :
    ∀ s ∈ ss, s.isSome = true := by
  rw [List.all_eq_true] at h
  intro s hs
  have := h s hs
  simp only [Bool.and_eq_true] at this
  exact this.1

/-! ### insertion with de-duplication -/

theorem dedup_keys (cs xs : List Xml) :
    (xs.filter (fun s => !(roStoryIds cs).contains (elemId (some s) "storyID"))).map (keyOf "story") =
      (xs.map (keyOf "story")).filter (fun c => !(keysOf "story" cs).contains c) := by
  rw [List.filter_map]; rfl

theorem insertDedup_eff_at {cs : List Xml} {t : Key} (ht : t ∈ keysOf "story" cs)
    (xs : List Xml) (hx : ∀ x ∈ xs, x.tag = "story") :
    Eff "story" cs (insertDedup none (roStoryIds cs) cs (idx (kt "story") cs t) xs [])
      (insBefore (some t) ((xs.map (keyOf "story")).filter (fun c => !(keysOf "story" cs).contains c))
        (keysOf "story" cs)) := by
  obtain ⟨e1, e2⟩ := insertDedup_closed_o (roStoryIds cs) xs cs (idx (kt "story") cs t) []
  have hx' : ∀ x ∈ xs.filter (fun s => !(roStoryIds cs).contains (elemId (some s) "storyID")),
      x.tag = "story" := fun x h => hx x (List.mem_filter.mp h).1
  have ht' : t ∈ ks (kt "story") cs := by rw [← keysOf_eq_ks]; exact ht
  obtain ⟨e3, e4⟩ := insertAt_idx (kt "story") ht' _ (keyed_tagged hx')
  refine ⟨e1, ?_, ?_⟩
  · rw [e2, insertMany_eq_insertAt, keysOf_eq_ks, keysOf_eq_ks, e3, ks_tagged hx', dedup_keys,
      keysOf_eq_ks]
  · rw [e2, insertMany_eq_insertAt, e4]

theorem insertDedup_eff_end (cs : List Xml) (xs : List Xml) (hx : ∀ x ∈ xs, x.tag = "story") :
    Eff "story" cs (insertDedup none (roStoryIds cs) cs cs.length xs [])
      (insBefore none ((xs.map (keyOf "story")).filter (fun c => !(keysOf "story" cs).contains c))
        (keysOf "story" cs)) := by
  obtain ⟨e1, e2⟩ := insertDedup_closed_o (roStoryIds cs) xs cs cs.length []
  have hx' : ∀ x ∈ xs.filter (fun s => !(roStoryIds cs).contains (elemId (some s) "storyID")),
      x.tag = "story" := fun x h => hx x (List.mem_filter.mp h).1
  obtain ⟨e3, e4⟩ := insertAt_end (kt "story") cs _ (keyed_tagged hx')
  refine ⟨e1, ?_, ?_⟩
  · rw [e2, insertMany_eq_insertAt, keysOf_eq_ks, keysOf_eq_ks, e3, ks_tagged hx', dedup_keys,
      keysOf_eq_ks]
  · rw [e2, insertMany_eq_insertAt, e4]

/-! ### roStorySend -/

theorem convertStorySend_ok (base : Xml) (h : (base.find "storyBody").isSome = true) :
    ∃ story, convertStorySend base = .ok story ∧ story.tag = "story" := by
  unfold convertStorySend findChildAny
  unfold Xml.find at h
  cases hi : base.kids.findIdx? (fun c => c.tag == "storyBody") with
  | none =>
    rw [List.findIdx?_eq_none_iff] at hi
    rw [Option.isSome_iff_exists] at h
    obtain ⟨b, hb⟩ := h
    have h1 := List.find?_some hb
    have h2 := hi b (List.mem_of_find?_eq_some hb)
    rw [h1] at h2; cases h2
  | some i =>
    have hi' := hi
    rw [List.findIdx?_eq_some_iff_getElem] at hi'
    obtain ⟨hlt, _, _⟩ := hi'
    simp only [List.getElem?_eq_getElem hlt]
    exact ⟨_, rfl, rfl⟩

theorem replaceKey_self {t : Key} {l : List Key} (_h : t ∈ l) : replaceKey t [t] l = l := by
  unfold replaceKey
  cases hi : l.idxOf? t with
  | none =>  rfl
  | some i =>
    simp only
    rw [List.idxOf?, List.findIdx?_eq_some_iff_getElem] at hi
    obtain ⟨hlt, hp, _⟩ := hi
    have : l[i] = t := by simpa using hp
    conv => rhs; rw [(split_at_index l i hlt).1, this]
    simp

theorem pyInsert_eq_insertAt {α : Type} (l : List α) (i : Nat) (x : α) :
    pyInsert l i x = insertAt l i [x] := by simp [pyInsert, insertAt]

/-! ### story-level kinds -/

section
variable (rc base : Xml) (g : Good "story" rc.kids)
include g

omit g in
theorem story_append :
    Eff "story" rc.kids (mergeRc .StoryAppend rc base none)
      (specIds .StoryAppend "story" (namedOf .StoryAppend base) (keysOf "story" rc.kids)) := by
  simp only [mergeRc, specIds, namedOf, Kind.group]
  have hx := findall_tagged base "story"
  refine ⟨rfl, ?_, ?_⟩
  · simp only [keysOf_eq_ks, ks_append, ks_tagged hx]
  · simp only [nk_append, nk_keyed _ (keyed_tagged hx), List.append_nil]

theorem story_delete :
    Eff "story" rc.kids (mergeRc .StoryDelete rc base none)
      (specIds .StoryDelete "story" (namedOf .StoryDelete base) (keysOf "story" rc.kids)) := by
  simp only [mergeRc, specIds, namedOf, Kind.group]
  exact deleteLoop_eff "story" _ _ _ _ g

theorem story_eadelete :
    Eff "story" rc.kids (mergeRc .EAStoryDelete rc base none)
      (specIds .EAStoryDelete "story" (namedOf .EAStoryDelete base) (keysOf "story" rc.kids)) := by
  simp only [mergeRc, specIds, namedOf, Kind.group]
  exact deleteLoop_eff "story" _ _ _ _ g

theorem story_replace
    (hres : resolves .StoryReplace (namedOf .StoryReplace base) (keysOf "story" rc.kids) = true) :
    Eff "story" rc.kids (mergeRc .StoryReplace rc base none)
      (specIds .StoryReplace "story" (namedOf .StoryReplace base) (keysOf "story" rc.kids)) := by
  simp only [resolves, namedOf, Kind.group, Bool.and_eq_true] at hres
  obtain ⟨ht, hne⟩ := hres
  have hts := ht.1
  have ht := mem_of_ok ht
  simp only [mergeRc, specIds, namedOf, Kind.group, elemId_eq]
  rw [findRequired_mem none ht hts]
  have hne' : (base.findall "story").isEmpty = false := by simpa using hne
  simp only [hne', Bool.false_eq_true, if_false]
  exact replaceAt_eff _ _ (findall_tagged base "story") ht

theorem story_eareplace
    (hres : resolves .EAStoryReplace (namedOf .EAStoryReplace base) (keysOf "story" rc.kids) = true) :
    Eff "story" rc.kids (mergeRc .EAStoryReplace rc base none)
      (specIds .EAStoryReplace "story" (namedOf .EAStoryReplace base) (keysOf "story" rc.kids)) := by
  simp only [resolves, namedOf, Kind.group, Bool.and_eq_true] at hres
  obtain ⟨ht, _⟩ := hres
  have hts := ht.1
  have ht := mem_of_ok ht
  simp only [mergeRc, specIds, namedOf, Kind.group, elemId_eq, srcElems_eq]
  rw [findRequired_mem none ht hts]
  exact replaceAt_eff _ _ (elemsOf_tagged _ "story") ht

theorem story_swap
    (hres : resolves .EAStorySwap (namedOf .EAStorySwap base) (keysOf "story" rc.kids) = true) :
    Eff "story" rc.kids (mergeRc .EAStorySwap rc base none)
      (specIds .EAStorySwap "story" (namedOf .EAStorySwap base) (keysOf "story" rc.kids)) := by
  simp only [resolves, namedOf, Kind.group, Bool.and_eq_true] at hres
  obtain ⟨hlen, hall⟩ := hres
  simp only [mergeRc, specIds, namedOf, Kind.group, srcTexts_eq]
  generalize textsOf (base.find "element_source") "storyID" = ss at *
  match ss, hlen, hall with
  | [a, b], _, hall =>
    have := all_mem_of_ok hall
    have hsm := all_some_of_ok hall
    exact swapTwo_eff g a b (this a (by simp)) (this b (by simp)) (hsm a (by simp)) (hsm b (by simp))

theorem story_eamove
    (hres : resolves .EAStoryMove (namedOf .EAStoryMove base) (keysOf "story" rc.kids) = true) :
    Eff "story" rc.kids (mergeRc .EAStoryMove rc base none)
      (specIds .EAStoryMove "story" (namedOf .EAStoryMove base) (keysOf "story" rc.kids)) := by
  simp only [resolves, namedOf, Kind.group, Bool.and_eq_true] at hres
  obtain ⟨⟨⟨⟨htgt, hall⟩, hnd⟩, hts⟩, _⟩ := hres
  simp only [mergeRc, specIds, namedOf, Kind.group, elemId_eq, eaSourceIds_eq]
  have hsm := all_some_of_ok hall
  have hall := all_mem_of_ok hall
  have hnd : (allSourceIds base "storyID").Nodup := of_decide_eq_true hnd
  apply moveMany_eff g _ _ _ hall hsm hnd
  · cases ht : Xml.childText (base.find "element_target") "storyID" with
    | none =>
      intro hc
      have := hsm none hc
      cases this
    | some t =>
      rw [ht] at hts; simpa [endIfBlank] using hts
  · cases ht : Xml.childText (base.find "element_target") "storyID" with
    | none => intro h; cases h
    | some t =>
      rw [ht] at htgt
      intro _
      exact mem_of_ok (by simpa [endIfBlank] using htgt)

theorem story_insert
    (hres : resolves .StoryInsert (namedOf .StoryInsert base) (keysOf "story" rc.kids) = true) :
    Eff "story" rc.kids (mergeRc .StoryInsert rc base none)
      (specIds .StoryInsert "story" (namedOf .StoryInsert base) (keysOf "story" rc.kids)) := by
  simp only [resolves, namedOf, Kind.group, Bool.and_eq_true] at hres
  have hts := hres.1
  have ht := mem_of_ok hres
  simp only [mergeRc, specIds, namedOf, Kind.group, elemId_eq, Kind.dedups, if_true]
  rw [findRequired_mem none ht hts]
  exact insertDedup_eff_at ht _ (findall_tagged base "story")

theorem story_eainsert
    (hres : resolves .EAStoryInsert (namedOf .EAStoryInsert base) (keysOf "story" rc.kids) = true) :
    Eff "story" rc.kids (mergeRc .EAStoryInsert rc base none)
      (specIds .EAStoryInsert "story" (namedOf .EAStoryInsert base) (keysOf "story" rc.kids)) := by
  simp only [resolves, namedOf, Kind.group, Bool.and_eq_true] at hres
  simp only [mergeRc, specIds, namedOf, Kind.group, elemId_eq, Kind.dedups, if_true, srcElems_eq]
  cases ht : Xml.childText (base.find "element_target") "storyID" with
  | none =>
    simp only [findTarget, endIfBlank, Option.getD_none]
    exact insertDedup_eff_end _ _ (elemsOf_tagged _ "story")
  | some t =>
    rw [ht] at hres
    have hm : some t ∈ keysOf "story" rc.kids := by simpa [endIfBlank] using hres
    rw [findTarget_mem none hm rfl]
    simp only [endIfBlank, Option.getD_some]
    exact insertDedup_eff_at hm _ (elemsOf_tagged _ "story")

theorem story_move
    (hres : resolves .StoryMove (namedOf .StoryMove base) (keysOf "story" rc.kids) = true) :
    Eff "story" rc.kids (mergeRc .StoryMove rc base none)
      (specIds .StoryMove "story" (namedOf .StoryMove base) (keysOf "story" rc.kids)) := by
  simp only [resolves, namedOf, Kind.group, Bool.and_eq_true] at hres
  obtain ⟨⟨⟨⟨htgt, hall⟩, hnd⟩, hts⟩, hlen⟩ := hres
  clear hnd
  simp only [mergeRc, specIds, namedOf, Kind.group, idTexts_eq]
  generalize textsOf (some base) "storyID" = L at *
  cases L with
  | nil => simp at hlen
  | cons sid rest =>
    simp only [List.take_succ_cons, List.take_zero, List.drop_succ_cons, List.drop_zero] at *
    have hsid : sid ∈ keysOf "story" rc.kids := all_mem_of_ok hall sid (by simp)
    have hsids : sid.isSome = true := all_some_of_ok hall sid (by simp)
    have hsm : ∀ s ∈ [sid], s.isSome = true := by
      intro s hs; simp only [List.mem_singleton] at hs; subst hs; exact hsids
    have hss : ∀ s ∈ [sid], s ∈ ks (kt "story") rc.kids := by
      intro s hs; rw [← keysOf_eq_ks]; simp only [List.mem_singleton] at hs; subst hs; exact hsid
    have hend : Eff "story" rc.kids ⟨moveNodes rc.kids [idx (kt "story") rc.kids sid] none, [], none⟩
        (insBefore none [sid] ((keysOf "story" rc.kids).filter (fun x => ![sid].contains x))) := by
      refine ⟨rfl, ?_, moveNodes_nk (kt "story") g.nd' hss hsm none⟩
      rw [keysOf_eq_ks, keysOf_eq_ks]
      exact moveNodes_keys_end (kt "story") g.nd' hss hsm
    rw [findRequired_mem none hsid hsids]
    cases rest with
    | nil =>
      simp only [findTarget]
      exact hend
    | cons t _ =>
      cases t with
      | none =>
        simp only [findTarget, endIfBlank]
        exact hend
      | some k =>
        simp only [endIfBlank] at htgt hts ⊢
        have hm : some k ∈ keysOf "story" rc.kids := mem_of_ok (by simpa using htgt)
        have hm' : some k ∈ ks (kt "story") rc.kids := by rw [← keysOf_eq_ks]; exact hm
        have hne : some k ∉ [sid] := by simpa using hts
        rw [findTarget_mem none hm rfl]
        simp only
        have hidx : (some (idx (kt "story") rc.kids (some k)) == some (idx (kt "story") rc.kids sid)) = false := by
          rw [Bool.eq_false_iff]
          intro h
          have h := Option.some.inj (eq_of_beq h)
          have := idx_inj (kt "story") hm' (hss sid (by simp)) h
          exact hne (by simp [this])
        simp only [hidx, Bool.false_eq_true, if_false]
        have h1 := moveNodes_nk (kt "story") g.nd' hss hsm (some (idx (kt "story") rc.kids (some k)))
        have h2 := moveNodes_keys (kt "story") g.nd' hss hsm hm' rfl hne
        simp only [List.map_cons, List.map_nil] at h1 h2
        refine ⟨rfl, ?_, h1⟩
        rw [keysOf_eq_ks, keysOf_eq_ks]
        exact h2

theorem story_send (hsh : (base.find "storyBody").isSome = true) :
    Eff "story" rc.kids (mergeRc .StorySend rc base none)
      (specIds .StorySend "story" (namedOf .StorySend base) (keysOf "story" rc.kids)) := by
  obtain ⟨story, hconv, htag⟩ := convertStorySend_ok base hsh
  simp only [mergeRc, specIds, namedOf, Kind.group, hconv]
  rw [findChildId_ok "story" rc.kids _]
  by_cases hm : elemId (some story) "storyID" ∈ keysOf "story" rc.kids ∧
      (elemId (some story) "storyID").isSome = true
  · obtain ⟨hm, hsm⟩ := hm
    rw [locate_of_mem hm hsm]
    simp only [pyInsert_eq_insertAt]
    have hm' : elemId (some story) "storyID" ∈ ks (kt "story") rc.kids := by
      rw [← keysOf_eq_ks]; exact hm
    have hx : ∀ x ∈ [story], x.tag = "story" := by simp [htag]
    obtain ⟨e1, e2⟩ := replace_idx (kt "story") hm' [story] (keyed_tagged hx)
    refine ⟨rfl, ?_, e2⟩
    rw [keysOf_eq_ks, e1, ks_tagged hx, ← keysOf_eq_ks]
    exact replaceKey_self hm
  · have hloc : locate "story" rc.kids (elemId (some story) "storyID") = none := by
      cases hk : elemId (some story) "storyID" with
      | none => rfl
      | some k => rw [hk] at hm; exact locate_of_not_mem (fun h => hm ⟨h, rfl⟩)
    rw [hloc]
    exact ⟨rfl, rfl, rfl⟩

end

end Mrm
