/-
  Mrm/Proofs/HeapValueP.lean — C13: under separation the labelled (identity-carrying) run projects
  onto the value-level run — what licenses modelling `parent.remove(node)` / `insert` / move / swap
  on plain values (`eraseIdx`, `take ++ x :: drop`, …) in Model/Merge.lean.  Targets.
-/
import Mrm.Proofs.HeapP

namespace Mrm

open LX

/-- value-level update: apply `f` to the child list of the node at `path` -/
def updV (f : List Xml → List Xml) : List Nat → Xml → Xml
  | [], x => x.withKids (f x.kids)
  | i :: rest, x =>
    match x.kids[i]? with
    | some c => x.withKids (x.kids.set i (updV f rest c))
    | none => x

mutual
/-- the path (child indices from the root) of the node labelled `l`, if it occurs -/
def pathOf (l : Nat) : LX → Option (List Nat)
  | .node l' _ _ _ _ ks => if l' = l then some [] else pathOfL l ks 0
def pathOfL (l : Nat) : List LX → Nat → Option (List Nat)
  | [], _ => none
  | k :: ks, i =>
    match pathOf l k with
    | some p => some (i :: p)
    | none => pathOfL l ks (i+1)
end

/-- `f` on labelled children and `g` on plain children are the same list surgery -/
def Natural (f : List LX → List LX) (g : List Xml → List Xml) : Prop :=
  ∀ ks, eraseL (f ks) = g (eraseL ks)

/-! ### helpers -/

theorem eraseL_eq_map (ks : List LX) : eraseL ks = ks.map LX.erase := by
  induction ks with
  | nil => rfl
  | cons k ks ih => simp [eraseL, ih]

mutual
/-- a label that occurs has a path -/
theorem pathOf_isSome (l : Nat) (t : LX) (h : l ∈ t.labels) : (pathOf l t).isSome = true := by
  match t with
  | .node l' tg a x tl ks =>
    simp only [LX.labels, List.mem_cons] at h
    simp only [pathOf]
    split
    · rfl
    · rename_i hne
      rcases h with h | h
      · exact absurd h.symm hne
      · exact pathOfL_isSome l ks 0 h
theorem pathOfL_isSome (l : Nat) (ks : List LX) (i : Nat) (h : l ∈ labelsL ks) :
    (pathOfL l ks i).isSome = true := by
  match ks with
  | [] => simp [labelsL] at h
  | k :: ks =>
    simp only [labelsL, List.mem_append] at h
    simp only [pathOfL]
    split
    · rfl
    · rename_i hnone
      rcases h with h | h
      · have := pathOf_isSome l k h
        rw [hnone] at this; cases this
      · exact pathOfL_isSome l ks (i+1) h
end

mutual
/-- a label with a path occurs -/
theorem pathOf_mem (l : Nat) (t : LX) (p : List Nat) (h : pathOf l t = some p) : l ∈ t.labels := by
  match t with
  | .node l' tg a x tl ks =>
    simp only [pathOf] at h
    simp only [LX.labels, List.mem_cons]
    split at h
    · rename_i he; exact Or.inl he.symm
    · exact Or.inr (pathOfL_mem l ks 0 p h)
theorem pathOfL_mem (l : Nat) (ks : List LX) (i : Nat) (p : List Nat) (h : pathOfL l ks i = some p) :
    l ∈ labelsL ks := by
  match ks with
  | [] => simp [pathOfL] at h
  | k :: ks =>
    simp only [pathOfL] at h
    simp only [labelsL, List.mem_append]
    split at h
    · rename_i q hq; exact Or.inl (pathOf_mem l k q hq)
    · exact Or.inr (pathOfL_mem l ks (i+1) p h)
end

mutual
theorem erase_upd_aux (l : Nat) (f : List LX → List LX) (g : List Xml → List Xml) (hn : Natural f g)
    (t : LX) (hnd : t.labels.Nodup) (p : List Nat) (hp : pathOf l t = some p) :
    (t.upd l f).erase = updV g p t.erase := by
  match t with
  | .node l' tg a x tl ks =>
    simp only [LX.labels, List.nodup_cons] at hnd
    simp only [pathOf] at hp
    split at hp
    · rename_i he
      subst he
      simp only [Option.some.injEq] at hp
      subst hp
      simp only [LX.upd, if_true, updL_of_not_mem l' f ks hnd.1, LX.erase, updV, hn ks]
      rfl
    · rename_i hne
      obtain ⟨j, q, c, hpq, hget, hset⟩ := erase_updL_aux l f g hn ks hnd.2 0 p hp
      subst hpq
      have hget' : (eraseL ks)[j]? = some c.erase := by
        rw [eraseL_eq_map, List.getElem?_map, hget]; rfl
      simp only [LX.upd, hne, if_false, LX.erase, updV, Xml.kids_node, hset, Nat.zero_add, hget']
      rfl
theorem erase_updL_aux (l : Nat) (f : List LX → List LX) (g : List Xml → List Xml) (hn : Natural f g)
    (ks : List LX) (hnd : (labelsL ks).Nodup) (i0 : Nat) (p : List Nat)
    (hp : pathOfL l ks i0 = some p) :
    ∃ j q c, p = (i0 + j) :: q ∧ ks[j]? = some c ∧
      eraseL (updL l f ks) = (eraseL ks).set j (updV g q c.erase) := by
  match ks with
  | [] => simp [pathOfL] at hp
  | k :: ks =>
    simp only [labelsL, List.nodup_append] at hnd
    obtain ⟨hn1, hn2, hdis⟩ := hnd
    simp only [pathOfL] at hp
    split at hp
    · rename_i q hq
      simp only [Option.some.injEq] at hp
      have hl : l ∈ k.labels := pathOf_mem l k q hq
      have hl2 : l ∉ labelsL ks := fun h => hdis l hl l h rfl
      refine ⟨0, q, k, by rw [← hp]; rfl, rfl, ?_⟩
      simp only [updL, eraseL, updL_of_not_mem l f ks hl2, erase_upd_aux l f g hn k hn1 q hq,
        List.set_cons_zero]
    · rename_i hnone
      have hl : l ∉ k.labels := by
        intro h
        have := pathOf_isSome l k h
        rw [hnone] at this; cases this
      obtain ⟨j, q, c, hpq, hget, hset⟩ := erase_updL_aux l f g hn ks hn2 (i0+1) p hp
      refine ⟨j+1, q, c, by rw [hpq]; congr 1; omega, by simpa using hget, ?_⟩
      simp only [updL, eraseL, upd_of_not_mem' l f k hl, hset, List.set_cons_succ]
end

/-- in a tree without repeated labels, mutating object `l` is, on the content, the value-level edit at
    the path of `l` -/
theorem erase_upd (l : Nat) (f : List LX → List LX) (g : List Xml → List Xml) (hn : Natural f g) (t : LX)
    (hnd : t.labels.Nodup) (p : List Nat) (hp : pathOf l t = some p) :
    (t.upd l f).erase = updV g p t.erase :=
  erase_upd_aux l f g hn t hnd p hp

/-- the four list edits of the merges are natural: the labelled and the plain version agree on content -/
theorem natural_eraseIdx (i : Nat) : Natural (fun ks => ks.eraseIdx i) (fun ks => ks.eraseIdx i) := by
  intro ks
  simp only [eraseL_eq_map, List.eraseIdx_eq_take_drop_succ, List.map_append, List.map_take,
    List.map_drop]

theorem natural_insert (i : Nat) (x : LX) :
    Natural (fun ks => lxInsert ks i x) (fun ks => ks.take i ++ x.erase :: ks.drop i) := by
  intro ks
  simp only [eraseL_eq_map, lxInsert, List.map_append, List.map_cons, List.map_take, List.map_drop]

theorem natural_swap (i j : Nat) :
    Natural (fun ks => lxSwap ks i j)
      (fun ks => match ks[i]?, ks[j]? with | some a, some b => (ks.set i b).set j a | _, _ => ks) := by
  intro ks
  simp only [eraseL_eq_map, lxSwap, List.getElem?_map]
  cases ks[i]? <;> cases ks[j]? <;> simp [List.map_set]

/-- C13 ⇒ value semantics: every non-reference operation of a history, applied to a separated world,
    changes the running order's *content* exactly as the corresponding edit on plain values at the
    addressed node, and changes no other tree's content at all -/
theorem value_model_sound (ro : LX) (rest : List LX) (n : Nat) (p i : Nat) (path : List Nat)
    (hs : World.Sep ⟨ro :: rest, n⟩) (hp : pathOf p ro = some path) :
    ((World.apply ⟨ro :: rest, n⟩ (.removeAt p i)).trees.map LX.erase) =
      updV (fun ks => ks.eraseIdx i) path ro.erase :: rest.map LX.erase := by
  have hmem : p ∈ ro.labels := pathOf_mem p ro path hp
  obtain ⟨_, ro', htrees⟩ := sep_step ro rest n (.removeAt p i) hs rfl hmem
  have hnd : ro.labels.Nodup := by
    have := hs.1
    simp only [World.labels, List.flatMap_cons, List.nodup_append] at this
    exact this.1
  have happ : (World.apply ⟨ro :: rest, n⟩ (.removeAt p i)).trees =
      ro.upd p (fun ks => ks.eraseIdx i) :: rest.map (LX.upd p (fun ks => ks.eraseIdx i)) := rfl
  rw [happ] at htrees
  simp only [List.cons.injEq] at htrees
  rw [happ, htrees.2, List.map_cons,
    erase_upd p _ _ (natural_eraseIdx i) ro hnd path hp]

end Mrm
