/-
  Mrm/Proofs/Item.lean — the item-level merges refine the protocol's ID-sequence functions inside
  the addressed story, and leave the story addressable.
-/
import Mrm.Proofs.Story

set_option linter.unusedSimpArgs false
set_option linter.unusedSectionVars false

namespace Mrm

/-- the edit an item-level merge performs on the children of the addressed story -/
def itemFn (k : Kind) (base : Xml) (items : List Xml) : Out :=
  let tgt := base.find "element_target"
  let src := base.find "element_source"
  match k with
  | .ItemDelete => deleteLoop "item" .itemNotFound none items (idTexts base "itemID") []
  | .ItemInsert => insertBefore "item" none items (elemId (some base) "itemID") (base.findall "item")
  | .ItemMoveMultiple =>
    match (idTexts base "itemID").getLast? with
    | none => failWith items [] (.crash .IndexError)
    | some target => moveMany "item" none items target (idTexts base "itemID").dropLast
  | .ItemReplace =>
    match findRequired "item" none items (elemId (some base) "itemID") with
    | .error e => failWith items [] e
    | .ok i => ⟨replaceAt items i (base.findall "item"), [], none⟩
  | .EAItemReplace =>
    match findRequired "item" none items (elemId tgt "itemID") with
    | .error e => failWith items [] e
    | .ok i => ⟨replaceAt items i ((src.map (·.findall "item")).getD []), [], none⟩
  | .EAItemDelete => deleteLoop "item" .itemNotFound none items (eaSourceIds base "itemID") []
  | .EAItemInsert =>
    insertBefore "item" none items (elemId tgt "itemID") ((src.map (·.findall "item")).getD [])
  | .EAItemSwap => swapTwo "item" none items ((src.map (idTexts · "itemID")).getD [])
  | .EAItemMove =>
    moveMany "item" none items (elemId tgt "itemID") ((src.map (idTexts · "itemID")).getD [])
  | _ => ⟨items, [], none⟩

/-- conditions of a move, read from `resolves` -/
theorem move_conds {t : Key} {ss ids : List Key} (hsm : ∀ s ∈ ss, s.isSome = true)
    (htgt : (match endIfBlank t with | none => true | some t' => t'.isSome && ids.contains t') = true)
    (hts : (match endIfBlank t with | none => true | some t' => !ss.contains t') = true) :
    (t.isSome = true → t ∈ ids) ∧ t ∉ ss := by
  cases t with
  | none =>
    refine ⟨fun h => (by cases h), ?_⟩
    intro hc
    have := hsm none hc
    cases this
  | some k =>
    simp only [endIfBlank] at htgt hts
    exact ⟨fun _ => mem_of_ok (by simpa using htgt), by simpa using hts⟩

section
variable (base : Xml) (items : List Xml) (g : Good "item" items)
include g

theorem item_delete :
    Eff "item" items (itemFn .ItemDelete base items)
      (specIds .ItemDelete "item" (namedOf .ItemDelete base) (keysOf "item" items)) := by
  simp only [itemFn, specIds, namedOf, Kind.group]
  exact deleteLoop_eff "item" _ _ _ _ g

theorem item_eadelete :
    Eff "item" items (itemFn .EAItemDelete base items)
      (specIds .EAItemDelete "item" (namedOf .EAItemDelete base) (keysOf "item" items)) := by
  simp only [itemFn, specIds, namedOf, Kind.group]
  exact deleteLoop_eff "item" _ _ _ _ g

theorem item_insert
    (hres : resolves .ItemInsert (namedOf .ItemInsert base) (keysOf "item" items) = true) :
    Eff "item" items (itemFn .ItemInsert base items)
      (specIds .ItemInsert "item" (namedOf .ItemInsert base) (keysOf "item" items)) := by
  simp only [resolves, namedOf, Kind.group] at hres
  simp only [itemFn, specIds, namedOf, Kind.group, Kind.dedups, elemId_eq, Bool.false_eq_true, if_false]
  apply insertBefore_eff _ _ (findall_tagged base "item")
  cases ht : Xml.childText (some base) "itemID" with
  | none => intro h; cases h
  | some t =>
    rw [ht] at hres
    intro _
    exact mem_of_ok (by simpa [endIfBlank] using hres)

theorem item_eainsert
    (hres : resolves .EAItemInsert (namedOf .EAItemInsert base) (keysOf "item" items) = true) :
    Eff "item" items (itemFn .EAItemInsert base items)
      (specIds .EAItemInsert "item" (namedOf .EAItemInsert base) (keysOf "item" items)) := by
  simp only [resolves, namedOf, Kind.group] at hres
  simp only [itemFn, specIds, namedOf, Kind.group, Kind.dedups, elemId_eq, Bool.false_eq_true, if_false,
    srcElems_eq]
  apply insertBefore_eff _ _ (elemsOf_tagged _ "item")
  cases ht : Xml.childText (base.find "element_target") "itemID" with
  | none => intro h; cases h
  | some t =>
    rw [ht] at hres
    intro _
    exact mem_of_ok (by simpa [endIfBlank] using hres)

theorem item_replace
    (hres : resolves .ItemReplace (namedOf .ItemReplace base) (keysOf "item" items) = true) :
    Eff "item" items (itemFn .ItemReplace base items)
      (specIds .ItemReplace "item" (namedOf .ItemReplace base) (keysOf "item" items)) := by
  simp only [resolves, namedOf, Kind.group, Bool.and_eq_true] at hres
  obtain ⟨ht, _⟩ := hres
  have hts := ht.1
  have ht := mem_of_ok ht
  simp only [itemFn, specIds, namedOf, Kind.group, elemId_eq]
  rw [findRequired_mem none ht hts]
  exact replaceAt_eff _ _ (findall_tagged base "item") ht

theorem item_eareplace
    (hres : resolves .EAItemReplace (namedOf .EAItemReplace base) (keysOf "item" items) = true) :
    Eff "item" items (itemFn .EAItemReplace base items)
      (specIds .EAItemReplace "item" (namedOf .EAItemReplace base) (keysOf "item" items)) := by
  simp only [resolves, namedOf, Kind.group, Bool.and_eq_true] at hres
  obtain ⟨ht, _⟩ := hres
  have hts := ht.1
  have ht := mem_of_ok ht
  simp only [itemFn, specIds, namedOf, Kind.group, elemId_eq, srcElems_eq]
  rw [findRequired_mem none ht hts]
  exact replaceAt_eff _ _ (elemsOf_tagged _ "item") ht

theorem item_swap
    (hres : resolves .EAItemSwap (namedOf .EAItemSwap base) (keysOf "item" items) = true) :
    Eff "item" items (itemFn .EAItemSwap base items)
      (specIds .EAItemSwap "item" (namedOf .EAItemSwap base) (keysOf "item" items)) := by
  simp only [resolves, namedOf, Kind.group, Bool.and_eq_true] at hres
  obtain ⟨hlen, hall⟩ := hres
  simp only [itemFn, specIds, namedOf, Kind.group, srcTexts_eq]
  generalize textsOf (base.find "element_source") "itemID" = ss at *
  match ss, hlen, hall with
  | [a, b], _, hall =>
    have := all_mem_of_ok hall
    have hsm := all_some_of_ok hall
    exact swapTwo_eff g a b (this a (by simp)) (this b (by simp)) (hsm a (by simp)) (hsm b (by simp))

theorem item_eamove
    (hres : resolves .EAItemMove (namedOf .EAItemMove base) (keysOf "item" items) = true) :
    Eff "item" items (itemFn .EAItemMove base items)
      (specIds .EAItemMove "item" (namedOf .EAItemMove base) (keysOf "item" items)) := by
  simp only [resolves, namedOf, Kind.group, Bool.and_eq_true] at hres
  obtain ⟨⟨⟨⟨htgt, hall⟩, hnd⟩, hts⟩, _⟩ := hres
  simp only [itemFn, specIds, namedOf, Kind.group, elemId_eq, srcTexts_eq]
  have hsm := all_some_of_ok hall
  have hall := all_mem_of_ok hall
  have hnd : (textsOf (base.find "element_source") "itemID").Nodup := of_decide_eq_true hnd
  obtain ⟨c1, c2⟩ := move_conds hsm htgt hts
  exact moveMany_eff g _ _ c1 hall hsm hnd c2

theorem item_movemultiple (hsh : (base.findall "itemID").isEmpty = false)
    (hres : resolves .ItemMoveMultiple (namedOf .ItemMoveMultiple base) (keysOf "item" items) = true) :
    Eff "item" items (itemFn .ItemMoveMultiple base items)
      (specIds .ItemMoveMultiple "item" (namedOf .ItemMoveMultiple base) (keysOf "item" items)) := by
  simp only [resolves, namedOf, Kind.group, Bool.and_eq_true] at hres
  obtain ⟨⟨⟨⟨htgt, hall⟩, hnd⟩, hts⟩, _⟩ := hres
  have hnd : ((textsOf (some base) "itemID").dropLast).Nodup := of_decide_eq_true hnd
  simp only [itemFn, specIds, namedOf, Kind.group, idTexts_eq]
  have hne : textsOf (some base) "itemID" ≠ [] := by
    intro h
    simp only [textsOf, List.map_eq_nil_iff] at h
    rw [h] at hsh; cases hsh
  cases hl : (textsOf (some base) "itemID").getLast? with
  | none => exact absurd (List.getLast?_eq_none_iff.mp hl) hne
  | some t =>
    rw [hl] at htgt hts
    simp only at htgt hts ⊢
    have hsm := all_some_of_ok hall
    have hall := all_mem_of_ok hall
    obtain ⟨c1, c2⟩ := move_conds hsm htgt hts
    exact moveMany_eff g _ _ c1 hall hsm hnd c2

end

/-- every item-level merge refines the protocol on the item-ID sequence of the addressed story -/
theorem item_core (k : Kind) (base : Xml) (items : List Xml) (g : Good "item" items)
    (hk : k.isItemLevel = true)
    (hmm : k = .ItemMoveMultiple → (base.findall "itemID").isEmpty = false)
    (hres : resolves k (namedOf k base) (keysOf "item" items) = true) :
    Eff "item" items (itemFn k base items)
      (specIds k "item" (namedOf k base) (keysOf "item" items)) := by
  cases k <;> first | (exact absurd hk (by decide)) | skip
  case ItemDelete => exact item_delete base items g
  case ItemInsert => exact item_insert base items g hres
  case ItemMoveMultiple => exact item_movemultiple base items g (hmm rfl) hres
  case ItemReplace => exact item_replace base items g hres
  case EAItemReplace => exact item_eareplace base items g hres
  case EAItemDelete => exact item_eadelete base items g
  case EAItemInsert => exact item_eainsert base items g hres
  case EAItemSwap => exact item_swap base items g hres
  case EAItemMove => exact item_eamove base items g hres

/-! ### the model's item-level wrapper -/

theorem inStoryAt_eq (cs : List Xml) (j : Nat) (s : Xml) (f : List Xml → Out) (hs : cs[j]? = some s) :
    inStoryAt cs j f = ⟨cs.set j (s.withKids (f s.kids).kids), (f s.kids).warns, (f s.kids).err⟩ := by
  unfold inStoryAt; simp only [hs]

theorem inStory_eq (mid : Option PyExc) (cs : List Xml) (sid : Key) (j : Nat) (s : Xml) (f : List Xml → Out) (ha : addressed cs sid = some j) (hs : cs[j]? = some s) :
    inStory mid cs sid f = ⟨cs.set j (s.withKids (f s.kids).kids), (f s.kids).warns, (f s.kids).err⟩ := by
  unfold inStory
  rw [findRequired_ok "story" mid cs sid, ← addressed_eq_locate, ha]
  exact inStoryAt_eq cs j s f hs

/-- an item-level merge edits the children of the addressed story by `itemFn` -/
theorem mergeRc_item (k : Kind) (rc base : Xml) (j : Nat) (s : Xml) (hk : k.isItemLevel = true)
    (ha : addressed rc.kids (namedOf k base).story = some j) (hs : rc.kids[j]? = some s) :
    mergeRc k rc base none =
      ⟨rc.kids.set j (s.withKids (itemFn k base s.kids).kids), (itemFn k base s.kids).warns,
       (itemFn k base s.kids).err⟩ := by
  cases k <;> first | (exact absurd hk (by decide)) | skip
  case ItemDelete =>
    simp only [namedOf] at ha
    simp only [mergeRc, elemId_eq]; rw [inStory_eq none _ _ j s _ ha hs]; rfl
  case ItemInsert =>
    simp only [namedOf] at ha
    simp only [mergeRc, elemId_eq]; rw [inStory_eq none _ _ j s _ ha hs]; rfl
  case ItemMoveMultiple =>
    simp only [namedOf] at ha
    simp only [mergeRc, elemId_eq]
    cases hsid : Xml.childText (some base) "storyID" with
    | none => rw [hsid] at ha; cases ha
    | some sid =>
      rw [hsid] at ha
      simp only
      rw [inStory_eq none _ _ j s _ ha hs]; rfl
  case ItemReplace =>
    simp only [namedOf] at ha
    simp only [mergeRc, elemId_eq]; rw [inStory_eq none _ _ j s _ ha hs]; rfl
  case EAItemReplace =>
    simp only [namedOf] at ha
    simp only [mergeRc, elemId_eq]; rw [inStory_eq none _ _ j s _ ha hs]; rfl
  case EAItemDelete =>
    simp only [namedOf] at ha
    simp only [mergeRc, elemId_eq]
    rw [findChildId_ok "story" rc.kids _, ← addressed_eq_locate, ha]
    simp only
    rw [inStoryAt_eq _ j s _ hs]; rfl
  case EAItemInsert =>
    simp only [namedOf] at ha
    simp only [mergeRc, elemId_eq]; rw [inStory_eq none _ _ j s _ ha hs]; rfl
  case EAItemSwap =>
    simp only [namedOf] at ha
    simp only [mergeRc, elemId_eq]; rw [inStory_eq none _ _ j s _ ha hs]; rfl
  case EAItemMove =>
    simp only [namedOf] at ha
    simp only [mergeRc, elemId_eq]; rw [inStory_eq none _ _ j s _ ha hs]; rfl

/-! ### the addressed story stays addressable -/

theorem find_o?_nk {α : Type} (kt : α → Option Key) (p : α → Bool)
    (hp : ∀ x, p x = true → (kt x).isNone = true) (cs : List α) :
    (nk kt cs).find? p = cs.find? p := by
  induction cs with
  | nil => rfl
  | cons c cs ih =>
    unfold nk at *
    by_cases hc : p c = true
    · simp [List.filter_cons, hp c hc, List.find?_cons, hc]
    · by_cases hk : (kt c).isNone = true
      · simp [List.filter_cons, hk, List.find?_cons, hc, ih]
      · simp [List.filter_cons, hk, List.find?_cons, hc, ih]

theorem keyOf_story_withKids_o (s : Xml) (items' : List Xml)
    (h : nk (kt "item") items' = nk (kt "item") s.kids) :
    keyOf "story" (s.withKids items') = keyOf "story" s := by
  have hp : ∀ x : Xml, (x.tag == "storyID") = true → (kt "item" x).isNone = true := by
    intro x hx
    have : x.tag = "storyID" := by simpa using hx
    simp [kt, this]
  have e : items'.find? (fun c => c.tag == "storyID") = s.kids.find? (fun c => c.tag == "storyID") := by
    rw [← find_o?_nk (kt "item") _ hp items', ← find_o?_nk (kt "item") _ hp s.kids, h]
  simp only [keyOf_story, Xml.childText, Option.bind_some, Xml.find, Xml.withKids_kids, e]

theorem addressed_set (cs : List Xml) (sid : Key) (j : Nat) (s x : Xml)
    (ha : addressed cs sid = some j) (hs : cs[j]? = some s) (htag : x.tag = s.tag)
    (hkey : keyOf "story" x = keyOf "story" s) : addressed (cs.set j x) sid = some j := by
  cases sid with
  | none => cases ha
  | some k =>
    simp only [addressed] at ha ⊢
    rw [List.findIdx?_eq_some_iff_getElem] at ha ⊢
    obtain ⟨hlt, hp, hbefore⟩ := ha
    obtain ⟨_, rfl⟩ := List.getElem?_eq_some_iff.mp hs
    refine ⟨by simpa using hlt, ?_, ?_⟩
    · simp only [List.getElem_set_self, htag, hkey]; exact hp
    · intro i hi
      rw [List.getElem_set_ne (by omega)]
      exact hbefore i hi

end Mrm
