/-
  Mrm/Proofs/ElementsP.lean — C20 targets.
-/
import Mrm.Spec.Elements
import Mrm.Proofs.Send

namespace Mrm

theorem bind_id_endIfBlank (x : Key) : (endIfBlank x).bind id = x := by
  cases x <;> rfl

theorem childText_none (t : String) : Xml.childText none t = none := rfl
theorem elemId_eq (x : Option Xml) (t : String) : elemId x t = Xml.childText x t := rfl
theorem keyOf_story (a : Xml) : keyOf "story" a = Xml.childText (some a) "storyID" := rfl
theorem keyOf_item (a : Xml) : keyOf "item" a = Xml.childText (some a) "itemID" := rfl
theorem idTexts_eq (base : Xml) (t : String) : idTexts base t = textsOf (some base) t := rfl
theorem eaSourceIds_eq (base : Xml) (t : String) : eaSourceIds base t = allSourceIds base t := rfl
/-- the accessors never raise on a shaped message, and expose exactly the named IDs -/
theorem exposed_spec (k : Kind) (m base : Xml) (hs : shaped k m = true) (hb : m.find k.baseTag = some base) :
    ∃ ex, exposed k base = .ok ex ∧ holdsC20 k base ex = true := by
  obtain ⟨_, hsb⟩ := shaped_unpack_w hs hb
  cases k
  case StorySend =>
    obtain ⟨st, hc⟩ := convertSpec_isSome base hsb
    obtain ⟨_, hk⟩ := convertSpec_key base st hsb hc
    refine ⟨[("story", .one (elemId (some st) "storyID"))], ?_, ?_⟩
    · simp only [exposed, convertStorySend_eq, hc]
    · have e : elemId (some st) "storyID" = Xml.childText (some base) "storyID" := hk
      simp [holdsC20, Kind.isItemLevel, flatTarget, namedOf, Exp.reported, e]
  case StoryMove =>
    refine ⟨_, rfl, ?_⟩
    simp only [holdsC20, namedOf, idTexts_eq, flatTarget]
    generalize textsOf (some base) "storyID" = l
    rcases l with _ | ⟨s, _ | ⟨t, r⟩⟩
    · simp [Exp.reported]
    · simp [Exp.reported]
    · cases t <;> simp [Exp.reported, endIfBlank]
  case ItemMoveMultiple =>
    have hne : (idTexts base "itemID").getLast? ≠ none := by
      simp only [shapedBase] at hsb
      simp only [idTexts, ne_eq, List.getLast?_eq_none_iff, List.map_eq_nil_iff]
      intro h; rw [h] at hsb; simp at hsb
    cases hl : (idTexts base "itemID").getLast? with
    | none => exact absurd hl hne
    | some t =>
      refine ⟨_, by simp only [exposed, hl]; rfl, ?_⟩
      have hl' : (textsOf (some base) "itemID").getLast? = some t := hl
      cases t <;>
      simp [holdsC20, specMany, Kind.group, namedOf, Kind.isItemLevel, flatTarget, Exp.reported, elemId_eq,
        idTexts_eq, hl', endIfBlank]
  all_goals
    refine ⟨_, rfl, ?_⟩
    cases hsrc : base.find "element_source" <;> cases htgt : base.find "element_target" <;>
    simp [holdsC20, specMany, Kind.group, namedOf, levelTag, Kind.isStoryLevel, Kind.isItemLevel, flatTarget,
      Exp.reported, bind_id_endIfBlank, elemId_eq, keyOf_story, keyOf_item,
      idTexts_eq, eaSourceIds_eq, hsrc, htgt, elemsOf, textsOf, childText_none]

/-- `inspect()` never raises on a shaped message (of a mergeable class) -/
theorem inspect_total (k : Kind) (m : Xml) (hs : shapedInspect k m = true) :
    ∃ ls, inspectLines k m = .ok ls := by
  by_cases hkro : k = .RunningOrder
  · subst hkro
    have hs' : ((m.find "roCreate").bind (·.find "roSlug")).isSome = true := hs
    cases hb : m.find "roCreate" with
    | none => simp [hb] at hs'
    | some base =>
      simp only [hb, Option.bind_some] at hs'
      obtain ⟨slug, hslug⟩ := Option.isSome_iff_exists.mp hs'
      have hb' : m.find Kind.RunningOrder.baseTag = some base := hb
      unfold inspectLines
      simp only [hb', hslug]
      exact ⟨_, rfl⟩
  have hs : (shaped k m &&
      (k != .RunningOrderEnd || ((m.find "roDelete").bind (·.find "roID")).isSome)) = true := by
    unfold shapedInspect at hs
    rw [if_neg (by simpa using hkro)] at hs
    exact hs
  simp only [Bool.and_eq_true] at hs
  obtain ⟨hsh, hro⟩ := hs
  obtain ⟨base, hb⟩ : ∃ base, m.find k.baseTag = some base := by
    cases hb : m.find k.baseTag with
    | none => simp [shaped, hb] at hsh
    | some base => exact ⟨base, rfl⟩
  obtain ⟨_, hsb⟩ := shaped_unpack_w hsh hb
  unfold inspectLines
  rw [hb]
  cases k
  case RunningOrder => exact absurd hsb (by simp [shapedBase])
  case StorySend =>
    obtain ⟨st, hc⟩ := convertSpec_isSome base hsb
    simp only [convertStorySend_eq, hc]
    exact ⟨_, rfl⟩
  case RunningOrderEnd =>
    have hb' : m.find "roDelete" = some base := hb
    simp only [hb', bne_self_eq_false, Bool.false_or, Option.bind_some] at hro
    obtain ⟨r, hr⟩ := Option.isSome_iff_exists.mp hro
    simp only [hr]
    exact ⟨_, rfl⟩
  case EAStorySwap =>
    have hl := swap_len _ _ hsb
    simp only
    generalize ((base.find "element_source").map (idTexts · "storyID")).getD [] = l at hl ⊢
    match l, hl with
    | [a, c], _ => exact ⟨_, rfl⟩
  case EAItemSwap =>
    have hl := swap_len _ _ hsb
    simp only
    generalize ((base.find "element_source").map (idTexts · "itemID")).getD [] = l at hl ⊢
    match l, hl with
    | [a, c], _ => exact ⟨_, rfl⟩
  all_goals exact ⟨_, rfl⟩

set_option linter.unusedSimpArgs false in
/-- `inspect()` mentions every source / carried ID it names: some printed line has it as its value
    (for the REPLACE headers the value is followed by " WITH:", those name the target, not a source) -/
theorem inspect_mentions (k : Kind) (m base : Xml) (ls : List Line) (hb : m.find k.baseTag = some base)
    (hk : k ≠ .StorySend) (h : inspectLines k m = .ok ls) :
    ∀ x ∈ mentionIds k base, ∃ l ∈ ls, l.2 = pyStr x := by
  unfold inspectLines at h
  rw [hb] at h
  intro x hx
  unfold mentionIds at hx
  cases k
  case StorySend => exact absurd rfl hk
  case RunningOrder =>
    simp only [beq_self_eq_true, if_true, List.mem_map] at hx
    obtain ⟨s, hs, rfl⟩ := hx
    simp only at h
    split at h
    · cases h
    · cases h
      refine ⟨("STORY: ", pyStr (keyOf "story" s)), ?_, rfl⟩
      apply List.mem_cons_of_mem
      simp only [List.mem_map]
      exact ⟨keyOf "story" s, ⟨s, hs, rfl⟩, rfl⟩
  all_goals (try rw [if_neg (by decide)] at hx)
  case MetaDataReplace => simp [namedOf] at hx
  case ReadyToAir => simp [namedOf] at hx
  case RunningOrderReplace => simp [namedOf] at hx
  case RunningOrderEnd => simp [namedOf] at hx
  case StoryMove =>
    cases h
    simp only [namedOf, idTexts_eq] at hx ⊢
    generalize textsOf (some base) "storyID" = l at hx
    rcases l with _ | ⟨s, r⟩
    · simp at hx
    · have : x = s := by simpa using hx
      subst this
      exact ⟨_, List.mem_singleton_self _, rfl⟩
  case EAStorySwap =>
    simp only [namedOf] at hx
    cases hsrc : base.find "element_source" with
    | none => simp only [hsrc] at h; cases h
    | some src =>
      simp only [hsrc, Option.map_some, Option.getD_some, idTexts_eq] at h hx
      generalize textsOf (some src) "storyID" = l at h hx
      match l, h with
      | [a, c], h =>
        cases h
        have : x = a ∨ x = c := by simpa using hx
        rcases this with e | e <;> subst e
        · exact ⟨_, List.mem_cons_self, rfl⟩
        · exact ⟨_, List.mem_cons_of_mem _ List.mem_cons_self, rfl⟩
  case EAItemSwap =>
    simp only [namedOf] at hx
    cases hsrc : base.find "element_source" with
    | none => simp only [hsrc] at h; cases h
    | some src =>
      simp only [hsrc, Option.map_some, Option.getD_some, idTexts_eq] at h hx
      generalize textsOf (some src) "itemID" = l at h hx
      match l, h with
      | [a, c], h =>
        cases h
        have : x = a ∨ x = c := by simpa using hx
        rcases this with e | e <;> subst e
        · exact ⟨_, List.mem_cons_of_mem _ List.mem_cons_self, rfl⟩
        · exact ⟨_, List.mem_cons_of_mem _ (List.mem_cons_of_mem _ List.mem_cons_self), rfl⟩
  all_goals
    simp only [namedOf] at hx
    cases hsrc : base.find "element_source" <;> cases htgt : base.find "element_target" <;>
    (try simp only [hsrc, htgt] at h) <;> (try simp only [hsrc] at hx) <;> cases h <;>
    rcases List.mem_append.mp hx with hx' | hx' <;>
    first
    | (exact ⟨_, by
          first
          | exact List.mem_map_of_mem hx'
          | exact List.mem_cons_of_mem _ (List.mem_map_of_mem hx')
          | exact List.mem_cons_of_mem _ (List.mem_cons_of_mem _ (List.mem_map_of_mem hx')), rfl⟩)
    | (exact absurd hx' (by simp [elemsOf, textsOf]))

end Mrm
