/-
  Mrm/Proofs/HistMeta.lean — `rcOk` through roMetadataReplace and roStorySend's conversion.
-/
import Mrm.Proofs.HistOk

namespace Mrm

theorem findIdx_split {p : Xml → Bool} {cs : List Xml} {i : Nat} (h : cs.findIdx? p = some i) :
    ∃ a x b, cs = a ++ x :: b ∧ a.length = i ∧ p x = true ∧ ∀ y ∈ a, p y = false := by
  rw [List.findIdx?_eq_some_iff_getElem] at h
  obtain ⟨hlt, hp, hbefore⟩ := h
  obtain ⟨a, x, b, hk, hal, hx⟩ := exists_split cs i hlt
  refine ⟨a, x, b, hk, hal, by rw [← hx]; exact hp, ?_⟩
  intro y hy
  obtain ⟨j, hj, rfl⟩ := List.mem_iff_getElem.mp hy
  have := hbefore j (by omega)
  simp only [hk, List.getElem_append_left hj] at this
  simpa using this

/-! ### roMetadataReplace -/

/-- a carried metadata child keeps the invariant -/
def mdOk (s : Xml) : Prop :=
  (s.tag = "story" → storyOk s = true) ∧
  (s.tag = "roEdStart" → ∀ t, s.text = some t → (parseTime t).isSome = true)

theorem rcOk_mdStep (cs : List Xml) (s : Xml) (h : rcOk cs = true) (hs : mdOk s) :
    rcOk (match mdTarget cs s with
      | none => pyInsert cs cs.length s
      | some i => pyInsert (cs.eraseIdx i) i s) = true := by
  rw [rcOk_iff] at h ⊢
  constructor
  · intro c hc hct
    have : c ∈ cs ∨ c = s := by
      split at hc
      · simp only [pyInsert, List.mem_append, List.mem_cons] at hc
        rcases hc with hc | hc | hc
        · exact Or.inl (List.mem_of_mem_take hc)
        · exact Or.inr hc
        · exact Or.inl (List.mem_of_mem_drop hc)
      · simp only [pyInsert, List.mem_append, List.mem_cons] at hc
        rcases hc with hc | hc | hc
        · exact Or.inl (List.mem_of_mem_eraseIdx (List.mem_of_mem_take hc))
        · exact Or.inr hc
        · exact Or.inl (List.mem_of_mem_eraseIdx (List.mem_of_mem_drop hc))
    rcases this with h' | rfl
    · exact h.1 c h' hct
    · exact hs.1 hct
  · by_cases hst : s.tag = "roEdStart"
    · -- the carried roEdStart becomes the first one
      have hfind : (match mdTarget cs s with
          | none => pyInsert cs cs.length s
          | some i => pyInsert (cs.eraseIdx i) i s).find? (fun c => c.tag == "roEdStart") = some s := by
        have hmd : mdTarget cs s = cs.findIdx? (fun c => c.tag == "roEdStart") := by
          unfold mdTarget findChildAny
          have : ("roEdStart" == "mosExternalMetadata") = false := by decide
          simp only [hst, this, Bool.false_eq_true, if_false]
        rw [hmd]
        cases hi : cs.findIdx? (fun c => c.tag == "roEdStart") with
        | none =>
          simp only
          rw [List.findIdx?_eq_none_iff] at hi
          have hnone : cs.find? (fun c => c.tag == "roEdStart") = none := by
            rw [List.find?_eq_none]; intro x hx; simp [hi x hx]
          simp [pyInsert, List.find?_append, hnone, hst]
        | some i =>
          simp only
          obtain ⟨a, x, b, rfl, rfl, _, ha⟩ := findIdx_split hi
          have hnone : a.find? (fun c => c.tag == "roEdStart") = none := by
            rw [List.find?_eq_none]; intro y hy; simp [ha y hy]
          rw [List.eraseIdx_append_of_length_le (Nat.le_refl _)]
          simp [pyInsert, List.find?_append, hnone, hst]
      intro e t he hte
      rw [hfind] at he
      cases he
      exact hs.2 hst t hte
    · apply startOk_congr _ h.2
      apply find_of_filter_ne (tag := s.tag) (fun hh => hst hh.symm)
      split
      · exact filter_pyInsert_of_false _ cs _ s (by simp)
      · rename_i i hi
        rw [filter_pyInsert_of_false _ _ _ s (by simp)]
        apply filter_eraseIdx_of_false
        intro hlt
        obtain ⟨_, hk⟩ := mdTarget_some hi
        simp only [sameMdKey, Bool.and_eq_true, beq_iff_eq] at hk
        simp [hk.1]

theorem rcOk_metadataLoop (cs ss : List Xml) (h : rcOk cs = true) (hs : ∀ s ∈ ss, mdOk s) :
    rcOk (metadataLoop cs ss) = true := by
  induction ss generalizing cs with
  | nil => simpa [metadataLoop] using h
  | cons s ss ih =>
    have step := rcOk_mdStep cs s h (hs s List.mem_cons_self)
    have hs' : ∀ s ∈ ss, mdOk s := fun x hx => hs x (List.mem_cons_of_mem _ hx)
    unfold metadataLoop
    split
    · rename_i hm
      rw [hm] at step
      exact ih _ step hs'
    · rename_i i hm
      rw [hm] at step
      exact ih _ step hs'

/-! ### roStorySend: the converted story is `storyOk` -/

/-- the retagging of the storyBody children -/
abbrev retag (c : Xml) : Xml := if c.tag == "storyItem" then c.withTag "item" else c

theorem convertStorySend_kids {base story body : Xml} (hb : base.find "storyBody" = some body)
    (h : convertStorySend base = .ok story) :
    ∃ a c, base.kids = a ++ body :: c ∧ story.kids = a ++ body.kids.map retag ++ c := by
  unfold convertStorySend findChildAny at h
  split at h
  · cases h
  · rename_i i hi
    obtain ⟨a, x, c, hk, hal, hx, ha⟩ := findIdx_split hi
    have hbody : x = body := by
      have : base.find "storyBody" = some x := by
        unfold Xml.find
        rw [hk, List.find?_append]
        have : a.find? (fun c => c.tag == "storyBody") = none := by
          rw [List.find?_eq_none]; intro y hy; simp [ha y hy]
        simp [this, hx]
      rw [hb] at this; cases this; rfl
    subst hbody
    have hget : base.kids[i]? = some x := by
      rw [hk, ← hal]; simp
    rw [hget] at h
    simp only [Except.ok.injEq] at h
    refine ⟨a, c, hk, ?_⟩
    rw [← h]
    simp only [Xml.withKids_kids]
    rw [hk, ← hal, insertMany_split, ← List.length_append,
      List.eraseIdx_append_of_length_le (Nat.le_refl _)]
    simp [retag]

theorem storyOk_converted {base story body : Xml} (hb : base.find "storyBody" = some body)
    (h : convertStorySend base = .ok story)
    (hid : (base.find "storyID").isSome = true)
    (hbody : ∀ c ∈ body.kids, (c.tag = "storyItem" ∨ c.tag = "item") → (c.find "itemID").isSome = true)
    (hitems : ∀ c ∈ base.kids, c.tag = "item" → (c.find "itemID").isSome = true)
    (hdur : ∃ r, storyDuration base = .ok r)
    (hmd : body.find "mosExternalMetadata" = none) : storyOk story = true := by
  obtain ⟨a, c, hk, hsk⟩ := convertStorySend_kids hb h
  have hbt : body.tag = "storyBody" := by
    unfold Xml.find at hb
    have := List.find?_some hb
    simpa using this
  unfold storyOk
  simp only [Bool.and_eq_true]
  refine ⟨⟨?_, ?_⟩, ?_⟩
  · -- the storyID is a direct child outside the body
    unfold Xml.find at hid ⊢
    rw [List.find?_isSome] at hid ⊢
    obtain ⟨x, hx, hp⟩ := hid
    rw [hk] at hx
    rw [hsk]
    simp only [List.mem_append, List.mem_cons] at hx
    rcases hx with hx | rfl | hx
    · exact ⟨x, by simp [hx], hp⟩
    · rw [hbt] at hp; exact absurd hp (by decide)
    · exact ⟨x, by simp [hx], hp⟩
  · unfold WfKids
    rw [List.all_eq_true, hsk]
    intro x hx
    simp only [Bool.or_eq_true, bne_iff_ne, ne_eq]
    simp only [List.mem_append, List.mem_map] at hx
    by_cases hxt : x.tag = "item"
    · right
      rcases hx with (hx | ⟨y, hy, rfl⟩) | hx
      · exact hitems x (by rw [hk]; simp [hx]) hxt
      · unfold retag at hxt ⊢
        split
        · rename_i hyt
          exact hbody y hy (Or.inl (by simpa using hyt))
        · rename_i hyt
          simp only [hyt, Bool.false_eq_true, if_false] at hxt
          exact hbody y hy (Or.inr hxt)
      · exact hitems x (by rw [hk]; simp [hx]) hxt
    · left; exact hxt
  · have hfind : story.find "mosExternalMetadata" = base.find "mosExternalMetadata" := by
      unfold Xml.find
      rw [hk, hsk]
      have hch : (body.kids.map retag).find? (fun c => c.tag == "mosExternalMetadata") = none := by
        rw [List.find?_eq_none]
        intro y hy
        rw [List.mem_map] at hy
        obtain ⟨z, hz, rfl⟩ := hy
        unfold Xml.find at hmd
        rw [List.find?_eq_none] at hmd
        unfold retag
        split
        · simp
        · exact hmd z hz
      have hne : ("storyBody" == "mosExternalMetadata") = false := by decide
      simp only [List.find?_append, hch, List.find?_cons, hbt, hne, Option.or_none]
    obtain ⟨r, hr⟩ := hdur
    rw [storyDuration_congr hfind, hr]

end Mrm
