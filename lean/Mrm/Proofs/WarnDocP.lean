/-
  Mrm/Proofs/WarnDocP.lean — every warning a merge produces is one of the documented categories
  (`Warn.other` only decodes what an implementation emitted; the model never produces it).
-/
import Mrm.Model.Merge

namespace Mrm

/-- a list of warnings of documented categories only -/
def DocW (ws : List Warn) : Prop := ∀ w ∈ ws, w ≠ Warn.other

theorem docW_nil : DocW [] := by intro w hw; cases hw

theorem docW_append {a b : List Warn} (ha : DocW a) (hb : DocW b) : DocW (a ++ b) := by
  intro w hw
  rcases List.mem_append.mp hw with h | h
  · exact ha w h
  · exact hb w h

theorem docW_single {w : Warn} (h : w ≠ .other) : DocW [w] := by
  intro x hx
  rw [List.mem_singleton] at hx
  subst hx; exact h

theorem docW_failWith (cs : List Xml) (ws : List Warn) (e : Err) (h : DocW ws) :
    DocW (failWith cs ws e).warns := h

theorem docW_deleteLoop (tag : String) (w : Warn) (mid : Option PyExc) (cs : List Xml)
    (ids : List (Option String)) (ws : List Warn) (hw : w ≠ .other) (h : DocW ws) :
    DocW (deleteLoop tag w mid cs ids ws).warns := by
  induction ids generalizing cs ws with
  | nil => exact h
  | cons id ids ih =>
    unfold deleteLoop
    split
    · exact h
    · exact ih _ _ h
    · split
      · exact h
      · exact ih _ _ (docW_append h (docW_single hw))

theorem docW_insertDedup (mid : Option PyExc) (ex : List (Option String)) (cs : List Xml) (i : Nat)
    (ss : List Xml) (ws : List Warn) (h : DocW ws) : DocW (insertDedup mid ex cs i ss ws).warns := by
  induction ss generalizing cs i ws with
  | nil => exact h
  | cons s ss ih =>
    unfold insertDedup
    split
    · split
      · exact h
      · exact ih _ _ _ (docW_append h (docW_single (by decide)))
    · exact ih _ _ _ h

theorem docW_moveMany (tag : String) (mid : Option PyExc) (cs : List Xml) (t : Option String)
    (ss : List (Option String)) : DocW (moveMany tag mid cs t ss).warns := by
  unfold moveMany
  split
  · exact docW_nil
  · split <;> exact docW_nil

theorem docW_swapTwo (tag : String) (mid : Option PyExc) (cs : List Xml)
    (ids : List (Option String)) : DocW (swapTwo tag mid cs ids).warns := by
  unfold swapTwo
  split
  · exact docW_nil
  · split
    · exact docW_nil
    · split <;> exact docW_nil

theorem docW_insertBefore (tag : String) (mid : Option PyExc) (cs : List Xml) (t : Option String)
    (xs : List Xml) : DocW (insertBefore tag mid cs t xs).warns := by
  unfold insertBefore
  split <;> exact docW_nil

theorem docW_inStoryAt (cs : List Xml) (k : Nat) (f : List Xml → Out)
    (hf : ∀ items, DocW (f items).warns) : DocW (inStoryAt cs k f).warns := by
  unfold inStoryAt
  split
  · exact docW_nil
  · exact hf _

theorem docW_inStory (mid : Option PyExc) (cs : List Xml) (sid : Option String) (f : List Xml → Out)
    (hf : ∀ items, DocW (f items).warns) : DocW (inStory mid cs sid f).warns := by
  unfold inStory
  split
  · exact docW_nil
  · exact docW_inStoryAt cs _ f hf

/-- every merge on the `roCreate` children warns in documented categories only -/
theorem docW_mergeRc (k : Kind) (rc base : Xml) (mid : Option PyExc) :
    DocW (mergeRc k rc base mid).warns := by
  cases k <;> simp only [mergeRc]
  case StorySend =>
    split
    · exact docW_nil
    · split
      · exact docW_nil
      · split
        · exact docW_nil
        · first | exact docW_nil | exact docW_single (by decide)
      · exact docW_nil
  case MetaDataReplace => exact docW_nil
  case StoryAppend => exact docW_nil
  case StoryDelete => exact docW_deleteLoop _ _ _ _ _ _ (by decide) docW_nil
  case ItemDelete =>
    exact docW_inStory _ _ _ _ (fun items => docW_deleteLoop _ _ _ _ _ _ (by decide) docW_nil)
  case StoryInsert =>
    split
    · exact docW_nil
    · exact docW_insertDedup _ _ _ _ _ _ docW_nil
  case ItemInsert => exact docW_inStory _ _ _ _ (fun items => docW_insertBefore _ _ _ _ _)
  case StoryMove =>
    split
    · exact docW_nil
    · split
      · exact docW_nil
      · split
        · exact docW_nil
        · split <;> exact docW_nil
  case ItemMoveMultiple =>
    split
    · exact docW_nil
    · apply docW_inStory
      intro items
      split
      · exact docW_nil
      · exact docW_moveMany _ _ _ _ _
  case StoryReplace =>
    split
    · exact docW_nil
    · split <;> exact docW_nil
  case ItemReplace =>
    apply docW_inStory
    intro items
    split <;> exact docW_nil
  case ReadyToAir => exact docW_nil
  case EAStoryReplace => split <;> exact docW_nil
  case EAItemReplace =>
    apply docW_inStory
    intro items
    split <;> exact docW_nil
  case EAStoryDelete => exact docW_deleteLoop _ _ _ _ _ _ (by decide) docW_nil
  case EAItemDelete =>
    split
    · exact docW_nil
    · split
      · exact docW_nil
      · first | exact docW_nil | exact docW_single (by decide)
    · exact docW_inStoryAt _ _ _ (fun items => docW_deleteLoop _ _ _ _ _ _ (by decide) docW_nil)
  case EAStoryInsert =>
    split
    · exact docW_nil
    · exact docW_insertDedup _ _ _ _ _ _ docW_nil
  case EAItemInsert => exact docW_inStory _ _ _ _ (fun items => docW_insertBefore _ _ _ _ _)
  case EAStorySwap => exact docW_swapTwo _ _ _ _
  case EAItemSwap => exact docW_inStory _ _ _ _ (fun items => docW_swapTwo _ _ _ _)
  case EAStoryMove => exact docW_moveMany _ _ _ _ _
  case EAItemMove => exact docW_inStory _ _ _ _ (fun items => docW_moveMany _ _ _ _ _)
  case RunningOrder => exact docW_nil
  case RunningOrderReplace => exact docW_nil
  case RunningOrderEnd => exact docW_nil

theorem docW_merge (k : Kind) (ro m : Xml) : DocW (merge k ro m).warns := by
  unfold merge
  split
  · exact docW_nil
  · cases k <;> simp only
    case RunningOrder => exact docW_nil
    case RunningOrderEnd => exact docW_nil
    case RunningOrderReplace => split <;> exact docW_nil
    all_goals
      split
      · exact docW_nil
      · split
        · exact docW_nil
        · exact docW_mergeRc _ _ _ _

theorem docW_addK (k : Kind) (ro m : Xml) : DocW (addK k ro m).warns := by
  unfold addK
  split
  · exact docW_nil
  · exact docW_merge k ro m

end Mrm
