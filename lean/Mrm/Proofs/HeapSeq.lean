/-
  Mrm/Proofs/HeapSeq.lean — labels of labelled trees under the list edits and under `upd`/`copy`.
-/
import Mrm.Model.Heap
import Mrm.Proofs.Ops
import Mrm.Proofs.FrameSeq

namespace Mrm

open LX

/-! ### `labelsL` and list structure -/

theorem labelsL_append (a b : List LX) : labelsL (a ++ b) = labelsL a ++ labelsL b := by
  induction a with
  | nil => simp [labelsL]
  | cons x a ih => simp [labelsL, ih]

theorem labelsL_perm {a b : List LX} (h : a.Perm b) : (labelsL a).Perm (labelsL b) := by
  induction h with
  | nil => exact List.Perm.refl _
  | cons x _ ih => simp only [labelsL]; exact List.Perm.append_left _ ih
  | swap x y l =>
    simp only [labelsL, ← List.append_assoc]
    exact List.Perm.append_right _ List.perm_append_comm
  | trans _ _ ih1 ih2 => exact ih1.trans ih2

theorem labelsL_sublist {a b : List LX} (h : a.Sublist b) : (labelsL a).Sublist (labelsL b) := by
  induction h with
  | slnil => exact List.Sublist.refl _
  | cons x _ ih => simp only [labelsL]; exact ih.trans (List.sublist_append_right _ _)
  | cons_cons x _ ih => simp only [labelsL]; exact List.Sublist.append_left ih _

theorem lxInsert_perm (ks : List LX) (i : Nat) (x : LX) : (lxInsert ks i x).Perm (x :: ks) := by
  unfold lxInsert
  have := @List.perm_middle _ x (ks.take i) (ks.drop i)
  rwa [List.take_append_drop] at this

theorem cons_eraseIdx_perm (ks : List LX) (i : Nat) (a : LX) (h : ks[i]? = some a) :
    (a :: ks.eraseIdx i).Perm ks := by
  obtain ⟨hi, ha⟩ := List.getElem?_eq_some_iff.mp h
  obtain ⟨p, x, q, hk, hl, hx⟩ := exists_split ks i hi
  rw [ha] at hx; subst hx
  rw [hk, ← hl, List.eraseIdx_append_of_length_le (Nat.le_refl _)]
  simp only [Nat.sub_self, List.eraseIdx_zero, List.tail_cons]
  exact List.perm_middle.symm

theorem lxMove_perm (ks : List LX) (i j : Nat) : (lxMove ks i j).Perm ks := by
  unfold lxMove
  split
  · rename_i a h
    exact (lxInsert_perm _ j a).trans (cons_eraseIdx_perm ks i a h)
  · exact List.Perm.refl _

theorem lxSwap_perm (ks : List LX) (i j : Nat) : (lxSwap ks i j).Perm ks := by
  have h : lxSwap ks i j = swapNodes ks i j := by
    unfold lxSwap swapNodes
    cases ks[i]? <;> cases ks[j]? <;> rfl
  rw [h]; exact swapNodes_perm ks i j

/-! ### frame -/

mutual
theorem upd_of_not_mem' (l : Nat) (f : List LX → List LX) (t : LX) (h : l ∉ t.labels) : t.upd l f = t := by
  match t with
  | .node l' tg a x tl ks =>
    simp only [LX.labels, List.mem_cons, not_or] at h
    have hk := updL_of_not_mem l f ks h.2
    simp only [LX.upd, hk]
    have : ¬ l' = l := fun e => h.1 e.symm
    simp [this]
theorem updL_of_not_mem (l : Nat) (f : List LX → List LX) (ts : List LX) (h : l ∉ labelsL ts) :
    updL l f ts = ts := by
  match ts with
  | [] => rfl
  | k :: ks =>
    simp only [labelsL, List.mem_append, not_or] at h
    simp only [updL, upd_of_not_mem' l f k h.1, updL_of_not_mem l f ks h.2]
end

/-! ### copies -/

mutual
theorem erase_copy' (n : Nat) (t : LX) : (t.copy n).1.erase = t.erase := by
  match t with
  | .node _ tg a x tl ks =>
    simp only [LX.copy, LX.erase, eraseL_copyL (n+1) ks]
theorem eraseL_copyL (n : Nat) (ts : List LX) : eraseL (copyL n ts).1 = eraseL ts := by
  match ts with
  | [] => rfl
  | k :: ks =>
    simp only [copyL, eraseL, erase_copy' n k, eraseL_copyL _ ks]
end

mutual
theorem copy_fresh' (n : Nat) (t : LX) :
    (∀ l ∈ (t.copy n).1.labels, n ≤ l ∧ l < (t.copy n).2) ∧ (t.copy n).1.labels.Nodup ∧
      n < (t.copy n).2 := by
  match t with
  | .node _ tg a x tl ks =>
    have ih := copyL_fresh (n+1) ks
    simp only [LX.copy, LX.labels]
    refine ⟨?_, ?_, by omega⟩
    · intro l hl
      simp only [List.mem_cons] at hl
      rcases hl with rfl | hl
      · exact ⟨Nat.le_refl _, by omega⟩
      · have := ih.1 l hl; omega
    · rw [List.nodup_cons]
      refine ⟨?_, ih.2.1⟩
      intro hmem
      have := ih.1 n hmem
      omega
theorem copyL_fresh (n : Nat) (ts : List LX) :
    (∀ l ∈ labelsL (copyL n ts).1, n ≤ l ∧ l < (copyL n ts).2) ∧ (labelsL (copyL n ts).1).Nodup ∧
      n ≤ (copyL n ts).2 := by
  match ts with
  | [] => simp [copyL, labelsL]
  | k :: ks =>
    have h1 := copy_fresh' n k
    have h2 := copyL_fresh (k.copy n).2 ks
    simp only [copyL, labelsL]
    refine ⟨?_, ?_, by omega⟩
    · intro l hl
      simp only [List.mem_append] at hl
      rcases hl with hl | hl
      · have := h1.1 l hl; omega
      · have := h2.1 l hl; omega
    · rw [List.nodup_append]
      refine ⟨h1.2.1, h2.2.1, ?_⟩
      intro x hx y hy hxy
      have := h1.1 x hx
      have := h2.1 y hy
      omega
end

end Mrm
