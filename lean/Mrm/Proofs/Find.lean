/-
  Mrm/Proofs/Find.lean — `find_child` on any child list: no exception, and the result is
  the first child with the tag whose ID text is the one asked for.
-/
import Mrm.Model.Merge
import Mrm.Spec.Merge

namespace Mrm

/-- the predicate `find_child(parent, tag, id=k)` searches for -/
def isChild (tag k : String) (c : Xml) : Bool := c.tag == tag && keyOf tag c == some k

theorem keyOf_eq (tag : String) (c e : Xml) (h : c.find (tag ++ "ID") = some e) : keyOf tag c = e.text := by
  simp [keyOf, Xml.childText, h]

theorem keyOf_none (tag : String) (c : Xml) (h : c.find (tag ++ "ID") = none) : keyOf tag c = none := by
  simp [keyOf, Xml.childText, h]

/-- `find_child` never raises: a child without its ID tag is skipped, which is what `isChild`
    (key = `some k`) says of it too -/
theorem findChildLoop_ok (tag k : String) (cs : List Xml) (n : Nat) :
    findChildLoop tag k cs n = .ok ((cs.findIdx? (isChild tag k)).map (· + n)) := by
  induction cs generalizing n with
  | nil => simp [findChildLoop]
  | cons c cs ih =>
    have ih' := ih (n+1)
    unfold findChildLoop
    by_cases ht : (c.tag == tag) = true
    · simp only [ht, if_true]
      cases he : c.find (tag ++ "ID") with
      | none =>
        have : isChild tag k c = false := by simp [isChild, keyOf_none tag c he]
        simp only [List.findIdx?_cons, this, ih']
        cases List.findIdx? (isChild tag k) cs <;> simp [Nat.add_assoc, Nat.add_comm 1 n]
      | some e =>
        simp only
        by_cases hk : e.text = some k
        · have : isChild tag k c = true := by simp [isChild, ht, keyOf_eq tag c e he, hk]
          simp [hk, List.findIdx?_cons, this]
        · have : isChild tag k c = false := by simp [isChild, keyOf_eq tag c e he, hk]
          simp only [List.findIdx?_cons, this]
          have hb : (e.text == some k) = false := by simpa using hk
          simp only [hb, ih']
          cases List.findIdx? (isChild tag k) cs <;> simp [Nat.add_assoc, Nat.add_comm 1 n]
    · have : isChild tag k c = false := by simp [isChild, ht]
      simp only [ht, List.findIdx?_cons, this, ih']
      cases List.findIdx? (isChild tag k) cs <;> simp [Nat.add_assoc, Nat.add_comm 1 n]

/-- the pure lookup the model reduces to -/
def locate (tag : String) (cs : List Xml) (id : Key) : Option Nat :=
  match id with
  | none => none
  | some k => cs.findIdx? (isChild tag k)

theorem findChildId_ok (tag : String) (cs : List Xml) (id : Key) :
    findChildId cs tag id = .ok (locate tag cs id) := by
  cases id with
  | none => rfl
  | some k =>
    simp only [findChildId, locate, findChildLoop_ok tag k cs 0]
    cases List.findIdx? (isChild tag k) cs <;> simp

theorem findRequired_ok (tag : String) (mid : Option PyExc) (cs : List Xml) (id : Key) :
    findRequired tag mid cs id =
      match locate tag cs id with
      | some i => .ok i
      | none => .error (raiseMerge mid) := by
  simp only [findRequired, findChildId_ok tag cs id]
  cases locate tag cs id <;> rfl

theorem findTarget_ok (tag : String) (mid : Option PyExc) (cs : List Xml) (id : Key) :
    findTarget tag mid cs id =
      match id with
      | none => .ok none
      | some k =>
        match locate tag cs (some k) with
        | some i => .ok (some i)
        | none => .error (raiseMerge mid) := by
  cases id with
  | none => rfl
  | some k =>
    simp only [findTarget, locate, findChildLoop_ok tag k cs 0]
    cases List.findIdx? (isChild tag k) cs <;> simp

/-- a successful lookup: the index is valid, the child has the tag and the key, nothing earlier has -/
theorem locate_some {tag : String} {cs : List Xml} {id : Key} {i : Nat} (h : locate tag cs id = some i) :
    ∃ k, id = some k ∧ ∃ hi : i < cs.length, isChild tag k cs[i] = true ∧
      ∀ j (hj : j < i), isChild tag k (cs[j]'(by omega)) = false := by
  cases id with
  | none => simp [locate] at h
  | some k =>
    simp only [locate] at h
    rw [List.findIdx?_eq_some_iff_getElem] at h
    obtain ⟨hi, hp, hlt⟩ := h
    refine ⟨k, rfl, hi, hp, ?_⟩
    intro j hj
    have := hlt j hj
    simpa using this

theorem locate_lt {tag : String} {cs : List Xml} {id : Key} {i : Nat} (h : locate tag cs id = some i) :
    i < cs.length := by
  obtain ⟨_, _, hi, _⟩ := locate_some h
  exact hi

/-- the spec's `addressed` is the same lookup -/
theorem addressed_eq_locate (cs : List Xml) (sid : Key) : addressed cs sid = locate "story" cs sid := by
  cases sid with
  | none => rfl
  | some k =>
    simp only [addressed, locate]
    congr 1

end Mrm
