/-
  Mrm/Proofs/Payload.lean — C04: the carried elements arrive as one contiguous block.
-/
import Mrm.Proofs.Container

namespace Mrm

theorem isInfixB_split (a xs b : List Xml) : isInfixB xs (a ++ xs ++ b) = true := by
  unfold isInfixB
  rw [List.any_eq_true]
  refine ⟨a.length, by simp; omega, ?_⟩
  simp

/-- `containerKids` on the child list of the `roCreate` -/
def cKids (k : Kind) (nm : Named) (cs : List Xml) : Option (List Xml) :=
  if k.isStoryLevel then some cs
  else match addressed cs nm.story with
    | none => none
    | some j => (cs[j]?).map (·.kids)

theorem containerKids_setRcKids (k : Kind) (nm : Named) (d rc : Xml) (cs : List Xml) (h : rcOf d = some rc) :
    containerKids k nm (setRcKids d cs) = cKids k nm cs := by
  simp only [containerKids, rcOf_setRcKids d rc cs h, cKids, Xml.withKids_kids]
  split
  · rfl
  · cases addressed cs nm.story <;> rfl

theorem cKids_story (k : Kind) (nm : Named) (cs : List Xml) (hk : k.isStoryLevel = true) :
    cKids k nm cs = some cs := by
  simp [cKids, hk]

theorem cKids_item_split (k : Kind) (nm : Named) (a b : List Xml) (x : Xml) (key : String)
    (hk : k.isStoryLevel = false) (hst : nm.story = some key)
    (hx : isChild "story" key x = true) (ha : ∀ c ∈ a, isChild "story" key c = false) :
    cKids k nm (a ++ x :: b) = some x.kids := by
  simp only [cKids, hk, Bool.false_eq_true, if_false, hst, addressed_eq_locate, locate_of_split hx ha]
  simp

/-- the carried elements an insert keeps -/
def keptOf (k : Kind) (nm : Named) (ids : List Key) : List Xml :=
  if k.dedups then nm.carried.filter (fun c => !ids.contains (keyOf "story" c)) else nm.carried

/-- the group-specific part of `holdsC04`, on child lists -/
def GrpPay (k : Kind) (nm : Named) (cs cs' : List Xml) : Prop :=
  match k.group with
  | .append | .insert | .replace =>
    ∃ ids a b, cIds k nm cs = some ids ∧ cKids k nm cs' = some (a ++ keptOf k nm ids ++ b)
  | _ => True

def Kind.isGrpKind (k : Kind) : Bool :=
  match k with
  | .StorySend | .RunningOrderReplace | .MetaDataReplace => false
  | _ => true

theorem holdsC04_group (d m : Xml) (k : Kind) (rc base : Xml) (o : Out)
    (hrc : rcOf d = some rc) (hb : m.find k.baseTag = some base)
    (hres : addK k d m = ⟨setRcKids d o.kids, o.warns, o.err⟩) (hk : k.isGrpKind = true)
    (H : o.err.isSome = true ∨ GrpPay k (namedOf k base) rc.kids o.kids) :
    holdsC04 ⟨d, m, k⟩ (addK k d m) = true := by
  rw [hres]
  simp only [holdsC04, hb]
  rcases H with h | h
  · simp [h]
  · rw [Bool.or_eq_true]; right
    rw [containerIds_eq _ _ _ _ hrc, containerKids_setRcKids _ _ _ _ _ hrc]
    unfold GrpPay at h
    cases k <;> first | exact absurd hk (by decide) | skip
    all_goals simp only [Kind.group] at h ⊢
    all_goals
      first
      | rfl
      | (obtain ⟨ids, a, b, h1, h2⟩ := h
         rw [h1, h2]
         exact isInfixB_split _ _ _)

/-! ### shapes of the edits of one child list -/

theorem filter_others_nil (tag : String) (xs : List Xml) (hxs : ∀ c ∈ xs, c.tag = tag) :
    xs.filter (fun c => !(c.tag == tag)) = [] := by
  rw [List.filter_eq_nil_iff]; intro c hc; simp [hxs c hc]

theorem insertBefore_shape (tag : String) (cs : List Xml) (id : Key) (xs : List Xml) (hxs : ∀ c ∈ xs, c.tag = tag) :
    (insertBefore tag none cs id xs).err.isSome = true ∨
    (KeepsOthers tag cs (insertBefore tag none cs id xs).kids ∧
      ∃ p q, (insertBefore tag none cs id xs).kids = p ++ xs ++ q) := by
  rw [insertBefore_ok tag cs id xs]
  have hnil := filter_others_nil tag xs hxs
  cases id with
  | none =>
    right
    refine ⟨?_, cs, [], by simp⟩
    simp [KeepsOthers, List.filter_append, hnil]
  | some k =>
    simp only
    cases hl : locate tag cs (some k) with
    | none => left; rfl
    | some i =>
      right
      obtain ⟨k', a, x, b, hid, hcs, hal, hx1, hx2, ha⟩ := locate_split hl
      subst hcs hal
      simp only [insertMany_split]
      refine ⟨?_, a, x :: b, rfl⟩
      simp [KeepsOthers, List.filter_append, hnil]

theorem replace_shape (tag : String) (items : List Xml) (id : Key) (xs : List Xml) (hxs : ∀ c ∈ xs, c.tag = tag) (o : Out)
    (ho : o = match findRequired tag none items id with
      | .error e => failWith items [] e
      | .ok i => ⟨replaceAt items i xs, [], none⟩) :
    o.err.isSome = true ∨ (KeepsOthers tag items o.kids ∧ ∃ p q, o.kids = p ++ xs ++ q) := by
  rw [findRequired_ok tag none items id] at ho
  cases hl : locate tag items id with
  | none => left; rw [ho, hl]; rfl
  | some i =>
    right
    obtain ⟨k', a, x, b, hid, hcs, hal, hx1, hx2, ha⟩ := locate_split hl
    subst hcs hal
    simp only [hl, replaceAt_split] at ho
    rw [ho]
    refine ⟨?_, a, b, rfl⟩
    have : (x.tag == tag) = true := by simpa using hx1
    simp [KeepsOthers, List.filter_append, filter_others_nil tag xs hxs, this]

/-! ### class by class -/

def C04Out (k : Kind) (rc base : Xml) : Prop :=
  (mergeRc k rc base none).err.isSome = true ∨
  GrpPay k (namedOf k base) rc.kids (mergeRc k rc base none).kids

/-- item level: from the shape of the addressed story's new children to the container -/
theorem item_pay (k : Kind) (nm : Named) (a b : List Xml) (x : Xml) (key : String) (kids' xs : List Xml)
    (hk : k.isStoryLevel = false) (hst : nm.story = some key)
    (hx : isChild "story" key x = true) (ha : ∀ c ∈ a, isChild "story" key c = false)
    (hkeep : KeepsOthers "item" x.kids kids') (hshape : ∃ p q, kids' = p ++ xs ++ q) :
    ∃ ids p q, cIds k nm (a ++ x :: b) = some ids ∧
      cKids k nm (a ++ x.withKids kids' :: b) = some (p ++ xs ++ q) := by
  obtain ⟨p, q, hpq⟩ := hshape
  refine ⟨_, p, q, cIds_item_split k nm a b x key hk hst hx ha, ?_⟩
  rw [cKids_item_split k nm a b _ key hk hst (isChild_story_withKids x kids' hkeep hx) ha]
  simp [hpq]

theorem c04_StoryAppend (rc base : Xml) : C04Out .StoryAppend rc base := by
  right
  unfold GrpPay
  simp only [Kind.group, mergeRc]
  refine ⟨_, rc.kids, [], cIds_story _ _ _ rfl, ?_⟩
  rw [cKids_story _ _ _ rfl]
  simp [keptOf, Kind.dedups, namedOf]

theorem c04_StoryInsert (rc base : Xml) : C04Out .StoryInsert rc base := by
  unfold C04Out
  simp only [mergeRc]
  rw [findRequired_ok "story" none rc.kids _]
  cases hl : locate "story" rc.kids (elemId (some base) "storyID") with
  | none => left; rfl
  | some i =>
    simp only
    obtain ⟨key, a, x, b, hid, hcs, hal, hx1, hx2, ha⟩ := locate_split hl
    subst hal
    rw [roStoryIds_eq]
    have hins := insertDedup_closed (keysOf "story" rc.kids) (base.findall "story") a (x :: b) []
    rw [← hcs] at hins
    rw [hins]
    right
    unfold GrpPay
    simp only [Kind.group]
    refine ⟨_, a, x :: b, cIds_story _ _ _ rfl, ?_⟩
    rw [cKids_story _ _ _ rfl]
    rfl

theorem c04_EAStoryInsert (rc base : Xml) : C04Out .EAStoryInsert rc base := by
  unfold C04Out
  simp only [mergeRc, elemsOf_eq]
  rw [findTarget_ok "story" none rc.kids _]
  cases hid : elemId (base.find "element_target") "storyID" with
  | none =>
    simp only [Option.getD_none, roStoryIds_eq, insertDedup_closed_end]
    right
    unfold GrpPay
    simp only [Kind.group]
    refine ⟨_, rc.kids, [], cIds_story _ _ _ rfl, ?_⟩
    rw [cKids_story _ _ _ rfl, List.append_nil]
    rfl
  | some key =>
    simp only
    cases hl : locate "story" rc.kids (some key) with
    | none => left; rfl
    | some i =>
      simp only [Option.getD_some]
      obtain ⟨key', a, x, b, hid', hcs, hal, hx1, hx2, ha⟩ := locate_split hl
      subst hal
      rw [roStoryIds_eq]
      have hins := insertDedup_closed (keysOf "story" rc.kids) (elemsOf (base.find "element_source") "story")
        a (x :: b) []
      rw [← hcs] at hins
      rw [hins]
      right
      unfold GrpPay
      simp only [Kind.group]
      refine ⟨_, a, x :: b, cIds_story _ _ _ rfl, ?_⟩
      rw [cKids_story _ _ _ rfl]
      rfl

theorem c04_StoryReplace (rc base : Xml) :
    C04Out .StoryReplace rc base := by
  unfold C04Out
  simp only [mergeRc]
  rw [findRequired_ok "story" none rc.kids _]
  cases hl : locate "story" rc.kids (elemId (some base) "storyID") with
  | none => left; rfl
  | some i =>
    simp only
    split
    · left; rfl
    · obtain ⟨key, a, x, b, hid, hcs, hal, hx1, hx2, ha⟩ := locate_split hl
      subst hal
      right
      unfold GrpPay
      simp only [Kind.group]
      refine ⟨_, a, b, cIds_story _ _ _ rfl, ?_⟩
      rw [cKids_story _ _ _ rfl, hcs, replaceAt_split]
      rfl

theorem c04_EAStoryReplace (rc base : Xml) :
    C04Out .EAStoryReplace rc base := by
  unfold C04Out
  simp only [mergeRc, elemsOf_eq]
  rw [findRequired_ok "story" none rc.kids _]
  cases hl : locate "story" rc.kids (elemId (base.find "element_target") "storyID") with
  | none => left; rfl
  | some i =>
    simp only
    obtain ⟨key, a, x, b, hid, hcs, hal, hx1, hx2, ha⟩ := locate_split hl
    subst hal
    right
    unfold GrpPay
    simp only [Kind.group]
    refine ⟨_, a, b, cIds_story _ _ _ rfl, ?_⟩
    rw [cKids_story _ _ _ rfl, hcs, replaceAt_split]
    rfl

/-- the common item-level argument -/
theorem c04_item (k : Kind) (nm : Named) (cs : List Xml) (sid : Key) (f : List Xml → Out) (xs : List Xml)
    (hk : k.isStoryLevel = false) (hst : nm.story = sid)
    (hf : ∀ x ∈ cs, x.tag = "story" →
      (f x.kids).err.isSome = true ∨
      (KeepsOthers "item" x.kids (f x.kids).kids ∧ ∃ p q, (f x.kids).kids = p ++ xs ++ q)) :
    (inStory none cs sid f).err.isSome = true ∨
    ∃ ids p q, cIds k nm cs = some ids ∧ cKids k nm (inStory none cs sid f).kids = some (p ++ xs ++ q) := by
  rcases inStory_cases cs sid f with h | ⟨key, a, x, b, hsid, hcs, hxm, hxt, hx, ha, ho⟩
  · left; rw [h]; rfl
  · rw [ho]
    rcases hf x hxm hxt with h | ⟨h1, h2⟩
    · left; exact h
    · right
      rw [hcs]
      exact item_pay k nm a b x key _ xs hk (hst.trans hsid) hx ha h1 h2

theorem c04_ItemInsert (rc base : Xml) :
    C04Out .ItemInsert rc base := by
  unfold C04Out
  simp only [mergeRc]
  rcases c04_item .ItemInsert (namedOf .ItemInsert base) rc.kids _
    (fun items => insertBefore "item" none items (elemId (some base) "itemID") (base.findall "item"))
    (base.findall "item") rfl rfl
    (fun x hxm hxt => insertBefore_shape "item" x.kids (elemId (some base) "itemID") (base.findall "item")
      (findall_tag _ _)) with h | ⟨ids, p, q, h1, h2⟩
  · left; exact h
  · right
    unfold GrpPay
    simp only [Kind.group]
    exact ⟨ids, p, q, h1, h2⟩

theorem c04_EAItemInsert (rc base : Xml) :
    C04Out .EAItemInsert rc base := by
  unfold C04Out
  simp only [mergeRc, elemsOf_eq]
  rcases c04_item .EAItemInsert (namedOf .EAItemInsert base) rc.kids _
    (fun items => insertBefore "item" none items (elemId (base.find "element_target") "itemID")
      (elemsOf (base.find "element_source") "item"))
    (elemsOf (base.find "element_source") "item") rfl rfl
    (fun x hxm hxt => insertBefore_shape "item" x.kids (elemId (base.find "element_target") "itemID")
      (elemsOf (base.find "element_source") "item")
      (elemsOf_tag _ _)) with h | ⟨ids, p, q, h1, h2⟩
  · left; exact h
  · right
    unfold GrpPay
    simp only [Kind.group]
    exact ⟨ids, p, q, h1, h2⟩

theorem c04_ItemReplace (rc base : Xml) :
    C04Out .ItemReplace rc base := by
  unfold C04Out
  simp only [mergeRc]
  rcases c04_item .ItemReplace (namedOf .ItemReplace base) rc.kids _
    (fun items => match findRequired "item" none items (elemId (some base) "itemID") with
      | .error e => failWith items [] e
      | .ok i => ⟨replaceAt items i (base.findall "item"), [], none⟩)
    (base.findall "item") rfl rfl
    (fun x hxm hxt => replace_shape "item" x.kids (elemId (some base) "itemID") (base.findall "item")
      (findall_tag _ _) _ rfl) with h | ⟨ids, p, q, h1, h2⟩
  · left; exact h
  · right
    unfold GrpPay
    simp only [Kind.group]
    exact ⟨ids, p, q, h1, h2⟩

theorem c04_EAItemReplace (rc base : Xml) :
    C04Out .EAItemReplace rc base := by
  unfold C04Out
  simp only [mergeRc, elemsOf_eq]
  rcases c04_item .EAItemReplace (namedOf .EAItemReplace base) rc.kids _
    (fun items => match findRequired "item" none items (elemId (base.find "element_target") "itemID") with
      | .error e => failWith items [] e
      | .ok i => ⟨replaceAt items i (elemsOf (base.find "element_source") "item"), [], none⟩)
    (elemsOf (base.find "element_source") "item") rfl rfl
    (fun x hxm hxt => replace_shape "item" x.kids (elemId (base.find "element_target") "itemID")
      (elemsOf (base.find "element_source") "item")
      (elemsOf_tag _ _) _ rfl) with h | ⟨ids, p, q, h1, h2⟩
  · left; exact h
  · right
    unfold GrpPay
    simp only [Kind.group]
    exact ⟨ids, p, q, h1, h2⟩

/-! ### roStorySend -/

theorem mem_pyInsert (l : List Xml) (i : Nat) (x : Xml) : x ∈ pyInsert l i x := by
  simp [pyInsert]

theorem c04_StorySend_out (rc base : Xml) (hsh : shapedBase .StorySend base = true) :
    ∃ st, convertSpec base = some st ∧
      ((mergeRc .StorySend rc base none).err.isSome = true ∨
       (mergeRc .StorySend rc base none).warns = [.storyNotFound] ∨
       st ∈ (mergeRc .StorySend rc base none).kids) := by
  obtain ⟨st, hc⟩ := convertSpec_isSome base hsh
  refine ⟨st, hc, ?_⟩
  simp only [mergeRc, convertStorySend_eq, hc]
  split
  · left; rfl
  · right; left; rfl
  · right; right; exact mem_pyInsert _ _ _

/-! ### roMetadataReplace -/

theorem mdTarget_some_w {cs : List Xml} {s : Xml} {i : Nat} (h : mdTarget cs s = some i) :
    ∃ a x b, cs = a ++ x :: b ∧ a.length = i ∧ sameMdKey s x = true := by
  unfold mdTarget at h
  split at h
  · rename_i ht
    obtain ⟨a, x, b, hl, hal, _, _, hp, _⟩ := find_w?_of_findIdx? _ _ _ h
    refine ⟨a, x, b, hl, hal, ?_⟩
    simp only [Bool.and_eq_true] at hp
    simp [sameMdKey, hp.1, hp.2]
  · rename_i ht
    obtain ⟨a, x, b, hl, hal, _, _, hp, _⟩ := find_w?_of_findIdx? _ _ _ h
    refine ⟨a, x, b, hl, hal, ?_⟩
    have hne : (s.tag != "mosExternalMetadata") = true := by simpa using ht
    simp [sameMdKey, hp, hne]

/-- one step of the metadata loop keeps every child with another key and contains the source -/
theorem metadata_step (cs : List Xml) (s : Xml) :
    ∃ cs1, metadataLoop cs [s] = cs1 ∧ s ∈ cs1 ∧ ∀ c ∈ cs, sameMdKey s c = false → c ∈ cs1 := by
  refine ⟨_, rfl, ?_, ?_⟩
  · simp only [metadataLoop]
    split <;> exact mem_pyInsert _ _ _
  · intro c hc hk
    simp only [metadataLoop]
    split
    · simp [pyInsert, hc]
    · rename_i i hi
      obtain ⟨a, x, b, hl, hal, hx⟩ := mdTarget_some_w hi
      subst hl hal
      rw [eraseIdx_split, pyInsert_split]
      have hcx : c ≠ x := by intro e; rw [e, hx] at hk; cases hk
      simp only [List.mem_append, List.mem_cons] at hc ⊢
      rcases hc with h | h | h
      · exact Or.inl h
      · exact absurd h hcx
      · exact Or.inr (Or.inr h)

theorem metadataLoop_cons (cs : List Xml) (s : Xml) (ss : List Xml) :
    metadataLoop cs (s :: ss) = metadataLoop (metadataLoop cs [s]) ss := by
  simp only [metadataLoop]
  split <;> rfl

theorem metadataLoop_keeps (ss : List Xml) : ∀ (cs : List Xml) (c : Xml), c ∈ cs →
    (∀ s ∈ ss, sameMdKey s c = false) → c ∈ metadataLoop cs ss := by
  induction ss with
  | nil => intro cs c hc _; exact hc
  | cons s ss ih =>
    intro cs c hc hk
    rw [metadataLoop_cons]
    obtain ⟨cs1, h1, _, h3⟩ := metadata_step cs s
    rw [h1]
    exact ih cs1 c (h3 c hc (hk s (by simp))) (fun s' hs' => hk s' (by simp [hs']))

theorem metadataLoop_mem (ss : List Xml) : ∀ (cs : List Xml),
    (∀ pre s post, ss = pre ++ s :: post → ∀ s' ∈ post, sameMdKey s' s = false) →
    ∀ c ∈ ss, c ∈ metadataLoop cs ss := by
  induction ss with
  | nil => intro cs _ c hc; cases hc
  | cons s ss ih =>
    intro cs hd c hc
    rw [metadataLoop_cons]
    obtain ⟨cs1, h1, h2, _⟩ := metadata_step cs s
    rw [h1]
    rcases List.mem_cons.mp hc with h | h
    · rw [h]
      exact metadataLoop_keeps ss cs1 s h2 (hd [] s ss rfl)
    · apply ih cs1 _ c h
      intro pre t post hss s' hs'
      exact hd (s :: pre) t post (by rw [hss]; rfl) s' hs'

theorem distinct_unpack (l : List Xml)
    (h : l.zipIdx.all (fun p => l.zipIdx.all (fun q => p.2 == q.2 || !sameMdKey p.1 q.1)) = true) :
    ∀ pre s post, l = pre ++ s :: post → ∀ s' ∈ post, sameMdKey s' s = false := by
  intro pre s post hl s' hs'
  obtain ⟨j, hj, hsj⟩ := List.getElem_of_mem hs'
  rw [List.all_eq_true] at h
  have hp : (s', pre.length + 1 + j) ∈ l.zipIdx := by
    rw [List.mem_zipIdx_iff_getElem?, hl]
    simp only
    rw [List.getElem?_append_right (by omega)]
    have : pre.length + 1 + j - pre.length = j + 1 := by omega
    rw [this]
    simp [hj, hsj]
  have hq : (s, pre.length) ∈ l.zipIdx := by
    rw [List.mem_zipIdx_iff_getElem?, hl]
    simp
  have := h _ hp
  rw [List.all_eq_true] at this
  have := this _ hq
  have hne : (pre.length + 1 + j == pre.length) = false := by
    simp; omega
  simpa [hne] using this

theorem c04_MetaDataReplace_out (rc base : Xml)
    (h : base.kids.zipIdx.all (fun p => base.kids.zipIdx.all (fun q => p.2 == q.2 || !sameMdKey p.1 q.1)) = true) :
    ∀ c ∈ base.kids, c ∈ (mergeRc .MetaDataReplace rc base none).kids := by
  simp only [mergeRc]
  exact metadataLoop_mem base.kids rc.kids (distinct_unpack base.kids h)

/-! ### roReplace -/

theorem rcOf_replace (d new : Xml) (j : Nat) (hj : rcIndex d = some j) (ht : new.tag = "roCreate") :
    rcOf (d.withKids (pyInsert (d.kids.eraseIdx j) j new)) = some new := by
  unfold rcIndex at hj
  obtain ⟨a, x, b, hl, hal, _, _, _, ha⟩ := find_w?_of_findIdx? _ _ _ hj
  subst hal
  rw [hl, eraseIdx_split, pyInsert_split]
  unfold rcOf Xml.find
  simp only [Xml.withKids_kids]
  rw [List.find?_append, List.find?_eq_none.mpr (by intro c hc; simp [ha c hc])]
  simp [ht]

/-! ### assembling -/

theorem payload_any (i : MergeInput) (h : DomC04 i = true) :
    holdsC04 i (addK i.k i.d i.m) = true := by
  obtain ⟨d, m, k⟩ := i
  unfold DomC04 at h
  simp only [Bool.and_eq_true] at h
  obtain ⟨hwf, hsh⟩ := h
  obtain ⟨rc, hrc⟩ := wfRO_unpack_w hwf
  obtain ⟨base, hb⟩ : ∃ base, m.find k.baseTag = some base := by
    cases hb : m.find k.baseTag with
    | none => simp [shaped, hb] at hsh
    | some base => exact ⟨base, rfl⟩
  obtain ⟨hmid, hsb⟩ := shaped_unpack_w hsh hb
  by_cases hc : completed d = true
  · simp [holdsC04, hb, addK, hc]
  · have hc' : completed d = false := by simpa using hc
    by_cases hk : k.editsRc = true
    · have hres := addK_editsRc k d m rc base hk hc' hrc hb
      rw [hmid] at hres
      by_cases hg : k.isGrpKind = true
      · apply holdsC04_group d m k rc base (mergeRc k rc base none) hrc hb hres hg
        show C04Out k rc base
        cases k <;> first | exact absurd hg (by decide) | skip
        case StoryAppend => exact c04_StoryAppend rc base
        case StoryInsert => exact c04_StoryInsert rc base
        case EAStoryInsert => exact c04_EAStoryInsert rc base
        case StoryReplace => exact c04_StoryReplace rc base
        case EAStoryReplace => exact c04_EAStoryReplace rc base
        case ItemInsert => exact c04_ItemInsert rc base
        case EAItemInsert => exact c04_EAItemInsert rc base
        case ItemReplace => exact c04_ItemReplace rc base
        case EAItemReplace => exact c04_EAItemReplace rc base
        all_goals (right; unfold GrpPay; trivial)
      · cases k <;> first | exact absurd rfl hg | exact absurd hk (by decide) | skip
        · -- StorySend
          obtain ⟨st, hst, hout⟩ := c04_StorySend_out rc base hsb
          rw [hres]
          simp only [holdsC04, hb, hst, rcOf_setRcKids d rc _ hrc, Xml.withKids_kids]
          rcases hout with h | h | h
          · simp [h]
          · simp [h]
          · simp [h]
        · -- MetaDataReplace
          rw [hres]
          simp only [holdsC04, hb, rcOf_setRcKids d rc _ hrc, Xml.withKids_kids]
          rw [Bool.or_eq_true]; right
          by_cases hd : base.kids.zipIdx.all
              (fun p => base.kids.zipIdx.all (fun q => p.2 == q.2 || !sameMdKey p.1 q.1)) = true
          · have := c04_MetaDataReplace_out rc base hd
            rw [Bool.or_eq_true]; right
            rw [List.all_eq_true]
            intro c hc
            simpa using this c hc
          · rw [Bool.or_eq_true]; left
            simpa using hd
    · obtain ⟨j, hj, _⟩ := rcIndex_of_rcOf hrc
      cases k <;> first | exact absurd rfl hk | skip
      · exact absurd hsb (by simp [shapedBase])
      · have := rcOf_replace d (base.withTag "roCreate") j hj rfl
        simp [holdsC04, hb, addK, hc', merge, findChildAny_eq_rcIndex, hj, this]
      · simp [holdsC04, hb, addK, hc', merge, Kind.group]

end Mrm
