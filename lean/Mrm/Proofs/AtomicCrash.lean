/-
  Mrm/Proofs/AtomicCrash.lean — helper lemmas for C05 over all inputs: with a readable message ID
  (`mid = none`) a merge that ends in ANY error returns the child list it was given.
-/
import Mrm.Proofs.Atomic

namespace Mrm

/-- whatever the error, the child list is the one that was given -/
def Total (cs : List Xml) (o : Out) : Prop := ∀ e, o.err = some e → o.kids = cs

theorem total_failWith (cs : List Xml) (ws : List Warn) (e : Err) : Total cs (failWith cs ws e) := by
  intro _ _; rfl

theorem total_ok (cs cs' : List Xml) (ws : List Warn) : Total cs ⟨cs', ws, none⟩ := by
  intro e h; cases h

theorem total_of_noerr (cs : List Xml) (o : Out) (h : o.err = none) : Total cs o := by
  intro e he; rw [h] at he; cases he

/-- `find_child` never raises (a child without its ID tag is skipped) -/
theorem findChildLoop_noerr (tag k : String) (cs : List Xml) (n : Nat) (e : PyExc) :
    findChildLoop tag k cs n ≠ .error e := by
  induction cs generalizing n with
  | nil => simp [findChildLoop]
  | cons c cs ih =>
    unfold findChildLoop
    split
    · split
      · exact ih _
      · split
        · simp
        · exact ih _
    · exact ih _

theorem findChildId_noerr (cs : List Xml) (tag : String) (id : Option String) (e : PyExc) :
    findChildId cs tag id ≠ .error e := by
  cases id with
  | none => simp [findChildId]
  | some k => exact findChildLoop_noerr tag k cs 0 e

/-- with a readable message ID the warn-and-continue loops never raise -/
theorem deleteLoop_noerr_any (tag : String) (w : Warn) (cs : List Xml) (ids : List (Option String))
    (ws : List Warn) : (deleteLoop tag w none cs ids ws).err = none := by
  induction ids generalizing cs ws with
  | nil => simp [deleteLoop]
  | cons id ids ih =>
    unfold deleteLoop
    split
    · rename_i e he; exact absurd he (findChildId_noerr _ _ _ _)
    · exact ih _ _
    · exact ih _ _

theorem insertDedup_noerr_any (ex : List (Option String)) (cs : List Xml) (i : Nat) (ss : List Xml)
    (ws : List Warn) : (insertDedup none ex cs i ss ws).err = none := by
  induction ss generalizing cs i ws with
  | nil => simp [insertDedup]
  | cons s ss ih =>
    unfold insertDedup
    split
    · exact ih _ _ _
    · exact ih _ _ _

theorem total_moveMany (tag : String) (mid : Option PyExc) (cs : List Xml) (t : Option String)
    (ss : List (Option String)) : Total cs (moveMany tag mid cs t ss) := by
  unfold moveMany
  split
  · exact total_failWith _ _ _
  · split
    · exact total_failWith _ _ _
    · exact total_ok _ _ _

theorem total_swapTwo (tag : String) (mid : Option PyExc) (cs : List Xml)
    (ids : List (Option String)) : Total cs (swapTwo tag mid cs ids) := by
  unfold swapTwo
  split
  · exact total_failWith _ _ _
  · split
    · exact total_failWith _ _ _
    · split
      · exact total_failWith _ _ _
      · exact total_ok _ _ _

theorem total_insertBefore (tag : String) (mid : Option PyExc) (cs : List Xml) (t : Option String)
    (xs : List Xml) : Total cs (insertBefore tag mid cs t xs) := by
  unfold insertBefore
  split
  · exact total_failWith _ _ _
  · exact total_ok _ _ _
  · exact total_ok _ _ _

theorem total_inStoryAt (cs : List Xml) (k : Nat) (f : List Xml → Out)
    (hf : ∀ items, Total items (f items)) : Total cs (inStoryAt cs k f) := by
  unfold inStoryAt
  split
  · exact total_failWith _ _ _
  · rename_i s hs
    intro e he
    have := hf s.kids e he
    simp only [this]
    exact set_withKids_self cs k s hs

theorem total_inStory (mid : Option PyExc) (cs : List Xml) (sid : Option String) (f : List Xml → Out)
    (hf : ∀ items, Total items (f items)) : Total cs (inStory mid cs sid f) := by
  unfold inStory
  split
  · exact total_failWith _ _ _
  · exact total_inStoryAt cs _ f hf

/-- with a readable message ID every merge on the `roCreate` children is atomic with respect to
    every error, crashes included: each crash precedes the first mutation -/
theorem total_mergeRc (k : Kind) (rc base : Xml) : Total rc.kids (mergeRc k rc base none) := by
  cases k <;> simp only [mergeRc]
  case StorySend =>
    split
    · exact total_failWith _ _ _
    · split
      · exact total_failWith _ _ _
      · exact total_ok _ _ _
      · exact total_ok _ _ _
  case MetaDataReplace => exact total_ok _ _ _
  case StoryAppend => exact total_ok _ _ _
  case StoryDelete => exact total_of_noerr _ _ (deleteLoop_noerr_any _ _ _ _ _)
  case ItemDelete =>
    exact total_inStory _ _ _ _ (fun items => total_of_noerr _ _ (deleteLoop_noerr_any _ _ _ _ _))
  case StoryInsert =>
    split
    · exact total_failWith _ _ _
    · exact total_of_noerr _ _ (insertDedup_noerr_any _ _ _ _ _)
  case ItemInsert => exact total_inStory _ _ _ _ (fun items => total_insertBefore _ _ _ _ _)
  case StoryMove =>
    split
    · exact total_failWith _ _ _
    · split
      · exact total_failWith _ _ _
      · split
        · exact total_failWith _ _ _
        · split <;> exact total_ok _ _ _
  case ItemMoveMultiple =>
    split
    · exact total_failWith _ _ _
    · apply total_inStory
      intro items
      split
      · exact total_failWith _ _ _
      · exact total_moveMany _ _ _ _ _
  case StoryReplace =>
    split
    · exact total_failWith _ _ _
    · split
      · exact total_failWith _ _ _
      · exact total_ok _ _ _
  case ItemReplace =>
    apply total_inStory
    intro items
    split
    · exact total_failWith _ _ _
    · exact total_ok _ _ _
  case ReadyToAir => exact total_ok _ _ _
  case EAStoryReplace =>
    split
    · exact total_failWith _ _ _
    · exact total_ok _ _ _
  case EAItemReplace =>
    apply total_inStory
    intro items
    split
    · exact total_failWith _ _ _
    · exact total_ok _ _ _
  case EAStoryDelete => exact total_of_noerr _ _ (deleteLoop_noerr_any _ _ _ _ _)
  case EAItemDelete =>
    split
    · exact total_failWith _ _ _
    · exact total_ok _ _ _
    · exact total_inStoryAt _ _ _ (fun items => total_of_noerr _ _ (deleteLoop_noerr_any _ _ _ _ _))
  case EAStoryInsert =>
    split
    · exact total_failWith _ _ _
    · exact total_of_noerr _ _ (insertDedup_noerr_any _ _ _ _ _)
  case EAItemInsert => exact total_inStory _ _ _ _ (fun items => total_insertBefore _ _ _ _ _)
  case EAStorySwap => exact total_swapTwo _ _ _ _
  case EAItemSwap => exact total_inStory _ _ _ _ (fun items => total_swapTwo _ _ _ _)
  case EAStoryMove => exact total_moveMany _ _ _ _ _
  case EAItemMove => exact total_inStory _ _ _ _ (fun items => total_moveMany _ _ _ _ _)
  case RunningOrder => exact total_ok _ _ _
  case RunningOrderReplace => exact total_ok _ _ _
  case RunningOrderEnd => exact total_ok _ _ _

end Mrm
