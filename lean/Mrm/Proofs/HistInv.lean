/-
  Mrm/Proofs/HistInv.lean — the history invariant implies the domain of C12 and is preserved by
  every merge of a shaped message with a well-formed payload.
-/
import Mrm.Spec.History
import Mrm.Proofs.NoCrash
import Mrm.Proofs.Rc
import Mrm.Proofs.HistMeta

namespace Mrm

theorem histInv_implies_dom (d : Xml) (h : HistInv d = true) : WfRO d = true ∧ TimingOk d = true :=
  histInv_dom d h

/-! ### what `payloadOk` says, per class -/

theorem payload_facts {k : Kind} {m : Xml} (hp : payloadOk k m = true) :
    ∃ base, m.find k.baseTag = some base ∧
      (∀ x ∈ storyPayload k base, storyOk x = true) ∧
      (∀ y ∈ itemPayload k base, (y.find "itemID").isSome = true) ∧
      (k = .MetaDataReplace → ∀ s ∈ base.kids, mdOk s) ∧
      (k = .RunningOrderReplace → rcOk base.kids = true) := by
  unfold payloadOk at hp
  split at hp
  · cases hp
  · rename_i base hb
    refine ⟨base, hb, ?_⟩
    cases k
    case StorySend =>
      simp only at hp
      refine ⟨?_, by simp [itemPayload], by simp, by simp⟩
      intro x hx
      simp only [storyPayload] at hx
      split at hx
      · rename_i story hst
        simp only [List.mem_singleton] at hx
        subst hx
        split at hp
        · cases hp
        · rename_i body hbody
          simp only [Bool.and_eq_true, List.all_eq_true, Bool.or_eq_true, bne_iff_ne, ne_eq,
            Option.isNone_iff_eq_none] at hp
          obtain ⟨⟨⟨⟨h1, h2⟩, h3⟩, h4⟩, h5⟩ := hp
          apply storyOk_converted hbody hst h1 _ _ _ h5
          · intro c hc hct
            rcases h2 c hc with h | h
            · rcases hct with hct | hct
              · exact absurd hct h.1
              · exact absurd hct h.2
            · exact h
          · intro c hc hct
            rcases h3 c hc with h | h
            · exact absurd hct h
            · exact h
          · cases hd : storyDuration base with
            | ok r => exact ⟨r, rfl⟩
            | error e => rw [hd] at h4; simp at h4
      · simp at hx
    case MetaDataReplace =>
      simp only [List.all_eq_true, Bool.and_eq_true, Bool.or_eq_true, bne_iff_ne, ne_eq] at hp
      refine ⟨by simp [storyPayload], by simp [itemPayload], ?_, by simp⟩
      intro _ s hs
      obtain ⟨h1, h2⟩ := hp s hs
      constructor
      · intro ht
        rcases h1 with h | h
        · exact absurd ht h
        · exact h
      · intro ht t htx
        rcases h2 with h | h
        · exact absurd ht h
        · rw [htx] at h; exact h
    case RunningOrderReplace =>
      exact ⟨by simp [storyPayload], by simp [itemPayload], by simp, fun _ => hp⟩
    all_goals
      simp only [List.all_eq_true] at hp
      simp only [storyPayload, itemPayload, List.not_mem_nil, false_imp_iff, implies_true,
        true_and, and_true, reduceCtorEq]
      try exact hp

/-! ### the merges on the `roCreate` children keep `rcOk` -/

theorem wf_of_rcOk {cs : List Xml} (h : rcOk cs = true) :
    WfKids "story" cs = true ∧ ∀ s ∈ cs, s.tag = "story" → WfKids "item" s.kids = true := by
  have hall := rcOk_all h
  constructor
  · unfold WfKids
    rw [List.all_eq_true]
    intro c hc
    by_cases ht : c.tag = "story"
    · simp [(storyOk_parts (hall c hc ht)).1]
    · simp [ht]
  · intro s hs ht
    exact (storyOk_parts (hall s hs ht)).2.1

theorem rcOk_mergeRc (k : Kind) (rc base : Xml) (mid : Option PyExc) (h : rcOk rc.kids = true)
    (h1 : ∀ x ∈ storyPayload k base, storyOk x = true)
    (h2 : ∀ y ∈ itemPayload k base, (y.find "itemID").isSome = true)
    (h3 : k = .MetaDataReplace → ∀ s ∈ base.kids, mdOk s) :
    rcOk (mergeRc k rc base mid).kids = true := by
  by_cases hsl : k.isStoryLevel = true
  · exact rcOk_of_edit h (storyLevel_edit k rc base mid hsl) h1
  · by_cases hil : k.isItemLevel = true
    · exact rcOk_of_itemEdit h (itemLevel_edit k rc base mid hil) h2
    · cases k <;> first | (simp [Kind.isStoryLevel] at hsl; done) | (simp [Kind.isItemLevel] at hil; done) | skip
      case MetaDataReplace =>
        simp only [mergeRc]
        exact rcOk_metadataLoop _ _ h (h3 rfl)
      all_goals (simp only [mergeRc]; exact h)

theorem histInv_setRcKids {d rc : Xml} {cs' : List Xml} (hrc : rcOf d = some rc)
    (h : rcOk cs' = true) : HistInv (setRcKids d cs') = true := by
  unfold HistInv
  rw [rcOf_setRcKids d rc cs' hrc]
  simpa using h

theorem histInv_preserved (i : MergeInput) (h : HistInv i.d = true) (hs : shaped i.k i.m = true)
    (hp : payloadOk i.k i.m = true) : HistInv (addK i.k i.d i.m).ro = true := by
  obtain ⟨d, m, k⟩ := i
  simp only at h hs hp ⊢
  obtain ⟨base, hb, h1, h2, h3, h4⟩ := payload_facts hp
  have hrcOk : ∃ rc, rcOf d = some rc ∧ rcOk rc.kids = true := by
    unfold HistInv at h
    split at h
    · cases h
    · rename_i rc hrc; exact ⟨rc, hrc, h⟩
  obtain ⟨rc, hrc, hok⟩ := hrcOk
  by_cases hc : completed d = true
  · have hadd : addK k d m = ⟨d, [], some .completed⟩ := by simp [addK, hc]
    rw [hadd]; exact h
  · have hc' : completed d = false := by simpa using hc
    by_cases hk : k.editsRc = true
    · rw [addK_editsRc k d m rc base hk hc' hrc hb]
      exact histInv_setRcKids hrc (rcOk_mergeRc k rc base _ hok h1 h2 h3)
    · obtain ⟨j, hj, hget⟩ := rcIndex_of_rcOf hrc
      cases k <;> first | (simp [Kind.editsRc] at hk; done) | skip
      · -- RunningOrder: `MosFile.merge` raises, the tree is untouched
        have hadd : (addK .RunningOrder d m).ro = d := by
          unfold addK merge
          simp only [hc', hb]
          rfl
        rw [hadd]; exact h
      · have hadd : addK .RunningOrderReplace d m =
            ⟨d.withKids (pyInsert (d.kids.eraseIdx j) j (base.withTag "roCreate")), [], none⟩ := by
          unfold addK merge
          simp only [hc', hb, findChildAny_eq_rcIndex, hj]
          rfl
        rw [hadd]
        unfold rcIndex at hj
        obtain ⟨a, x, b, hkids, hal, _, ha⟩ := findIdx_split hj
        have hnone : a.find? (fun c => c.tag == "roCreate") = none := by
          rw [List.find?_eq_none]; intro y hy; simp [ha y hy]
        have hrc' : rcOf (d.withKids (pyInsert (d.kids.eraseIdx j) j (base.withTag "roCreate"))) =
            some (base.withTag "roCreate") := by
          unfold rcOf Xml.find
          simp only [Xml.withKids_kids]
          rw [hkids, ← hal, List.eraseIdx_append_of_length_le (Nat.le_refl _)]
          simp [pyInsert, List.find?_append, hnone]
        unfold HistInv
        rw [hrc']
        simpa using h4 rfl
      · have hadd : addK .RunningOrderEnd d m =
            ⟨d.withKids (d.kids ++ [.node "mosromgrmeta" [] none none [base]]), [], none⟩ := by
          unfold addK merge
          simp only [hc', hb]
          rfl
        rw [hadd]
        have hrc' : rcOf (d.withKids (d.kids ++ [.node "mosromgrmeta" [] none none [base]])) =
            some rc := by
          unfold rcOf Xml.find at hrc ⊢
          simp [List.find?_append, hrc]
        unfold HistInv
        rw [hrc']
        exact hok

end Mrm
