/-
  Mrm/Proofs/NoCrash.lean — with a readable message ID, no merge
  helper produces a built-in exception (C12).
-/
import Mrm.Proofs.Find

namespace Mrm

/-- the outcome's error, if any, is not a built-in exception -/
def NX (o : Out) : Prop := ∀ x, o.err ≠ some (.crash x)

theorem nx_ok (cs : List Xml) (ws : List Warn) : NX ⟨cs, ws, none⟩ := by intro x; simp
theorem nx_merge (cs : List Xml) (ws : List Warn) : NX (failWith cs ws .merge) := by intro x; simp [failWith]
theorem nx_raise (cs : List Xml) (ws : List Warn) : NX (failWith cs ws (raiseMerge none)) := nx_merge cs ws

theorem findRequired_err {tag : String} {cs : List Xml} {id : Key} {e : Err}
    (h : findRequired tag none cs id = .error e) : e = .merge := by
  rw [findRequired_ok tag none cs id] at h
  split at h
  · cases h
  · cases h; rfl

theorem findTarget_err {tag : String} {cs : List Xml} {id : Key} {e : Err}
    (h : findTarget tag none cs id = .error e) : e = .merge := by
  rw [findTarget_ok tag none cs id] at h
  split at h
  · cases h
  · split at h
    · cases h
    · cases h; rfl

theorem collectSources_err {tag : String} {cs : List Xml} {t : Option Nat} {ids : List Key} {acc : List Nat}
    {e : Err} (h : collectSources tag none cs t ids acc = .error e) : e = .merge := by
  induction ids generalizing acc with
  | nil => simp [collectSources] at h
  | cons id ids ih =>
    unfold collectSources at h
    rw [findChildId_ok tag cs id] at h
    split at h
    · rename_i heq; cases heq
    · cases h; rfl
    · split at h
      · cases h; rfl
      · exact ih h

theorem nx_of_merge {cs : List Xml} {ws : List Warn} {e : Err} (h : e = .merge) : NX (failWith cs ws e) := by
  subst h; exact nx_merge cs ws

theorem deleteLoop_noerr (tag : String) (w : Warn) (cs : List Xml) (ids : List Key) (ws : List Warn) : (deleteLoop tag w none cs ids ws).err = none := by
  induction ids generalizing cs ws with
  | nil => simp [deleteLoop]
  | cons id ids ih =>
    unfold deleteLoop
    rw [findChildId_ok tag cs id]
    split
    · rename_i heq; cases heq
    · exact ih _ _
    · exact ih _ _

theorem nx_deleteLoop (tag : String) (w : Warn) (cs : List Xml) (ids : List Key) (ws : List Warn) : NX (deleteLoop tag w none cs ids ws) := by
  intro x; rw [deleteLoop_noerr tag w cs ids ws]; simp

theorem insertDedup_noerr (ex : List Key) (cs : List Xml) (i : Nat) (ss : List Xml) (ws : List Warn) :
    (insertDedup none ex cs i ss ws).err = none := by
  induction ss generalizing cs i ws with
  | nil => simp [insertDedup]
  | cons s ss ih =>
    unfold insertDedup
    split
    · exact ih _ _ _
    · exact ih _ _ _

theorem nx_insertDedup (ex : List Key) (cs : List Xml) (i : Nat) (ss : List Xml) (ws : List Warn) :
    NX (insertDedup none ex cs i ss ws) := by
  intro x; rw [insertDedup_noerr]; simp

theorem nx_moveMany (tag : String) (cs : List Xml) (t : Key) (ss : List Key) :
    NX (moveMany tag none cs t ss) := by
  unfold moveMany
  split
  · rename_i e h; exact nx_of_merge (findTarget_err h)
  · split
    · rename_i e h; exact nx_of_merge (collectSources_err h)
    · exact nx_ok _ _

theorem nx_swapTwo (tag : String) (cs : List Xml) (ids : List Key)
    (h2 : ids.length = 2) : NX (swapTwo tag none cs ids) := by
  unfold swapTwo
  match ids, h2 with
  | [a, b], _ =>
    simp only [unpack2]
    split
    · rename_i e h; exact nx_of_merge (findRequired_err h)
    · split
      · rename_i e h; exact nx_of_merge (findRequired_err h)
      · exact nx_ok _ _

theorem nx_insertBefore (tag : String) (cs : List Xml) (t : Key) (xs : List Xml) :
    NX (insertBefore tag none cs t xs) := by
  unfold insertBefore
  split
  · rename_i e h; exact nx_of_merge (findTarget_err h)
  · exact nx_ok _ _
  · exact nx_ok _ _

theorem nx_inStoryAt (cs : List Xml) (k : Nat) (f : List Xml → Out) (hk : k < cs.length)
    (hf : NX (f cs[k].kids)) : NX (inStoryAt cs k f) := by
  unfold inStoryAt
  simp only [List.getElem?_eq_getElem hk]
  exact hf

theorem nx_inStory (cs : List Xml) (sid : Key) (f : List Xml → Out)
    (hf : ∀ items, NX (f items)) :
    NX (inStory none cs sid f) := by
  unfold inStory
  rw [findRequired_ok "story" none cs sid]
  cases hl : locate "story" cs sid with
  | none => exact nx_raise _ _
  | some k =>
    obtain ⟨key, _, hk, hc, _⟩ := locate_some hl
    apply nx_inStoryAt cs k f hk
    apply hf

end Mrm
