/-
  Mrm/Proofs/NoCrash.lean — on well-formed child lists and with a readable message ID, no merge
  helper produces a built-in exception (C12).
-/
import Mrm.Proofs.Find

namespace Mrm

/-- the outcome's error, if any, is not a built-in exception -/
def NX (o : Out) : Prop := ∀ x, o.err ≠ some (.crash x)

theorem nx_ok (cs : List Xml) (ws : List Warn) : NX ⟨cs, ws, none⟩ := by intro x; simp
theorem nx_merge (cs : List Xml) (ws : List Warn) : NX (failWith cs ws .merge) := by intro x; simp [failWith]
theorem nx_raise (cs : List Xml) (ws : List Warn) : NX (failWith cs ws (raiseMerge none)) := nx_merge cs ws

theorem wfKids_eraseIdx {tag : String} {cs : List Xml} (i : Nat) (h : WfKids tag cs = true) :
    WfKids tag (cs.eraseIdx i) = true := by
  simp only [WfKids, List.all_eq_true] at h ⊢
  intro c hc
  exact h c (List.mem_of_mem_eraseIdx hc)

theorem findRequired_err {tag : String} {cs : List Xml} {id : Key} {e : Err} (hw : WfKids tag cs = true)
    (h : findRequired tag none cs id = .error e) : e = .merge := by
  rw [findRequired_ok tag none cs id hw] at h
  split at h
  · cases h
  · cases h; rfl

theorem findTarget_err {tag : String} {cs : List Xml} {id : Key} {e : Err} (hw : WfKids tag cs = true)
    (h : findTarget tag none cs id = .error e) : e = .merge := by
  rw [findTarget_ok tag none cs id hw] at h
  split at h
  · cases h
  · split at h
    · cases h
    · cases h; rfl

theorem collectSources_err {tag : String} {cs : List Xml} {t : Option Nat} {ids : List Key} {acc : List Nat}
    {e : Err} (hw : WfKids tag cs = true) (h : collectSources tag none cs t ids acc = .error e) : e = .merge := by
  induction ids generalizing acc with
  | nil => simp [collectSources] at h
  | cons id ids ih =>
    unfold collectSources at h
    rw [findChildId_ok tag cs id hw] at h
    split at h
    · rename_i heq; cases heq
    · cases h; rfl
    · split at h
      · cases h; rfl
      · exact ih h

theorem nx_of_merge {cs : List Xml} {ws : List Warn} {e : Err} (h : e = .merge) : NX (failWith cs ws e) := by
  subst h; exact nx_merge cs ws

theorem deleteLoop_noerr (tag : String) (w : Warn) (cs : List Xml) (ids : List Key) (ws : List Warn)
    (hw : WfKids tag cs = true) : (deleteLoop tag w none cs ids ws).err = none := by
  induction ids generalizing cs ws with
  | nil => simp [deleteLoop]
  | cons id ids ih =>
    unfold deleteLoop
    rw [findChildId_ok tag cs id hw]
    split
    · rename_i heq; cases heq
    · exact ih _ _ (wfKids_eraseIdx _ hw)
    · exact ih _ _ hw

theorem nx_deleteLoop (tag : String) (w : Warn) (cs : List Xml) (ids : List Key) (ws : List Warn)
    (hw : WfKids tag cs = true) : NX (deleteLoop tag w none cs ids ws) := by
  intro x; rw [deleteLoop_noerr tag w cs ids ws hw]; simp

theorem insertDedup_noerr (ex : List Key) (cs : List Xml) (i : Nat) (ss : List Xml) (ws : List Warn) :
    (insertDedup none ex cs i ss ws).err = none := by
  induction ss generalizing cs i ws with
  | nil => simp [insertDedup]
  | cons s ss ih =>
    unfold insertDedup
    split
    · exact ih _ _ _
    · exact ih _ _ _

theorem nx_insertDedup (ex : List Key) (cs : List Xml) (i : Nat) (ss : List Xml) (ws : List Warn) :
    NX (insertDedup none ex cs i ss ws) := by
  intro x; rw [insertDedup_noerr]; simp

theorem nx_moveMany (tag : String) (cs : List Xml) (t : Key) (ss : List Key) (hw : WfKids tag cs = true) :
    NX (moveMany tag none cs t ss) := by
  unfold moveMany
  split
  · rename_i e h; exact nx_of_merge (findTarget_err hw h)
  · split
    · rename_i e h; exact nx_of_merge (collectSources_err hw h)
    · exact nx_ok _ _

theorem nx_swapTwo (tag : String) (cs : List Xml) (ids : List Key) (hw : WfKids tag cs = true)
    (h2 : ids.length = 2) : NX (swapTwo tag none cs ids) := by
  unfold swapTwo
  match ids, h2 with
  | [a, b], _ =>
    simp only [unpack2]
    split
    · rename_i e h; exact nx_of_merge (findRequired_err hw h)
    · split
      · rename_i e h; exact nx_of_merge (findRequired_err hw h)
      · exact nx_ok _ _

theorem nx_insertBefore (tag : String) (cs : List Xml) (t : Key) (xs : List Xml) (hw : WfKids tag cs = true) :
    NX (insertBefore tag none cs t xs) := by
  unfold insertBefore
  split
  · rename_i e h; exact nx_of_merge (findTarget_err hw h)
  · exact nx_ok _ _
  · exact nx_ok _ _

/-- every story child has well-formed items -/
def WfItems (cs : List Xml) : Prop := ∀ s ∈ cs, s.tag = "story" → WfKids "item" s.kids = true

theorem nx_inStoryAt (cs : List Xml) (k : Nat) (f : List Xml → Out) (hk : k < cs.length)
    (hf : NX (f cs[k].kids)) : NX (inStoryAt cs k f) := by
  unfold inStoryAt
  simp only [List.getElem?_eq_getElem hk]
  exact hf

theorem nx_inStory (cs : List Xml) (sid : Key) (f : List Xml → Out) (hw : WfKids "story" cs = true)
    (hi : WfItems cs) (hf : ∀ items, WfKids "item" items = true → NX (f items)) :
    NX (inStory none cs sid f) := by
  unfold inStory
  rw [findRequired_ok "story" none cs sid hw]
  cases hl : locate "story" cs sid with
  | none => exact nx_raise _ _
  | some k =>
    obtain ⟨key, _, hk, hc, _⟩ := locate_some hl
    apply nx_inStoryAt cs k f hk
    apply hf
    apply hi _ (List.getElem_mem hk)
    simp only [isChild, Bool.and_eq_true, beq_iff_eq] at hc
    exact hc.1

end Mrm
