/-
  Mrm/Proofs/HistSeq.lean — `Edit tag xs cs cs'`: the child list `cs'` differs from `cs` only in
  children tagged `tag` (everything else is kept, in order), and every child of `cs'` is a child of
  `cs` or one of the payload elements `xs`.  Every building block of the merges is such an edit.
-/
import Mrm.Proofs.FrameLoops

namespace Mrm

/-! ### membership after the list primitives -/

theorem mem_insertAt {α : Type} {cs : List α} {i : Nat} {ys : List α} {x : α}
    (h : x ∈ insertAt cs i ys) : x ∈ cs ∨ x ∈ ys := by
  unfold insertAt at h
  simp only [List.mem_append] at h
  rcases h with (h | h) | h
  · exact Or.inl (List.mem_of_mem_take h)
  · exact Or.inr h
  · exact Or.inl (List.mem_of_mem_drop h)

theorem mem_moveNodes {α : Type} {cs : List α} {src : List Nat} {before : Option Nat} {x : α}
    (h : x ∈ moveNodes cs src before) : x ∈ cs := by
  unfold moveNodes at h
  simp only [List.mem_append, List.mem_map, List.mem_filterMap] at h
  have hz : ∀ p : α × Nat, p ∈ cs.zipIdx.filter (fun p => !src.contains p.2) → p.1 ∈ cs := by
    intro p hp
    have := (List.mem_filter.mp hp).1
    rw [List.mem_zipIdx_iff_getElem?] at this
    exact List.mem_of_getElem? this
  rcases h with (⟨p, hp, rfl⟩ | ⟨i, _, hi⟩) | ⟨p, hp, rfl⟩
  · exact hz p (List.mem_of_mem_take hp)
  · exact List.mem_of_getElem? hi
  · exact hz p (List.mem_of_mem_drop hp)

theorem mem_swapNodes {α : Type} {cs : List α} {i j : Nat} {x : α}
    (h : x ∈ swapNodes cs i j) : x ∈ cs := by
  unfold swapNodes at h
  split at h
  · rename_i a b ha hb
    rcases List.mem_or_eq_of_mem_set h with h | rfl
    · rcases List.mem_or_eq_of_mem_set h with h | rfl
      · exact h
      · exact List.mem_of_getElem? hb
    · exact List.mem_of_getElem? ha
  · exact h

/-! ### edits -/

def Edit (tag : String) (xs cs cs' : List Xml) : Prop :=
  cs'.filter (fun c => c.tag != tag) = cs.filter (fun c => c.tag != tag) ∧
    ∀ x ∈ cs', x ∈ cs ∨ x ∈ xs

theorem Edit.refl (tag : String) (xs cs : List Xml) : Edit tag xs cs cs :=
  ⟨rfl, fun _ h => Or.inl h⟩

theorem Edit.trans {tag : String} {xs a b c : List Xml} (h1 : Edit tag xs a b) (h2 : Edit tag xs b c) :
    Edit tag xs a c := by
  refine ⟨h2.1.trans h1.1, ?_⟩
  intro x hx
  rcases h2.2 x hx with h | h
  · exact h1.2 x h
  · exact Or.inr h

theorem nq_of_tag {tag : String} {c : Xml} (h : c.tag = tag) : (c.tag != tag) = false := by
  simp [h]

theorem edit_eraseIdx (tag : String) (xs cs : List Xml) (i : Nat)
    (h : ∀ hi : i < cs.length, cs[i].tag = tag) : Edit tag xs cs (cs.eraseIdx i) :=
  ⟨filter_eraseIdx_of_false _ cs i (fun hi => nq_of_tag (h hi)),
   fun _ hx => Or.inl (List.mem_of_mem_eraseIdx hx)⟩

theorem edit_insertMany (tag : String) (xs cs : List Xml) (i : Nat) (ys : List Xml)
    (ht : ∀ y ∈ ys, y.tag = tag) (hs : ∀ y ∈ ys, y ∈ xs) : Edit tag xs cs (insertMany cs i ys) := by
  refine ⟨filter_insertMany_of_false _ cs i ys (fun y hy => nq_of_tag (ht y hy)), ?_⟩
  intro x hx
  rw [insertMany_eq_insertAt] at hx
  rcases mem_insertAt hx with h | h
  · exact Or.inl h
  · exact Or.inr (hs x h)

theorem edit_pyInsert (tag : String) (xs cs : List Xml) (i : Nat) (y : Xml)
    (ht : y.tag = tag) (hs : y ∈ xs) : Edit tag xs cs (pyInsert cs i y) := by
  have := edit_insertMany tag xs cs i [y] (by simpa using ht) (by simpa using hs)
  simpa [insertMany] using this

theorem edit_append (tag : String) (xs cs ys : List Xml)
    (ht : ∀ y ∈ ys, y.tag = tag) (hs : ∀ y ∈ ys, y ∈ xs) : Edit tag xs cs (cs ++ ys) := by
  refine ⟨filter_append_of_false _ cs ys (fun y hy => nq_of_tag (ht y hy)), ?_⟩
  intro x hx
  rcases List.mem_append.mp hx with h | h
  · exact Or.inl h
  · exact Or.inr (hs x h)

theorem edit_replaceAt (tag : String) (xs cs : List Xml) (i : Nat) (ys : List Xml)
    (hi : ∀ hi : i < cs.length, cs[i].tag = tag)
    (ht : ∀ y ∈ ys, y.tag = tag) (hs : ∀ y ∈ ys, y ∈ xs) : Edit tag xs cs (replaceAt cs i ys) :=
  (edit_eraseIdx tag xs cs i hi).trans (edit_insertMany tag xs _ i ys ht hs)

theorem edit_moveNodes (tag : String) (xs cs : List Xml) (src : List Nat) (before : Option Nat)
    (h : ∀ i ∈ src, ∀ hi : i < cs.length, cs[i].tag = tag) : Edit tag xs cs (moveNodes cs src before) :=
  ⟨filter_moveNodes_of_false _ cs src before (fun i hi hl => nq_of_tag (h i hi hl)),
   fun _ hx => Or.inl (mem_moveNodes hx)⟩

theorem edit_swapNodes (tag : String) (xs cs : List Xml) (i j : Nat)
    (hi : ∀ hi : i < cs.length, cs[i].tag = tag) (hj : ∀ hj : j < cs.length, cs[j].tag = tag) :
    Edit tag xs cs (swapNodes cs i j) :=
  ⟨filter_swapNodes_of_false _ cs i j (fun h => nq_of_tag (hi h)) (fun h => nq_of_tag (hj h)),
   fun _ hx => Or.inl (mem_swapNodes hx)⟩

/-! ### lookups return children with the tag -/

theorem locate_tag {tag : String} {cs : List Xml} {id : Key} {i : Nat}
    (hl : locate tag cs id = some i) : ∀ hi : i < cs.length, cs[i].tag = tag := by
  intro hi
  obtain ⟨k, _, _, hc, _⟩ := locate_some hl
  simp only [isChild, Bool.and_eq_true, beq_iff_eq] at hc
  exact hc.1

/-! ### the loops and lookups + edit -/

theorem edit_deleteLoop (tag : String) (xs : List Xml) (w : Warn) (mid : Option PyExc)
    (cs : List Xml) (ids : List Key) (ws : List Warn) :
    Edit tag xs cs (deleteLoop tag w mid cs ids ws).kids := by
  induction ids generalizing cs ws with
  | nil => exact Edit.refl _ _ _
  | cons id ids ih =>
    unfold deleteLoop
    rw [findChildId_ok tag cs id]
    cases hl : locate tag cs id with
    | none =>
      simp only
      cases mid with
      | some e => exact Edit.refl _ _ _
      | none => exact ih cs _
    | some i =>
      simp only
      exact (edit_eraseIdx tag xs cs i (locate_tag hl)).trans
        (ih (cs.eraseIdx i) ws)

theorem edit_insertDedup (tag : String) (xs : List Xml) (mid : Option PyExc) (ex : List Key)
    (cs : List Xml) (i : Nat) (ss : List Xml) (ws : List Warn)
    (ht : ∀ y ∈ ss, y.tag = tag) (hs : ∀ y ∈ ss, y ∈ xs) :
    Edit tag xs cs (insertDedup mid ex cs i ss ws).kids := by
  induction ss generalizing cs i ws with
  | nil => exact Edit.refl _ _ _
  | cons s ss ih =>
    have ht' : ∀ y ∈ ss, y.tag = tag := fun y hy => ht y (List.mem_cons_of_mem _ hy)
    have hs' : ∀ y ∈ ss, y ∈ xs := fun y hy => hs y (List.mem_cons_of_mem _ hy)
    unfold insertDedup
    split
    · cases mid with
      | some e => exact Edit.refl _ _ _
      | none => exact ih cs i _ ht' hs'
    · exact (edit_pyInsert tag xs cs i s (ht s List.mem_cons_self) (hs s List.mem_cons_self)).trans
        (ih _ _ _ ht' hs')

theorem edit_moveMany (tag : String) (xs : List Xml) (mid : Option PyExc) (cs : List Xml)
    (t : Key) (ss : List Key) :
    Edit tag xs cs (moveMany tag mid cs t ss).kids := by
  unfold moveMany
  split
  · exact Edit.refl _ _ _
  · rename_i target _
    split
    · exact Edit.refl _ _ _
    · rename_i idxs hc
      apply edit_moveNodes
      intro i hi
      rcases collectSources_mem tag mid cs target ss [] idxs hc i hi with h1 | ⟨id, _, hl⟩
      · cases h1
      · exact locate_tag hl

theorem edit_swapTwo (tag : String) (xs : List Xml) (mid : Option PyExc) (cs : List Xml)
    (ids : List Key) :
    Edit tag xs cs (swapTwo tag mid cs ids).kids := by
  unfold swapTwo
  split
  · exact Edit.refl _ _ _
  · rename_i a b _
    rw [findRequired_ok tag mid cs a, findRequired_ok tag mid cs b]
    cases hla : locate tag cs a with
    | none => exact Edit.refl _ _ _
    | some i =>
      simp only
      cases hlb : locate tag cs b with
      | none => exact Edit.refl _ _ _
      | some j => exact edit_swapNodes tag xs cs i j (locate_tag hla) (locate_tag hlb)

theorem edit_insertBefore (tag : String) (xs : List Xml) (mid : Option PyExc) (cs : List Xml)
    (t : Key) (ys : List Xml) (ht : ∀ y ∈ ys, y.tag = tag) (hs : ∀ y ∈ ys, y ∈ xs) :
    Edit tag xs cs (insertBefore tag mid cs t ys).kids := by
  unfold insertBefore
  split
  · exact Edit.refl _ _ _
  · exact edit_insertMany tag xs cs _ ys ht hs
  · exact edit_insertMany tag xs cs _ ys ht hs

end Mrm
