/-
  Mrm/Proofs/HistDom.lean — the history invariant implies the domain of C12.
-/
import Mrm.Spec.History
import Mrm.Proofs.Rc
import Mrm.Proofs.FloatAccepts

namespace Mrm

theorem rcOk_all {cs : List Xml} (h : rcOk cs = true) :
    ∀ c ∈ cs, c.tag = "story" → storyOk c = true := by
  unfold rcOk at h
  simp only [Bool.and_eq_true, List.all_eq_true, Bool.or_eq_true, bne_iff_ne, ne_eq] at h
  intro c hc ht
  rcases h.1 c hc with h' | h'
  · exact absurd ht h'
  · exact h'

theorem storyOk_parts {s : Xml} (h : storyOk s = true) :
    (s.find "storyID").isSome = true ∧ WfKids "item" s.kids = true ∧
      ∃ r, storyDuration s = .ok r := by
  unfold storyOk at h
  simp only [Bool.and_eq_true] at h
  refine ⟨h.1.1, h.1.2, ?_⟩
  cases hd : storyDuration s with
  | ok r => exact ⟨r, rfl⟩
  | error e => rw [hd] at h; simp at h

theorem storyOffsetsFrom_ok (ss : List Xml) (t : Nat) (h : ∀ s ∈ ss, storyOk s = true) :
    ∃ r, storyOffsetsFrom ss t = .ok r := by
  induction ss generalizing t with
  | nil => exact ⟨[], rfl⟩
  | cons s ss ih =>
    obtain ⟨_, _, d, hd⟩ := storyOk_parts (h s List.mem_cons_self)
    obtain ⟨r, hr⟩ := ih (t + d.getD 0) (fun x hx => h x (List.mem_cons_of_mem _ hx))
    refine ⟨t :: r, ?_⟩
    unfold storyOffsetsFrom
    simp only [hd, bind, Except.bind, hr, pure, Except.pure]

theorem histInv_dom (d : Xml) (h : HistInv d = true) : WfRO d = true ∧ TimingOk d = true := by
  unfold HistInv at h
  split at h
  · cases h
  · rename_i rc hrc
    have hall := rcOk_all h
    constructor
    · simp [WfRO, hrc]
    · unfold TimingOk
      simp only [hrc, Option.isNone_iff_eq_none]
      unfold storiesExc
      simp only
      split
      · rfl
      · rename_i hne
        have hstart : ∃ r, roStart rc = .ok r := by
          unfold rcOk at h
          simp only [Bool.and_eq_true] at h
          have h2 := h.2
          have hct : Xml.childText (some (Xml.node "roCreate" [] none none rc.kids)) "roEdStart" =
              Xml.childText (some rc) "roEdStart" := by
            simp [Xml.childText, Xml.find]
          rw [hct] at h2
          unfold roStart
          split
          · exact ⟨none, rfl⟩
          · rename_i t ht
            rw [ht] at h2
            simp only at h2
            obtain ⟨v, hv⟩ := Option.isSome_iff_exists.mp h2
            rw [hv]; exact ⟨some v, rfl⟩
        obtain ⟨r, hr⟩ := hstart
        rw [hr]
        simp only
        have hss : ∀ s ∈ rc.findall "story", storyOk s = true := by
          intro s hs
          simp only [Xml.findall, List.mem_filter, beq_iff_eq] at hs
          exact hall s hs.1 hs.2
        obtain ⟨r2, hr2⟩ := storyOffsetsFrom_ok (rc.findall "story") 0 hss
        exact storyOffsetsFrom_ok_exc _ 0 r2 hr2

end Mrm
