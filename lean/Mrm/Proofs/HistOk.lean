/-
  Mrm/Proofs/HistOk.lean — `rcOk` / `storyOk` are kept by edits whose payload is well-formed.
-/
import Mrm.Proofs.HistKinds
import Mrm.Proofs.HistDom

namespace Mrm

/-! ### lookups by a tag the edit does not touch -/

theorem find_of_filter_ne {tag t : String} {l l' : List Xml} (hne : t ≠ tag)
    (h : l'.filter (fun c => c.tag != tag) = l.filter (fun c => c.tag != tag)) :
    l'.find? (fun c => c.tag == t) = l.find? (fun c => c.tag == t) := by
  have key : ∀ l : List Xml, l.find? (fun c => c.tag == t) =
      (l.filter (fun c => c.tag != tag)).find? (fun c => c.tag == t) := by
    intro l
    rw [List.find?_filter]
    congr 1
    funext a
    by_cases ha : a.tag = t
    · simp [ha, hne]
    · simp [ha]
  rw [key l', key l, h]

/-! ### `rcOk` as two facts -/

def startOk (cs : List Xml) : Prop :=
  ∀ e t, cs.find? (fun c => c.tag == "roEdStart") = some e → e.text = some t → (parseTime t).isSome = true

theorem rcOk_iff (cs : List Xml) :
    rcOk cs = true ↔ (∀ c ∈ cs, c.tag = "story" → storyOk c = true) ∧ startOk cs := by
  unfold rcOk startOk
  simp only [Bool.and_eq_true, List.all_eq_true, Bool.or_eq_true, bne_iff_ne, ne_eq,
    Xml.childText, Option.bind_some, Xml.find, Xml.kids_node]
  constructor
  · rintro ⟨h1, h2⟩
    refine ⟨fun c hc ht => ?_, ?_⟩
    · rcases h1 c hc with h | h
      · exact absurd ht h
      · exact h
    · intro e t he ht
      rw [he] at h2
      simp only [Option.bind_some, ht] at h2
      exact h2
  · rintro ⟨h1, h2⟩
    refine ⟨fun c hc => ?_, ?_⟩
    · by_cases ht : c.tag = "story"
      · exact Or.inr (h1 c hc ht)
      · exact Or.inl ht
    · cases he : cs.find? (fun c => c.tag == "roEdStart") with
      | none => simp
      | some e =>
        cases ht : e.text with
        | none => simp [ht]
        | some t => simpa [ht] using h2 e t he ht

theorem startOk_congr {cs cs' : List Xml}
    (h : cs'.find? (fun c => c.tag == "roEdStart") = cs.find? (fun c => c.tag == "roEdStart"))
    (hs : startOk cs) : startOk cs' := by
  unfold startOk at *
  rw [h]; exact hs

/-! ### story-level edits keep `rcOk` -/

theorem rcOk_of_edit {xs cs cs' : List Xml} (h : rcOk cs = true) (he : Edit "story" xs cs cs')
    (hx : ∀ x ∈ xs, storyOk x = true) : rcOk cs' = true := by
  rw [rcOk_iff] at h ⊢
  refine ⟨?_, startOk_congr (find_of_filter_ne (by decide) he.1) h.2⟩
  intro c hc ht
  rcases he.2 c hc with h' | h'
  · exact h.1 c h' ht
  · exact hx c h'

/-! ### item-level edits keep `storyOk` -/

theorem storyDuration_congr {s s' : Xml}
    (h : s'.find "mosExternalMetadata" = s.find "mosExternalMetadata") :
    storyDuration s' = storyDuration s := by
  unfold storyDuration payloadOf
  rw [h]

theorem storyOk_of_edit {ys ks' : List Xml} {s : Xml} (h : storyOk s = true)
    (he : Edit "item" ys s.kids ks') (hy : ∀ y ∈ ys, (y.find "itemID").isSome = true) :
    storyOk (s.withKids ks') = true := by
  obtain ⟨h1, h2, r, h3⟩ := storyOk_parts h
  unfold storyOk
  have hid : (s.withKids ks').find "storyID" = s.find "storyID" := by
    unfold Xml.find
    exact find_of_filter_ne (by decide) he.1
  have hmd : (s.withKids ks').find "mosExternalMetadata" = s.find "mosExternalMetadata" := by
    unfold Xml.find
    exact find_of_filter_ne (by decide) he.1
  rw [hid, h1, storyDuration_congr hmd, h3]
  simp only [Xml.withKids_kids, Bool.true_and, Bool.and_true]
  unfold WfKids at h2 ⊢
  rw [List.all_eq_true] at h2 ⊢
  intro c hc
  rcases he.2 c hc with h' | h'
  · exact h2 c h'
  · simp [hy c h']

theorem rcOk_set {cs : List Xml} {j : Nat} {s s' : Xml} (h : rcOk cs = true)
    (hget : cs[j]? = some s) (ht : s.tag = "story") (ht' : s'.tag = "story")
    (hs' : storyOk s' = true) : rcOk (cs.set j s') = true := by
  rw [rcOk_iff] at h ⊢
  obtain ⟨hj, hsj⟩ := List.getElem?_eq_some_iff.mp hget
  constructor
  · intro c hc hct
    rcases List.mem_or_eq_of_mem_set hc with h' | h'
    · exact h.1 c h' hct
    · rw [h']; exact hs'
  · apply startOk_congr _ h.2
    apply find_of_filter_ne (tag := "story") (by decide)
    apply filter_set_of_false
    · intro hi; rw [hsj]; simp [ht]
    · simp [ht']

theorem rcOk_of_itemEdit {ys cs cs' : List Xml} (h : rcOk cs = true) (he : ItemEdit ys cs cs')
    (hy : ∀ y ∈ ys, (y.find "itemID").isSome = true) : rcOk cs' = true := by
  rcases he with rfl | ⟨j, s, ks', hget, ht, rfl, hed⟩
  · exact h
  · apply rcOk_set h hget ht (by simpa using ht)
    apply storyOk_of_edit _ hed hy
    exact rcOk_all h s (List.mem_of_getElem? hget) ht

end Mrm
