/-
  Mrm/Proofs/Loops.lean — closed forms of the merge loops on a well-formed child list with
  unique non-blank IDs: effect on the key sequence and on the non-keyed children.
-/
import Mrm.Proofs.Ops

set_option linter.unusedSimpArgs false

namespace Mrm

/-- a child list on which the lookups behave: the non-blank IDs of the `tag` children are unique
    (blank or missing IDs may occur any number of times: no lookup finds them) -/
structure Good (tag : String) (cs : List Xml) : Prop where
  nd : SomeNodup (keysOf tag cs)

/-- the outcome has no error, the given key sequence, and the same non-`tag` children -/
def Eff (tag : String) (cs : List Xml) (o : Out) (newkeys : List Key) : Prop :=
  o.err = none ∧ keysOf tag o.kids = newkeys ∧ nk (kt tag) o.kids = nk (kt tag) cs

theorem Good.nd' {tag : String} {cs : List Xml} (g : Good tag cs) : SomeNodup (ks (kt tag) cs) := by
  rw [← keysOf_eq_ks]; exact g.nd

theorem deleteLoop_eff (tag : String) (w : Warn) (ids : List Key) :
    ∀ (cs : List Xml) (ws : List Warn), Good tag cs →
      Eff tag cs (deleteLoop tag w none cs ids ws)
        ((keysOf tag cs).filter (fun x => !(x.isSome && ids.contains x))) := by
  induction ids with
  | nil =>
    intro cs ws g
    refine ⟨rfl, ?_, rfl⟩
    simp only [deleteLoop]
    symm; rw [List.filter_eq_self]; intro x _; simp
  | cons id ids ih =>
    intro cs ws g
    unfold deleteLoop
    rw [findChildId_ok tag cs id]
    by_cases hm : id.isSome = true ∧ id ∈ keysOf tag cs
    · obtain ⟨hsm, hm⟩ := hm
      rw [locate_of_mem hm hsm]
      simp only
      have hm' : id ∈ ks (kt tag) cs := by rw [← keysOf_eq_ks]; exact hm
      obtain ⟨e1, e2⟩ := eraseIdx_idx (kt tag) g.nd' hm' hsm
      rw [← keysOf_eq_ks, ← keysOf_eq_ks] at e1
      have g' : Good tag (cs.eraseIdx (idx (kt tag) cs id)) := by
        refine ⟨?_⟩
        rw [e1]; exact g.nd.sublist List.filter_sublist
      obtain ⟨h1, h2, h3⟩ := ih _ ws g'
      refine ⟨h1, ?_, h3.trans e2⟩
      rw [h2, e1, List.filter_filter]
      apply List.filter_congr
      intro x _
      by_cases hx : x = id
      · subst hx; simp [List.contains_cons, hsm]
      · simp [List.contains_cons, hx]
    · have hloc : locate tag cs id = none := by
        cases id with
        | none => rfl
        | some k => exact locate_of_not_mem (fun h => hm ⟨rfl, h⟩)
      rw [hloc]
      simp only
      obtain ⟨h1, h2, h3⟩ := ih cs (ws ++ [w]) g
      refine ⟨h1, ?_, h3⟩
      rw [h2]
      apply List.filter_congr
      intro x hx
      by_cases hxs : x.isSome = true
      · have : x ≠ id := by intro e; subst e; exact hm ⟨hxs, hx⟩
        simp [List.contains_cons, this]
      · simp [hxs]

/-! ### lookups of present keys -/

theorem findChildId_mem {tag : String} {cs : List Xml} {id : Key}
    (h : id ∈ keysOf tag cs) (hs : id.isSome = true) :
    findChildId cs tag id = .ok (some (idx (kt tag) cs id)) := by
  rw [findChildId_ok tag cs id, locate_of_mem h hs]

theorem findRequired_mem {tag : String} {cs : List Xml} (mid : Option PyExc)
    {id : Key} (h : id ∈ keysOf tag cs) (hs : id.isSome = true) :
    findRequired tag mid cs id = .ok (idx (kt tag) cs id) := by
  rw [findRequired_ok tag mid cs id, locate_of_mem h hs]

theorem findTarget_mem {tag : String} {cs : List Xml} (mid : Option PyExc)
    {id : Key} (h : id ∈ keysOf tag cs) (hs : id.isSome = true) :
    findTarget tag mid cs id = .ok (some (idx (kt tag) cs id)) := by
  rw [findTarget_ok tag mid cs id]
  cases id with
  | none => cases hs
  | some k => simp only [locate_of_mem h hs]

theorem idx_inj {α : Type} (kt : α → Option Key) {cs : List α} {s t : Key} (hs : s ∈ ks kt cs)
    (ht : t ∈ ks kt cs) (h : idx kt cs s = idx kt cs t) : s = t := by
  obtain ⟨_, h2⟩ := idx_spec kt hs
  obtain ⟨_, h4⟩ := idx_spec kt ht
  have e : kt cs[idx kt cs s] = kt cs[idx kt cs t] := by simp only [h]
  rw [h2, h4] at e; exact Option.some.inj e

/-! ### carried elements -/

theorem ks_tagged {tag : String} {xs : List Xml} (hx : ∀ x ∈ xs, x.tag = tag) :
    ks (kt tag) xs = xs.map (keyOf tag) := by
  induction xs with
  | nil => rfl
  | cons x xs ih =>
    rw [ks_cons_some (kt tag) (kt_of_tag (hx x List.mem_cons_self))]
    rw [ih (fun y hy => hx y (List.mem_cons_of_mem _ hy))]; rfl

theorem keyed_tagged {tag : String} {xs : List Xml} (hx : ∀ x ∈ xs, x.tag = tag) :
    ∀ x ∈ xs, (kt tag x).isSome = true := by
  intro x h; rw [kt_of_tag (hx x h)]; rfl

theorem findall_tagged (x : Xml) (tag : String) : ∀ y ∈ x.findall tag, y.tag = tag := by
  intro y hy
  simp only [Xml.findall, List.mem_filter] at hy
  simpa using hy.2

/-! ### insertion -/

theorem insertDedup_closed_o (ex : List (Option String)) (ss : List Xml) :
    ∀ (cs : List Xml) (i : Nat) (ws : List Warn),
      (insertDedup none ex cs i ss ws).err = none ∧
      (insertDedup none ex cs i ss ws).kids =
        insertMany cs i (ss.filter (fun s => !ex.contains (elemId (some s) "storyID"))) := by
  induction ss with
  | nil => intro cs i ws; simp [insertDedup, insertMany]
  | cons s ss ih =>
    intro cs i ws
    unfold insertDedup
    by_cases h : ex.contains (elemId (some s) "storyID") = true
    · simp only [h, if_true, List.filter_cons, Bool.not_true, Bool.false_eq_true, if_false]
      exact ih cs i _
    · simp only [Bool.not_eq_true] at h
      simp only [h, Bool.false_eq_true, if_false, List.filter_cons, Bool.not_false, if_true, insertMany]
      exact ih _ _ _

theorem insertBefore_eff {tag : String} {cs : List Xml} (t : Key) (xs : List Xml)
    (hx : ∀ x ∈ xs, x.tag = tag) (ht : t.isSome = true → t ∈ keysOf tag cs) :
    Eff tag cs (insertBefore tag none cs t xs)
      (insBefore (endIfBlank t) (xs.map (keyOf tag)) (keysOf tag cs)) := by
  unfold insertBefore
  cases t with
  | none =>
    simp only [findTarget, insertMany_eq_insertAt, endIfBlank]
    obtain ⟨e1, e2⟩ := insertAt_end (kt tag) cs xs (keyed_tagged hx)
    refine ⟨rfl, ?_, e2⟩
    rw [keysOf_eq_ks, keysOf_eq_ks, e1, ks_tagged hx]
  | some k =>
    have ht := ht rfl
    rw [findTarget_mem none ht rfl]
    simp only [insertMany_eq_insertAt]
    have ht' : some k ∈ ks (kt tag) cs := by rw [← keysOf_eq_ks]; exact ht
    obtain ⟨e1, e2⟩ := insertAt_idx (kt tag) ht' xs (keyed_tagged hx)
    refine ⟨rfl, ?_, e2⟩
    rw [keysOf_eq_ks, keysOf_eq_ks, e1, ks_tagged hx]; rfl

theorem replaceAt_eff {tag : String} {cs : List Xml} (t : Key) (xs : List Xml)
    (hx : ∀ x ∈ xs, x.tag = tag) (ht : t ∈ keysOf tag cs) :
    Eff tag cs ⟨replaceAt cs (idx (kt tag) cs t) xs, [], none⟩
      (replaceKey t (xs.map (keyOf tag)) (keysOf tag cs)) := by
  have ht' : t ∈ ks (kt tag) cs := by rw [← keysOf_eq_ks]; exact ht
  obtain ⟨e1, e2⟩ := replace_idx (kt tag) ht' xs (keyed_tagged hx)
  unfold replaceAt
  rw [insertMany_eq_insertAt]
  refine ⟨rfl, ?_, e2⟩
  rw [keysOf_eq_ks, keysOf_eq_ks, e1, ks_tagged hx]

/-! ### moves and swaps -/

theorem collectSources_closed {tag : String} {cs : List Xml} (_g : Good tag cs) (mid : Option PyExc)
    (target : Option Nat) (sources : List Key) :
    ∀ (pre : List Key), (∀ s ∈ pre ++ sources, s ∈ keysOf tag cs ∧ s.isSome = true) →
      (pre ++ sources).Nodup →
      (∀ s ∈ sources, target ≠ some (idx (kt tag) cs s)) →
      collectSources tag mid cs target sources (pre.map (idx (kt tag) cs)) =
        .ok ((pre ++ sources).map (idx (kt tag) cs)) := by
  induction sources with
  | nil => intro pre _ _ _; simp [collectSources]
  | cons s ss ih =>
    intro pre hmem hnd htgt
    unfold collectSources
    have hs : s ∈ keysOf tag cs := (hmem s (by simp)).1
    rw [findChildId_mem hs (hmem s (by simp)).2]
    simp only
    have h1 : (target == some (idx (kt tag) cs s)) = false := by
      have := htgt s List.mem_cons_self
      simpa using this
    have h2 : (pre.map (idx (kt tag) cs)).contains (idx (kt tag) cs s) = false := by
      rw [Bool.eq_false_iff]
      intro hc
      simp only [List.contains_eq_mem, List.mem_map, decide_eq_true_eq] at hc
      obtain ⟨p, hp, he⟩ := hc
      have hp' : p ∈ ks (kt tag) cs := by rw [← keysOf_eq_ks]; exact (hmem p (by simp [hp])).1
      have hs' : s ∈ ks (kt tag) cs := by rw [← keysOf_eq_ks]; exact hs
      have := idx_inj (kt tag) hp' hs' he
      subst this
      rw [List.nodup_append] at hnd
      exact hnd.2.2 p hp p List.mem_cons_self rfl
    simp only [h1, h2, Bool.or_self, Bool.false_eq_true, if_false]
    have := ih (pre ++ [s]) (by intro x hx; exact hmem x (by simpa using hx)) (by simpa using hnd)
      (fun x hx => htgt x (List.mem_cons_of_mem _ hx))
    simpa using this

theorem moveMany_eff {tag : String} {cs : List Xml} (g : Good tag cs) (t : Key) (sources : List Key)
    (ht : t.isSome = true → t ∈ keysOf tag cs) (hs : ∀ s ∈ sources, s ∈ keysOf tag cs)
    (hsm : ∀ s ∈ sources, s.isSome = true)
    (hn : sources.Nodup) (hts : t ∉ sources) :
    Eff tag cs (moveMany tag none cs t sources)
      (insBefore (endIfBlank t) sources ((keysOf tag cs).filter (fun x => !sources.contains x))) := by
  have hs' : ∀ s ∈ sources, s ∈ ks (kt tag) cs := by
    intro s h; rw [← keysOf_eq_ks]; exact hs s h
  have hboth : ∀ s ∈ [] ++ sources, s ∈ keysOf tag cs ∧ s.isSome = true := by
    intro s h; exact ⟨hs s (by simpa using h), hsm s (by simpa using h)⟩
  unfold moveMany
  cases t with
  | none =>
    simp only [findTarget]
    have := collectSources_closed g none none sources [] hboth (by simpa using hn)
      (by intro s _ h; cases h)
    simp only [List.map_nil, List.nil_append] at this
    rw [this]
    simp only
    refine ⟨rfl, ?_, moveNodes_nk (kt tag) g.nd' hs' hsm none⟩
    rw [keysOf_eq_ks, keysOf_eq_ks, moveNodes_keys_end (kt tag) g.nd' hs' hsm]
    rfl
  | some k =>
    have ht := ht rfl
    rw [findTarget_mem none ht rfl]
    simp only
    have ht' : some k ∈ ks (kt tag) cs := by rw [← keysOf_eq_ks]; exact ht
    have := collectSources_closed g none (some (idx (kt tag) cs (some k))) sources [] hboth
      (by simpa using hn)
      (by
        intro s hs1 h
        have := idx_inj (kt tag) ht' (hs' s hs1) (Option.some.inj h)
        subst this; exact hts hs1)
    simp only [List.map_nil, List.nil_append] at this
    rw [this]
    simp only
    refine ⟨rfl, ?_, moveNodes_nk (kt tag) g.nd' hs' hsm (some (idx (kt tag) cs (some k)))⟩
    rw [keysOf_eq_ks, keysOf_eq_ks, moveNodes_keys (kt tag) g.nd' hs' hsm ht' rfl hts]
    rfl

theorem swapTwo_eff {tag : String} {cs : List Xml} (g : Good tag cs) (a b : Key)
    (ha : a ∈ keysOf tag cs) (hb : b ∈ keysOf tag cs) (hsa : a.isSome = true) (hsb : b.isSome = true) :
    Eff tag cs (swapTwo tag none cs [a, b]) (swapKeys a b (keysOf tag cs)) := by
  unfold swapTwo
  simp only [unpack2, findRequired_mem none ha hsa, findRequired_mem none hb hsb]
  have ha' : a ∈ ks (kt tag) cs := by rw [← keysOf_eq_ks]; exact ha
  have hb' : b ∈ ks (kt tag) cs := by rw [← keysOf_eq_ks]; exact hb
  obtain ⟨e1, e2⟩ := swap_idx (kt tag) g.nd' ha' hb' hsa hsb
  refine ⟨rfl, ?_, e2⟩
  rw [keysOf_eq_ks, keysOf_eq_ks, e1]

end Mrm
