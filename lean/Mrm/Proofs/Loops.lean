/-
  Mrm/Proofs/Loops.lean — closed forms of the merge loops on a well-formed child list with
  unique non-blank IDs: effect on the key sequence and on the non-keyed children.
-/
import Mrm.Proofs.Ops

set_option linter.unusedSimpArgs false

namespace Mrm

/-- a child list on which the lookups behave: the IDs of the `tag` children are non-blank and unique -/
structure Good (tag : String) (cs : List Xml) : Prop where
  nd : (keysOf tag cs).Nodup
  sm : ∀ x ∈ keysOf tag cs, x.isSome = true

/-- the outcome has no error, the given key sequence, and the same non-`tag` children -/
def Eff (tag : String) (cs : List Xml) (o : Out) (newkeys : List Key) : Prop :=
  o.err = none ∧ keysOf tag o.kids = newkeys ∧ nk (kt tag) o.kids = nk (kt tag) cs

theorem Good.locate_mem {tag : String} {cs : List Xml} (g : Good tag cs) {id : Key}
    (h : id ∈ keysOf tag cs) : locate tag cs id = some (idx (kt tag) cs id) :=
  locate_of_mem h (g.sm id h)

theorem Good.nd' {tag : String} {cs : List Xml} (g : Good tag cs) : (ks (kt tag) cs).Nodup := by
  rw [← keysOf_eq_ks]; exact g.nd

theorem deleteLoop_eff (tag : String) (w : Warn) (ids : List Key) :
    ∀ (cs : List Xml) (ws : List Warn), Good tag cs →
      Eff tag cs (deleteLoop tag w none cs ids ws)
        ((keysOf tag cs).filter (fun x => !ids.contains x)) := by
  induction ids with
  | nil =>
    intro cs ws g
    refine ⟨rfl, ?_, rfl⟩
    simp only [deleteLoop]
    symm; rw [List.filter_eq_self]; intro x _; simp
  | cons id ids ih =>
    intro cs ws g
    unfold deleteLoop
    rw [findChildId_ok tag cs id]
    by_cases hm : id ∈ keysOf tag cs
    · rw [g.locate_mem hm]
      simp only
      have hm' : id ∈ ks (kt tag) cs := by rw [← keysOf_eq_ks]; exact hm
      obtain ⟨e1, e2⟩ := eraseIdx_idx (kt tag) g.nd' hm'
      rw [← keysOf_eq_ks, ← keysOf_eq_ks] at e1
      have g' : Good tag (cs.eraseIdx (idx (kt tag) cs id)) := by
        refine ⟨?_, ?_⟩
        · rw [e1]; exact g.nd.sublist List.filter_sublist
        · rw [e1]; intro x hx; exact g.sm x (List.mem_filter.mp hx).1
      obtain ⟨h1, h2, h3⟩ := ih _ ws g'
      refine ⟨h1, ?_, h3.trans e2⟩
      rw [h2, e1, List.filter_filter]
      apply List.filter_congr
      intro x _
      by_cases hx : x = id <;> simp [List.contains_cons, hx]
    · rw [locate_of_not_mem hm]
      simp only
      obtain ⟨h1, h2, h3⟩ := ih cs (ws ++ [w]) g
      refine ⟨h1, ?_, h3⟩
      rw [h2]
      apply List.filter_congr
      intro x hx
      have : x ≠ id := by intro e; subst e; exact hm hx
      simp [List.contains_cons, this]

/-! ### lookups of present keys -/

theorem Good.findChildId_mem {tag : String} {cs : List Xml} (g : Good tag cs) {id : Key}
    (h : id ∈ keysOf tag cs) : findChildId cs tag id = .ok (some (idx (kt tag) cs id)) := by
  rw [findChildId_ok tag cs id, g.locate_mem h]

theorem Good.findRequired_mem {tag : String} {cs : List Xml} (g : Good tag cs) (mid : Option PyExc)
    {id : Key} (h : id ∈ keysOf tag cs) : findRequired tag mid cs id = .ok (idx (kt tag) cs id) := by
  rw [findRequired_ok tag mid cs id, g.locate_mem h]

theorem Good.findTarget_mem {tag : String} {cs : List Xml} (g : Good tag cs) (mid : Option PyExc)
    {id : Key} (h : id ∈ keysOf tag cs) : findTarget tag mid cs id = .ok (some (idx (kt tag) cs id)) := by
  rw [findTarget_ok tag mid cs id]
  have hs := g.sm id h
  cases id with
  | none => cases hs
  | some k => simp only [g.locate_mem h]

theorem idx_inj {α : Type} (kt : α → Option Key) {cs : List α} {s t : Key} (hs : s ∈ ks kt cs)
    (ht : t ∈ ks kt cs) (h : idx kt cs s = idx kt cs t) : s = t := by
  obtain ⟨_, h2⟩ := idx_spec kt hs
  obtain ⟨_, h4⟩ := idx_spec kt ht
  have e : kt cs[idx kt cs s] = kt cs[idx kt cs t] := by simp only [h]
  rw [h2, h4] at e; exact Option.some.inj e

/-! ### carried elements -/

theorem ks_tagged {tag : String} {xs : List Xml} (hx : ∀ x ∈ xs, x.tag = tag) :
    ks (kt tag) xs = xs.map (keyOf tag) := by
  induction xs with
  | nil => rfl
  | cons x xs ih =>
    rw [ks_cons_some (kt tag) (kt_of_tag (hx x List.mem_cons_self))]
    rw [ih (fun y hy => hx y (List.mem_cons_of_mem _ hy))]; rfl

theorem keyed_tagged {tag : String} {xs : List Xml} (hx : ∀ x ∈ xs, x.tag = tag) :
    ∀ x ∈ xs, (kt tag x).isSome = true := by
  intro x h; rw [kt_of_tag (hx x h)]; rfl

theorem findall_tagged (x : Xml) (tag : String) : ∀ y ∈ x.findall tag, y.tag = tag := by
  intro y hy
  simp only [Xml.findall, List.mem_filter] at hy
  simpa using hy.2

/-! ### insertion -/

theorem insertDedup_closed_o (ex : List (Option String)) (ss : List Xml) :
    ∀ (cs : List Xml) (i : Nat) (ws : List Warn),
      (insertDedup none ex cs i ss ws).err = none ∧
      (insertDedup none ex cs i ss ws).kids =
        insertMany cs i (ss.filter (fun s => !ex.contains (elemId (some s) "storyID"))) := by
  induction ss with
  | nil => intro cs i ws; simp [insertDedup, insertMany]
  | cons s ss ih =>
    intro cs i ws
    unfold insertDedup
    by_cases h : ex.contains (elemId (some s) "storyID") = true
    · simp only [h, if_true, List.filter_cons, Bool.not_true, Bool.false_eq_true, if_false]
      exact ih cs i _
    · simp only [Bool.not_eq_true] at h
      simp only [h, Bool.false_eq_true, if_false, List.filter_cons, Bool.not_false, if_true, insertMany]
      exact ih _ _ _

theorem insertBefore_eff {tag : String} {cs : List Xml} (g : Good tag cs) (t : Key) (xs : List Xml)
    (hx : ∀ x ∈ xs, x.tag = tag) (ht : t = none ∨ t ∈ keysOf tag cs) :
    Eff tag cs (insertBefore tag none cs t xs)
      (insBefore (endIfBlank t) (xs.map (keyOf tag)) (keysOf tag cs)) := by
  unfold insertBefore
  rcases ht with rfl | ht
  · simp only [findTarget, insertMany_eq_insertAt, endIfBlank]
    obtain ⟨e1, e2⟩ := insertAt_end (kt tag) cs xs (keyed_tagged hx)
    refine ⟨rfl, ?_, e2⟩
    rw [keysOf_eq_ks, keysOf_eq_ks, e1, ks_tagged hx]
  · rw [g.findTarget_mem none ht]
    simp only [insertMany_eq_insertAt]
    have ht' : t ∈ ks (kt tag) cs := by rw [← keysOf_eq_ks]; exact ht
    obtain ⟨e1, e2⟩ := insertAt_idx (kt tag) ht' xs (keyed_tagged hx)
    refine ⟨rfl, ?_, e2⟩
    have hs := g.sm t ht
    cases t with
    | none => cases hs
    | some k => rw [keysOf_eq_ks, keysOf_eq_ks, e1, ks_tagged hx]; rfl

theorem replaceAt_eff {tag : String} {cs : List Xml} (t : Key) (xs : List Xml)
    (hx : ∀ x ∈ xs, x.tag = tag) (ht : t ∈ keysOf tag cs) :
    Eff tag cs ⟨replaceAt cs (idx (kt tag) cs t) xs, [], none⟩
      (replaceKey t (xs.map (keyOf tag)) (keysOf tag cs)) := by
  have ht' : t ∈ ks (kt tag) cs := by rw [← keysOf_eq_ks]; exact ht
  obtain ⟨e1, e2⟩ := replace_idx (kt tag) ht' xs (keyed_tagged hx)
  unfold replaceAt
  rw [insertMany_eq_insertAt]
  refine ⟨rfl, ?_, e2⟩
  rw [keysOf_eq_ks, keysOf_eq_ks, e1, ks_tagged hx]

/-! ### moves and swaps -/

theorem collectSources_closed {tag : String} {cs : List Xml} (g : Good tag cs) (mid : Option PyExc)
    (target : Option Nat) (sources : List Key) :
    ∀ (pre : List Key), (∀ s ∈ pre ++ sources, s ∈ keysOf tag cs) → (pre ++ sources).Nodup →
      (∀ s ∈ sources, target ≠ some (idx (kt tag) cs s)) →
      collectSources tag mid cs target sources (pre.map (idx (kt tag) cs)) =
        .ok ((pre ++ sources).map (idx (kt tag) cs)) := by
  induction sources with
  | nil => intro pre _ _ _; simp [collectSources]
  | cons s ss ih =>
    intro pre hmem hnd htgt
    unfold collectSources
    have hs : s ∈ keysOf tag cs := hmem s (by simp)
    rw [g.findChildId_mem hs]
    simp only
    have h1 : (target == some (idx (kt tag) cs s)) = false := by
      have := htgt s List.mem_cons_self
      simpa using this
    have h2 : (pre.map (idx (kt tag) cs)).contains (idx (kt tag) cs s) = false := by
      rw [Bool.eq_false_iff]
      intro hc
      simp only [List.contains_eq_mem, List.mem_map, decide_eq_true_eq] at hc
      obtain ⟨p, hp, he⟩ := hc
      have hp' : p ∈ ks (kt tag) cs := by rw [← keysOf_eq_ks]; exact hmem p (by simp [hp])
      have hs' : s ∈ ks (kt tag) cs := by rw [← keysOf_eq_ks]; exact hs
      have := idx_inj (kt tag) hp' hs' he
      subst this
      rw [List.nodup_append] at hnd
      exact hnd.2.2 p hp p List.mem_cons_self rfl
    simp only [h1, h2, Bool.or_self, Bool.false_eq_true, if_false]
    have := ih (pre ++ [s]) (by simpa using hmem) (by simpa using hnd)
      (fun x hx => htgt x (List.mem_cons_of_mem _ hx))
    simpa using this

theorem moveMany_eff {tag : String} {cs : List Xml} (g : Good tag cs) (t : Key) (sources : List Key)
    (ht : t = none ∨ t ∈ keysOf tag cs) (hs : ∀ s ∈ sources, s ∈ keysOf tag cs)
    (hn : sources.Nodup) (hts : t ∉ sources) :
    Eff tag cs (moveMany tag none cs t sources)
      (insBefore (endIfBlank t) sources ((keysOf tag cs).filter (fun x => !sources.contains x))) := by
  have hs' : ∀ s ∈ sources, s ∈ ks (kt tag) cs := by
    intro s h; rw [← keysOf_eq_ks]; exact hs s h
  unfold moveMany
  rcases ht with rfl | ht
  · simp only [findTarget]
    have := collectSources_closed g none none sources [] (by simpa using hs) (by simpa using hn)
      (by intro s _ h; cases h)
    simp only [List.map_nil, List.nil_append] at this
    rw [this]
    simp only
    refine ⟨rfl, ?_, moveNodes_nk (kt tag) g.nd' hs' none⟩
    rw [keysOf_eq_ks, keysOf_eq_ks, moveNodes_keys_end (kt tag) g.nd' hs']
    rfl
  · rw [g.findTarget_mem none ht]
    simp only
    have ht' : t ∈ ks (kt tag) cs := by rw [← keysOf_eq_ks]; exact ht
    have := collectSources_closed g none (some (idx (kt tag) cs t)) sources []
      (by simpa using hs) (by simpa using hn)
      (by
        intro s hs1 h
        have := idx_inj (kt tag) ht' (hs' s hs1) (Option.some.inj h)
        subst this; exact hts hs1)
    simp only [List.map_nil, List.nil_append] at this
    rw [this]
    simp only
    refine ⟨rfl, ?_, moveNodes_nk (kt tag) g.nd' hs' (some (idx (kt tag) cs t))⟩
    rw [keysOf_eq_ks, keysOf_eq_ks, moveNodes_keys (kt tag) g.nd' hs' ht' hts]
    have hsm := g.sm t ht
    cases t with
    | none => cases hsm
    | some k => rfl

theorem swapTwo_eff {tag : String} {cs : List Xml} (g : Good tag cs) (a b : Key)
    (ha : a ∈ keysOf tag cs) (hb : b ∈ keysOf tag cs) :
    Eff tag cs (swapTwo tag none cs [a, b]) (swapKeys a b (keysOf tag cs)) := by
  unfold swapTwo
  simp only [unpack2, g.findRequired_mem none ha, g.findRequired_mem none hb]
  have ha' : a ∈ ks (kt tag) cs := by rw [← keysOf_eq_ks]; exact ha
  have hb' : b ∈ ks (kt tag) cs := by rw [← keysOf_eq_ks]; exact hb
  obtain ⟨e1, e2⟩ := swap_idx (kt tag) g.nd' ha' hb'
  refine ⟨rfl, ?_, e2⟩
  rw [keysOf_eq_ks, keysOf_eq_ks, e1]

end Mrm
