/-
  Mrm/Proofs/Classify.lean — facts about `classify`.
-/
import Mrm.Model.Classify
import Mrm.Spec.Merge

namespace Mrm

theorem eaTable_baseTag {p : (String × Bool × Bool) × Kind} (hp : p ∈ eaTable) : p.2.baseTag = "roElementAction" := by
  simp only [eaTable, List.mem_cons, List.not_mem_nil, or_false] at hp
  rcases hp with h | h | h | h | h | h | h | h | h | h <;> (subst h; rfl)

theorem classifyEA_baseTag {ea : Xml} {k : Kind} (h : classifyEA ea = .ok k) : k.baseTag = "roElementAction" := by
  unfold classifyEA at h
  cases hs : ea.find "element_source" with
  | none => simp [hs] at h
  | some src =>
    cases ho : ea.attr "operation" with
    | none => simp [hs, ho] at h
    | some op =>
      simp only [hs, ho] at h
      split at h
      · rename_i p hp
        cases h
        exact eaTable_baseTag (List.mem_of_find?_eq_some hp)
      · cases h

/-- generalised over the remaining table: a successful classification returns a class whose
    message element is a direct child of the root -/
theorem classifyWith_base (x : Xml) (tbl : List (String × Option Kind))
    (htbl : ∀ p ∈ tbl, match p.2 with | some k => k.baseTag = p.1 | none => p.1 = "roElementAction")
    {k : Kind} (h : classifyWith x tbl = .ok k) : (x.find k.baseTag).isSome = true := by
  induction tbl with
  | nil => simp [classifyWith] at h
  | cons p tbl ih =>
    obtain ⟨t, ko⟩ := p
    unfold classifyWith at h
    split at h
    · exact ih (fun q hq => htbl q (List.mem_cons_of_mem _ hq)) h
    · rename_i e he
      have hp := htbl (t, ko) List.mem_cons_self
      cases ko with
      | some k' =>
        simp only at h hp
        cases h
        rw [hp, he]; rfl
      | none =>
        simp only at h hp
        rw [classifyEA_baseTag h, ← hp, he]; rfl

theorem classify_base {m : Xml} {k : Kind} (h : classify m = .ok k) : (m.find k.baseTag).isSome = true := by
  apply classifyWith_base m tagTable _ h
  intro p hp
  simp only [tagTable, List.mem_cons, List.not_mem_nil, or_false] at hp
  rcases hp with h | h | h | h | h | h | h | h | h | h | h | h | h | h | h | h <;> (subst h; rfl)

/-- a document with a `roCreate` child of the root classifies as a RunningOrder, whatever else it
    contains (in particular a completion record) -/
theorem classify_of_rc {d : Xml} (h : (rcOf d).isSome = true) : classify d = .ok .RunningOrder := by
  obtain ⟨rc, hrc⟩ := Option.isSome_iff_exists.mp h
  unfold rcOf at hrc
  simp [classify, tagTable, classifyWith, hrc]

end Mrm
