/-
  Mrm/Proofs/SerializeP.lean — C14 targets: token round trip, escaping, envelope invariants.
-/
import Mrm.Model.Serialize
import Mrm.Model.Collection
import Mrm.Spec.Merge
import Mrm.Proofs.SerTok
import Mrm.Proofs.SerEsc
import Mrm.Proofs.SerEnv

namespace Mrm

/-! ### tokens -/

/-- the token stream of any tree reads back as that tree -/
theorem tokens_roundtrip (t : Xml) : parseTokens (tokens t) = some t :=
  tokens_roundtrip' t

/-! ### character data -/

/-- entity decoding inverts `_escape_cdata` for every string -/
theorem decode_escapeCdata (cs : List Char) : decodeEntities (escapeCdataL cs) = cs :=
  decode_escapeCdata' cs

/-- the reader's end-of-line normalisation leaves escaped text alone when it has no carriage return -/
theorem normalizeEol_escapeCdata (cs : List Char) (h : '\r' ∉ cs) : normalizeEol (escapeCdataL cs) = escapeCdataL cs :=
  normalizeEol_id _ (escapeCdataL_no_cr cs h)

/-- text and tails without U+000D survive the write/read cycle, markup-significant characters included -/
theorem cdata_roundtrip (cs : List Char) (h : '\r' ∉ cs) : unescapeL (escapeCdataL cs) = cs := by
  unfold unescapeL
  rw [normalizeEol_escapeCdata cs h, decode_escapeCdata]

/-- attribute values survive for every string: CR, LF and TAB are written as character references -/
theorem attr_roundtrip (cs : List Char) : unescapeL (escapeAttrL cs) = cs := by
  unfold unescapeL
  rw [normalizeEol_id _ (escapeAttrL_no_cr cs), decode_escapeAttr]

/-- the hypothesis `'\r' ∉ cs` is necessary: `_escape_cdata` writes U+000D raw and the reader
    normalises it to U+000A (the open known finding of C14) -/
theorem cdata_cr_counterexample : unescapeL (escapeCdataL "a\rb".toList) = "a\nb".toList := by
  decide

/-! ### envelope -/

theorem rootTags_set {d : Xml} {i : Nat} {rc y : Xml} (hget : d.kids[i]? = some rc)
    (ht : y.tag = rc.tag) : rootTags (d.withKids (d.kids.set i y)) = rootTags d := by
  unfold rootTags
  simp only [Xml.withKids_kids, List.map_set]
  apply List.ext_getElem?
  intro j
  by_cases hj : i = j
  · subst hj
    have hlt : i < d.kids.length := (List.getElem?_eq_some_iff.mp hget).1
    rw [List.getElem?_set_self (by simpa using hlt)]
    simp [hget, ht]
  · rw [List.getElem?_set_ne hj]

theorem find?_set_of_false {α : Type} (p : α → Bool) (l : List α) (i : Nat) (x y : α)
    (hget : l[i]? = some x) (hx : p x = false) (hy : p y = false) :
    (l.set i y).find? p = l.find? p := by
  induction l generalizing i with
  | nil => simp
  | cons a l ih =>
    cases i with
    | zero =>
      simp only [List.getElem?_cons_zero, Option.some.injEq] at hget
      subst hget
      simp [hx, hy]
    | succ i =>
      simp only [List.getElem?_cons_succ] at hget
      simp only [List.set_cons_succ, List.find?_cons, ih i hget]

/-- one merge step, for EVERY input: the root element itself and every root child that is not a
    `roCreate` stay where they are, unchanged; the list of root-child tags only ever grows by one
    `mosromgrmeta`, and only when a roDelete is merged into a running order that is not completed -/
theorem root_step (k : Kind) (d m : Xml) :
    (addK k d m).ro.tag = d.tag ∧ (addK k d m).ro.attrs = d.attrs ∧ (addK k d m).ro.text = d.text ∧
    (addK k d m).ro.tail = d.tail ∧
    (∀ (j : Nat) (c : Xml), d.kids[j]? = some c → c.tag ≠ "roCreate" → (addK k d m).ro.kids[j]? = some c) ∧
    (rootTags (addK k d m).ro = rootTags d ∨
      (rootTags (addK k d m).ro = rootTags d ++ ["mosromgrmeta"] ∧ k = .RunningOrderEnd ∧ completed d = false)) := by
  rcases root_cases k d m with h | ⟨x, hx, hk, hc, h⟩ | ⟨i, rc, y, hget, hrt, hyt, h⟩
  · rw [h]; exact ⟨rfl, rfl, rfl, rfl, fun _ _ hj _ => hj, Or.inl rfl⟩
  · rw [h]
    refine ⟨rfl, rfl, rfl, rfl, ?_, Or.inr ⟨?_, hk, hc⟩⟩
    · intro j c hj _
      have hlt : j < d.kids.length := (List.getElem?_eq_some_iff.mp hj).1
      simp only [Xml.withKids_kids, List.getElem?_append_left hlt, hj]
    · simp [rootTags, hx]
  · rw [h]
    refine ⟨rfl, rfl, rfl, rfl, ?_, Or.inl (rootTags_set hget (hyt.trans hrt.symm))⟩
    intro j c hj hct
    have hne : i ≠ j := by
      rintro rfl
      rw [hget] at hj; cases hj
      exact hct hrt
    simp only [Xml.withKids_kids, List.getElem?_set_ne hne, hj]

/-- the envelope invariant: exactly the running-order elements there were, at most one completion record -/
def EnvInv (d0 d : Xml) : Prop :=
  (rootTags d).count "roCreate" = (rootTags d0).count "roCreate" ∧
  (rootTags d).count "mosromgrmeta" ≤ 1 ∧
  messageId d = messageId d0 ∧
  (rootTags d).filter (fun t => t != "mosromgrmeta") = (rootTags d0).filter (fun t => t != "mosromgrmeta")

theorem envInv_step (d0 d m : Xml) (k : Kind) (h : EnvInv d0 d) : EnvInv d0 (addK k d m).ro := by
  obtain ⟨h1, h2, h3, h4⟩ := h
  rcases root_cases k d m with h | ⟨x, hx, _, hc, h⟩ | ⟨i, rc, y, hget, hrt, hyt, h⟩
  · rw [h]; exact ⟨h1, h2, h3, h4⟩
  · rw [h]
    have hrt : rootTags (d.withKids (d.kids ++ [x])) = rootTags d ++ ["mosromgrmeta"] := by
      simp [rootTags, hx]
    have hzero : (rootTags d).count "mosromgrmeta" = 0 := by
      rw [List.count_eq_zero]
      intro hmem
      simp only [rootTags, List.mem_map] at hmem
      obtain ⟨c, hc1, hc2⟩ := hmem
      have : completed d = true := by
        unfold completed Xml.find
        rw [List.find?_isSome]
        exact ⟨c, hc1, by simp [hc2]⟩
      rw [hc] at this; cases this
    refine ⟨?_, ?_, ?_, ?_⟩
    · rw [hrt, List.count_append, h1]; simp
    · rw [hrt, List.count_append, hzero]; simp
    · rw [← h3]
      have : (d.withKids (d.kids ++ [x])).find "messageID" = d.find "messageID" := by
        unfold Xml.find
        have hne : (x.tag == "messageID") = false := by rw [hx]; decide
        simp [List.find?_append, hne]
      unfold messageId
      rw [this]
    · rw [hrt, List.filter_append, h4]; simp
  · rw [h]
    have hrt' := rootTags_set (d := d) hget (hyt.trans hrt.symm)
    refine ⟨by rw [hrt', h1], by rw [hrt']; exact h2, ?_, by rw [hrt', h4]⟩
    rw [← h3]
    have : (d.withKids (d.kids.set i y)).find "messageID" = d.find "messageID" := by
      unfold Xml.find
      simp only [Xml.withKids_kids]
      apply find?_set_of_false _ _ _ rc y hget
      · rw [hrt]; decide
      · rw [hyt]; decide
    unfold messageId
    rw [this]

/-- in every state reachable from a roCreate document without a completion record, by any sequence
    of messages of any type (strict or not, whatever fails): exactly one running-order element per
    original one, the original message ID, at most one completion record -/
theorem envInv_reachable (d0 : Xml) (rs : List Reader) (ws : List Warn) (strict : Bool)
    (h0 : (rootTags d0).count "mosromgrmeta" = 0) : EnvInv d0 (mergeLoop strict d0 rs ws).ro := by
  have hinit : EnvInv d0 d0 := ⟨rfl, by rw [h0]; exact Nat.zero_le _, rfl, rfl⟩
  suffices H : ∀ d, EnvInv d0 d → EnvInv d0 (mergeLoop strict d rs ws).ro from H d0 hinit
  induction rs generalizing ws with
  | nil => intro d hd; simpa [mergeLoop] using hd
  | cons r rs ih =>
    intro d hd
    have hstep := envInv_step d0 d r.doc r.kind hd
    unfold mergeLoop
    simp only
    split
    · exact ih _ _ hstep
    · split
      · exact ih _ _ hstep
      · exact hstep

end Mrm
