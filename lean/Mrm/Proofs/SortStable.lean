/-
  Mrm/Proofs/SortStable.lean — a list sorted by message ID is determined by its per-ID filters.
-/
import Mrm.Model.Collection

namespace Mrm

theorem filter_id_cons_self (a : Reader) (t : List Reader) :
    (a :: t).filter (fun r => r.msgId == a.msgId) = a :: t.filter (fun r => r.msgId == a.msgId) := by
  simp

theorem mem_of_filter_eq {s s' : List Reader}
    (h : ∀ k, s.filter (fun r => r.msgId == k) = s'.filter (fun r => r.msgId == k)) {b : Reader}
    (hb : b ∈ s') : b ∈ s := by
  have : b ∈ s'.filter (fun r => r.msgId == b.msgId) := by simp [hb]
  rw [← h] at this
  exact (List.mem_filter.mp this).1

/-- two lists sorted by ID with the same per-ID filters are equal -/
theorem sorted_eq_of_filters (s : List Reader) : ∀ (s' : List Reader),
    s.Pairwise (fun a b => a.msgId ≤ b.msgId) → s'.Pairwise (fun a b => a.msgId ≤ b.msgId) →
    (∀ k, s.filter (fun r => r.msgId == k) = s'.filter (fun r => r.msgId == k)) → s = s' := by
  induction s with
  | nil =>
    intro s' _ _ h
    cases s' with
    | nil => rfl
    | cons b t' =>
      have := h b.msgId
      rw [filter_id_cons_self] at this
      cases this
  | cons a t ih =>
    intro s' hs hs' h
    cases s' with
    | nil =>
      have := h a.msgId
      rw [filter_id_cons_self] at this
      cases this
    | cons b t' =>
      have hbs : b ∈ a :: t := mem_of_filter_eq h (by simp)
      have has' : a ∈ b :: t' := mem_of_filter_eq (fun k => (h k).symm) (by simp)
      have h1 : a.msgId ≤ b.msgId := by
        rcases List.mem_cons.mp hbs with e | e
        · rw [e]; exact Nat.le_refl _
        · exact (List.pairwise_cons.mp hs).1 b e
      have h2 : b.msgId ≤ a.msgId := by
        rcases List.mem_cons.mp has' with e | e
        · rw [e]; exact Nat.le_refl _
        · exact (List.pairwise_cons.mp hs').1 a e
      have hid : b.msgId = a.msgId := Nat.le_antisymm h2 h1
      have hab : a = b := by
        have := h a.msgId
        rw [filter_id_cons_self, ← hid, filter_id_cons_self] at this
        exact (List.cons.inj this).1
      subst hab
      congr 1
      apply ih t' (List.pairwise_cons.mp hs).2 (List.pairwise_cons.mp hs').2
      intro k
      have := h k
      simp only [List.filter_cons] at this
      split at this
      · exact (List.cons.inj this).2
      · exact this

end Mrm
