/-
  Mrm/Proofs/AccView.lean — inversion and totality lemmas for the read accessors
  (`mapExcept`, `storyView`, `roStories`, `roView`).
-/
import Mrm.Spec.Access
import Mrm.Proofs.HistOk
import Mrm.Proofs.ViewsFrom

namespace Mrm

/-! ### `mapExcept` -/

theorem mapExcept_total {α β : Type} (f : α → Except PyExc β) (l : List α)
    (h : ∀ a ∈ l, ∃ b, f a = .ok b) : ∃ bs, mapExcept f l = .ok bs := by
  induction l with
  | nil => exact ⟨[], rfl⟩
  | cons a as ih =>
    obtain ⟨b, hb⟩ := h a List.mem_cons_self
    obtain ⟨bs, hbs⟩ := ih (fun x hx => h x (List.mem_cons_of_mem _ hx))
    refine ⟨b :: bs, ?_⟩
    simp only [mapExcept, hb, hbs, bind, Except.bind, pure, Except.pure]

theorem mapExcept_cons_inv {α β : Type} {f : α → Except PyExc β} {a : α} {as : List α} {bs : List β}
    (h : mapExcept f (a :: as) = .ok bs) :
    ∃ b bs', f a = .ok b ∧ mapExcept f as = .ok bs' ∧ bs = b :: bs' := by
  simp only [mapExcept, bind, Except.bind, pure, Except.pure] at h
  cases hb : f a with
  | error e => rw [hb] at h; cases h
  | ok b =>
    rw [hb] at h
    simp only at h
    cases hbs : mapExcept f as with
    | error e => rw [hbs] at h; cases h
    | ok bs' =>
      rw [hbs] at h
      simp only [Except.ok.injEq] at h
      exact ⟨b, bs', rfl, rfl, h.symm⟩

theorem mapExcept_map_eq {α β γ : Type} {f : α → Except PyExc β} (g : β → γ) (g' : α → γ)
    (hg : ∀ a b, f a = .ok b → g b = g' a) {l : List α} {bs : List β}
    (h : mapExcept f l = .ok bs) : bs.map g = l.map g' := by
  induction l generalizing bs with
  | nil => simp only [mapExcept, Except.ok.injEq] at h; subst h; rfl
  | cons a as ih =>
    obtain ⟨b, bs', hb, hbs, rfl⟩ := mapExcept_cons_inv h
    simp only [List.map_cons, hg a b hb, ih hbs]

theorem mapExcept_getElem {α β : Type} {f : α → Except PyExc β} {l : List α} {bs : List β}
    (h : mapExcept f l = .ok bs) :
    ∀ k (hk : k < bs.length) (hk' : k < l.length), f l[k] = .ok bs[k] := by
  induction l generalizing bs with
  | nil => intro k _ hk'; simp at hk'
  | cons a as ih =>
    obtain ⟨b, bs', hb, hbs, rfl⟩ := mapExcept_cons_inv h
    intro k hk hk'
    cases k with
    | zero => simpa using hb
    | succ k => simpa using ih hbs k (by simpa using hk) (by simpa using hk')

/-! ### one story -/

theorem storyStart_total {s : Xml} {a : Option Nat} (h : payloadTime s "StoryStarted" = .ok a)
    (p o : Option Nat) : ∃ r, storyStart s p o = .ok r := by
  unfold storyStart
  simp only [h, bind, Except.bind, pure, Except.pure]
  cases a <;> cases p <;> cases o <;> exact ⟨_, rfl⟩

theorem storyEnd_total {s : Xml} {a b d : Option Nat} (ha : payloadTime s "StoryStarted" = .ok a)
    (hb : payloadTime s "StoryEnded" = .ok b) (hd : storyDuration s = .ok d)
    (p o : Option Nat) : ∃ r, storyEnd s p o = .ok r := by
  obtain ⟨st, hst⟩ := storyStart_total ha p o
  unfold storyEnd
  simp only [hb, hst, hd, bind, Except.bind, pure, Except.pure]
  cases b <;> cases st <;> cases d <;> exact ⟨_, rfl⟩

theorem storyView_total {s : Xml} (hok : storyOk s = true) (ht : storyTimesOk s = true)
    (p : Option Nat) (off : Option Nat) :
    ∃ v, storyView s p off = .ok v := by
  obtain ⟨_, _, d, hd⟩ := storyOk_parts hok
  unfold storyTimesOk at ht
  simp only [Bool.and_eq_true] at ht
  obtain ⟨a, ha⟩ : ∃ a, payloadTime s "StoryStarted" = .ok a := by
    cases h : payloadTime s "StoryStarted" with
    | ok a => exact ⟨a, rfl⟩
    | error e => rw [h] at ht; simp at ht
  obtain ⟨b, hb⟩ : ∃ b, payloadTime s "StoryEnded" = .ok b := by
    cases h : payloadTime s "StoryEnded" with
    | ok a => exact ⟨a, rfl⟩
    | error e => rw [h] at ht; simp at ht
  obtain ⟨st, hst⟩ := storyStart_total ha p off
  obtain ⟨en, hen⟩ := storyEnd_total ha hb hd p off
  unfold storyView
  simp only [hd, bind, Except.bind, pure, Except.pure, hst, hen]
  exact ⟨_, rfl⟩

/-- what a successful `storyView` is made of -/
theorem storyView_inv {s : Xml} {p : Option Nat} {off : Option Nat}
    {v : StoryView} (h : storyView s p off = .ok v) :
    ∃ d st en,
      storyDuration s = .ok d ∧
      storyStart s p off = .ok st ∧
      storyEnd s p off = .ok en ∧
      v.id = Xml.childText (some s) "storyID" ∧ v.slug = Xml.childText (some s) "storySlug" ∧
      v.duration = d ∧ v.start = st ∧ v.stop = en ∧ v.items = (s.findall "item").map itemView := by
  unfold storyView at h
  simp only [bind, Except.bind, pure, Except.pure] at h
  cases hd : storyDuration s with
  | error e => rw [hd] at h; cases h
  | ok d =>
    rw [hd] at h
    simp only at h
    split at h
    · cases h
    · rename_i st hst
      split at h
      · cases h
      · rename_i en hen
        simp only [Except.ok.injEq] at h
        subst h
        exact ⟨d, st, en, rfl, hst, hen, rfl, rfl, rfl, rfl, rfl, rfl⟩

/-! ### the running order -/

theorem roStories_inv {rc : Xml} {vs : List StoryView} (h : roStories rc = .ok vs) :
    ((rc.findall "story") = [] ∧ vs = []) ∨
    ∃ st offs, roStart rc = .ok st ∧ storyOffsetsFrom (rc.findall "story") 0 = .ok offs ∧
      viewsFrom st (rc.findall "story") offs = .ok vs := by
  unfold roStories at h
  simp only at h
  split at h
  · rename_i he
    left
    simp only [Except.ok.injEq] at h
    exact ⟨by simpa using he, h.symm⟩
  · right
    simp only [bind, Except.bind] at h
    cases hst : roStart rc with
    | error e => rw [hst] at h; cases h
    | ok st =>
      rw [hst] at h
      simp only at h
      cases ho : storyOffsetsFrom (rc.findall "story") 0 with
      | error e => rw [ho] at h; cases h
      | ok offs =>
        rw [ho] at h
        exact ⟨st, offs, rfl, rfl, h⟩

theorem roView_inv {d : Xml} {v : RoView} (h : roView d = .ok v) :
    ∃ rc slug vs st, rcOf d = some rc ∧ rc.find "roSlug" = some slug ∧ roStories rc = .ok vs ∧
      roStart rc = .ok st ∧ v.roSlug = slug.text ∧ v.start = st ∧ v.stories = vs ∧
      v.completed = completed d := by
  unfold roView at h
  split at h
  · cases h
  · rename_i rc hrc
    split at h
    · cases h
    · rename_i slug hslug
      simp only [bind, Except.bind, pure, Except.pure] at h
      cases hvs : roStories rc with
      | error e => rw [hvs] at h; cases h
      | ok vs =>
        rw [hvs] at h
        simp only at h
        cases hst : roStart rc with
        | error e => rw [hst] at h; cases h
        | ok st =>
          rw [hst] at h
          simp only [Except.ok.injEq] at h
          subst h
          exact ⟨rc, slug, vs, st, hrc, hslug, hvs, hst, rfl, rfl, rfl, rfl⟩

theorem roStart_total {cs : List Xml} {rc : Xml} (hk : rc.kids = cs) (h : startOk cs) :
    ∃ r, roStart rc = .ok r := by
  unfold roStart
  split
  · exact ⟨none, rfl⟩
  · rename_i t ht
    simp only [Xml.childText, Option.bind_some, Xml.find, hk] at ht
    cases he : cs.find? (fun c => c.tag == "roEdStart") with
    | none => rw [he] at ht; simp at ht
    | some e =>
      rw [he] at ht
      simp only [Option.bind_some] at ht
      obtain ⟨v, hv⟩ := Option.isSome_iff_exists.mp (h e t he ht)
      rw [hv]; exact ⟨some v, rfl⟩

theorem roStories_total {rc : Xml} (hok : rcOk rc.kids = true)
    (ht : ∀ c ∈ rc.kids, c.tag = "story" → storyTimesOk c = true) :
    ∃ vs, roStories rc = .ok vs := by
  have hall := rcOk_all hok
  obtain ⟨st, hst⟩ := roStart_total rfl ((rcOk_iff rc.kids).mp hok).2
  have hss : ∀ s ∈ rc.findall "story", storyOk s = true ∧ storyTimesOk s = true := by
    intro s hs
    simp only [Xml.findall, List.mem_filter, beq_iff_eq] at hs
    exact ⟨hall s hs.1 hs.2, ht s hs.1 hs.2⟩
  unfold roStories
  simp only
  split
  · exact ⟨[], rfl⟩
  · rename_i hne
    obtain ⟨r2, hr2⟩ := storyOffsetsFrom_ok (rc.findall "story") 0 (fun s hs => (hss s hs).1)
    obtain ⟨vs, hvs⟩ := viewsFrom_total st (rc.findall "story") r2
      (fun s hs o => storyView_total (hss s hs).1 (hss s hs).2 st o)
    exact ⟨vs, by simp only [hst, hr2, hvs, bind, Except.bind]⟩

end Mrm
