/-
  Mrm/Proofs/Container.lean — the edited container (the `roCreate` children, or the children of the
  addressed story) before and after a merge, on child lists; unpacking of the domain hypotheses.
-/
import Mrm.Proofs.Edit
import Mrm.Proofs.Clean
import Mrm.Proofs.Send

namespace Mrm

/-! ### reading the container of the result -/

/-- `containerIds` on the child list of the `roCreate` -/
def cIds (k : Kind) (nm : Named) (cs : List Xml) : Option (List Key) :=
  if k.isStoryLevel then some (keysOf "story" cs)
  else match addressed cs nm.story with
    | none => none
    | some i => (cs[i]?).map (fun s => keysOf "item" s.kids)

theorem containerIds_eq (k : Kind) (nm : Named) (d rc : Xml) (h : rcOf d = some rc) :
    containerIds k nm d = cIds k nm rc.kids := by
  simp only [containerIds, h, cIds]
  split
  · rfl
  · cases addressed rc.kids nm.story <;> rfl

theorem containerIds_setRcKids (k : Kind) (nm : Named) (d rc : Xml) (cs : List Xml) (h : rcOf d = some rc) :
    containerIds k nm (setRcKids d cs) = cIds k nm cs := by
  rw [containerIds_eq k nm _ _ (rcOf_setRcKids d rc cs h)]
  simp

theorem setRcKids_self_w (d rc : Xml) (h : rcOf d = some rc) : setRcKids d rc.kids = d := by
  obtain ⟨i, hi, hget⟩ := rcIndex_of_rcOf h
  unfold setRcKids
  simp only [hi, hget, Xml.withKids_self]
  have : d.kids.set i rc = d.kids := by
    apply List.ext_getElem?
    intro j
    by_cases hj : i = j
    · subst hj; rw [List.getElem?_set_self']; simp [hget]
    · rw [List.getElem?_set_ne hj]
  rw [this, Xml.withKids_self]

/-! ### item level: the addressed story before and after -/

theorem cIds_story (k : Kind) (nm : Named) (cs : List Xml) (hk : k.isStoryLevel = true) :
    cIds k nm cs = some (keysOf "story" cs) := by
  simp [cIds, hk]

theorem cIds_item_split (k : Kind) (nm : Named) (a b : List Xml) (x : Xml) (key : String)
    (hk : k.isStoryLevel = false) (hst : nm.story = some key)
    (hx : isChild "story" key x = true) (ha : ∀ c ∈ a, isChild "story" key c = false) :
    cIds k nm (a ++ x :: b) = some (keysOf "item" x.kids) := by
  simp only [cIds, hk, Bool.false_eq_true, if_false, hst, addressed_eq_locate, locate_of_split hx ha]
  simp

theorem cIds_item_none (k : Kind) (nm : Named) (cs : List Xml)
    (hk : k.isStoryLevel = false) (hl : locate "story" cs nm.story = none) :
    cIds k nm cs = none := by
  simp only [cIds, hk, Bool.false_eq_true, if_false, addressed_eq_locate, hl]

theorem inStoryAt_cases (cs : List Xml) (sid : Key) (j : Nat) (f : List Xml → Out)
    (hl : locate "story" cs sid = some j) :
    ∃ key a x b, sid = some key ∧ cs = a ++ x :: b ∧ x ∈ cs ∧ x.tag = "story" ∧
      isChild "story" key x = true ∧ (∀ c ∈ a, isChild "story" key c = false) ∧
      inStoryAt cs j f = ⟨a ++ x.withKids (f x.kids).kids :: b, (f x.kids).warns, (f x.kids).err⟩ := by
  obtain ⟨k, a, x, b, hid, hcs, hal, hx1, hx2, ha⟩ := locate_split hl
  subst hcs hal
  exact ⟨k, a, x, b, hid, rfl, by simp, hx1, isChild_iff.mpr ⟨hx1, hx2⟩, ha, inStoryAt_split a b x f⟩

theorem inStory_cases (cs : List Xml) (sid : Key) (f : List Xml → Out) :
    (inStory none cs sid f).err = some .merge ∨
    ∃ key a x b, sid = some key ∧ cs = a ++ x :: b ∧ x ∈ cs ∧ x.tag = "story" ∧
      isChild "story" key x = true ∧ (∀ c ∈ a, isChild "story" key c = false) ∧
      inStory none cs sid f = ⟨a ++ x.withKids (f x.kids).kids :: b, (f x.kids).warns, (f x.kids).err⟩ := by
  rw [inStory_ok cs sid f]
  cases hl : locate "story" cs sid with
  | none => left; rfl
  | some j => right; exact inStoryAt_cases cs sid j f hl

theorem elemsOf_eq (src : Option Xml) (t : String) :
    (src.map (·.findall t)).getD [] = elemsOf src t := by
  cases src <;> rfl

theorem elemsOf_tag (src : Option Xml) (t : String) : ∀ c ∈ elemsOf src t, c.tag = t := by
  cases src with
  | none => intro c hc; cases hc
  | some s => exact findall_tag s t

theorem insertDedup_closed_end (ex : List Key) (ss cs : List Xml) (ws : List Warn) :
    insertDedup none ex cs cs.length ss ws =
      ⟨cs ++ ss.filter (fun s => !ex.contains (keyOf "story" s)),
       ws ++ ss.filterMap (fun s => if ex.contains (keyOf "story" s) then some Warn.duplicateStory else none),
       none⟩ := by
  have := insertDedup_closed ex ss cs [] ws
  simpa using this

theorem wfRO_unpack_w {d : Xml} (h : WfRO d = true) : ∃ rc, rcOf d = some rc :=
  Option.isSome_iff_exists.mp h

end Mrm
