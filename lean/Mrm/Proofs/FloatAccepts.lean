/-
  Mrm/Proofs/FloatAccepts.lean — the value model of `float()` (`pyFloat`, exact microseconds) accepts
  only strings the acceptance model (`pyFloatAccepts`, Python's grammar) accepts; hence a running order
  whose durations all have values raises nothing when a merge evaluates `ro.stories`.
-/
import Mrm.Model.Timing

namespace Mrm

/-! ### digit runs -/

theorem isDigit_ne_underscore {c : Char} (h : isDigit c = true) : c ≠ '_' := by
  intro hc; subst hc; revert h; decide

theorem isDigit_ne_dot {c : Char} (h : isDigit c = true) : c ≠ '.' := by
  intro hc; subst hc; revert h; decide

theorem isDigit_ne_plus {c : Char} (h : isDigit c = true) : c ≠ '+' := by
  intro hc; subst hc; revert h; decide

theorem isDigit_ne_minus {c : Char} (h : isDigit c = true) : c ≠ '-' := by
  intro hc; subst hc; revert h; decide

theorem digitPartRest_of_all (cs : List Char) (h : cs.all isDigit = true) : digitPartRest cs = true := by
  induction cs with
  | nil => rfl
  | cons c cs ih =>
    simp only [List.all_cons, Bool.and_eq_true] at h
    have hc := isDigit_ne_underscore h.1
    unfold digitPartRest
    split
    · rfl
    · rename_i heq; cases heq; exact absurd rfl hc
    · rename_i heq; cases heq
      simp only [h.1, ih h.2, Bool.and_self]

theorem isDigitPart_of_all (cs : List Char) (hne : cs ≠ []) (h : cs.all isDigit = true) :
    isDigitPart cs = true := by
  cases cs with
  | nil => exact absurd rfl hne
  | cons c cs =>
    simp only [List.all_cons, Bool.and_eq_true] at h
    simp only [isDigitPart, h.1, digitPartRest_of_all cs h.2, Bool.and_self]

theorem natOfDigits?_some {cs : List Char} {n : Nat} (h : natOfDigits? cs = some n) :
    cs ≠ [] ∧ cs.all isDigit = true := by
  unfold natOfDigits? at h
  split at h
  · rename_i hc
    simp only [Bool.and_eq_true, Bool.not_eq_true', List.isEmpty_eq_false_iff] at hc
    exact hc
  · cases h

/-- the sign an exponent may carry, peeled -/
def expDigits (d : List Char) : List Char := match d with | '+' :: r => r | '-' :: r => r | r => r

theorem pyExponent?_some {d : List Char} {e : Int} (h : pyExponent? d = some e) :
    isDigitPart (expDigits d) = true := by
  unfold pyExponent? at h
  split at h
  · obtain ⟨n, hn, _⟩ := Option.map_eq_some_iff.mp h
    obtain ⟨h1, h2⟩ := natOfDigits?_some hn
    exact isDigitPart_of_all _ h1 h2
  · obtain ⟨n, hn, _⟩ := Option.map_eq_some_iff.mp h
    obtain ⟨h1, h2⟩ := natOfDigits?_some hn
    exact isDigitPart_of_all _ h1 h2
  · obtain ⟨n, hn, _⟩ := Option.map_eq_some_iff.mp h
    obtain ⟨h1, h2⟩ := natOfDigits?_some hn
    have : expDigits d = d := by
      unfold expDigits
      split
      · simp only [List.all_cons, Bool.and_eq_true] at h2; exact absurd rfl (isDigit_ne_plus h2.1)
      · simp only [List.all_cons, Bool.and_eq_true] at h2; exact absurd rfl (isDigit_ne_minus h2.1)
      · rfl
    rw [this]
    exact isDigitPart_of_all _ h1 h2

/-! ### the two functions after the blanks and the sign are gone -/

def floatCore (cs : List Char) : Except PyExc Nat :=
  let mant := cs.takeWhile (fun c => c != 'e' && c != 'E')
  let ex := cs.dropWhile (fun c => c != 'e' && c != 'E')
  let ip := mant.takeWhile isDigit
  let fr? : Option (List Char) :=
    match mant.dropWhile isDigit with
    | [] => some []
    | '.' :: fr => if fr.all isDigit then some fr else none
    | _ => none
  let e? : Option Int := match ex with | [] => some 0 | _ :: d => pyExponent? d
  match fr?, e? with
  | some fr, some e =>
    if ip.isEmpty && fr.isEmpty then .error .ValueError else
    let n := ticksPerSecond * digitsVal (ip ++ fr)
    let sh : Int := e - Int.ofNat fr.length
    if sh ≥ 0 then .ok (n * 10 ^ sh.toNat)
    else if n % 10 ^ (-sh).toNat == 0 then .ok (n / 10 ^ (-sh).toNat)
    else .error .ValueError
  | _, _ => .error .ValueError

def numOkCore (mant : List Char) : Bool :=
  let ip := mant.takeWhile (fun c => c != '.')
  match mant.dropWhile (fun c => c != '.') with
    | [] => isDigitPart ip
    | _ :: fr => (ip.isEmpty || isDigitPart ip) && (fr.isEmpty || isDigitPart fr) && !(ip.isEmpty && fr.isEmpty)

def acceptsCore (cs : List Char) : Bool :=
  let lw := cs.map Char.toLower
  if lw == "inf".toList || lw == "infinity".toList || lw == "nan".toList then true else
  let mant := cs.takeWhile (fun c => c != 'e' && c != 'E')
  let ex := cs.dropWhile (fun c => c != 'e' && c != 'E')
  let exOk := match ex with
    | [] => true
    | _ :: d => isDigitPart (expDigits d)
  numOkCore mant && exOk

theorem pyFloat_eq (s : String) :
    pyFloat s = floatCore (match pyNumStripL s.toList with | '+' :: r => r | r => r) := rfl

theorem pyFloatAccepts_eq (s : String) :
    pyFloatAccepts s = acceptsCore (match pyNumStripL s.toList with | '+' :: r => r | '-' :: r => r | r => r) := rfl

theorem takeWhile_digits_append (ip rest : List Char) (p : Char → Bool) (hip : ∀ c ∈ ip, p c = true)
    (hrest : ∀ c, rest.head? = some c → p c = false) :
    (ip ++ rest).takeWhile p = ip ∧ (ip ++ rest).dropWhile p = rest := by
  induction ip with
  | nil =>
    cases rest with
    | nil => simp
    | cons c r => simp [hrest c rfl]
  | cons a ip ih =>
    have ha := hip a List.mem_cons_self
    have := ih (fun c hc => hip c (List.mem_cons_of_mem _ hc))
    simp [ha, this.1, this.2]

theorem mem_takeWhile_sat {p : Char → Bool} {l : List Char} {c : Char} (h : c ∈ l.takeWhile p) : p c = true := by
  induction l with
  | nil => simp at h
  | cons a l ih =>
    rw [List.takeWhile_cons] at h
    split at h
    · rcases List.mem_cons.mp h with h | h
      · subst h; assumption
      · exact ih h
    · simp at h

/-- a mantissa the value model reads: `ip ++ rest`, digits then nothing or `.` and digits -/
theorem numOkCore_of (mant fr : List Char)
    (hrest : mant.dropWhile isDigit = [] ∧ fr = [] ∨ mant.dropWhile isDigit = '.' :: fr)
    (hfr : fr.all isDigit = true)
    (hne : ((mant.takeWhile isDigit).isEmpty && fr.isEmpty) = false) : numOkCore mant = true := by
  have hsplit : mant = mant.takeWhile isDigit ++ mant.dropWhile isDigit := (List.takeWhile_append_dropWhile).symm
  generalize hip : mant.takeWhile isDigit = ip at hsplit hne
  have hipd : ∀ c ∈ ip, isDigit c = true := by
    intro c hc; rw [← hip] at hc; exact mem_takeWhile_sat hc
  have hipall : ip.all isDigit = true := List.all_eq_true.mpr hipd
  have hipdot : ∀ c ∈ ip, (c != '.') = true := by
    intro c hc; simp only [bne_iff_ne, ne_eq]; exact isDigit_ne_dot (hipd c hc)
  have hdp : ∀ l : List Char, l.all isDigit = true → (l.isEmpty || isDigitPart l) = true := by
    intro l hl
    cases l with
    | nil => rfl
    | cons a l => simp only [List.isEmpty_cons, Bool.false_or]; exact isDigitPart_of_all _ (by simp) hl
  rcases hrest with ⟨h0, hf⟩ | h1
  · subst hf
    rw [h0, List.append_nil] at hsplit
    have := takeWhile_digits_append ip [] (fun c => c != '.') hipdot (by simp)
    rw [List.append_nil] at this
    unfold numOkCore
    simp only [hsplit, this.1, this.2]
    apply isDigitPart_of_all _ _ hipall
    intro h; subst h; simp at hne
  · rw [h1] at hsplit
    have := takeWhile_digits_append ip ('.' :: fr) (fun c => c != '.') hipdot (by simp)
    unfold numOkCore
    simp only [hsplit, this.1, this.2, hdp ip hipall, hdp fr hfr, hne, Bool.and_self, Bool.not_false]

theorem floatCore_ok_accepts (cs : List Char) (n : Nat) (h : floatCore cs = .ok n) :
    acceptsCore cs = true ∧ cs.head? ≠ some '-' ∧ cs.head? ≠ some '+' := by
  unfold floatCore at h
  simp only at h
  split at h
  · rename_i fr e hfr he
    split at h
    · cases h
    · rename_i hne
      clear h
      have hnum : numOkCore (cs.takeWhile (fun c => c != 'e' && c != 'E')) = true := by
        split at hfr
        · rename_i h0
          cases hfr
          exact numOkCore_of _ [] (Or.inl ⟨h0, rfl⟩) rfl (by simpa using hne)
        · rename_i fr' h1
          split at hfr
          · rename_i hall
            cases hfr
            exact numOkCore_of _ fr (Or.inr h1) hall (by simpa using hne)
          · cases hfr
        · cases hfr
      have hex : (match cs.dropWhile (fun c => c != 'e' && c != 'E') with
          | [] => true
          | _ :: d => isDigitPart (expDigits d)) = true := by
        split at he
        · rfl
        · exact pyExponent?_some he
      refine ⟨?_, ?_, ?_⟩
      · unfold acceptsCore
        simp only
        split
        · rfl
        · simp only [hnum, hex, Bool.and_self]
      · intro hc
        cases cs with
        | nil => simp at hc
        | cons c r =>
          simp only [List.head?_cons, Option.some.injEq] at hc
          subst hc
          simp [isDigit] at hfr
      · intro hc
        cases cs with
        | nil => simp at hc
        | cons c r =>
          simp only [List.head?_cons, Option.some.injEq] at hc
          subst hc
          simp [isDigit] at hfr
  · cases h

theorem pyFloat_ok_accepts (s : String) (n : Nat) (h : pyFloat s = .ok n) : pyFloatAccepts s = true := by
  rw [pyFloat_eq] at h
  rw [pyFloatAccepts_eq]
  generalize pyNumStripL s.toList = cs0 at h
  split at h
  · exact (floatCore_ok_accepts _ n h).1
  · rename_i hnp
    obtain ⟨h1, h2, h3⟩ := floatCore_ok_accepts _ n h
    split
    · exact absurd rfl (hnp _)
    · simp at h2
    · exact h1

theorem floatOfText_ok_exc (e : Xml) (n : Nat) (h : floatOfText e = .ok n) : floatExc e = none := by
  unfold floatOfText at h
  unfold floatExc
  split at h
  · cases h
  · rename_i s hs
    simp only [pyFloat_ok_accepts s n h, if_true]

theorem floatOfText_opt_exc (o : Option Xml) (a : Nat)
    (h : (match o with | some e => floatOfText e | none => (pure 0 : Except PyExc Nat)) = .ok a) :
    o.bind floatExc = none := by
  cases o with
  | none => rfl
  | some e => exact floatOfText_ok_exc e a h

theorem storyDuration_ok_exc (s : Xml) (r : Option Nat) (h : storyDuration s = .ok r) : storyDurationExc s = none := by
  unfold storyDuration at h
  unfold storyDurationExc
  split
  · rfl
  · rename_i p hp
    simp only [hp] at h
    split
    · rename_i e he
      simp only [he] at h
      cases hf : floatOfText e with
      | ok a => exact floatOfText_ok_exc e a hf
      | error x => rw [hf] at h; cases h
    · rename_i hsd
      simp only [hsd] at h
      generalize p.find "TextTime" = tt at h ⊢
      generalize p.find "MediaTime" = mt at h ⊢
      have h2 : ∃ a b, (match tt with | some e => floatOfText e | none => (pure 0 : Except PyExc Nat)) = .ok a ∧
          (match mt with | some e => floatOfText e | none => (pure 0 : Except PyExc Nat)) = .ok b := by
        cases tt <;> cases mt <;> simp only [bind, Except.bind, pure, Except.pure] at h ⊢
        · exact ⟨0, 0, rfl, rfl⟩
        · split at h
          · cases h
          · rename_i b hb; exact ⟨0, b, rfl, hb⟩
        · split at h
          · cases h
          · rename_i a ha; exact ⟨a, 0, ha, rfl⟩
        · split at h
          · cases h
          · rename_i a ha
            split at h
            · cases h
            · rename_i b hb; exact ⟨a, b, ha, hb⟩
      obtain ⟨a, b, ha, hb⟩ := h2
      rw [floatOfText_opt_exc _ a ha, floatOfText_opt_exc _ b hb]

theorem storyOffsetsFrom_ok_exc (ss : List Xml) (t : Nat) (r : List Nat) (h : storyOffsetsFrom ss t = .ok r) :
    storyOffsetsExc ss = none := by
  induction ss generalizing t r with
  | nil => rfl
  | cons s ss ih =>
    unfold storyOffsetsFrom at h
    simp only [bind, Except.bind] at h
    split at h
    · cases h
    · rename_i d hd
      split at h
      · cases h
      · rename_i rest hrest
        unfold storyOffsetsExc
        rw [storyDuration_ok_exc s d hd]
        exact ih _ _ hrest

end Mrm
