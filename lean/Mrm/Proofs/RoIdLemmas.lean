/-
  Mrm/Proofs/RoIdLemmas.lean — the first roID child of the roCreate through the merges.
-/
import Mrm.Proofs.Frame
import Mrm.Proofs.HistMeta

namespace Mrm

/-- the first `roID` child exists and carries the text `T` -/
def RoIdIs (T : Option String) (cs : List Xml) : Prop :=
  ∃ e, cs.find? (fun c => c.tag == "roID") = some e ∧ e.text = T

theorem roIdIs_congr {T : Option String} {cs cs' : List Xml}
    (h : cs'.find? (fun c => c.tag == "roID") = cs.find? (fun c => c.tag == "roID"))
    (hs : RoIdIs T cs) : RoIdIs T cs' := by
  unfold RoIdIs at *
  rw [h]; exact hs

theorem roIdIs_of_edit {T : Option String} {xs cs cs' : List Xml} (h : RoIdIs T cs)
    (he : Edit "story" xs cs cs') : RoIdIs T cs' :=
  roIdIs_congr (find_of_filter_ne (by decide) he.1) h

theorem roIdIs_of_itemEdit {T : Option String} {ys cs cs' : List Xml} (h : RoIdIs T cs)
    (he : ItemEdit ys cs cs') : RoIdIs T cs' := by
  rcases he with rfl | ⟨j, s, ks', hget, ht, rfl, _⟩
  · exact h
  · apply roIdIs_congr _ h
    obtain ⟨hj, hsj⟩ := List.getElem?_eq_some_iff.mp hget
    apply find_of_filter_ne (tag := "story") (by decide)
    apply filter_set_of_false
    · intro hi; rw [hsj]; simp [ht]
    · simp [ht]

/-- one step of roMetadataReplace with a carried child tagged `t` (not mosExternalMetadata): the
    carried child becomes the first child tagged `t` -/
theorem find_mdStep_same (t : String) (cs : List Xml) (s : Xml) (hst : s.tag = t)
    (hne : (t == "mosExternalMetadata") = false) :
    (match mdTarget cs s with
      | none => pyInsert cs cs.length s
      | some i => pyInsert (cs.eraseIdx i) i s).find? (fun c => c.tag == t) = some s := by
  have hmd : mdTarget cs s = cs.findIdx? (fun c => c.tag == t) := by
    unfold mdTarget findChildAny
    simp only [hst, hne, Bool.false_eq_true, if_false]
  rw [hmd]
  cases hi : cs.findIdx? (fun c => c.tag == t) with
  | none =>
    simp only
    rw [List.findIdx?_eq_none_iff] at hi
    have hnone : cs.find? (fun c => c.tag == t) = none := by
      rw [List.find?_eq_none]; intro x hx; simp [hi x hx]
    simp [pyInsert, List.find?_append, hnone, hst]
  | some i =>
    simp only
    obtain ⟨a, x, b, rfl, rfl, _, ha⟩ := findIdx_split hi
    have hnone : a.find? (fun c => c.tag == t) = none := by
      rw [List.find?_eq_none]; intro y hy; simp [ha y hy]
    rw [List.eraseIdx_append_of_length_le (Nat.le_refl _)]
    simp [pyInsert, List.find?_append, hnone, hst]

theorem roIdIs_mdStep {T : Option String} (cs : List Xml) (s : Xml) (h : RoIdIs T cs)
    (hs : s.tag = "roID" → s.text = T) :
    RoIdIs T (match mdTarget cs s with
      | none => pyInsert cs cs.length s
      | some i => pyInsert (cs.eraseIdx i) i s) := by
  by_cases hst : s.tag = "roID"
  · exact ⟨s, find_mdStep_same "roID" cs s hst (by decide), hs hst⟩
  · apply roIdIs_congr _ h
    apply find_of_filter_ne (tag := s.tag) (fun hh => hst hh.symm)
    split
    · exact filter_pyInsert_of_false _ cs _ s (by simp)
    · rename_i i hi
      rw [filter_pyInsert_of_false _ _ _ s (by simp)]
      apply filter_eraseIdx_of_false
      intro hlt
      obtain ⟨_, hk⟩ := mdTarget_some hi
      simp only [sameMdKey, Bool.and_eq_true, beq_iff_eq] at hk
      simp [hk.1]

theorem roIdIs_metadataLoop {T : Option String} (cs ss : List Xml) (h : RoIdIs T cs)
    (hs : ∀ s ∈ ss, s.tag = "roID" → s.text = T) : RoIdIs T (metadataLoop cs ss) := by
  induction ss generalizing cs with
  | nil => simpa [metadataLoop] using h
  | cons s ss ih =>
    have step := roIdIs_mdStep cs s h (hs s List.mem_cons_self)
    have hs' : ∀ s ∈ ss, s.tag = "roID" → s.text = T := fun x hx => hs x (List.mem_cons_of_mem _ hx)
    unfold metadataLoop
    split
    · rename_i hm
      rw [hm] at step
      exact ih _ step hs'
    · rename_i i hm
      rw [hm] at step
      exact ih _ step hs'

theorem roIdIs_mergeRc {T : Option String} (k : Kind) (rc base : Xml) (mid : Option PyExc)
    (h : RoIdIs T rc.kids)
    (h3 : k = .MetaDataReplace → ∀ s ∈ base.kids, s.tag = "roID" → s.text = T) :
    RoIdIs T (mergeRc k rc base mid).kids := by
  by_cases hsl : k.isStoryLevel = true
  · exact roIdIs_of_edit h (storyLevel_edit k rc base mid hsl)
  · by_cases hil : k.isItemLevel = true
    · exact roIdIs_of_itemEdit h (itemLevel_edit k rc base mid hil)
    · cases k <;> first | (simp [Kind.isStoryLevel] at hsl; done) | (simp [Kind.isItemLevel] at hil; done) | skip
      case MetaDataReplace =>
        simp only [mergeRc]
        exact roIdIs_metadataLoop _ _ h (h3 rfl)
      all_goals (simp only [mergeRc]; exact h)

end Mrm
