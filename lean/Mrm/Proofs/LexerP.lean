/-
  Mrm/Proofs/LexerP.lean — C14 at character level (targets).
-/
import Mrm.Model.Lexer
import Mrm.Proofs.SerEq
import Mrm.Proofs.LexMain
import Mrm.Proofs.SerTok

namespace Mrm

/-- the character-list serialiser is the serialiser -/
theorem serialize_eq (t : Xml) : serialize t = String.ofList (serChars t) :=
  serialize_eq' t

/-- lexing the serialisation of a well-formed tree yields its token stream -/
theorem lex_serialize (t : Xml) (h : wfSer t = true) :
    lexGo ((serChars t).length + 1) (serChars t) = some (tokens t) :=
  lex_serialize' t h

/-- C14 at full strength on the model: every tree with valid names and carriage-return-free,
    non-empty character data reads back from its serialisation as exactly itself — text, tails,
    attributes (any string, CR/LF/TAB included) and markup-significant characters intact -/
theorem parse_serialize (t : Xml) (h : wfSer t = true) : parseXml (serialize t) = some t := by
  unfold parseXml parseXmlL
  rw [toList_serialize, lex_serialize t h]
  exact tokens_roundtrip' t

/-- serialise ∘ read ∘ serialise = serialise -/
theorem serialize_idempotent (t t' : Xml) (h : wfSer t = true) (hp : parseXml (serialize t) = some t') :
    serialize t' = serialize t := by
  rw [parse_serialize t h] at hp
  cases hp
  rfl

end Mrm
