/-
  Mrm/Proofs/HeapP.lean — C13 targets on the aliasing model.
-/
import Mrm.Model.Heap
import Mrm.Proofs.HeapUpd

namespace Mrm

open LX

/-- frame: a mutation of an object a tree does not contain leaves the tree unchanged -/
theorem upd_of_not_mem (l : Nat) (f : List LX → List LX) (t : LX) (h : l ∉ t.labels) : t.upd l f = t :=
  upd_of_not_mem' l f t h

/-- a deep copy has the same content -/
theorem erase_copy (n : Nat) (t : LX) : (t.copy n).1.erase = t.erase :=
  erase_copy' n t

/-- a deep copy made at counter `n` uses exactly fresh labels: all in `[n, next)`, no repeats -/
theorem copy_fresh (n : Nat) (t : LX) :
    (∀ l ∈ (t.copy n).1.labels, n ≤ l ∧ l < (t.copy n).2) ∧ (t.copy n).1.labels.Nodup ∧ n < (t.copy n).2 :=
  copy_fresh' n t

/-- one step of a history (an operation on an object of the running order that does not insert by
    reference) preserves separation and leaves every other tree — every message object, every other
    running order — exactly as it was -/
theorem sep_step (ro : LX) (rest : List LX) (n : Nat) (op : Op) (hs : World.Sep ⟨ro :: rest, n⟩)
    (hr : op.isRef = false) (hp : op.parent ∈ ro.labels) :
    World.Sep (World.apply ⟨ro :: rest, n⟩ op) ∧
    ∃ ro', (World.apply ⟨ro :: rest, n⟩ op).trees = ro' :: rest := by
  -- edits that permute or thin out the children add no label
  have perm_case : ∀ (f : List LX → List LX), (∀ ks, ∃ l', (labelsL (f ks)).Perm l' ∧ l'.Sublist (labelsL ks)) →
      World.Sep ⟨(ro :: rest).map (LX.upd op.parent f), n⟩ ∧
        (ro :: rest).map (LX.upd op.parent f) = ro.upd op.parent f :: rest := by
    intro f hf
    apply sep_upd ro rest n n op.parent f [] hs hp
    · intro ks x hx
      obtain ⟨l', hp', hs'⟩ := hf ks
      exact Or.inl (hs'.subset (hp'.subset hx))
    · intro ks hn _
      obtain ⟨l', hp', hs'⟩ := hf ks
      exact hp'.nodup_iff.mpr (hs'.nodup hn)
    · intro x hx; cases hx
    · exact Nat.le_refl _
  cases op with
  | insertRef p i src => simp [Op.isRef] at hr
  | insertCopy p i src =>
    simp only [Op.parent] at hp
    obtain ⟨hc1, hc2, hc3⟩ := copy_fresh n src
    have hperm : ∀ ks, (labelsL (lxInsert ks i (LX.copy n src).1)).Perm
        ((LX.copy n src).1.labels ++ labelsL ks) := fun ks => labelsL_perm (lxInsert_perm ks i _)
    have := sep_upd ro rest n (LX.copy n src).2 p (fun ks => lxInsert ks i (LX.copy n src).1)
      (LX.copy n src).1.labels hs hp
      (by
        intro ks x hx
        have := (hperm ks).subset hx
        simp only [List.mem_append] at this
        exact this.symm)
      (by
        intro ks hn hd
        rw [(hperm ks).nodup_iff, List.nodup_append]
        refine ⟨hc2, hn, ?_⟩
        intro x hx y hy hxy
        subst hxy
        exact hd x hy hx)
      hc1 (Nat.le_of_lt hc3)
    exact ⟨this.1, _, this.2⟩
  | removeAt p i =>
    have := perm_case (fun ks => ks.eraseIdx i)
      (fun ks => ⟨_, List.Perm.refl _, labelsL_sublist (List.eraseIdx_sublist ks i)⟩)
    exact ⟨this.1, _, this.2⟩
  | swapAt p i j =>
    have := perm_case (fun ks => lxSwap ks i j) (fun ks => ⟨_, labelsL_perm (lxSwap_perm ks i j), List.Sublist.refl _⟩)
    exact ⟨this.1, _, this.2⟩
  | moveAt p i j =>
    have := perm_case (fun ks => lxMove ks i j) (fun ks => ⟨_, labelsL_perm (lxMove_perm ks i j), List.Sublist.refl _⟩)
    exact ⟨this.1, _, this.2⟩

/-- C13 over histories: for every sequence of merge operations in which payloads are inserted as
    copies, separation is invariant and every message object (and every other running order) keeps
    its identity structure and content -/
theorem sep_history (ro : LX) (rest : List LX) (n : Nat) (ops : List Op) (w' : World)
    (hs : World.Sep ⟨ro :: rest, n⟩) (hrun : World.run ⟨ro :: rest, n⟩ ops = some w') :
    World.Sep w' ∧ ∃ ro', w'.trees = ro' :: rest := by
  induction ops generalizing ro n with
  | nil =>
    simp only [World.run, Option.some.injEq] at hrun
    subst hrun
    exact ⟨hs, ro, rfl⟩
  | cons op ops ih =>
    simp only [World.run] at hrun
    split at hrun
    · cases hrun
    · rename_i hcond
      simp only [Bool.or_eq_true, Bool.not_eq_eq_eq_not, Bool.not_true, not_or,
        Bool.not_eq_true, Bool.not_eq_false, List.contains_iff_mem] at hcond
      obtain ⟨hs', ro', htrees⟩ := sep_step ro rest n op hs hcond.1 hcond.2
      have hw : World.apply ⟨ro :: rest, n⟩ op = ⟨ro' :: rest, (World.apply ⟨ro :: rest, n⟩ op).next⟩ := by
        rw [← htrees]
      rw [hw] at hrun hs'
      exact ih ro' _ hs' hrun

/-- two running orders fed by the same message stay disjoint: under separation no label of one tree
    occurs in another -/
theorem sep_disjoint (w : World) (hs : w.Sep) (i j : Nat) (hij : i ≠ j) (ti tj : LX)
    (hi : w.trees[i]? = some ti) (hj : w.trees[j]? = some tj) : ∀ l ∈ ti.labels, l ∉ tj.labels := by
  have key : ∀ (ts : List LX), (ts.flatMap LX.labels).Nodup → ∀ (i j : Nat), i < j → ∀ (ti tj : LX),
      ts[i]? = some ti → ts[j]? = some tj → ∀ l ∈ ti.labels, l ∉ tj.labels := by
    intro ts
    induction ts with
    | nil => intro _ i j _ ti tj hi; simp at hi
    | cons t ts ih =>
      intro hn i j hij ti tj hi hj l hl hl'
      simp only [List.flatMap_cons, List.nodup_append] at hn
      cases j with
      | zero => omega
      | succ j =>
        simp only [List.getElem?_cons_succ] at hj
        cases i with
        | zero =>
          simp only [List.getElem?_cons_zero, Option.some.injEq] at hi
          subst hi
          exact hn.2.2 l hl l (List.mem_flatMap.mpr ⟨tj, List.mem_of_getElem? hj, hl'⟩) rfl
        | succ i =>
          simp only [List.getElem?_cons_succ] at hi
          exact ih hn.2.1 i j (by omega) ti tj hi hj l hl hl'
  intro l hl hl'
  rcases Nat.lt_or_gt_of_ne hij with h | h
  · exact key w.trees hs.1 i j h ti tj hi hj l hl hl'
  · exact key w.trees hs.1 j i h tj ti hj hi l hl' hl

/-- the reason "inserted as copies" is a hypothesis: inserting a message's story by reference and
    then removing one of its items through the running order changes the message object -/
theorem ref_counterexample :
    let item : LX := .node 3 "item" [] none none []
    let story : LX := .node 2 "story" [] none none [item]
    let msg : LX := .node 1 "roStoryAppend" [] none none [story]
    let ro : LX := .node 0 "roCreate" [] none none []
    let w : World := ⟨[ro, msg], 4⟩
    let w1 := w.apply (.insertRef 0 0 story)
    let w2 := w1.apply (.removeAt 2 0)
    (w2.trees[1]?.map LX.erase) ≠ (w.trees[1]?.map LX.erase) := by
  decide

/-- … whereas with a copy the message is untouched by the same later edit -/
theorem copy_example :
    let item : LX := .node 3 "item" [] none none []
    let story : LX := .node 2 "story" [] none none [item]
    let msg : LX := .node 1 "roStoryAppend" [] none none [story]
    let ro : LX := .node 0 "roCreate" [] none none []
    let w : World := ⟨[ro, msg], 4⟩
    let w1 := w.apply (.insertCopy 0 0 story)
    let w2 := w1.apply (.removeAt 4 0)
    (w2.trees[1]?.map LX.erase) = (w.trees[1]?.map LX.erase) ∧
    (w2.trees[0]?.map LX.erase) = some (.node "roCreate" [] none none [.node "story" [] none none []]) := by
  decide

end Mrm
