/-
  Mrm/Proofs/FrameLoops.lean — the merges' building blocks (loops, lookups + edit) leave
  `filter q` unchanged when `q` fails on every child the message names.
-/
import Mrm.Proofs.FrameSeq
import Mrm.Proofs.Rc

namespace Mrm

/-! ### well-formedness is kept by removal -/

theorem WfKids_eraseIdx (tag : String) (cs : List Xml) (i : Nat) (h : WfKids tag cs = true) :
    WfKids tag (cs.eraseIdx i) = true := by
  unfold WfKids at *
  rw [List.all_eq_true] at *
  intro x hx
  exact h x (List.mem_of_mem_eraseIdx hx)

/-- the child a successful lookup returns fails `q` as soon as `q` fails on every child with that ID -/
theorem q_of_locate {q : Xml → Bool} {tag : String} {cs : List Xml} {id : Key} {i : Nat}
    (hl : locate tag cs id = some i)
    (hq : ∀ k, id = some k → ∀ c, isChild tag k c = true → q c = false) :
    ∀ hi : i < cs.length, q cs[i] = false := by
  intro hi
  obtain ⟨k, hk, _, hc, _⟩ := locate_some hl
  exact hq k hk _ hc

/-! ### `deleteLoop` -/

theorem deleteLoop_filter (q : Xml → Bool) (tag : String) (w : Warn) (mid : Option PyExc)
    (cs : List Xml) (ids : List Key) (ws : List Warn)
    (hq : ∀ k, some k ∈ ids → ∀ c, isChild tag k c = true → q c = false) :
    (deleteLoop tag w mid cs ids ws).kids.filter q = cs.filter q := by
  induction ids generalizing cs ws with
  | nil => simp [deleteLoop]
  | cons id ids ih =>
    unfold deleteLoop
    rw [findChildId_ok tag cs id]
    have hq' : ∀ k, some k ∈ ids → ∀ c, isChild tag k c = true → q c = false :=
      fun k hk => hq k (List.mem_cons_of_mem _ hk)
    cases hl : locate tag cs id with
    | none =>
      simp only
      cases mid with
      | some e => rfl
      | none => exact ih cs _ hq'
    | some i =>
      simp only
      rw [ih (cs.eraseIdx i) ws hq']
      apply filter_eraseIdx_of_false
      apply q_of_locate hl
      intro k hk
      exact hq k (by rw [hk]; exact List.mem_cons_self)

/-! ### `insertDedup` -/

theorem insertDedup_filter (q : Xml → Bool) (mid : Option PyExc) (ex : List Key)
    (cs : List Xml) (i : Nat) (ss : List Xml) (ws : List Warn)
    (hq : ∀ s ∈ ss, q s = false) :
    (insertDedup mid ex cs i ss ws).kids.filter q = cs.filter q := by
  induction ss generalizing cs i ws with
  | nil => simp [insertDedup]
  | cons s ss ih =>
    have hq' : ∀ s ∈ ss, q s = false := fun x hx => hq x (List.mem_cons_of_mem _ hx)
    unfold insertDedup
    split
    · cases mid with
      | some e => rfl
      | none => exact ih cs i _ hq'
    · rw [ih _ _ _ hq']
      exact filter_pyInsert_of_false q cs i s (hq s List.mem_cons_self)

/-! ### multi-source move -/

theorem collectSources_mem (tag : String) (mid : Option PyExc) (cs : List Xml) (target : Option Nat) (ids : List Key) (acc idxs : List Nat)
    (h : collectSources tag mid cs target ids acc = .ok idxs) :
    ∀ i ∈ idxs, i ∈ acc ∨ ∃ id ∈ ids, locate tag cs id = some i := by
  induction ids generalizing acc with
  | nil =>
    simp only [collectSources] at h
    cases h
    intro i hi; exact Or.inl hi
  | cons id ids ih =>
    unfold collectSources at h
    rw [findChildId_ok tag cs id] at h
    cases hl : locate tag cs id with
    | none => rw [hl] at h; simp at h
    | some j =>
      rw [hl] at h
      simp only at h
      split at h
      · cases h
      · intro i hi
        rcases ih _ h i hi with h1 | ⟨id', hid', hl'⟩
        · rw [List.mem_append] at h1
          rcases h1 with h1 | h1
          · exact Or.inl h1
          · simp only [List.mem_singleton] at h1
            subst h1
            exact Or.inr ⟨id, List.mem_cons_self, hl⟩
        · exact Or.inr ⟨id', List.mem_cons_of_mem _ hid', hl'⟩

theorem moveMany_filter (q : Xml → Bool) (tag : String) (mid : Option PyExc) (cs : List Xml)
    (t : Key) (ss : List Key)
    (hq : ∀ k, some k ∈ ss → ∀ c, isChild tag k c = true → q c = false) :
    (moveMany tag mid cs t ss).kids.filter q = cs.filter q := by
  unfold moveMany
  split
  · rfl
  · rename_i target _
    split
    · rfl
    · rename_i idxs hc
      simp only
      apply filter_moveNodes_of_false
      intro i hi
      rcases collectSources_mem tag mid cs target ss [] idxs hc i hi with h1 | ⟨id, hid, hl⟩
      · cases h1
      · apply q_of_locate hl
        intro k hk
        exact hq k (by rw [← hk]; exact hid)

/-! ### swap -/

theorem swapTwo_filter (q : Xml → Bool) (tag : String) (mid : Option PyExc) (cs : List Xml)
    (ids : List Key)
    (hq : ∀ k, some k ∈ ids → ∀ c, isChild tag k c = true → q c = false) :
    (swapTwo tag mid cs ids).kids.filter q = cs.filter q := by
  unfold swapTwo
  split
  · rfl
  · rename_i a b hu
    have hab : ids = [a, b] := by
      unfold unpack2 at hu
      split at hu
      · cases hu; rfl
      · cases hu
    rw [findRequired_ok tag mid cs a, findRequired_ok tag mid cs b]
    cases hla : locate tag cs a with
    | none => rfl
    | some i =>
      simp only
      cases hlb : locate tag cs b with
      | none => rfl
      | some j =>
        simp only
        apply filter_swapNodes_of_false
        · apply q_of_locate hla
          intro k hk; exact hq k (by rw [hab, hk]; simp)
        · apply q_of_locate hlb
          intro k hk; exact hq k (by rw [hab, hk]; simp)

/-! ### insert before a target -/

theorem insertBefore_filter (q : Xml → Bool) (tag : String) (mid : Option PyExc) (cs : List Xml)
    (t : Key) (xs : List Xml) (hq : ∀ x ∈ xs, q x = false) :
    (insertBefore tag mid cs t xs).kids.filter q = cs.filter q := by
  unfold insertBefore
  split
  · rfl
  · exact filter_insertMany_of_false q cs _ xs hq
  · exact filter_insertMany_of_false q cs _ xs hq

/-! ### roMetadataReplace -/

theorem mdTarget_some {cs : List Xml} {s : Xml} {i : Nat} (h : mdTarget cs s = some i) :
    ∃ hi : i < cs.length, sameMdKey s cs[i] = true := by
  unfold mdTarget at h
  split at h
  · rename_i ht
    rw [List.findIdx?_eq_some_iff_getElem] at h
    obtain ⟨hi, hp, _⟩ := h
    refine ⟨hi, ?_⟩
    simp only [Bool.and_eq_true] at hp
    simp [sameMdKey, hp.1, hp.2]
  · rename_i ht
    unfold findChildAny at h
    rw [List.findIdx?_eq_some_iff_getElem] at h
    obtain ⟨hi, hp, _⟩ := h
    refine ⟨hi, ?_⟩
    simp only [sameMdKey, hp, Bool.true_and, Bool.or_eq_true]
    left
    simpa using ht

theorem metadataLoop_filter (q : Xml → Bool) (cs ss : List Xml)
    (hq : ∀ s ∈ ss, ∀ c, sameMdKey s c = true → q c = false)
    (hs : ∀ s ∈ ss, q s = false) :
    (metadataLoop cs ss).filter q = cs.filter q := by
  induction ss generalizing cs with
  | nil => simp [metadataLoop]
  | cons s ss ih =>
    have hq' : ∀ s ∈ ss, ∀ c, sameMdKey s c = true → q c = false :=
      fun x hx => hq x (List.mem_cons_of_mem _ hx)
    have hs' : ∀ s ∈ ss, q s = false := fun x hx => hs x (List.mem_cons_of_mem _ hx)
    unfold metadataLoop
    split
    · rw [ih _ hq' hs']
      exact filter_pyInsert_of_false q cs _ s (hs s List.mem_cons_self)
    · rename_i i hi
      rw [ih _ hq' hs', filter_pyInsert_of_false q _ _ s (hs s List.mem_cons_self)]
      apply filter_eraseIdx_of_false
      intro hlt
      obtain ⟨_, hk⟩ := mdTarget_some hi
      exact hq s List.mem_cons_self _ hk

end Mrm
