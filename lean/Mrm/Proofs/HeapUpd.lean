/-
  Mrm/Proofs/HeapUpd.lean — labels after a mutation of one object, and separation of the world.
-/
import Mrm.Proofs.HeapSeq

set_option linter.unusedSectionVars false

namespace Mrm

open LX

section upd
variable (l : Nat) (f : List LX → List LX) (extra : List Nat)
variable (hfm : ∀ ks x, x ∈ labelsL (f ks) → x ∈ labelsL ks ∨ x ∈ extra)

include hfm in
mutual
theorem mem_upd (t : LX) : ∀ x ∈ (t.upd l f).labels, x ∈ t.labels ∨ x ∈ extra := by
  match t with
  | .node l' tg a tx tl ks =>
    intro x hx
    simp only [LX.upd, LX.labels, List.mem_cons] at hx ⊢
    rcases hx with rfl | hx
    · exact Or.inl (Or.inl rfl)
    · have ih := mem_updL ks
      split at hx
      · rcases hfm _ x hx with h | h
        · rcases ih x h with h' | h'
          · exact Or.inl (Or.inr h')
          · exact Or.inr h'
        · exact Or.inr h
      · rcases ih x hx with h' | h'
        · exact Or.inl (Or.inr h')
        · exact Or.inr h'
theorem mem_updL (ts : List LX) : ∀ x ∈ labelsL (updL l f ts), x ∈ labelsL ts ∨ x ∈ extra := by
  match ts with
  | [] => intro x hx; simp [updL, labelsL] at hx
  | k :: ks =>
    intro x hx
    simp only [updL, labelsL, List.mem_append] at hx ⊢
    rcases hx with hx | hx
    · rcases mem_upd k x hx with h | h
      · exact Or.inl (Or.inl h)
      · exact Or.inr h
    · rcases mem_updL ks x hx with h | h
      · exact Or.inl (Or.inr h)
      · exact Or.inr h
end

variable (hfn : ∀ ks, (labelsL ks).Nodup → (∀ x ∈ labelsL ks, x ∉ extra) → (labelsL (f ks)).Nodup)

include hfm hfn in
mutual
theorem nodup_upd (t : LX) (hn : t.labels.Nodup) (hd : ∀ x ∈ t.labels, x ∉ extra) :
    (t.upd l f).labels.Nodup := by
  match t with
  | .node l' tg a tx tl ks =>
    simp only [LX.labels, List.nodup_cons] at hn
    simp only [LX.labels, List.mem_cons] at hd
    have hdk : ∀ x ∈ labelsL ks, x ∉ extra := fun x hx => hd x (Or.inr hx)
    simp only [LX.upd, LX.labels, List.nodup_cons]
    split
    · rename_i hl
      subst hl
      rw [updL_of_not_mem l' f ks hn.1]
      refine ⟨?_, hfn ks hn.2 hdk⟩
      intro hmem
      rcases hfm ks l' hmem with h | h
      · exact hn.1 h
      · exact hd l' (Or.inl rfl) h
    · refine ⟨?_, nodup_updL ks hn.2 hdk⟩
      intro hmem
      rcases mem_updL l f extra hfm ks l' hmem with h | h
      · exact hn.1 h
      · exact hd l' (Or.inl rfl) h
theorem nodup_updL (ts : List LX) (hn : (labelsL ts).Nodup) (hd : ∀ x ∈ labelsL ts, x ∉ extra) :
    (labelsL (updL l f ts)).Nodup := by
  match ts with
  | [] => simp [updL, labelsL]
  | k :: ks =>
    simp only [labelsL, List.nodup_append] at hn
    simp only [labelsL, List.mem_append] at hd
    obtain ⟨hn1, hn2, hdis⟩ := hn
    have hd1 : ∀ x ∈ k.labels, x ∉ extra := fun x hx => hd x (Or.inl hx)
    have hd2 : ∀ x ∈ labelsL ks, x ∉ extra := fun x hx => hd x (Or.inr hx)
    simp only [updL, labelsL]
    by_cases hl : l ∈ k.labels
    · have hl2 : l ∉ labelsL ks := fun h => hdis l hl l h rfl
      rw [updL_of_not_mem l f ks hl2, List.nodup_append]
      refine ⟨nodup_upd k hn1 hd1, hn2, ?_⟩
      intro x hx y hy hxy
      subst hxy
      rcases mem_upd l f extra hfm k x hx with h | h
      · exact hdis x h x hy rfl
      · exact hd2 x hy h
    · rw [upd_of_not_mem' l f k hl, List.nodup_append]
      refine ⟨hn1, nodup_updL ks hn2 hd2, ?_⟩
      intro x hx y hy hxy
      subst hxy
      rcases mem_updL l f extra hfm ks x hy with h | h
      · exact hdis x hx x h rfl
      · exact hd1 x hx h
end

end upd

/-! ### one mutation of an object of the running order -/

theorem sep_upd (ro : LX) (rest : List LX) (n n' p : Nat) (f : List LX → List LX) (extra : List Nat)
    (hs : World.Sep ⟨ro :: rest, n⟩) (hp : p ∈ ro.labels)
    (hfm : ∀ ks x, x ∈ labelsL (f ks) → x ∈ labelsL ks ∨ x ∈ extra)
    (hfn : ∀ ks, (labelsL ks).Nodup → (∀ x ∈ labelsL ks, x ∉ extra) → (labelsL (f ks)).Nodup)
    (hex : ∀ x ∈ extra, n ≤ x ∧ x < n') (hnn : n ≤ n') :
    World.Sep ⟨(ro :: rest).map (LX.upd p f), n'⟩ ∧
      (ro :: rest).map (LX.upd p f) = ro.upd p f :: rest := by
  obtain ⟨hnd, hlt⟩ := hs
  simp only [World.labels, List.flatMap_cons, List.nodup_append] at hnd
  simp only [World.labels, List.flatMap_cons, List.mem_append] at hlt
  obtain ⟨hn1, hn2, hdis⟩ := hnd
  have hrest : rest.map (LX.upd p f) = rest := by
    have : ∀ t ∈ rest, LX.upd p f t = id t := by
      intro t ht
      apply upd_of_not_mem'
      intro hmem
      exact hdis p hp p (List.mem_flatMap.mpr ⟨t, ht, hmem⟩) rfl
    rw [List.map_congr_left this, List.map_id]
  have heq : (ro :: rest).map (LX.upd p f) = ro.upd p f :: rest := by
    rw [List.map_cons, hrest]
  refine ⟨?_, heq⟩
  rw [heq]
  have hd : ∀ x ∈ ro.labels, x ∉ extra := by
    intro x hx hxe
    have := hlt x (Or.inl hx)
    have := hex x hxe
    omega
  constructor
  · simp only [World.labels, List.flatMap_cons, List.nodup_append]
    refine ⟨nodup_upd p f extra hfm hfn ro hn1 hd, hn2, ?_⟩
    intro x hx y hy hxy
    subst hxy
    rcases mem_upd p f extra hfm ro x hx with h | h
    · exact hdis x h x hy rfl
    · have := hlt x (Or.inr hy)
      have := hex x h
      omega
  · intro x hx
    simp only [World.labels, List.flatMap_cons, List.mem_append] at hx
    show x < n'
    rcases hx with hx | hx
    · rcases mem_upd p f extra hfm ro x hx with h | h
      · have := hlt x (Or.inl h); omega
      · exact (hex x h).2
    · have := hlt x (Or.inr hx); omega

end Mrm
