import Mrm.Proofs.Atomic
import Mrm.Proofs.Find
import Mrm.Proofs.Rc
