import Mrm.Proofs.Atomic
import Mrm.Proofs.Find
import Mrm.Proofs.Rc
import Mrm.Proofs.NoCompleted
import Mrm.Proofs.Classify
import Mrm.Proofs.NoCrash
