/-
  Mrm/Proofs/FrameSeq.lean — generic "frame" lemmas: list edits that only add, remove or move
  elements failing a predicate `q` leave `filter q` unchanged.
-/
import Mrm.Model.Merge

namespace Mrm

variable {α : Type}

theorem exists_split (cs : List α) (i : Nat) (hi : i < cs.length) :
    ∃ a x b, cs = a ++ x :: b ∧ a.length = i ∧ cs[i] = x :=
  ⟨cs.take i, cs[i], cs.drop (i+1), (split_at_index cs i hi).1, (split_at_index cs i hi).2, rfl⟩

theorem filter_eraseIdx_of_false (q : α → Bool) (cs : List α) (i : Nat)
    (h : ∀ hi : i < cs.length, q cs[i] = false) : (cs.eraseIdx i).filter q = cs.filter q := by
  by_cases hi : i < cs.length
  · have hq := h hi
    obtain ⟨a, x, b, rfl, rfl, hx⟩ := exists_split cs i hi
    rw [hx] at hq
    rw [List.eraseIdx_append_of_length_le (Nat.le_refl _)]
    simp [List.filter_append, hq]
  · rw [List.eraseIdx_of_length_le (by omega)]

theorem filter_insertAt_of_false (q : α → Bool) (cs : List α) (i : Nat) (xs : List α)
    (h : ∀ x ∈ xs, q x = false) : (insertAt cs i xs).filter q = cs.filter q := by
  have hx : xs.filter q = [] := by
    rw [List.filter_eq_nil_iff]; intro x hx; simp [h x hx]
  unfold insertAt
  rw [List.filter_append, List.filter_append, hx, List.append_nil, ← List.filter_append,
    List.take_append_drop]

theorem filter_insertMany_of_false (q : α → Bool) (cs : List α) (i : Nat) (xs : List α)
    (h : ∀ x ∈ xs, q x = false) : (insertMany cs i xs).filter q = cs.filter q := by
  rw [insertMany_eq_insertAt]; exact filter_insertAt_of_false q cs i xs h

theorem filter_pyInsert_of_false (q : α → Bool) (cs : List α) (i : Nat) (x : α)
    (h : q x = false) : (pyInsert cs i x).filter q = cs.filter q := by
  have := filter_insertAt_of_false q cs i [x] (by simpa using h)
  simpa [insertAt, pyInsert] using this

theorem filter_append_of_false (q : α → Bool) (cs xs : List α)
    (h : ∀ x ∈ xs, q x = false) : (cs ++ xs).filter q = cs.filter q := by
  have hx : xs.filter q = [] := by
    rw [List.filter_eq_nil_iff]; intro x hx; simp [h x hx]
  rw [List.filter_append, hx, List.append_nil]

theorem filter_replaceAt_of_false (q : Xml → Bool) (cs : List Xml) (i : Nat) (xs : List Xml)
    (hi : ∀ hi : i < cs.length, q cs[i] = false)
    (h : ∀ x ∈ xs, q x = false) : (replaceAt cs i xs).filter q = cs.filter q := by
  unfold replaceAt
  rw [filter_insertMany_of_false q _ _ _ h, filter_eraseIdx_of_false q cs i hi]

theorem filter_set_of_false (q : α → Bool) (cs : List α) (i : Nat) (y : α)
    (hi : ∀ hi : i < cs.length, q cs[i] = false) (hy : q y = false) :
    (cs.set i y).filter q = cs.filter q := by
  by_cases h : i < cs.length
  · have hq := hi h
    obtain ⟨a, x, b, rfl, rfl, hx⟩ := exists_split cs i h
    rw [hx] at hq
    simp [List.filter_append, hq, hy]
  · rw [List.set_eq_of_length_le (by omega)]

theorem filter_swapNodes_of_false (q : α → Bool) (cs : List α) (i j : Nat)
    (hi : ∀ hi : i < cs.length, q cs[i] = false) (hj : ∀ hj : j < cs.length, q cs[j] = false) :
    (swapNodes cs i j).filter q = cs.filter q := by
  unfold swapNodes
  split
  · rename_i a b ha hb
    obtain ⟨hil, hia⟩ := List.getElem?_eq_some_iff.mp ha
    obtain ⟨hjl, hjb⟩ := List.getElem?_eq_some_iff.mp hb
    have qa : q a = false := by rw [← hia]; exact hi hil
    have qb : q b = false := by rw [← hjb]; exact hj hjl
    rw [filter_set_of_false q _ j a _ qa, filter_set_of_false q cs i b hi qb]
    intro hj'
    by_cases hij : i = j
    · subst hij; simp [qb]
    · rw [List.getElem_set_ne hij]; exact hj hjl
  · rfl

theorem filter_moveNodes_of_false (q : α → Bool) (cs : List α) (src : List Nat) (before : Option Nat)
    (h : ∀ i ∈ src, ∀ hi : i < cs.length, q cs[i] = false) :
    (moveNodes cs src before).filter q = cs.filter q := by
  unfold moveNodes
  simp only
  generalize hrest : cs.zipIdx.filter (fun p => !src.contains p.2) = rest
  generalize (match before with
    | none => rest.length
    | some j => (rest.findIdx? (fun (p : α × Nat) => p.2 == j)).getD rest.length) = pos
  have hmoved : (src.filterMap (fun i => cs[i]?)).filter q = [] := by
    rw [List.filter_eq_nil_iff]
    intro x hx
    rw [List.mem_filterMap] at hx
    obtain ⟨i, hi, hx⟩ := hx
    obtain ⟨hil, hix⟩ := List.getElem?_eq_some_iff.mp hx
    rw [← hix]; simp [h i hi hil]
  rw [List.filter_append, List.filter_append, hmoved, List.append_nil, ← List.filter_append,
    ← List.map_append, List.take_append_drop, ← hrest]
  have hcs : cs.filter q = (cs.zipIdx.filter (q ∘ Prod.fst)).map Prod.fst := by
    rw [← List.filter_map, List.zipIdx_map_fst]
  rw [hcs, List.filter_map, List.filter_filter]
  congr 1
  apply List.filter_congr
  intro p hp
  rw [List.mem_zipIdx_iff_getElem?] at hp
  obtain ⟨hil, hix⟩ := List.getElem?_eq_some_iff.mp hp
  by_cases hs : p.2 ∈ src
  · have := h p.2 hs hil
    rw [hix] at this
    simp [this]
  · simp [hs]

end Mrm
