/-
  Mrm/Proofs/FrameItem.lean — C03 at the item level: only the addressed story changes, and inside
  it the items the message does not name are kept, in order.
-/
import Mrm.Proofs.FrameStory

namespace Mrm

/-- the outcome of an item-level merge on the `roCreate` children: unchanged when the story
    reference does not resolve, otherwise only the addressed story's children change, framed by `q` -/
def ItemShape (q : Xml → Bool) (cs : List Xml) (sid : Key) (cs' : List Xml) : Prop :=
  match locate "story" cs sid with
  | none => cs' = cs
  | some j => ∃ s ks', cs[j]? = some s ∧ cs' = cs.set j (s.withKids ks') ∧
      ks'.filter q = s.kids.filter q

theorem inStoryAt_shape (q : Xml → Bool) (cs : List Xml) (sid : Key) (j : Nat) (f : List Xml → Out)
    (hl : locate "story" cs sid = some j)
    (hf : ∀ s ∈ cs, s.tag = "story" → (f s.kids).kids.filter q = s.kids.filter q) :
    ItemShape q cs sid (inStoryAt cs j f).kids := by
  unfold ItemShape
  rw [hl]
  obtain ⟨k, _, hj, hc, _⟩ := locate_some hl
  have hget : cs[j]? = some cs[j] := List.getElem?_eq_getElem hj
  refine ⟨cs[j], (f cs[j].kids).kids, hget, ?_, ?_⟩
  · unfold inStoryAt
    rw [hget]
  · exact hf _ (List.getElem_mem hj) (keyOf_of_isChild hc).1

theorem inStory_shape (q : Xml → Bool) (mid : Option PyExc) (cs : List Xml) (sid : Key)
    (f : List Xml → Out)
    (hf : ∀ s ∈ cs, s.tag = "story" → (f s.kids).kids.filter q = s.kids.filter q) :
    ItemShape q cs sid (inStory mid cs sid f).kids := by
  unfold inStory
  rw [findRequired_ok _ _ _ _]
  cases hl : locate "story" cs sid with
  | none => simp only [ItemShape, hl]; rfl
  | some j => exact inStoryAt_shape q cs sid j f hl hf

/-- the frame predicate of C03 at the item level -/
abbrev itemQ (k : Kind) (base : Xml) : Xml → Bool :=
  fun c => !isTouched "item" (touchedIds k "item" (namedOf k base)) (namedOf k base).carried c

theorem itemLevel_shape (k : Kind) (rc base : Xml) (mid : Option PyExc)
    (hk : k.isItemLevel = true) :
    ItemShape (itemQ k base) rc.kids (namedOf k base).story (mergeRc k rc base mid).kids := by
  cases k <;> first | (simp [Kind.isItemLevel] at hk; done) | skip
  case ItemDelete =>
    simp only [mergeRc]
    apply inStory_shape _ _ _ _ _
    intro s hs ht
    apply deleteLoop_filter _ _ _ _ _ _ _
    exact qfalse_ids _ (fun x hx => hx)
  case EAItemDelete =>
    simp only [mergeRc]
    rw [findChildId_ok _ _ _]
    cases hl : locate "story" rc.kids (elemId (base.find "element_target") "storyID") with
    | none =>
      have : ItemShape (itemQ .EAItemDelete base) rc.kids
          (elemId (base.find "element_target") "storyID") rc.kids := by
        simp only [ItemShape, hl]
      cases mid <;> exact this
    | some j =>
      simp only
      apply inStoryAt_shape _ _ _ _ _ hl
      intro s hs ht
      apply deleteLoop_filter _ _ _ _ _ _ _
      exact qfalse_ids _ (fun x hx => hx)
  case ItemInsert =>
    simp only [mergeRc]
    apply inStory_shape _ _ _ _ _
    intro s hs ht
    apply insertBefore_filter
    exact qfalse_findall base (fun x hx => hx)
  case EAItemInsert =>
    simp only [mergeRc]
    apply inStory_shape _ _ _ _ _
    intro s hs ht
    apply insertBefore_filter
    exact qfalse_elemsOf _ (fun x hx => hx)
  case ItemReplace =>
    simp only [mergeRc]
    apply inStory_shape _ _ _ _ _
    intro s hs ht
    rw [findRequired_ok _ _ _ _]
    cases hl : locate "item" s.kids (elemId (some base) "itemID") with
    | none => rfl
    | some i =>
      simp only
      apply replaceFound_filter _ _ _ _ _ _ hl
      · apply qfalse_id
        simp [touchedIds, namedOf, Kind.group, elemId]
      · apply qfalse_findall base
        intro x hx; exact hx
  case EAItemReplace =>
    simp only [mergeRc]
    apply inStory_shape _ _ _ _ _
    intro s hs ht
    rw [findRequired_ok _ _ _ _]
    cases hl : locate "item" s.kids (elemId (base.find "element_target") "itemID") with
    | none => rfl
    | some i =>
      simp only
      apply replaceFound_filter _ _ _ _ _ _ hl
      · apply qfalse_id
        simp [touchedIds, namedOf, Kind.group, elemId]
      · apply qfalse_elemsOf
        intro x hx; exact hx
  case EAItemSwap =>
    simp only [mergeRc, textsOf_opt]
    apply inStory_shape _ _ _ _ _
    intro s hs ht
    apply swapTwo_filter _ _ _ _ _
    exact qfalse_ids _ (fun x hx => hx)
  case EAItemMove =>
    simp only [mergeRc, textsOf_opt]
    apply inStory_shape _ _ _ _ _
    intro s hs ht
    apply moveMany_filter _ _ _ _ _ _
    exact qfalse_ids _ (fun x hx => hx)
  case ItemMoveMultiple =>
    simp only [mergeRc]
    split
    · rename_i hnone
      have hst : (namedOf .ItemMoveMultiple base).story = none := hnone
      simp only [ItemShape, hst, locate]
      rfl
    · rename_i sid hsome
      have hst : (namedOf .ItemMoveMultiple base).story = some sid := hsome
      rw [hst]
      apply inStory_shape _ _ _ _ _
      intro s hs ht
      split
      · rfl
      · apply moveMany_filter _ _ _ _ _ _
        exact qfalse_ids _ (fun x hx => hx)

end Mrm
