/-
  Mrm/Proofs/Seq.lean — generic list lemmas (split form) used by the closed forms of the merges.
-/
import Mrm.Py

namespace Mrm

variable {α : Type}

theorem eraseIdx_split (a b : List α) (x : α) : (a ++ x :: b).eraseIdx a.length = a ++ b := by
  simp [List.eraseIdx_append_of_length_le]

theorem set_split (a b : List α) (x y : α) : (a ++ x :: b).set a.length y = a ++ y :: b := by
  simp

theorem getElem?_split (a b : List α) (x : α) : (a ++ x :: b)[a.length]? = some x := by
  simp

theorem idxOf?_split [BEq α] [LawfulBEq α] (a b : List α) (t : α) (h : t ∉ a) :
    (a ++ t :: b).idxOf? t = some a.length := by
  unfold List.idxOf?
  rw [List.findIdx?_eq_some_iff_getElem]
  refine ⟨by simp, by simp, ?_⟩
  intro j hj
  rw [List.getElem_append_left hj]
  intro hc
  apply h
  have : a[j] = t := by simpa using hc
  rw [← this]; exact List.getElem_mem hj

theorem erase_split [BEq α] [LawfulBEq α] (a b : List α) (t : α) (h : t ∉ a) :
    (a ++ t :: b).erase t = a ++ b := by
  rw [List.erase_append_right _ h]; simp

theorem take_split (a b : List α) : (a ++ b).take a.length = a := by simp
theorem drop_split (a b : List α) : (a ++ b).drop a.length = b := by simp
theorem drop_split_succ (a b : List α) (x : α) : (a ++ x :: b).drop (a.length + 1) = b := by
  simp

/-- `find_w?` only sees the elements a coarser filter keeps -/
theorem find_w?_filter_of_imp (p q : α → Bool) (l : List α) (h : ∀ x, p x = true → q x = true) :
    (l.filter q).find? p = l.find? p := by
  rw [List.find?_filter]
  congr 1
  funext x
  cases hp : p x
  · simp
  · simp [h x hp]

theorem split_of_lt (l : List α) (i : Nat) (h : i < l.length) :
    ∃ a x b, l = a ++ x :: b ∧ a.length = i ∧ l[i]? = some x := by
  refine ⟨l.take i, l[i], l.drop (i+1), ?_, ?_, by simp [h]⟩
  · simp
  · simp [List.length_take]; omega

end Mrm
