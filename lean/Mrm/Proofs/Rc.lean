/-
  Mrm/Proofs/Rc.lean — the shape of `ro + msg` for the classes that edit the `roCreate` children:
  the root is rebuilt around the new child list of the first `roCreate`, nothing else moves.
-/
import Mrm.Proofs.Find
import Mrm.Spec.Frame

namespace Mrm

theorem findChildAny_eq_rcIndex (d : Xml) : findChildAny d.kids "roCreate" = rcIndex d := rfl

theorem rcOf_eq_getElem (d : Xml) {i : Nat} (h : rcIndex d = some i) :
    ∃ rc, d.kids[i]? = some rc ∧ rcOf d = some rc ∧ rc.tag = "roCreate" := by
  unfold rcIndex at h
  rw [List.findIdx?_eq_some_iff_getElem] at h
  obtain ⟨hi, hp, hlt⟩ := h
  refine ⟨d.kids[i], by simp [hi], ?_, by simpa using hp⟩
  unfold rcOf Xml.find
  rw [List.find?_eq_some_iff_getElem]
  refine ⟨hp, i, hi, rfl, ?_⟩
  intro j hj
  simpa using hlt j hj

theorem rcOf_none_of_rcIndex_none (d : Xml) (h : rcIndex d = none) : rcOf d = none := by
  unfold rcIndex at h
  unfold rcOf Xml.find
  rw [List.findIdx?_eq_none_iff] at h
  rw [List.find?_eq_none]
  intro x hx; simpa using h x hx

theorem rcIndex_of_rcOf {d rc : Xml} (h : rcOf d = some rc) :
    ∃ i, rcIndex d = some i ∧ d.kids[i]? = some rc := by
  cases hi : rcIndex d with
  | none => rw [rcOf_none_of_rcIndex_none d hi] at h; cases h
  | some i =>
    obtain ⟨rc', h1, h2, _⟩ := rcOf_eq_getElem d hi
    rw [h] at h2; cases h2
    exact ⟨i, rfl, h1⟩

/-- replacing the children of the `roCreate` keeps it the first `roCreate` -/
theorem rcIndex_setRcKids (d : Xml) (cs : List Xml) : rcIndex (setRcKids d cs) = rcIndex d := by
  unfold setRcKids
  cases hi : rcIndex d with
  | none => simp [hi]
  | some i =>
    obtain ⟨rc, h1, _, ht⟩ := rcOf_eq_getElem d hi
    simp only [h1]
    unfold rcIndex at hi ⊢
    simp only [Xml.withKids_kids]
    rw [List.findIdx?_eq_some_iff_getElem] at hi ⊢
    obtain ⟨hlt, hp, hb⟩ := hi
    refine ⟨by simpa using hlt, ?_, ?_⟩
    · simp [ht]
    · intro j hj
      have : j ≠ i := by omega
      rw [List.getElem_set_ne (by omega)]
      exact hb j hj

theorem rcOf_setRcKids (d rc : Xml) (cs : List Xml) (h : rcOf d = some rc) :
    rcOf (setRcKids d cs) = some (rc.withKids cs) := by
  obtain ⟨i, hi, hrc⟩ := rcIndex_of_rcOf h
  have hi' := rcIndex_setRcKids d cs
  rw [hi] at hi'
  obtain ⟨rc', h1, h2, _⟩ := rcOf_eq_getElem _ hi'
  rw [h2]
  unfold setRcKids at h1
  simp only [hi, hrc, Xml.withKids_kids] at h1
  have hlt : i < d.kids.length := by
    rcases List.getElem?_eq_some_iff.mp hrc with ⟨h, _⟩; exact h
  rw [List.getElem?_set_self hlt] at h1
  cases h1; rfl

/-- `ro + msg` for a class that edits the `roCreate` children, on a running order that is not
    completed: the root rebuilt around the merged child list -/
theorem addK_editsRc (k : Kind) (d m rc base : Xml) (hk : k.editsRc = true) (hc : completed d = false)
    (hrc : rcOf d = some rc) (hb : m.find k.baseTag = some base) :
    addK k d m =
      ⟨setRcKids d (mergeRc k rc base (msgIdExc m)).kids, (mergeRc k rc base (msgIdExc m)).warns,
       (mergeRc k rc base (msgIdExc m)).err⟩ := by
  obtain ⟨i, hi, hget⟩ := rcIndex_of_rcOf hrc
  unfold addK merge
  simp only [hc, hb, findChildAny_eq_rcIndex, hi, hget, setRcKids]
  cases k <;> first | rfl | (simp [Kind.editsRc] at hk)

end Mrm
