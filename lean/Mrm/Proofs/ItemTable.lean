/-
  Mrm/Proofs/ItemTable.lean — helper lemmas for C02 along histories: the shape of one item-level
  merge in the domain of C02, and its effect on the per-story table of item-ID sequences.
-/
import Mrm.Proofs.Order

set_option linter.unusedSimpArgs false

namespace Mrm

/-- the table of a `roCreate` child list: per story, its ID and the ID sequence of its items -/
def tableOf (cs : List Xml) : List (Key × List Key) :=
  (cs.filter (fun c => c.tag == "story")).map (fun s => (keyOf "story" s, keysOf "item" s.kids))

theorem tableOf_append (a b : List Xml) : tableOf (a ++ b) = tableOf a ++ tableOf b := by
  simp [tableOf]

theorem tableOf_cons_story {s : Xml} (h : s.tag = "story") (cs : List Xml) :
    tableOf (s :: cs) = (keyOf "story" s, keysOf "item" s.kids) :: tableOf cs := by
  simp [tableOf, List.filter_cons, h]

/-- one item-level merge in the domain of C02: no error; the addressed story (the first with the
    referenced ID) gets new children whose item-ID sequence is the protocol's and keeps its own ID;
    every other child of the `roCreate` stays -/
theorem item_step_shape {d m : Xml} {k : Kind} (h : DomOrder ⟨d, m, k⟩ = true)
    (hs : k.isItemLevel = true) :
    ∃ rc base j s items', rcOf d = some rc ∧ m.find k.baseTag = some base ∧
      addressed rc.kids (namedOf k base).story = some j ∧ rc.kids[j]? = some s ∧
      (addK k d m).err = none ∧
      rcOf (addK k d m).ro = some (rc.withKids (rc.kids.set j (s.withKids items'))) ∧
      keysOf "item" items' = specIds k "item" (namedOf k base) (keysOf "item" s.kids) ∧
      keyOf "story" (s.withKids items') = keyOf "story" s := by
  obtain ⟨rc, base, ids, hrc, hc, hsh, hb, hci, hnd, hres⟩ := DomOrder_unpack h
  have hns : k.isStoryLevel = false := by cases k <;> first | rfl | exact absurd hs (by decide)
  have hed : k.editsRc = true := by cases k <;> first | rfl | exact absurd hs (by decide)
  unfold containerIds at hci
  simp only [hrc, hns, Bool.false_eq_true, if_false] at hci
  cases ha : addressed rc.kids (namedOf k base).story with
  | none => simp [ha] at hci
  | some j =>
    simp only [ha] at hci
    cases hsj : rc.kids[j]? with
    | none => simp [hsj] at hci
    | some s =>
      simp only [hsj, Option.map_some] at hci
      have hids := Option.some.inj hci
      subst hids
      have hstag : s.tag = "story" := by
        have ha' := ha
        rw [addressed_eq_locate] at ha'
        obtain ⟨_, _, hlt, hp, _⟩ := locate_some ha'
        obtain ⟨_, rfl⟩ := List.getElem?_eq_some_iff.mp hsj
        simp only [isChild, Bool.and_eq_true] at hp
        simpa using hp.1
      have g : Good "item" s.kids := ⟨hnd⟩
      obtain ⟨e1, e2, e3⟩ := item_core k base s.kids g hs
        (by intro e; subst e; exact shaped_movemultiple hsh hb) hres
      refine ⟨rc, base, j, s, (itemFn k base s.kids).kids, hrc, hb, ha, hsj, ?_, ?_, e2,
        keyOf_story_withKids_o s _ e3⟩
      · rw [addK_editsRc k d m rc base hed hc hrc hb, shaped_mid hsh,
          mergeRc_item k rc base j s hs ha hsj]
        exact e1
      · rw [addK_editsRc k d m rc base hed hc hrc hb, shaped_mid hsh,
          mergeRc_item k rc base j s hs ha hsj]
        exact rcOf_setRcKids d rc _ hrc

/-- rows of the stories before the addressed one do not carry the referenced ID -/
theorem tableOf_no_match (a : List Xml) (x : String)
    (h : ∀ c ∈ a, (c.tag == "story" && keyOf "story" c == some x) = false) :
    ∀ row ∈ tableOf a, (row.1 == some x) = false := by
  intro row hrow
  simp only [tableOf, List.mem_map, List.mem_filter] at hrow
  obtain ⟨c, ⟨hc, htag⟩, rfl⟩ := hrow
  have := h c hc
  simpa [htag] using this

/-- replacing the addressed story by one with the same tag and ID: on the table, the first row
    with the referenced ID is that story's row, and only it changes -/
theorem table_step (cs : List Xml) (sid : Key) (j : Nat) (s s' : Xml)
    (ha : addressed cs sid = some j) (hs : cs[j]? = some s) (htag : s'.tag = s.tag)
    (hkey : keyOf "story" s' = keyOf "story" s) :
    ∃ x j', sid = some x ∧ (tableOf cs).findIdx? (fun row => row.1 == sid) = some j' ∧
      (tableOf cs)[j']? = some (keyOf "story" s, keysOf "item" s.kids) ∧
      tableOf (cs.set j s') = (tableOf cs).set j' (keyOf "story" s, keysOf "item" s'.kids) := by
  cases sid with
  | none => cases ha
  | some x =>
    simp only [addressed] at ha
    rw [List.findIdx?_eq_some_iff_getElem] at ha
    obtain ⟨hlt, hp, hbefore⟩ := ha
    obtain ⟨_, hsj⟩ := List.getElem?_eq_some_iff.mp hs
    rw [hsj] at hp
    simp only [Bool.and_eq_true, beq_iff_eq] at hp
    obtain ⟨hst, hsk⟩ := hp
    obtain ⟨h1, h2⟩ := split_at_index cs j hlt
    rw [hsj] at h1
    generalize cs.take j = a at h1 h2
    generalize cs.drop (j+1) = b at h1
    have hbefore' : ∀ c ∈ a, (c.tag == "story" && keyOf "story" c == some x) = false := by
      intro c hc
      obtain ⟨i, hi, rfl⟩ := List.mem_iff_getElem.mp hc
      have hij : i < j := by omega
      have := hbefore i hij
      have e : cs[i]'(by omega) = a[i] := by
        simp only [h1]; rw [List.getElem_append_left hi]
      rw [e] at this
      simpa using this
    have hno := tableOf_no_match a x hbefore'
    have hs't : s'.tag = "story" := by rw [htag, hst]
    refine ⟨x, (tableOf a).length, rfl, ?_, ?_, ?_⟩
    · rw [h1, tableOf_append, tableOf_cons_story hst, List.findIdx?_eq_some_iff_getElem]
      refine ⟨by simp, by simp [hsk], ?_⟩
      intro i hi
      rw [List.getElem_append_left hi]
      have := hno _ (List.getElem_mem hi)
      simp [this]
    · rw [h1, tableOf_append, tableOf_cons_story hst]
      simp
    · rw [h1, ← h2, List.set_append_right _ _ (Nat.le_refl _)]
      simp only [Nat.sub_self, List.set_cons_zero, tableOf_append, tableOf_cons_story hst,
        tableOf_cons_story hs't, hkey]
      rw [List.set_append_right _ _ (Nat.le_refl _)]
      simp

end Mrm
