/-
  Mrm/Proofs/ViewsFrom.lean — inversion and totality of `viewsFrom` (the stories walked together with
  the positional offset table).
-/
import Mrm.Model.Access

namespace Mrm

theorem viewsFrom_cons_inv {st : Option Nat} {s : Xml} {ss : List Xml} {offs : List Nat}
    {vs : List StoryView} (h : viewsFrom st (s :: ss) offs = .ok vs) :
    ∃ v vs', storyView s st offs.head? = .ok v ∧ viewsFrom st ss offs.tail = .ok vs' ∧ vs = v :: vs' := by
  simp only [viewsFrom, bind, Except.bind, pure, Except.pure] at h
  cases hb : storyView s st offs.head? with
  | error e => rw [hb] at h; cases h
  | ok v =>
    rw [hb] at h
    simp only at h
    cases hbs : viewsFrom st ss offs.tail with
    | error e => rw [hbs] at h; cases h
    | ok vs' =>
      rw [hbs] at h
      simp only [Except.ok.injEq] at h
      exact ⟨v, vs', rfl, rfl, h.symm⟩

theorem viewsFrom_total (st : Option Nat) (ss : List Xml) (offs : List Nat)
    (h : ∀ s ∈ ss, ∀ o, ∃ v, storyView s st o = .ok v) : ∃ vs, viewsFrom st ss offs = .ok vs := by
  induction ss generalizing offs with
  | nil => exact ⟨[], rfl⟩
  | cons s ss ih =>
    obtain ⟨v, hv⟩ := h s List.mem_cons_self offs.head?
    obtain ⟨vs, hvs⟩ := ih offs.tail (fun x hx => h x (List.mem_cons_of_mem _ hx))
    exact ⟨v :: vs, by simp only [viewsFrom, hv, hvs, bind, Except.bind, pure, Except.pure]⟩

/-- a projection of the views that depends on the story only -/
theorem viewsFrom_map_eq {γ : Type} {st : Option Nat} (g : StoryView → γ) (g' : Xml → γ)
    (hg : ∀ s o v, storyView s st o = .ok v → g v = g' s) {ss : List Xml} {offs : List Nat}
    {vs : List StoryView} (h : viewsFrom st ss offs = .ok vs) : vs.map g = ss.map g' := by
  induction ss generalizing offs vs with
  | nil => simp only [viewsFrom, Except.ok.injEq] at h; subst h; rfl
  | cons s ss ih =>
    obtain ⟨v, vs', hv, hvs, rfl⟩ := viewsFrom_cons_inv h
    simp only [List.map_cons, hg s _ v hv, ih hvs]

theorem viewsFrom_length {st : Option Nat} {ss : List Xml} {offs : List Nat} {vs : List StoryView}
    (h : viewsFrom st ss offs = .ok vs) : vs.length = ss.length := by
  have := viewsFrom_map_eq (st := st) (fun _ => ()) (fun _ => ()) (fun _ _ _ _ => rfl) h
  simpa using congrArg List.length this

/-- the k-th view is the view of the k-th story with the k-th offset -/
theorem viewsFrom_getElem {st : Option Nat} {ss : List Xml} {offs : List Nat} {vs : List StoryView}
    (h : viewsFrom st ss offs = .ok vs) :
    ∀ k (hk : k < vs.length) (hk' : k < ss.length), storyView ss[k] st offs[k]? = .ok vs[k] := by
  induction ss generalizing offs vs with
  | nil => intro k _ hk'; simp at hk'
  | cons s ss ih =>
    obtain ⟨v, vs', hv, hvs, rfl⟩ := viewsFrom_cons_inv h
    intro k hk hk'
    cases k with
    | zero =>
      have : offs[0]? = offs.head? := by cases offs <;> rfl
      rw [this]
      exact hv
    | succ k =>
      have : offs[k+1]? = offs.tail[k]? := by cases offs <;> simp
      rw [this]
      exact ih hvs k (by simpa using hk) (by simpa using hk')

end Mrm
