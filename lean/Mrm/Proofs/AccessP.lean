/-
  Mrm/Proofs/AccessP.lean — C15: read accessors never raise and agree with the document (targets).
-/
import Mrm.Spec.Access
import Mrm.Spec.AccessHolds
import Mrm.Proofs.HistInv
import Mrm.Model.Collection
import Mrm.Proofs.AccView
import Mrm.Proofs.AccPres

namespace Mrm

theorem wfAcc_parts {d : Xml} (h : WfAcc d = true) :
    ∃ rc, rcOf d = some rc ∧ rcOk rc.kids = true ∧ (rc.find "roSlug").isSome = true ∧
      ∀ c ∈ rc.kids, c.tag = "story" → storyTimesOk c = true := by
  unfold WfAcc HistInv at h
  cases hrc : rcOf d with
  | none => simp [hrc] at h
  | some rc =>
    simp only [hrc, Bool.and_eq_true, List.all_eq_true, Bool.or_eq_true, bne_iff_ne, ne_eq] at h
    refine ⟨rc, rfl, h.1, h.2.1, ?_⟩
    intro c hc hct
    rcases h.2.2 c hc with h' | h'
    · exact absurd hct h'
    · exact h'

/-- on a well-formed running order every accessor returns -/
theorem wfAcc_total (d : Xml) (h : WfAcc d = true) : ∃ v, roView d = .ok v := by
  obtain ⟨rc, hrc, hok, hslug, ht⟩ := wfAcc_parts h
  obtain ⟨slug, hs⟩ := Option.isSome_iff_exists.mp hslug
  obtain ⟨vs, hvs⟩ := roStories_total hok ht
  obtain ⟨st, hst⟩ := roStart_total rfl ((rcOk_iff rc.kids).mp hok).2
  have hrc' : d.find "roCreate" = some rc := hrc
  unfold roView
  simp only [hrc', hs, hvs, hst, bind, Except.bind, pure, Except.pure]
  exact ⟨_, rfl⟩

/-- stories and items are listed in document order with the IDs and slugs present in the XML -/
theorem stories_in_order (d : Xml) (v : RoView) (h : roView d = .ok v) :
    ∃ rc, rcOf d = some rc ∧
      v.stories.map (fun s => (s.id, s.slug)) =
        (rc.findall "story").map (fun s => (Xml.childText (some s) "storyID", Xml.childText (some s) "storySlug")) ∧
      v.stories.map (fun s => s.items.map (fun it => (it.id, it.slug))) =
        (rc.findall "story").map (fun s => (s.findall "item").map
          (fun it => (Xml.childText (some it) "itemID", Xml.childText (some it) "itemSlug"))) ∧
      v.roSlug = Xml.childText (some rc) "roSlug" ∧ v.completed = completed d := by
  obtain ⟨rc, slug, vs, st, hrc, hslug, hvs, _, h1, _, h3, h4⟩ := roView_inv h
  refine ⟨rc, hrc, ?_, ?_, ?_, h4⟩
  · rw [h3]
    rcases roStories_inv hvs with ⟨he, rfl⟩ | ⟨st', offs, _, _, hm⟩
    · rw [he]; rfl
    · apply viewsFrom_map_eq _ _ _ hm
      intro a o b hab
      obtain ⟨_, _, _, _, _, _, hid, hsl, _⟩ := storyView_inv hab
      rw [hid, hsl]
  · rw [h3]
    rcases roStories_inv hvs with ⟨he, rfl⟩ | ⟨st', offs, _, _, hm⟩
    · rw [he]; rfl
    · apply viewsFrom_map_eq _ _ _ hm
      intro a o b hab
      obtain ⟨_, _, _, _, _, _, _, _, _, _, _, hit⟩ := storyView_inv hab
      rw [hit, List.map_map]
      rfl
  · rw [h1]
    simp [Xml.childText, hslug]

theorem itemView_note (it : Xml) : (itemView it).note = noteSpec it := by
  unfold itemView noteSpec findNote
  cases payloadOf it with
  | none => rfl
  | some p =>
    simp only [Option.bind]
    cases p.descendants.find? (fun c => c.tag == "studioCommand" && c.attr "type" == some "note") <;> rfl

/-- every field of every item agrees with the document, the note included -/
theorem items_agree (d : Xml) (v : RoView) (h : roView d = .ok v) :
    ∃ rc, rcOf d = some rc ∧
      v.stories.map (fun s => s.items.map (fun it => (it.id, it.slug, it.type, it.objectId, it.mosId, it.note))) =
        (rc.findall "story").map (fun s => (s.findall "item").map (fun it =>
          (Xml.childText (some it) "itemID", Xml.childText (some it) "itemSlug", Xml.childText (some it) "objType",
           Xml.childText (some it) "objID", Xml.childText (some it) "mosID", noteSpec it))) := by
  obtain ⟨rc, slug, vs, st, hrc, hslug, hvs, _, h1, _, h3, h4⟩ := roView_inv h
  refine ⟨rc, hrc, ?_⟩
  rw [h3]
  rcases roStories_inv hvs with ⟨he, rfl⟩ | ⟨st', offs, _, _, hm⟩
  · rw [he]; rfl
  · apply viewsFrom_map_eq _ _ _ hm
    intro a o b hab
    obtain ⟨_, _, _, _, _, _, _, _, _, _, _, hit⟩ := storyView_inv hab
    rw [hit, List.map_map]
    apply List.map_congr_left
    intro it _
    simp only [Function.comp, ← itemView_note]
    rfl

/-- absent optional data yields `none` -/
theorem absent_is_none (d : Xml) (v : RoView) (h : roView d = .ok v) :
    ∃ rc, rcOf d = some rc ∧
      (rc.find "roEdStart" = none → v.start = none) ∧
      (∀ k (hk : k < v.stories.length) (hk' : k < (rc.findall "story").length),
        (payloadOf ((rc.findall "story")[k]) = none →
          (v.stories[k]).duration = none ∧ ((v.stories[k]).start = none ∨ v.start.isSome) ∧
          ((v.stories[k]).stop = none))) := by
  obtain ⟨rc, slug, vs, st, hrc, hslug, hvs, hst, _, h2, h3, _⟩ := roView_inv h
  refine ⟨rc, hrc, ?_, ?_⟩
  · intro hne
    rw [h2]
    have : roStart rc = .ok none := by
      unfold roStart
      simp [Xml.childText, hne]
    rw [this] at hst
    cases hst; rfl
  · subst h3
    intro k hk hk' hp
    rcases roStories_inv hvs with ⟨he, _⟩ | ⟨st', offs, hst', _, hm⟩
    · rw [he] at hk'; simp at hk'
    · rw [hst] at hst'
      cases hst'
      have hview := viewsFrom_getElem hm k hk hk'
      obtain ⟨d', st1, en, hd, hs1, hen, _, _, hdur, hstart, hstop, _⟩ := storyView_inv hview
      have hd0 : storyDuration ((rc.findall "story")[k]) = .ok none := by
        unfold storyDuration; rw [hp]
      have hpt : ∀ t, payloadTime ((rc.findall "story")[k]) t = .ok none := by
        intro t; unfold payloadTime; rw [hp]; rfl
      rw [hd0] at hd
      cases hd
      refine ⟨hdur, ?_, ?_⟩
      · rw [hstart, h2]
        unfold storyStart at hs1
        simp only [hpt, bind, Except.bind, pure, Except.pure] at hs1
        cases st with
        | none =>
          left
          simp only at hs1
          cases hs1; rfl
        | some p => right; rfl
      · rw [hstop]
        unfold storyEnd at hen
        simp only [hpt, hd0, bind, Except.bind, pure, Except.pure] at hen
        split at hen
        · cases hen
        · cases hen; rfl

/-- merges with well-formed payloads preserve `WfAcc` -/
theorem wfAcc_preserved (i : MergeInput) (h : WfAcc i.d = true) (hs : shaped i.k i.m = true)
    (hp : payloadAccOk i.k i.m = true) : WfAcc (addK i.k i.d i.m).ro = true :=
  wfAcc_preserved' i.d i.m i.k h hs hp

def readerAccOk (r : Reader) : Bool := shaped r.kind r.doc && payloadAccOk r.kind r.doc

/-- in every state reachable by merging such messages (strictly or not), every accessor returns -/
theorem acc_reachable (ro : Xml) (rs : List Reader) (ws : List Warn) (strict : Bool) (h : WfAcc ro = true)
    (hr : ∀ r ∈ rs, readerAccOk r = true) : ∃ v, roView (mergeLoop strict ro rs ws).ro = .ok v := by
  suffices hw : WfAcc (mergeLoop strict ro rs ws).ro = true from wfAcc_total _ hw
  induction rs generalizing ro ws with
  | nil => simpa [mergeLoop] using h
  | cons r rs ih =>
    have hrr := hr r List.mem_cons_self
    simp only [readerAccOk, Bool.and_eq_true] at hrr
    have hstep : WfAcc (addK r.kind ro r.doc).ro = true :=
      wfAcc_preserved ⟨ro, r.doc, r.kind⟩ h hrr.1 hrr.2
    have hr' : ∀ r ∈ rs, readerAccOk r = true := fun x hx => hr x (List.mem_cons_of_mem _ hx)
    unfold mergeLoop
    simp only
    split
    · exact ih _ _ hstep hr'
    · split
      · exact ih _ _ hstep hr'
      · exact hstep

end Mrm
