/-
  Mrm/Proofs/ClassifyP.lean — C08 targets.
-/
import Mrm.Spec.Classify

namespace Mrm

theorem eaTable_find (op : String) (t s : Bool) :
    (eaTable.find? (fun p => p.1 == (op, t, s))).map (·.2) = specEA op t s := by
  unfold specEA
  split
  all_goals first
    | rfl
    | decide
    | skip
  rw [Option.map_eq_none_iff, List.find?_eq_none]
  intro p hp
  simp only [eaTable, List.mem_cons, List.not_mem_nil, or_false] at hp
  rcases hp with h | h | h | h | h | h | h | h | h | h <;>
    (subst h; simp only [beq_iff_eq, Prod.mk.injEq]; rintro ⟨rfl, rfl, rfl⟩; simp_all)

/-- the model of `ElementAction._classify` is the written-out table on the shape -/
theorem classifyEA_eq_spec (ea : Xml) : classifyEA ea = specClassifyEA ea := by
  unfold classifyEA specClassifyEA eaShape
  cases hs : ea.find "element_source" with
  | none => cases ea.attr "operation" <;> rfl
  | some src =>
    cases ho : ea.attr "operation" with
    | none => rfl
    | some op =>
      simp only [Option.map_some]
      rw [← eaTable_find]
      cases List.find? _ eaTable <;> rfl

theorem find_msgElems (d : Xml) (t : String) (ht : t ∈ msgTags) :
    d.find t = (msgElems d).find? (fun e => e.tag == t) := by
  unfold Xml.find msgElems
  rw [List.find?_filter]
  congr 1
  funext x
  by_cases hx : x.tag = t
  · subst hx; simp [ht]
  · have : (x.tag == t) = false := by simpa using hx
    simp [this]

theorem kindOfTag_ea {t : String} (h : kindOfTag t = some none) : t = "roElementAction" := by
  unfold kindOfTag at h
  split at h <;> first | rfl | cases h

theorem classifyWith_eq_spec (d : Xml) (tbl : List (String × Option Kind))
    (htbl : ∀ p ∈ tbl, p.1 ∈ msgTags ∧ kindOfTag p.1 = some p.2) :
    classifyWith d tbl =
      match (tbl.map (·.1)).filterMap (fun t => (msgElems d).find? (fun e => e.tag == t)) with
      | [] => .error .unknownType
      | e :: _ => kindOfElem e := by
  induction tbl with
  | nil => rfl
  | cons p tbl ih =>
    obtain ⟨t, k⟩ := p
    obtain ⟨hmem, hk⟩ := htbl (t, k) List.mem_cons_self
    have ih := ih (fun q hq => htbl q (List.mem_cons_of_mem _ hq))
    unfold classifyWith
    simp only [List.map_cons, List.filterMap_cons]
    rw [find_msgElems d t hmem]
    cases hf : (msgElems d).find? (fun e => e.tag == t) with
    | none => simp only; exact ih
    | some e =>
      have het : e.tag = t := by simpa using List.find?_some hf
      simp only [kindOfElem, het]
      simp only at hk
      rw [hk]
      cases k with
      | some k => rfl
      | none => exact classifyEA_eq_spec e

theorem tagTable_ok : ∀ p ∈ tagTable, p.1 ∈ msgTags ∧ kindOfTag p.1 = some p.2 := by
  intro p hp
  simp only [tagTable, List.mem_cons, List.not_mem_nil, or_false] at hp
  rcases hp with h | h | h | h | h | h | h | h | h | h | h | h | h | h | h | h <;>
    (subst h; exact ⟨by decide, rfl⟩)

/-- the model of `MosFile._classify` is the specification -/
theorem classify_eq_spec (d : Xml) : classify d = specClassify d := by
  unfold classify specClassify
  rw [classifyWith_eq_spec d tagTable tagTable_ok]
  rfl

/-- classification depends only on the message elements among the root's children: envelope,
    other siblings, their order relative to non-message elements, whitespace (text/tail), the root's
    own tag and attributes are irrelevant -/
theorem classify_congr (d d' : Xml) (h : msgElems d = msgElems d') : classify d = classify d' := by
  rw [classify_eq_spec, classify_eq_spec]
  unfold specClassify
  rw [h]

/-- a document with exactly one message element is classified by that element alone -/
theorem filterMap_head {α β : Type} (f : α → Option β) (b : β) (l : List α)
    (hall : ∀ a ∈ l, f a = some b ∨ f a = none) (hex : ∃ a ∈ l, f a = some b) :
    ∃ rest, l.filterMap f = b :: rest := by
  induction l with
  | nil => obtain ⟨a, ha, _⟩ := hex; cases ha
  | cons a l ih =>
    rcases hall a List.mem_cons_self with h | h
    · exact ⟨l.filterMap f, by simp only [List.filterMap_cons, h]⟩
    · simp only [List.filterMap_cons, h]
      apply ih (fun x hx => hall x (List.mem_cons_of_mem _ hx))
      obtain ⟨x, hx, hfx⟩ := hex
      rcases List.mem_cons.mp hx with e | e
      · subst e; rw [h] at hfx; cases hfx
      · exact ⟨x, e, hfx⟩

theorem classify_single (d e : Xml) (h : msgElems d = [e]) : classify d = kindOfElem e := by
  rw [classify_eq_spec]
  unfold specClassify
  rw [h]
  have hmem : e.tag ∈ msgTags := by
    have : e ∈ msgElems d := by rw [h]; exact List.mem_cons_self
    unfold msgElems at this
    simpa using (List.mem_filter.mp this).2
  obtain ⟨rest, hr⟩ := filterMap_head (fun t => [e].find? (fun e => e.tag == t)) e msgTags
    (by
      intro t _
      by_cases ht : e.tag = t
      · left; simp [ht]
      · right; simp [ht])
    ⟨e.tag, hmem, by simp⟩
  rw [hr]

/-- no message element ⇒ UnknownMosFileType -/
theorem classify_none (d : Xml) (h : msgElems d = []) : classify d = .error .unknownType := by
  rw [classify_eq_spec]
  unfold specClassify
  rw [h]
  have : msgTags.filterMap (fun t => ([] : List Xml).find? (fun e => e.tag == t)) = [] := by
    rw [List.filterMap_eq_nil_iff]; intro t _; rfl
  rw [this]

/-- classification is total: a class or UnknownMosFileType, never a built-in exception -/
theorem kindOfElem_total (e : Xml) : (∃ k, kindOfElem e = .ok k) ∨ kindOfElem e = .error .unknownType := by
  unfold kindOfElem
  split
  · exact Or.inl ⟨_, rfl⟩
  · unfold specClassifyEA
    split
    · split
      · exact Or.inl ⟨_, rfl⟩
      · exact Or.inr rfl
    · exact Or.inr rfl
  · exact Or.inr rfl

theorem classify_total (d : Xml) : (∃ k, classify d = .ok k) ∨ classify d = .error .unknownType := by
  rw [classify_eq_spec]
  unfold specClassify
  split
  · exact Or.inr rfl
  · exact kindOfElem_total _

/-- for every element that is not a roElementAction the class depends on the tag only: payload,
    attributes, text are irrelevant (an empty or text-only message element classifies like a full one) -/
theorem kindOfElem_tag_only (e e' : Xml) (ht : e.tag = e'.tag) (hne : e.tag ≠ "roElementAction") :
    kindOfElem e = kindOfElem e' := by
  unfold kindOfElem
  rw [← ht]
  cases hk : kindOfTag e.tag with
  | none => rfl
  | some ok =>
    cases ok with
    | some k => rfl
    | none => exact absurd (kindOfTag_ea hk) hne

/-- a roElementAction is classified by its shape only -/
theorem kindOfElem_ea_shape (e e' : Xml) (ht : e.tag = "roElementAction") (ht' : e'.tag = "roElementAction")
    (hs : eaShape e = eaShape e') : kindOfElem e = kindOfElem e' := by
  have hk : kindOfTag "roElementAction" = some none := by decide
  unfold kindOfElem
  rw [ht, ht', hk]
  simp only [specClassifyEA, hs]

end Mrm
