/-
  Mrm/Proofs/LexLemmas.lean — character-level facts for the lexer: spans, what the escapers never
  emit, names, attribute lists.
-/
import Mrm.Model.Lexer
import Mrm.Proofs.SerEsc

namespace Mrm

/-! ### spans -/

/-- `rest` is empty or starts with a character failing `p` -/
def StopsAt (p : Char → Bool) (rest : List Char) : Prop := ∀ c r, rest = c :: r → p c = false

theorem span_stops (p : Char → Bool) (l rest : List Char) (hl : ∀ a ∈ l, p a = true)
    (hr : StopsAt p rest) :
    (l ++ rest).takeWhile p = l ∧ (l ++ rest).dropWhile p = rest := by
  rw [List.takeWhile_append_of_pos hl, List.dropWhile_append_of_pos hl]
  cases rest with
  | nil => simp
  | cons c r =>
    have := hr c r rfl
    simp [this]

theorem stopsAt_cons (p : Char → Bool) (c : Char) (r : List Char) (h : p c = false) :
    StopsAt p (c :: r) := by
  intro c' r' heq; cases heq; exact h

theorem stopsAt_nil (p : Char → Bool) : StopsAt p [] := by
  intro c r h; cases h

/-! ### what the escapers never emit -/

theorem escapeCdataL_no_lt (cs : List Char) : ∀ c ∈ escapeCdataL cs, c ≠ '<' := by
  induction cs with
  | nil => simp [escapeCdataL]
  | cons c cs ih =>
    by_cases h1 : c = '&'
    · subst h1; intro x hx; simp [escapeCdataL] at hx
      rcases hx with rfl | rfl | rfl | rfl | rfl | hx <;> first | decide | exact ih x hx
    by_cases h2 : c = '<'
    · subst h2; intro x hx; simp [escapeCdataL] at hx
      rcases hx with rfl | rfl | rfl | rfl | hx <;> first | decide | exact ih x hx
    by_cases h3 : c = '>'
    · subst h3; intro x hx; simp [escapeCdataL] at hx
      rcases hx with rfl | rfl | rfl | rfl | hx <;> first | decide | exact ih x hx
    rw [escapeCdataL_other c cs h1 h2 h3]
    intro x hx
    simp only [List.mem_cons] at hx
    rcases hx with rfl | hx
    · exact h2
    · exact ih x hx

theorem escapeCdataL_ne_nil (cs : List Char) (h : cs ≠ []) : escapeCdataL cs ≠ [] := by
  cases cs with
  | nil => exact absurd rfl h
  | cons c cs =>
    by_cases h1 : c = '&'
    · subst h1; simp [escapeCdataL]
    by_cases h2 : c = '<'
    · subst h2; simp [escapeCdataL]
    by_cases h3 : c = '>'
    · subst h3; simp [escapeCdataL]
    rw [escapeCdataL_other c cs h1 h2 h3]; simp

theorem escapeAttrL_no_quote (cs : List Char) : ∀ c ∈ escapeAttrL cs, c ≠ '"' := by
  induction cs with
  | nil => simp [escapeAttrL]
  | cons c cs ih =>
    by_cases h1 : c = '&'
    · subst h1; intro x hx; simp [escapeAttrL] at hx
      rcases hx with rfl | rfl | rfl | rfl | rfl | hx <;> first | decide | exact ih x hx
    by_cases h2 : c = '<'
    · subst h2; intro x hx; simp [escapeAttrL] at hx
      rcases hx with rfl | rfl | rfl | rfl | hx <;> first | decide | exact ih x hx
    by_cases h3 : c = '>'
    · subst h3; intro x hx; simp [escapeAttrL] at hx
      rcases hx with rfl | rfl | rfl | rfl | hx <;> first | decide | exact ih x hx
    by_cases h4 : c = '"'
    · subst h4; intro x hx; simp [escapeAttrL] at hx
      rcases hx with rfl | rfl | rfl | rfl | rfl | rfl | hx <;> first | decide | exact ih x hx
    by_cases h5 : c = '\r'
    · subst h5; intro x hx; simp [escapeAttrL] at hx
      rcases hx with rfl | rfl | rfl | rfl | rfl | hx <;> first | decide | exact ih x hx
    by_cases h6 : c = '\n'
    · subst h6; intro x hx; simp [escapeAttrL] at hx
      rcases hx with rfl | rfl | rfl | rfl | rfl | hx <;> first | decide | exact ih x hx
    by_cases h7 : c = '\t'
    · subst h7; intro x hx; simp [escapeAttrL] at hx
      rcases hx with rfl | rfl | rfl | rfl | rfl | hx <;> first | decide | exact ih x hx
    rw [escapeAttrL_other c cs h1 h2 h3 h4 h5 h6 h7]
    intro x hx
    simp only [List.mem_cons] at hx
    rcases hx with rfl | hx
    · exact h4
    · exact ih x hx

/-! ### names -/

theorem validName_parts {s : String} (h : validName s = true) :
    (∃ c r, s.toList = c :: r ∧ isNameChar c = true) ∧ ∀ a ∈ s.toList, isNameChar a = true := by
  unfold validName at h
  simp only [Bool.and_eq_true, Bool.not_eq_true', List.all_eq_true] at h
  refine ⟨?_, h.2⟩
  cases hl : s.toList with
  | nil =>
    have : s = "" := String.toList_eq_nil_iff.mp hl
    subst this
    simp at h
  | cons c r =>
    exact ⟨c, r, rfl, h.2 c (by rw [hl]; exact List.mem_cons_self)⟩

/-! ### attribute lists -/

theorem attrsL_length (attrs : List (String × String)) : attrs.length ≤ (attrsL attrs).length := by
  induction attrs with
  | nil => simp [attrsL]
  | cons kv attrs ih => simp only [attrsL, attrL, List.length_append, List.length_cons]; omega

/-- what may follow the attributes of a start tag -/
def TagEnd (rest : List Char) : Prop := (∃ r, rest = '>' :: r) ∨ (∃ r, rest = ' ' :: '/' :: r)

theorem lexAttrs_attrsL (attrs : List (String × String)) (hv : ∀ kv ∈ attrs, validName kv.1 = true)
    (rest : List Char) (hrest : TagEnd rest) (n : Nat) (hn : attrs.length < n)
    (acc : List (String × String)) :
    lexAttrs n (attrsL attrs ++ rest) acc = some (acc.reverse ++ attrs, rest) := by
  induction attrs generalizing n acc with
  | nil =>
    cases n with
    | zero => omega
    | succ m =>
      simp only [attrsL, List.nil_append, List.append_nil]
      rcases hrest with ⟨r, rfl⟩ | ⟨r, rfl⟩
      · rw [lexAttrs.eq_4 _ _ _ (by intro cs h; cases h)]
      · rw [lexAttrs.eq_2]
  | cons kv attrs ih =>
    cases n with
    | zero => omega
    | succ m =>
      obtain ⟨⟨c, r, hcr, hc⟩, hall⟩ := validName_parts (hv kv List.mem_cons_self)
      have hv' : ∀ kv ∈ attrs, validName kv.1 = true := fun x hx => hv x (List.mem_cons_of_mem _ hx)
      have hshape : attrsL (kv :: attrs) ++ rest =
          ' ' :: (kv.1.toList ++ '=' :: '"' :: (escapeAttrL kv.2.toList ++ '"' :: (attrsL attrs ++ rest))) := by
        simp [attrsL, attrL]
      rw [hshape]
      have hne : ∀ tail : List Char,
          kv.1.toList ++ '=' :: '"' :: (escapeAttrL kv.2.toList ++ '"' :: (attrsL attrs ++ rest)) = '/' :: tail → False := by
        intro tail h
        rw [hcr] at h
        simp only [List.cons_append, List.cons.injEq] at h
        rw [h.1] at hc
        exact absurd hc (by decide)
      rw [lexAttrs.eq_3 _ _ _ hne]
      obtain ⟨ht1, hd1⟩ := span_stops isNameChar kv.1.toList
        ('=' :: '"' :: (escapeAttrL kv.2.toList ++ '"' :: (attrsL attrs ++ rest))) hall
        (stopsAt_cons _ _ _ (by decide))
      rw [hd1, ht1]
      simp only
      obtain ⟨ht2, hd2⟩ := span_stops (fun x => x != '"') (escapeAttrL kv.2.toList)
        ('"' :: (attrsL attrs ++ rest))
        (fun a ha => by simpa using escapeAttrL_no_quote _ a ha)
        (stopsAt_cons _ _ _ (by decide))
      rw [hd2, ht2]
      simp only
      rw [ih hv' m (by simp only [List.length_cons] at hn; omega)]
      have hval : unescapeL (escapeAttrL kv.2.toList) = kv.2.toList := by
        unfold unescapeL
        rw [normalizeEol_id _ (escapeAttrL_no_cr _), decode_escapeAttr]
      simp [hval, String.ofList_toList]

/-! ### single lexer steps -/

theorem stopsAt_attrs (attrs : List (String × String)) (X : List Char) (hX : TagEnd X) :
    StopsAt isNameChar (attrsL attrs ++ X) := by
  cases attrs with
  | nil =>
    rcases hX with ⟨r, rfl⟩ | ⟨r, rfl⟩ <;> exact stopsAt_cons _ _ _ (by decide)
  | cons kv attrs =>
    simp only [attrsL, attrL, List.cons_append]
    exact stopsAt_cons _ _ _ (by decide)

theorem lex_open_aux (tag : String) (attrs : List (String × String)) (X : List Char) (n : Nat)
    (hvt : validName tag = true) (hva : ∀ kv ∈ attrs, validName kv.1 = true) (hX : TagEnd X)
    (hn : attrs.length ≤ n) :
    lexGo (n+1) ('<' :: (tag.toList ++ (attrsL attrs ++ X))) =
      match (some (attrs, X) : Option (List (String × String) × List Char)) with
      | some (attrs, '>' :: r) => (lexGo n r).map (.op tag attrs :: ·)
      | some (attrs, ' ' :: '/' :: '>' :: r) => (lexGo n r).map (fun ts => .op tag attrs :: .cl :: ts)
      | _ => none := by
  obtain ⟨⟨c, r, hcr, hc⟩, hall⟩ := validName_parts hvt
  have hne : ∀ cs_1 : List Char, tag.toList ++ (attrsL attrs ++ X) = '/' :: cs_1 → False := by
    intro tail h
    rw [hcr] at h
    simp only [List.cons_append, List.cons.injEq] at h
    rw [h.1] at hc
    exact absurd hc (by decide)
  rw [lexGo.eq_4 _ _ hne]
  obtain ⟨ht, hd⟩ := span_stops isNameChar tag.toList (attrsL attrs ++ X) hall (stopsAt_attrs attrs X hX)
  rw [hd, ht, lexAttrs_attrsL attrs hva X hX (n+1) (by omega) []]
  simp only [List.reverse_nil, List.nil_append, String.ofList_toList]
  rfl

theorem lex_open_gt (tag : String) (attrs : List (String × String)) (Y : List Char) (n : Nat)
    (hvt : validName tag = true) (hva : ∀ kv ∈ attrs, validName kv.1 = true) (hn : attrs.length ≤ n) :
    lexGo (n+1) ('<' :: (tag.toList ++ (attrsL attrs ++ '>' :: Y))) =
      (lexGo n Y).map (.op tag attrs :: ·) := by
  rw [lex_open_aux tag attrs ('>' :: Y) n hvt hva (Or.inl ⟨Y, rfl⟩) hn]
  rfl

theorem lex_open_empty (tag : String) (attrs : List (String × String)) (Y : List Char) (n : Nat)
    (hvt : validName tag = true) (hva : ∀ kv ∈ attrs, validName kv.1 = true) (hn : attrs.length ≤ n) :
    lexGo (n+1) ('<' :: (tag.toList ++ (attrsL attrs ++ ' ' :: '/' :: '>' :: Y))) =
      (lexGo n Y).map (fun ts => .op tag attrs :: .cl :: ts) := by
  rw [lex_open_aux tag attrs (' ' :: '/' :: '>' :: Y) n hvt hva (Or.inr ⟨_, rfl⟩) hn]
  rfl

theorem lex_close (tag : String) (Y : List Char) (n : Nat) (hvt : validName tag = true) :
    lexGo (n+1) ('<' :: '/' :: (tag.toList ++ '>' :: Y)) = (lexGo n Y).map (.cl :: ·) := by
  obtain ⟨_, hall⟩ := validName_parts hvt
  obtain ⟨_, hd⟩ := span_stops isNameChar tag.toList ('>' :: Y) hall (stopsAt_cons _ _ _ (by decide))
  rw [lexGo.eq_3, hd]
  rfl

/-- what may follow character data: nothing, or markup -/
abbrev OkRest (Y : List Char) : Prop := StopsAt (fun x => x != '<') Y

theorem okRest_lt (r : List Char) : OkRest ('<' :: r) := stopsAt_cons _ _ _ (by decide)

theorem lex_cdata (s : String) (Y : List Char) (n : Nat) (hok : cdataOk (some s) = true)
    (hY : OkRest Y) :
    lexGo (n+1) (escapeCdataL s.toList ++ Y) = (lexGo n Y).map (.chars s :: ·) := by
  simp only [cdataOk, Bool.and_eq_true, Bool.not_eq_true', List.contains_eq_mem,
    decide_eq_false_iff_not] at hok
  have hne : s.toList ≠ [] := by
    intro h
    have : s = "" := String.toList_eq_nil_iff.mp h
    subst this
    simp at hok
  have hnolt := escapeCdataL_no_lt s.toList
  obtain ⟨c, r, hcr⟩ := List.exists_cons_of_ne_nil (escapeCdataL_ne_nil _ hne)
  have hc : c ≠ '<' := hnolt c (by rw [hcr]; exact List.mem_cons_self)
  have hshape : escapeCdataL s.toList ++ Y = c :: (r ++ Y) := by rw [hcr]; rfl
  obtain ⟨ht, hd⟩ := span_stops (fun x => x != '<') (escapeCdataL s.toList) Y
    (fun a ha => by simpa using hnolt a ha) hY
  rw [hshape, lexGo.eq_5 _ _ _ (fun _ h _ => hc h) (fun h => hc h), ← hshape, ht, hd]
  have hval : unescapeL (escapeCdataL s.toList) = s.toList := by
    unfold unescapeL
    rw [normalizeEol_id _ (escapeCdataL_no_cr _ hok.2), decode_escapeCdata']
  rw [hval, String.ofList_toList]

end Mrm
