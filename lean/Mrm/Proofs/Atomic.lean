/-
  Mrm/Proofs/Atomic.lean — helper lemmas for C05: a merge that ends in a `MosMergeError`
  returns the child list it was given.
-/
import Mrm.Model.Merge

namespace Mrm

/-- the outcome either is not a `MosMergeError` or leaves the child list as it was -/
def Atomic (cs : List Xml) (o : Out) : Prop :=
  ∀ e, o.err = some e → e.isMergeError = true → o.kids = cs

theorem atomic_failWith (cs : List Xml) (ws : List Warn) (e : Err) : Atomic cs (failWith cs ws e) := by
  intro _ _ _; rfl

theorem atomic_ok (cs cs' : List Xml) (ws : List Warn) : Atomic cs ⟨cs', ws, none⟩ := by
  intro e h; cases h

theorem atomic_crash (cs cs' : List Xml) (ws : List Warn) (x : PyExc) : Atomic cs ⟨cs', ws, some (.crash x)⟩ := by
  intro e h hm; cases h; simp [Err.isMergeError] at hm

/-- the warn-and-continue loops never end in a `MosMergeError` -/
theorem deleteLoop_err (tag : String) (w : Warn) (mid : Option PyExc) (cs : List Xml)
    (ids : List (Option String)) (ws : List Warn) (e : Err)
    (h : (deleteLoop tag w mid cs ids ws).err = some e) : e.isMergeError = false := by
  induction ids generalizing cs ws with
  | nil => simp [deleteLoop] at h
  | cons id ids ih =>
    unfold deleteLoop at h
    split at h
    · simp [failWith] at h; subst h; rfl
    · exact ih _ _ h
    · split at h
      · simp [failWith] at h; subst h; rfl
      · exact ih _ _ h

theorem atomic_deleteLoop (tag : String) (w : Warn) (mid : Option PyExc) (cs cs0 : List Xml)
    (ids : List (Option String)) (ws : List Warn) : Atomic cs0 (deleteLoop tag w mid cs ids ws) := by
  intro e h hm
  have := deleteLoop_err tag w mid cs ids ws e h
  rw [this] at hm; cases hm

theorem insertDedup_err (mid : Option PyExc) (ex : List (Option String)) (cs : List Xml) (i : Nat)
    (ss : List Xml) (ws : List Warn) (e : Err)
    (h : (insertDedup mid ex cs i ss ws).err = some e) : e.isMergeError = false := by
  induction ss generalizing cs i ws with
  | nil => simp [insertDedup] at h
  | cons s ss ih =>
    unfold insertDedup at h
    split at h
    · split at h
      · simp [failWith] at h; subst h; rfl
      · exact ih _ _ _ h
    · exact ih _ _ _ h

theorem atomic_insertDedup (mid : Option PyExc) (ex : List (Option String)) (cs cs0 : List Xml) (i : Nat)
    (ss : List Xml) (ws : List Warn) : Atomic cs0 (insertDedup mid ex cs i ss ws) := by
  intro e h hm
  have := insertDedup_err mid ex cs i ss ws e h
  rw [this] at hm; cases hm

theorem atomic_moveMany (tag : String) (mid : Option PyExc) (cs : List Xml) (t : Option String)
    (ss : List (Option String)) : Atomic cs (moveMany tag mid cs t ss) := by
  unfold moveMany
  split
  · exact atomic_failWith _ _ _
  · split
    · exact atomic_failWith _ _ _
    · exact atomic_ok _ _ _

theorem atomic_swapTwo (tag : String) (mid : Option PyExc) (cs : List Xml)
    (ids : List (Option String)) : Atomic cs (swapTwo tag mid cs ids) := by
  unfold swapTwo
  split
  · exact atomic_failWith _ _ _
  · split
    · exact atomic_failWith _ _ _
    · split
      · exact atomic_failWith _ _ _
      · exact atomic_ok _ _ _

theorem atomic_insertBefore (tag : String) (mid : Option PyExc) (cs : List Xml) (t : Option String)
    (xs : List Xml) : Atomic cs (insertBefore tag mid cs t xs) := by
  unfold insertBefore
  split
  · exact atomic_failWith _ _ _
  · exact atomic_ok _ _ _
  · exact atomic_ok _ _ _

theorem set_withKids_self (cs : List Xml) (k : Nat) (s : Xml) (h : cs[k]? = some s) :
    cs.set k (s.withKids s.kids) = cs := by
  rw [Xml.withKids_self]
  apply List.ext_getElem?
  intro j
  by_cases hj : k = j
  · subst hj
    rw [List.getElem?_set_self' ] 
    simp [h]
  · rw [List.getElem?_set_ne hj]

theorem atomic_inStoryAt (cs : List Xml) (k : Nat) (f : List Xml → Out)
    (hf : ∀ items, Atomic items (f items)) : Atomic cs (inStoryAt cs k f) := by
  unfold inStoryAt
  split
  · exact atomic_failWith _ _ _
  · rename_i s hs
    intro e he hm
    have := hf s.kids e he hm
    simp only [this]
    exact set_withKids_self cs k s hs

theorem atomic_inStory (mid : Option PyExc) (cs : List Xml) (sid : Option String) (f : List Xml → Out)
    (hf : ∀ items, Atomic items (f items)) : Atomic cs (inStory mid cs sid f) := by
  unfold inStory
  split
  · exact atomic_failWith _ _ _
  · exact atomic_inStoryAt cs _ f hf

/-- every merge on the `roCreate` children is atomic with respect to `MosMergeError` -/
theorem atomic_mergeRc (k : Kind) (rc base : Xml) (mid : Option PyExc) :
    Atomic rc.kids (mergeRc k rc base mid) := by
  cases k <;> simp only [mergeRc]
  case StorySend =>
    split
    · exact atomic_failWith _ _ _
    · split
      · exact atomic_failWith _ _ _
      · split
        · exact atomic_failWith _ _ _
        · exact atomic_ok _ _ _
      · exact atomic_ok _ _ _
  case MetaDataReplace => exact atomic_ok _ _ _
  case StoryAppend => exact atomic_ok _ _ _
  case StoryDelete => exact atomic_deleteLoop _ _ _ _ _ _ _
  case ItemDelete => exact atomic_inStory _ _ _ _ (fun items => atomic_deleteLoop _ _ _ _ _ _ _)
  case StoryInsert =>
    split
    · exact atomic_failWith _ _ _
    · exact atomic_insertDedup _ _ _ _ _ _ _
  case ItemInsert => exact atomic_inStory _ _ _ _ (fun items => atomic_insertBefore _ _ _ _ _)
  case StoryMove =>
    split
    · exact atomic_failWith _ _ _
    · split
      · exact atomic_failWith _ _ _
      · split
        · exact atomic_failWith _ _ _
        · split <;> exact atomic_ok _ _ _
  case ItemMoveMultiple =>
    split
    · exact atomic_failWith _ _ _
    · apply atomic_inStory
      intro items
      split
      · exact atomic_failWith _ _ _
      · exact atomic_moveMany _ _ _ _ _
  case StoryReplace =>
    split
    · exact atomic_failWith _ _ _
    · split
      · exact atomic_failWith _ _ _
      · exact atomic_ok _ _ _
  case ItemReplace =>
    apply atomic_inStory
    intro items
    split
    · exact atomic_failWith _ _ _
    · exact atomic_ok _ _ _
  case ReadyToAir => exact atomic_ok _ _ _
  case EAStoryReplace =>
    split
    · exact atomic_failWith _ _ _
    · exact atomic_ok _ _ _
  case EAItemReplace =>
    apply atomic_inStory
    intro items
    split
    · exact atomic_failWith _ _ _
    · exact atomic_ok _ _ _
  case EAStoryDelete => exact atomic_deleteLoop _ _ _ _ _ _ _
  case EAItemDelete =>
    split
    · exact atomic_failWith _ _ _
    · split
      · exact atomic_failWith _ _ _
      · exact atomic_ok _ _ _
    · exact atomic_inStoryAt _ _ _ (fun items => atomic_deleteLoop _ _ _ _ _ _ _)
  case EAStoryInsert =>
    split
    · exact atomic_failWith _ _ _
    · exact atomic_insertDedup _ _ _ _ _ _ _
  case EAItemInsert => exact atomic_inStory _ _ _ _ (fun items => atomic_insertBefore _ _ _ _ _)
  case EAStorySwap => exact atomic_swapTwo _ _ _ _
  case EAItemSwap => exact atomic_inStory _ _ _ _ (fun items => atomic_swapTwo _ _ _ _)
  case EAStoryMove => exact atomic_moveMany _ _ _ _ _
  case EAItemMove => exact atomic_inStory _ _ _ _ (fun items => atomic_moveMany _ _ _ _ _)
  case RunningOrder => exact atomic_ok _ _ _
  case RunningOrderReplace => exact atomic_ok _ _ _
  case RunningOrderEnd => exact atomic_ok _ _ _

end Mrm
