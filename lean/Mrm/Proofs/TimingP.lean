/-
  Mrm/Proofs/TimingP.lean — C16: durations, offsets, start and end times (targets).
-/
import Mrm.Spec.Access
import Mrm.Proofs.ViewsFrom

namespace Mrm

/-- a numeric payload field: absent, or its value in microseconds -/
def fieldVal (p : Xml) (tag : String) : Except PyExc (Option Nat) :=
  match p.find tag with
  | none => .ok none
  | some e => (floatOfText e).map some

theorem duration_no_payload (s : Xml) (h : payloadOf s = none) : storyDuration s = .ok none := by
  unfold storyDuration; rw [h]

theorem map_some_ok {x : Except PyExc Nat} {o : Option Nat} (h : x.map some = .ok o) :
    ∃ a, x = .ok a ∧ o = some a := by
  cases x with
  | error e => cases h
  | ok a => exact ⟨a, rfl, by cases h; rfl⟩

theorem fieldVal_some {p e : Xml} {tag : String} {o : Option Nat} (hf : p.find tag = some e)
    (h : fieldVal p tag = .ok o) : ∃ a, floatOfText e = .ok a ∧ o = some a := by
  unfold fieldVal at h; rw [hf] at h; exact map_some_ok h

theorem fieldVal_none {p : Xml} {tag : String} {o : Option Nat} (hf : p.find tag = none)
    (h : fieldVal p tag = .ok o) : o = none := by
  unfold fieldVal at h; rw [hf] at h; cases h; rfl

/-- duration precedence: StoryDuration if present, else TextTime + MediaTime (a missing one = 0) -/
theorem duration_precedence (s p : Xml) (hp : payloadOf s = some p) (sd tt mt : Option Nat)
    (h1 : fieldVal p "StoryDuration" = .ok sd) (h2 : fieldVal p "TextTime" = .ok tt)
    (h3 : fieldVal p "MediaTime" = .ok mt) : storyDuration s = .ok (durationSpec sd tt mt) := by
  unfold storyDuration
  rw [hp]
  simp only
  cases hsd : p.find "StoryDuration" with
  | some e =>
    obtain ⟨a, ha, rfl⟩ := fieldVal_some hsd h1
    simp only [ha, durationSpec]; rfl
  | none =>
    have := fieldVal_none hsd h1; subst this
    cases htt : p.find "TextTime" with
    | none =>
      have := fieldVal_none htt h2; subst this
      cases hmt : p.find "MediaTime" with
      | none =>
        have := fieldVal_none hmt h3; subst this
        rfl
      | some e3 =>
        obtain ⟨b, hb, rfl⟩ := fieldVal_some hmt h3
        simp only [hb, durationSpec]; rfl
    | some e2 =>
      obtain ⟨a, ha, rfl⟩ := fieldVal_some htt h2
      cases hmt : p.find "MediaTime" with
      | none =>
        have := fieldVal_none hmt h3; subst this
        simp only [ha, durationSpec]; rfl
      | some e3 =>
        obtain ⟨b, hb, rfl⟩ := fieldVal_some hmt h3
        simp only [ha, hb, durationSpec]; rfl

/-- the running order's duration is the sum when every story has one, and absent otherwise -/
theorem ro_duration (vs : List StoryView) :
    sumDurations vs =
      if vs.all (fun v => v.duration.isSome) then some ((vs.map (fun v => v.duration.getD 0)).sum) else none := by
  have key : ∀ (vs : List StoryView) (acc : Option Nat),
      vs.foldl (fun acc v => match acc, v.duration with | some a, some d => some (a + d) | _, _ => none) acc =
        match acc with
        | none => none
        | some a => if vs.all (fun v => v.duration.isSome) then
            some (a + (vs.map (fun v => v.duration.getD 0)).sum) else none := by
    intro vs
    induction vs with
    | nil => intro acc; cases acc <;> simp
    | cons v vs ih =>
      intro acc
      simp only [List.foldl_cons, ih]
      cases acc with
      | none => rfl
      | some a =>
        cases hd : v.duration with
        | none => simp [hd]
        | some d => simp [hd, Nat.add_assoc]
  have h := key vs (some 0)
  simp only [Nat.zero_add] at h
  exact h

/-- prefix sums of the durations (a missing duration counts as zero) -/
def prefixSum (ds : List (Option Nat)) (k : Nat) : Nat := ((ds.take k).map (·.getD 0)).sum

theorem prefixSum_zero (ds : List (Option Nat)) : prefixSum ds 0 = 0 := by simp [prefixSum]
theorem prefixSum_nil (k : Nat) : prefixSum [] k = 0 := by simp [prefixSum]
theorem prefixSum_cons_succ (d : Option Nat) (ds : List (Option Nat)) (k : Nat) :
    prefixSum (d :: ds) (k+1) = d.getD 0 + prefixSum ds k := by simp [prefixSum]

theorem prefixSum_mono (ds : List (Option Nat)) (k k' : Nat) (h : k ≤ k') : prefixSum ds k ≤ prefixSum ds k' := by
  induction ds generalizing k k' with
  | nil => simp [prefixSum_nil]
  | cons d ds ih =>
    cases k with
    | zero => rw [prefixSum_zero]; exact Nat.zero_le _
    | succ k =>
      cases k' with
      | zero => omega
      | succ k' =>
        rw [prefixSum_cons_succ, prefixSum_cons_succ]
        have := ih k k' (by omega)
        omega

theorem storyOffsetsFrom_cons {s : Xml} {ss : List Xml} {t : Nat} {tbl : List Nat}
    (h : storyOffsetsFrom (s :: ss) t = .ok tbl) :
    ∃ d rest, storyDuration s = .ok d ∧
      storyOffsetsFrom ss (t + d.getD 0) = .ok rest ∧ tbl = t :: rest := by
  unfold storyOffsetsFrom at h
  cases hd : storyDuration s with
  | error e => simp only [hd, bind, Except.bind] at h; cases h
  | ok d =>
    cases hr : storyOffsetsFrom ss (t + d.getD 0) with
    | error e => simp only [hd, bind, Except.bind, hr] at h; cases h
    | ok rest =>
      simp only [hd, bind, Except.bind, hr, pure, Except.pure] at h
      cases h
      exact ⟨d, rest, rfl, hr, rfl⟩

/-- the offset table is the list of prefix sums of the durations, by position -/
theorem offsets_prefix (ss : List Xml) (t : Nat) (tbl : List Nat)
    (h : storyOffsetsFrom ss t = .ok tbl) :
    tbl = (List.range ss.length).map (fun k => t + prefixSum (durationsOf ss) k) := by
  induction ss generalizing t tbl with
  | nil =>
    simp only [storyOffsetsFrom] at h
    cases h; rfl
  | cons s ss ih =>
    obtain ⟨d, rest, hd, hrest, rfl⟩ := storyOffsetsFrom_cons h
    have ih2 := ih _ _ hrest
    have hdur : durationsOf (s :: ss) = d :: durationsOf ss := by
      simp [durationsOf, hd]
    rw [ih2]
    simp only [List.length_cons, List.range_succ_eq_map, hdur, prefixSum_zero,
      List.map_cons, List.map_map, Nat.add_zero]
    congr 1
    apply List.map_congr_left
    intro k _
    simp only [Function.comp, prefixSum_cons_succ]
    omega

/-- the k-th entry of the offset table is the k-th story's own prefix sum (repeated IDs or not) -/
theorem offset_lookup (ss : List Xml) (tbl : List Nat) (h : storyOffsetsFrom ss 0 = .ok tbl)
    (k : Nat) (hk : k < ss.length) :
    tbl[k]? = some (prefixSum (durationsOf ss) k) := by
  rw [offsets_prefix ss 0 tbl h]
  simp [hk]

/-- start: explicit StoryStarted, else running-order start + offset (when both exist), else none -/
theorem story_start_spec (s : Xml) (ps off r : Option Nat) (h : storyStart s ps off = .ok r) :
    ∃ ex, payloadTime s "StoryStarted" = .ok ex ∧
      r = match ex with
          | some t => some t
          | none => match ps, off with | some p, some o => some (p + o) | _, _ => none := by
  unfold storyStart at h
  cases hp : payloadTime s "StoryStarted" with
  | error e => simp only [hp, bind, Except.bind] at h; cases h
  | ok ex =>
    refine ⟨ex, rfl, ?_⟩
    simp only [hp, bind, Except.bind] at h
    cases ex with
    | some t => simp only [pure, Except.pure] at h; cases h; rfl
    | none =>
      cases ps <;> cases off <;> simp only [pure, Except.pure] at h <;> cases h <;> rfl

/-- end: explicit StoryEnded, else start + duration (when both exist), else none -/
theorem story_end_spec (s : Xml) (ps off r : Option Nat) (h : storyEnd s ps off = .ok r) :
    ∃ ex, payloadTime s "StoryEnded" = .ok ex ∧
      (match ex with
       | some t => r = some t
       | none => ∃ st du, storyStart s ps off = .ok st ∧ storyDuration s = .ok du ∧
                  r = match st, du with | some a, some b => some (a + b) | _, _ => none) := by
  unfold storyEnd at h
  cases hp : payloadTime s "StoryEnded" with
  | error e => simp only [hp, bind, Except.bind] at h; cases h
  | ok ex =>
    refine ⟨ex, rfl, ?_⟩
    simp only [hp, bind, Except.bind] at h
    cases ex with
    | some t => simp only [pure, Except.pure] at h; cases h; rfl
    | none =>
      simp only at h ⊢
      cases hst : storyStart s ps off with
      | error e => simp only [hst] at h; cases h
      | ok st =>
        cases hdu : storyDuration s with
        | error e => simp only [hst, hdu] at h; cases h
        | ok du =>
          refine ⟨st, du, rfl, rfl, ?_⟩
          simp only [hst, hdu] at h
          cases st <;> cases du <;> simp only [pure, Except.pure] at h <;> cases h <;> rfl

theorem storyView_ok {s : Xml} {st : Option Nat} {offs : Option Nat}
    {v : StoryView} (h : storyView s st offs = .ok v) :
    storyDuration s = .ok v.duration ∧
    v.offset = offs ∧
    storyStart s st v.offset = .ok v.start ∧ storyEnd s st v.offset = .ok v.stop := by
  unfold storyView at h
  cases hd : storyDuration s with
  | error e => simp only [hd, bind, Except.bind] at h; cases h
  | ok d =>
    simp only [hd, bind, Except.bind] at h
    cases hs : storyStart s st offs with
    | error e => simp only [hs] at h; cases h
    | ok a =>
      simp only [hs] at h
      cases he : storyEnd s st offs with
      | error e => simp only [he] at h; cases h
      | ok b =>
        simp only [he, pure, Except.pure] at h
        cases h
        exact ⟨rfl, rfl, hs, he⟩

theorem roStories_ok {rc : Xml} {vs : List StoryView} {st : Option Nat}
    (h : roStories rc = .ok vs) (hst : roStart rc = .ok st) :
    (rc.findall "story" = [] ∧ vs = []) ∨
    ∃ tbl, storyOffsetsFrom (rc.findall "story") 0 = .ok tbl ∧
      viewsFrom st (rc.findall "story") tbl = .ok vs := by
  unfold roStories at h
  simp only at h
  by_cases he : (rc.findall "story").isEmpty = true
  · left
    simp only [he, if_true] at h
    cases h
    exact ⟨by simpa using he, rfl⟩
  · right
    simp only [he, Bool.false_eq_true, if_false, hst, bind, Except.bind] at h
    cases ho : storyOffsetsFrom (rc.findall "story") 0 with
    | error e => simp only [ho] at h; cases h
    | ok tbl =>
      simp only [ho] at h
      exact ⟨tbl, rfl, h⟩

/-- C16, all relations at once, for every running order whose accessors return: with unique story
    IDs, the k-th story's duration/offset/start/end are the protocol's, the running order's duration
    is the sum (when every story has one) and it ends when its last story ends -/
theorem view_consistent (d : Xml) (v : RoView) (h : roView d = .ok v) :
    ∃ rc, rcOf d = some rc ∧ v.stories.length = (rc.findall "story").length ∧
      v.stop = (v.stories.getLast?).bind (·.stop) ∧
      v.duration = (if v.stories.all (fun s => s.duration.isSome)
                    then some ((v.stories.map (fun s => s.duration.getD 0)).sum) else none) ∧
      v.stories.map (·.duration) = durationsOf (rc.findall "story") ∧
      (∀ k (hk : k < v.stories.length), (v.stories[k]).offset = some (prefixSum (durationsOf (rc.findall "story")) k)) ∧
      (∀ k (hk : k < v.stories.length) (hk' : k < (rc.findall "story").length),
        storyStart ((rc.findall "story")[k]) v.start (v.stories[k]).offset = .ok (v.stories[k]).start ∧
        storyEnd ((rc.findall "story")[k]) v.start (v.stories[k]).offset = .ok (v.stories[k]).stop) := by
  unfold roView at h
  cases hrc : d.find "roCreate" with
  | none => simp only [hrc] at h; cases h
  | some rc =>
    simp only [hrc] at h
    cases hslug : rc.find "roSlug" with
    | none => simp only [hslug] at h; cases h
    | some slug =>
      simp only [hslug] at h
      cases hvs : roStories rc with
      | error e => simp only [hvs, bind, Except.bind] at h; cases h
      | ok vs =>
        cases hst : roStart rc with
        | error e => simp only [hvs, hst, bind, Except.bind] at h; cases h
        | ok st =>
          simp only [hvs, hst, bind, Except.bind, pure, Except.pure] at h
          cases h
          refine ⟨rc, hrc, ?_⟩
          dsimp only
          refine ⟨?_, rfl, ro_duration vs, ?_⟩
          · rcases roStories_ok hvs hst with ⟨h1, h2⟩ | ⟨tbl, _, hm⟩
            · rw [h1, h2]; rfl
            · exact viewsFrom_length hm
          · rcases roStories_ok hvs hst with ⟨h1, h2⟩ | ⟨tbl, htbl, hm⟩
            · rw [h1, h2]
              refine ⟨rfl, ?_, ?_⟩
              · intro k hk; exact absurd hk (Nat.not_lt_zero _)
              · intro k hk; exact absurd hk (Nat.not_lt_zero _)
            · have hlen := viewsFrom_length hm
              have hpt := fun k hk hk' => viewsFrom_getElem hm k hk' hk
              refine ⟨?_, ?_, ?_⟩
              · apply List.ext_getElem
                · simp [durationsOf, hlen]
                · intro k hk1 hk2
                  have hk : k < (rc.findall "story").length := by simpa [durationsOf] using hk2
                  have hk' : k < vs.length := by simpa using hk1
                  obtain ⟨hd, _⟩ := storyView_ok (hpt k hk hk')
                  simp [durationsOf, hd]
              · intro k hk
                have hk' : k < (rc.findall "story").length := by omega
                obtain ⟨_, ho, _⟩ := storyView_ok (hpt k hk' hk)
                rw [ho]
                exact offset_lookup _ tbl htbl k hk'
              · intro k hk hk'
                obtain ⟨_, _, hs, he⟩ := storyView_ok (hpt k hk' hk)
                exact ⟨hs, he⟩

end Mrm
