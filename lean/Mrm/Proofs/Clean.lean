/-
  Mrm/Proofs/Clean.lean — on well-formed child lists the merges that promise no warning end in a
  `MosMergeError` or succeed silently (no built-in exception, no warning).
-/
import Mrm.Proofs.Edit

namespace Mrm

/-- `MosMergeError`, or success without a warning -/
def Clean (o : Out) : Prop := o.err = some .merge ∨ (o.err = none ∧ o.warns = [])

theorem clean_fail (cs : List Xml) : Clean (failWith cs [] .merge) := Or.inl rfl
theorem clean_ok (cs : List Xml) : Clean ⟨cs, [], none⟩ := Or.inr ⟨rfl, rfl⟩

theorem collectSources_ok (tag : String) (cs : List Xml) (target : Option Nat) :
    ∀ (ids : List Key) (acc : List Nat),
      collectSources tag none cs target ids acc = .error .merge ∨
      ∃ l, collectSources tag none cs target ids acc = .ok l := by
  intro ids
  induction ids with
  | nil => intro acc; right; exact ⟨acc, rfl⟩
  | cons id ids ih =>
    intro acc
    unfold collectSources
    rw [findChildId_ok tag cs id]
    cases locate tag cs id with
    | none => left; rfl
    | some i =>
      simp only
      split
      · left; rfl
      · exact ih _

theorem clean_moveMany (tag : String) (cs : List Xml) (t : Key) (ss : List Key) :
    Clean (moveMany tag none cs t ss) := by
  unfold moveMany
  rw [findTarget_ok tag none cs t]
  cases t with
  | none =>
    simp only
    rcases collectSources_ok tag cs none ss [] with h | ⟨l, h⟩ <;> rw [h]
    · exact clean_fail _
    · exact clean_ok _
  | some k =>
    simp only
    cases locate tag cs (some k) with
    | none => exact clean_fail _
    | some i =>
      simp only
      rcases collectSources_ok tag cs (some i) ss [] with h | ⟨l, h⟩ <;> rw [h]
      · exact clean_fail _
      · exact clean_ok _

theorem clean_swapTwo (tag : String) (cs : List Xml) (ids : List Key)
    (hl : ids.length = 2) : Clean (swapTwo tag none cs ids) := by
  match ids, hl with
  | [a, b], _ =>
    simp only [swapTwo, unpack2]
    rw [findRequired_ok tag none cs a, findRequired_ok tag none cs b]
    cases locate tag cs a with
    | none => exact clean_fail _
    | some i =>
      simp only
      cases locate tag cs b with
      | none => exact clean_fail _
      | some j => exact clean_ok _

theorem clean_inStory (cs : List Xml) (sid : Key) (f : List Xml → Out)
    (hf : ∀ s ∈ cs, s.tag = "story" → Clean (f s.kids)) : Clean (inStory none cs sid f) := by
  rw [inStory_ok cs sid f]
  cases hl : locate "story" cs sid with
  | none => exact clean_fail _
  | some j =>
    simp only
    obtain ⟨k, a, x, b, hid, hcs, hal, hx1, hx2, ha⟩ := locate_split hl
    subst hcs hal
    rw [inStoryAt_split]
    have := hf x (by simp) hx1
    rcases this with h | ⟨h1, h2⟩
    · left; exact h
    · right; exact ⟨h1, h2⟩

theorem clean_replace (tag : String) (items : List Xml) (id : Key) (xs : List Xml) :
    Clean (match findRequired tag none items id with
      | .error e => failWith items [] e
      | .ok i => ⟨replaceAt items i xs, [], none⟩) := by
  rw [findRequired_ok tag none items id]
  cases locate tag items id with
  | none => exact clean_fail _
  | some i => exact clean_ok _

end Mrm

namespace Mrm

/-- the class-specific part of `shaped`, on the message element -/
def shapedBase (k : Kind) (base : Xml) : Bool :=
  match k with
  | .StorySend => (match base.find "storyBody" with | some b => (b.find "storyID").isNone | none => false)
  | .ItemMoveMultiple => !(base.findall "itemID").isEmpty
  | .EAStorySwap => ((base.find "element_source").map (fun s => (s.findall "storyID").length == 2)).getD false
  | .EAItemSwap => ((base.find "element_source").map (fun s => (s.findall "itemID").length == 2)).getD false
  | .RunningOrder => false
  | _ => true

theorem shaped_unpack_w {k : Kind} {m base : Xml} (h : shaped k m = true) (hb : m.find k.baseTag = some base) :
    msgIdExc m = none ∧ shapedBase k base = true := by
  unfold shaped at h
  rw [hb] at h
  simp only [Bool.and_eq_true, Option.isNone_iff_eq_none] at h
  refine ⟨h.1, ?_⟩
  have h2 := h.2
  cases k <;> exact h2

/-- the classes that promise no warning and whose result `holdsC06` does not inspect -/
def Kind.isQuiet (k : Kind) : Bool :=
  match k.group with
  | .delete | .send | .insert => false
  | _ => true

theorem swap_len (src : Option Xml) (t : String)
    (h : (src.map (fun s => (s.findall t).length == 2)).getD false = true) :
    ((src.map (idTexts · t)).getD []).length = 2 := by
  cases src with
  | none => simp at h
  | some s => simpa [idTexts] using h

theorem clean_storyMove (cs : List Xml) (sid tid : Key) :
    Clean (match findTarget "story" none cs tid with
      | .error e => failWith cs [] e
      | .ok target =>
        match findRequired "story" none cs sid with
        | .error e => failWith cs [] e
        | .ok s => if target == some s then ⟨cs, [], none⟩ else ⟨moveNodes cs [s] target, [], none⟩) := by
  rw [findTarget_ok "story" none cs _, findRequired_ok "story" none cs sid]
  cases tid with
  | none =>
    simp only
    cases locate "story" cs sid with
    | none => exact clean_fail _
    | some s => simp only; split <;> exact clean_ok _
  | some k' =>
    simp only
    cases locate "story" cs (some k') with
    | none => exact clean_fail _
    | some t =>
      simp only
      cases locate "story" cs sid with
      | none => exact clean_fail _
      | some s => simp only; split <;> exact clean_ok _

theorem clean_mergeRc (k : Kind) (rc base : Xml)
    (hsh : shapedBase k base = true) (hk : k.isQuiet = true) : Clean (mergeRc k rc base none) := by
  cases k <;> (try exact absurd hk (by decide)) <;> simp only [mergeRc]
  case MetaDataReplace => exact clean_ok _
  case StoryAppend => exact clean_ok _
  case ReadyToAir => exact clean_ok _
  case RunningOrder => exact clean_ok _
  case RunningOrderReplace => exact clean_ok _
  case RunningOrderEnd => exact clean_ok _
  case StoryMove =>
    split
    · exact clean_fail _
    · exact clean_storyMove _ _ _
  case ItemMoveMultiple =>
    split
    · exact clean_fail _
    · apply clean_inStory _ _ _
      intro s hs ht
      have hne : (idTexts base "itemID").getLast? ≠ none := by
        simp only [shapedBase] at hsh
        simp only [idTexts, ne_eq, List.getLast?_eq_none_iff, List.map_eq_nil_iff]
        intro h; rw [h] at hsh; simp at hsh
      split
      · rename_i h; exact absurd h hne
      · exact clean_moveMany _ _ _ _
  case StoryReplace =>
    rw [findRequired_ok "story" none rc.kids _]
    cases locate "story" rc.kids (elemId (some base) "storyID") with
    | none => exact clean_fail _
    | some i =>
      simp only
      split
      · exact clean_fail _
      · exact clean_ok _
  case ItemReplace =>
    apply clean_inStory _ _ _
    intro s hs ht
    exact clean_replace _ _ _ _
  case EAStoryReplace => exact clean_replace _ _ _ _
  case EAItemReplace =>
    apply clean_inStory _ _ _
    intro s hs ht
    exact clean_replace _ _ _ _
  case EAStorySwap => exact clean_swapTwo _ _ _ (swap_len _ _ hsh)
  case EAItemSwap =>
    apply clean_inStory _ _ _
    intro s hs ht
    exact clean_swapTwo _ _ _ (swap_len _ _ hsh)
  case EAStoryMove => exact clean_moveMany _ _ _ _
  case EAItemMove =>
    apply clean_inStory _ _ _
    intro s hs ht
    exact clean_moveMany _ _ _ _

end Mrm
