/-
  Mrm/Proofs/WfRoP.lean — "has a roCreate" (`WfRO`) is kept by every merge.
-/
import Mrm.Proofs.Rc

namespace Mrm

theorem wfRO_iff_mem (d : Xml) : WfRO d = true ↔ ∃ c ∈ d.kids, c.tag = "roCreate" := by
  unfold WfRO rcOf Xml.find
  rw [List.find?_isSome]
  simp only [beq_iff_eq]

theorem mem_pyInsert_self {α : Type} (l : List α) (i : Nat) (x : α) : x ∈ pyInsert l i x := by
  unfold pyInsert
  simp

/-- every merge keeps "has a roCreate" (whatever the outcome); the message needs only its base tag
    for the classes that edit the `roCreate` children -/
theorem wfRO_addK (k : Kind) (ro m : Xml) (h : WfRO ro = true) : WfRO (addK k ro m).ro = true := by
  unfold addK
  split
  · exact h
  · unfold merge
    split
    · exact h
    · rename_i base hb
      have hrc : ∃ rc, rcOf ro = some rc := Option.isSome_iff_exists.mp h
      obtain ⟨rc, hrc⟩ := hrc
      obtain ⟨j, hj, hget⟩ := rcIndex_of_rcOf hrc
      have hset : ∀ cs, WfRO (ro.withKids (ro.kids.set j (rc.withKids cs))) = true := by
        intro cs
        have := rcOf_setRcKids ro rc cs hrc
        unfold setRcKids at this
        simp only [hj, hget] at this
        unfold WfRO
        rw [this]; rfl
      cases k <;> simp only [findChildAny_eq_rcIndex, hj, hget]
      case RunningOrder => exact h
      case RunningOrderEnd =>
        rw [wfRO_iff_mem] at h ⊢
        obtain ⟨c, hc, ht⟩ := h
        exact ⟨c, by simp [hc], ht⟩
      case RunningOrderReplace =>
        rw [wfRO_iff_mem]
        refine ⟨base.withTag "roCreate", ?_, rfl⟩
        simp only [Xml.withKids_kids]
        exact mem_pyInsert_self _ _ _
      all_goals exact hset _

end Mrm
