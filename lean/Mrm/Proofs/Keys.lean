/-
  Mrm/Proofs/Keys.lean — bridge between the Xml-level lookups (`locate`, `keysOf`) and the generic
  key-sequence lemmas of `Seq.lean`; split-form facts about positions of keys.
-/
import Mrm.Proofs.OSeq
import Mrm.Proofs.Find

set_option linter.unusedSimpArgs false

namespace Mrm

/-- key of a child as seen by `keysOf tag`: only children with the tag have one -/
def kt (tag : String) (c : Xml) : Option Key := if c.tag == tag then some (keyOf tag c) else none

theorem keysOf_eq_ks (tag : String) (cs : List Xml) : keysOf tag cs = ks (kt tag) cs := by
  induction cs with
  | nil => rfl
  | cons c cs ih =>
    unfold keysOf ks at *
    by_cases h : (c.tag == tag) = true
    · simp [List.filter_cons, List.filterMap_cons, kt, h, ih]
    · simp [List.filter_cons, List.filterMap_cons, kt, h, ih]

theorem kt_some {tag : String} {c : Xml} {k : Key} (h : kt tag c = some k) :
    c.tag = tag ∧ keyOf tag c = k := by
  unfold kt at h
  split at h
  · rename_i ht; exact ⟨by simpa using ht, by simpa using h⟩
  · cases h

theorem kt_of_tag {tag : String} {c : Xml} (h : c.tag = tag) : kt tag c = some (keyOf tag c) := by
  simp [kt, h]

theorem isChild_eq_kt (tag k : String) (c : Xml) : isChild tag k c = (kt tag c == some (some k)) := by
  unfold isChild kt
  by_cases h : (c.tag == tag) = true
  · simp [h]
  · simp [h]

theorem locate_eq (tag : String) (cs : List Xml) (k : String) :
    locate tag cs (some k) = cs.findIdx? (fun c => kt tag c == some (some k)) := by
  unfold locate
  apply findIdx?_congr'
  intro x _
  exact isChild_eq_kt tag k x

section generic
variable {α : Type} (kt : α → Option Key)

theorem findIdx?_isSome_of_mem {cs : List α} {s : Key} (hs : s ∈ ks kt cs) :
    cs.findIdx? (fun c => kt c == some s) = some (idx kt cs s) := by
  simp only [ks, List.mem_filterMap] at hs
  obtain ⟨c, hc, hk⟩ := hs
  cases h : cs.findIdx? (fun c => kt c == some s) with
  | some i => simp [idx, h]
  | none =>
    rw [List.findIdx?_eq_none_iff] at h
    have := h c hc; simp [hk] at this

theorem findIdx?_none_of_not_mem {cs : List α} {s : Key} (hs : s ∉ ks kt cs) :
    cs.findIdx? (fun c => kt c == some s) = none := by
  rw [List.findIdx?_eq_none_iff]
  intro x hx
  simp only [beq_eq_false_iff_ne, ne_eq]
  intro hk
  apply hs
  simp only [ks, List.mem_filterMap]
  exact ⟨x, hx, hk⟩

/-- split a list at the first element with key `s` -/
theorem idx_split {cs : List α} {s : Key} (hs : s ∈ ks kt cs) :
    ∃ a x b, cs = a ++ x :: b ∧ a.length = idx kt cs s ∧ kt x = some s ∧ s ∉ ks kt a := by
  have h := findIdx?_isSome_of_mem kt hs
  rw [List.findIdx?_eq_some_iff_getElem] at h
  obtain ⟨hlt, hp, hbefore⟩ := h
  obtain ⟨h1, h2⟩ := split_at_index cs (idx kt cs s) hlt
  refine ⟨_, _, _, h1, h2, by simpa using hp, ?_⟩
  simp only [ks, List.mem_filterMap, not_exists, not_and]
  intro y hy hk
  rw [List.mem_take_iff_getElem] at hy
  obtain ⟨j, hj, rfl⟩ := hy
  have := hbefore j (by omega)
  simp [hk] at this

/-- with unique keys the key is nowhere else -/
theorem idx_split_nodup {cs : List α} {s : Key} (hu : SomeNodup (ks kt cs)) (hs : s ∈ ks kt cs)
    (hsm : s.isSome = true) :
    ∃ a x b, cs = a ++ x :: b ∧ a.length = idx kt cs s ∧ kt x = some s ∧ s ∉ ks kt a ∧ s ∉ ks kt b := by
  obtain ⟨a, x, b, h1, h2, h3, h4⟩ := idx_split kt hs
  refine ⟨a, x, b, h1, h2, h3, h4, ?_⟩
  rw [h1, ks_append, ks_cons_some kt h3] at hu
  exact hu.append_right.not_mem hsm

/-- non-keyed elements -/
def nk (cs : List α) : List α := cs.filter (fun c => (kt c).isNone)

theorem nk_append (a b : List α) : nk kt (a ++ b) = nk kt a ++ nk kt b := by simp [nk]
theorem nk_cons_some {c : α} {k : Key} (h : kt c = some k) (cs : List α) : nk kt (c :: cs) = nk kt cs := by
  simp [nk, List.filter_cons, h]
theorem nk_keyed {xs : List α} (h : ∀ x ∈ xs, (kt x).isSome) : nk kt xs = [] := by
  simp only [nk, List.filter_eq_nil_iff]
  intro x hx; have := h x hx
  cases hk : kt x <;> simp_all

end generic

theorem locate_of_mem {tag : String} {cs : List Xml} {id : Key} (h : id ∈ keysOf tag cs)
    (hs : id.isSome = true) : locate tag cs id = some (idx (kt tag) cs id) := by
  cases id with
  | none => cases hs
  | some k =>
    rw [locate_eq]
    rw [keysOf_eq_ks] at h
    exact findIdx?_isSome_of_mem (kt tag) h

theorem locate_of_not_mem {tag : String} {cs : List Xml} {id : Key} (h : id ∉ keysOf tag cs) :
    locate tag cs id = none := by
  cases id with
  | none => rfl
  | some k =>
    rw [locate_eq]
    rw [keysOf_eq_ks] at h
    exact findIdx?_none_of_not_mem (kt tag) h

end Mrm
