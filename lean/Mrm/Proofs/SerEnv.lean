/-
  Mrm/Proofs/SerEnv.lean — what one merge step can do to the root element: nothing, append one
  `mosromgrmeta`, or replace the first `roCreate` child by another element tagged `roCreate`.
-/
import Mrm.Model.Serialize
import Mrm.Proofs.Rc

namespace Mrm

theorem ser_pyInsert_eraseIdx (l : List Xml) (i : Nat) (y : Xml) (h : i < l.length) :
    pyInsert (l.eraseIdx i) i y = l.set i y := by
  induction l generalizing i with
  | nil => simp at h
  | cons a l ih =>
    cases i with
    | zero => simp [pyInsert]
    | succ i =>
      have := ih i (by simpa using h)
      simp only [pyInsert] at this
      simp [pyInsert, this]

/-- the three shapes of `(addK k d m).ro` -/
def RootStep (k : Kind) (d d' : Xml) : Prop :=
  d' = d ∨
  (∃ x, x.tag = "mosromgrmeta" ∧ k = .RunningOrderEnd ∧ completed d = false ∧
    d' = d.withKids (d.kids ++ [x])) ∨
  (∃ i rc y, d.kids[i]? = some rc ∧ rc.tag = "roCreate" ∧ y.tag = "roCreate" ∧
    d' = d.withKids (d.kids.set i y))

theorem root_cases (k : Kind) (d m : Xml) : RootStep k d (addK k d m).ro := by
  unfold addK
  by_cases hc : completed d = true
  · simp only [hc, if_true]; exact Or.inl rfl
  · have hc' : completed d = false := by simpa using hc
    simp only [hc', Bool.false_eq_true, if_false]
    unfold merge
    split
    · exact Or.inl rfl
    · rename_i base hb
      cases k <;> dsimp only
      case RunningOrder => exact Or.inl rfl
      case RunningOrderEnd => exact Or.inr (Or.inl ⟨_, rfl, rfl, hc', rfl⟩)
      case RunningOrderReplace =>
        split
        · exact Or.inl rfl
        · rename_i i hi
          obtain ⟨rc, hget, _, htag⟩ := rcOf_eq_getElem d hi
          have hlt : i < d.kids.length := (List.getElem?_eq_some_iff.mp hget).1
          refine Or.inr (Or.inr ⟨i, rc, base.withTag "roCreate", hget, htag, rfl, ?_⟩)
          rw [ser_pyInsert_eraseIdx _ _ _ hlt]
      all_goals
        split
        · exact Or.inl rfl
        · rename_i i hi
          split
          · exact Or.inl rfl
          · rename_i rc hget
            obtain ⟨rc', hget', _, htag⟩ := rcOf_eq_getElem d hi
            rw [hget] at hget'; cases hget'
            exact Or.inr (Or.inr ⟨i, rc, _, hget, htag, by simpa using htag, rfl⟩)

end Mrm
