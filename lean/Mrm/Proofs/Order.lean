/-
  Mrm/Proofs/Order.lean — refinement of the merges to the declarative ID-sequence functions
  (C01, C02) and the permutation property of moves and swaps.
-/
import Mrm.Proofs.Rc
import Mrm.Proofs.Story
import Mrm.Proofs.Perm
import Mrm.Proofs.Item

set_option linter.unusedSimpArgs false

namespace Mrm

/-- what `DomOrder` provides -/
theorem DomOrder_unpack {d m : Xml} {k : Kind} (h : DomOrder ⟨d, m, k⟩ = true) :
    ∃ rc base ids, rcOf d = some rc ∧
      completed d = false ∧ shaped k m = true ∧
      m.find k.baseTag = some base ∧ containerIds k (namedOf k base) d = some ids ∧
      SomeNodup ids ∧ resolves k (namedOf k base) ids = true := by
  unfold DomOrder at h
  simp only [Bool.and_eq_true] at h
  obtain ⟨⟨⟨⟨hwf, hc⟩, hsh⟩, _⟩, hrest⟩ := h
  cases hrc : rcOf d with
  | none => simp [WfRO, hrc] at hwf
  | some rc =>
    cases hb : m.find k.baseTag with
    | none => simp [hb] at hrest
    | some base =>
      simp only [hb] at hrest
      cases hci : containerIds k (namedOf k base) d with
      | none => simp [hci] at hrest
      | some ids =>
        simp only [hci, Bool.and_eq_true, List.all_eq_true, decide_eq_true_eq] at hrest
        refine ⟨rc, base, ids, rfl, by simpa using hc, hsh, rfl, hci,
          hrest.1, hrest.2⟩

theorem shaped_mid {k : Kind} {m : Xml} (h : shaped k m = true) : msgIdExc m = none := by
  unfold shaped at h
  simp only [Bool.and_eq_true] at h
  simpa using h.1

theorem shaped_send {m base : Xml} (h : shaped .StorySend m = true)
    (hb : m.find Kind.StorySend.baseTag = some base) : (base.find "storyBody").isSome = true := by
  unfold shaped at h
  simp only [hb, Bool.and_eq_true] at h
  cases hf : base.find "storyBody" with
  | none => simp [hf] at h
  | some b => rfl

/-- every story-level merge refines the protocol on the story-ID sequence -/
theorem story_core (k : Kind) (rc base : Xml) (g : Good "story" rc.kids) (hk : k.isStoryLevel = true)
    (hsend : k = .StorySend → (base.find "storyBody").isSome = true)
    (hres : resolves k (namedOf k base) (keysOf "story" rc.kids) = true) :
    Eff "story" rc.kids (mergeRc k rc base none)
      (specIds k "story" (namedOf k base) (keysOf "story" rc.kids)) := by
  cases k <;> first | (exact absurd hk (by decide)) | skip
  case StorySend => exact story_send rc base g (hsend rfl)
  case StoryAppend => exact story_append rc base
  case StoryDelete => exact story_delete rc base g
  case StoryInsert => exact story_insert rc base g hres
  case StoryMove => exact story_move rc base g hres
  case StoryReplace => exact story_replace rc base g hres
  case EAStoryReplace => exact story_eareplace rc base g hres
  case EAStoryDelete => exact story_eadelete rc base g
  case EAStoryInsert => exact story_eainsert rc base g hres
  case EAStorySwap => exact story_swap rc base g hres
  case EAStoryMove => exact story_eamove rc base g hres

theorem order_story (i : MergeInput) (h : DomOrder i = true) (hs : i.k.isStoryLevel = true) :
    holdsOrder i (addK i.k i.d i.m) = true := by
  obtain ⟨d, m, k⟩ := i
  obtain ⟨rc, base, ids, hrc, hc, hsh, hb, hci, hnd, hres⟩ := DomOrder_unpack h
  simp only at hs ⊢
  have hids : keysOf "story" rc.kids = ids := by
    unfold containerIds at hci
    simp only [hrc, hs, if_true] at hci
    exact Option.some.inj hci
  subst hids
  have g : Good "story" rc.kids := ⟨hnd⟩
  have hed : k.editsRc = true := by cases k <;> first | rfl | exact absurd hs (by decide)
  rw [addK_editsRc k d m rc base hed hc hrc hb, shaped_mid hsh]
  obtain ⟨e1, e2, _⟩ := story_core k rc base g hs (by intro e; subst e; exact shaped_send hsh hb) hres
  unfold holdsOrder
  simp only [hb, containerIds, hrc, rcOf_setRcKids d rc _ hrc, hs, if_true, levelTag,
    Xml.withKids_kids, e1, e2]
  simp

theorem shaped_movemultiple {m base : Xml} (h : shaped .ItemMoveMultiple m = true)
    (hb : m.find Kind.ItemMoveMultiple.baseTag = some base) : (base.findall "itemID").isEmpty = false := by
  unfold shaped at h
  simp only [hb, Bool.and_eq_true] at h
  simpa using h.2

theorem order_item (i : MergeInput) (h : DomOrder i = true) (hs : i.k.isItemLevel = true) :
    holdsOrder i (addK i.k i.d i.m) = true := by
  obtain ⟨d, m, k⟩ := i
  obtain ⟨rc, base, ids, hrc, hc, hsh, hb, hci, hnd, hres⟩ := DomOrder_unpack h
  simp only at hs ⊢
  have hns : k.isStoryLevel = false := by cases k <;> first | rfl | exact absurd hs (by decide)
  have hed : k.editsRc = true := by cases k <;> first | rfl | exact absurd hs (by decide)
  -- the addressed story
  unfold containerIds at hci
  simp only [hrc, hns, Bool.false_eq_true, if_false] at hci
  cases ha : addressed rc.kids (namedOf k base).story with
  | none => simp [ha] at hci
  | some j =>
    simp only [ha] at hci
    cases hsj : rc.kids[j]? with
    | none => simp [hsj] at hci
    | some s =>
      simp only [hsj, Option.map_some] at hci
      have hids := Option.some.inj hci
      subst hids
      -- the story is a story, so its items are well-formed
      have hstag : s.tag = "story" := by
        have ha' := ha
        rw [addressed_eq_locate] at ha'
        obtain ⟨_, _, hlt, hp, _⟩ := locate_some ha'
        obtain ⟨_, rfl⟩ := List.getElem?_eq_some_iff.mp hsj
        simp only [isChild, Bool.and_eq_true] at hp
        simpa using hp.1
      have g : Good "item" s.kids := ⟨hnd⟩
      obtain ⟨e1, e2, e3⟩ := item_core k base s.kids g hs
        (by intro e; subst e; exact shaped_movemultiple hsh hb) hres
      rw [addK_editsRc k d m rc base hed hc hrc hb, shaped_mid hsh,
        mergeRc_item k rc base j s hs ha hsj]
      have ha2 := addressed_set rc.kids (namedOf k base).story j s
        (s.withKids (itemFn k base s.kids).kids) ha hsj rfl (keyOf_story_withKids_o s _ e3)
      have hlt : j < rc.kids.length := (List.getElem?_eq_some_iff.mp hsj).1
      unfold holdsOrder
      simp only [hb, containerIds, hrc, rcOf_setRcKids d rc _ hrc, hns, Bool.false_eq_true, if_false,
        levelTag, Xml.withKids_kids, ha, ha2, hsj, List.getElem?_set_self hlt, Option.map_some, e1, e2]
      simp

/-- `ro + msg` for a class that edits the `roCreate` children either returns the running order as
    it was or rebuilds it around the merged child list -/
theorem addK_ro_cases (k : Kind) (d m : Xml) (hk : k.editsRc = true) :
    (addK k d m).ro = d ∨
    ∃ rc base, rcOf d = some rc ∧ (addK k d m).ro = setRcKids d (mergeRc k rc base (msgIdExc m)).kids := by
  by_cases hc : completed d = true
  · left; simp [addK, hc]
  have hc : completed d = false := by simpa using hc
  cases hb : m.find k.baseTag with
  | none => left; simp [addK, hc, merge, hb]
  | some base =>
    cases hrc : rcOf d with
    | some rc =>
      right
      exact ⟨rc, base, rfl, by rw [addK_editsRc k d m rc base hk hc hrc hb]⟩
    | none =>
      left
      have hi : rcIndex d = none := by
        cases hi : rcIndex d with
        | none => rfl
        | some i =>
          obtain ⟨_, _, h2, _⟩ := rcOf_eq_getElem d hi
          rw [hrc] at h2; cases h2
      unfold addK merge
      simp only [hc, hb, findChildAny_eq_rcIndex, hi]
      cases k <;> first | rfl | (simp [Kind.editsRc] at hk)

theorem perm_any (i : MergeInput) : holdsPerm i (addK i.k i.d i.m) = true := by
  obtain ⟨d, m, k⟩ := i
  unfold holdsPerm
  simp only
  by_cases hk : k.isMoveOrSwap = true
  · simp only [hk, Bool.not_true, Bool.false_or]
    have hed : k.editsRc = true := by cases k <;> first | rfl | exact absurd hk (by decide)
    rcases addK_ro_cases k d m hed with h | ⟨rc, base, hrc, h⟩
    · rw [h]
      cases hrc : rcOf d with
      | none => rfl
      | some rc =>
        simp only
        split
        · simp [List.isPerm_iff]
        · exact itemPerm_refl rc.kids
    · rw [h, hrc, rcOf_setRcKids d rc _ hrc]
      simp only [Xml.withKids_kids]
      split
      · rename_i hs
        rw [List.isPerm_iff]
        exact mergeRc_perm_story k rc base _ hk hs
      · rename_i hs
        exact mergeRc_perm_item k rc base _ hk (by simpa using hs)
  · simp [hk]

end Mrm
