/-
  Mrm/Proofs/ScriptP.lean — C17: script and body (targets).
-/
import Mrm.Spec.Access
import Mrm.Spec.Frame
import Mrm.Proofs.ScriptLemmas
import Mrm.Proofs.ViewsFrom

namespace Mrm

theorem body_eq_spec (s : Xml) : storyBody s = bodySpec s := by
  unfold storyBody bodySpec
  apply filterMap_eq_filter_map
  intro c
  by_cases hi : (c.tag == "item") = true
  · simp only [hi, if_true, Bool.true_or]
  · have hi' : (c.tag == "item") = false := by simpa using hi
    by_cases hp : (c.tag == "p") = true
    · simp only [hi', hp, Bool.false_eq_true, if_false, if_true, Bool.or_true]
    · have hp' : (c.tag == "p") = false := by simpa using hp
      simp only [hi', hp', Bool.false_eq_true, if_false, Bool.or_false]

theorem pyStripL_nil : pyStripL [] = [] := rfl

theorem script_eq_spec (s : Xml) : storyScript s = scriptSpec s := by
  unfold storyScript scriptSpec
  rw [List.filter_map, List.map_map]
  apply filterMap_eq_filter_map
  intro p
  cases ht : p.text with
  | none =>
    simp [ht, pyStripL_nil]
  | some t =>
    simp only [ht, Option.getD_some, Function.comp_apply]
    by_cases he : t.isEmpty = true
    · have : t = "" := String.isEmpty_iff.mp he
      subst this
      simp [pyStripL_nil]
    · have he' : t.isEmpty = false := by simpa using he
      simp only [he', Bool.false_or]
      generalize pyStripL t.toList = u
      cases h1 : u.isEmpty <;> cases h2 : isBracketed u <;> simp

/-- `strip` removes exactly the maximal whitespace prefix and suffix -/
theorem strip_spec (cs : List Char) :
    ∃ pre suf, cs = pre ++ pyStripL cs ++ suf ∧ pre.all pyIsSpace = true ∧ suf.all pyIsSpace = true ∧
      (∀ c, (pyStripL cs).head? = some c → pyIsSpace c = false) ∧
      (∀ c, (pyStripL cs).getLast? = some c → pyIsSpace c = false) := by
  refine ⟨cs.takeWhile pyIsSpace, (((cs.dropWhile pyIsSpace).reverse).takeWhile pyIsSpace).reverse,
    ?_, all_takeWhile _ _, ?_, ?_, ?_⟩
  · unfold pyStripL
    rw [List.append_assoc, ← List.reverse_append, List.takeWhile_append_dropWhile, List.reverse_reverse,
      List.takeWhile_append_dropWhile]
  · rw [List.all_reverse]; exact all_takeWhile _ _
  · intro c hc
    unfold pyStripL at hc
    rw [List.head?_reverse] at hc
    have := getLast?_dropWhile _ _ _ hc
    rw [List.getLast?_reverse] at this
    exact head?_dropWhile_false _ _ _ this
  · intro c hc
    unfold pyStripL at hc
    rw [List.getLast?_reverse] at hc
    exact head?_dropWhile_false _ _ _ hc

theorem storyView_script (s : Xml) (ps : Option Nat) (offs : Option Nat)
    (v : StoryView) (h : storyView s ps offs = .ok v) :
    v.script = storyScript s ∧ v.body = storyBody s := by
  unfold storyView at h
  simp only [bind, Except.bind, pure, Except.pure] at h
  split at h
  · cases h
  · split at h
    · cases h
    · split at h
      · cases h
      · cases h; exact ⟨rfl, rfl⟩

theorem roStories_script (rc : Xml) (vs : List StoryView) (h : roStories rc = .ok vs) :
    vs.map (·.script) = (rc.findall "story").map scriptSpec ∧
    vs.map (·.body) = (rc.findall "story").map bodySpec := by
  unfold roStories at h
  simp only at h
  split at h
  · rename_i he
    cases h
    have : rc.findall "story" = [] := by simpa using he
    rw [this]; exact ⟨rfl, rfl⟩
  · simp only [bind, Except.bind] at h
    split at h
    · cases h
    · split at h
      · cases h
      · constructor
        · exact viewsFrom_map_eq (·.script) scriptSpec
            (fun a o v hv => by rw [← script_eq_spec]; exact (storyView_script a _ o v hv).1) h
        · exact viewsFrom_map_eq (·.body) bodySpec
            (fun a o v hv => by rw [← body_eq_spec]; exact (storyView_script a _ o v hv).2) h

/-- the running order's script / body are the concatenation of its stories', in running order -/
theorem ro_script_concat (d : Xml) (v : RoView) (h : roView d = .ok v) :
    ∃ rc, rcOf d = some rc ∧
      v.script = (rc.findall "story").flatMap scriptSpec ∧
      v.body = (rc.findall "story").flatMap bodySpec ∧
      v.stories.map (·.script) = (rc.findall "story").map scriptSpec ∧
      v.stories.map (·.body) = (rc.findall "story").map bodySpec := by
  unfold roView at h
  cases hrc : d.find "roCreate" with
  | none => rw [hrc] at h; cases h
  | some rc =>
    rw [hrc] at h
    simp only at h
    refine ⟨rc, hrc, ?_⟩
    split at h
    · cases h
    · simp only [bind, Except.bind, pure, Except.pure] at h
      split at h
      · cases h
      · rename_i vs hvs
        obtain ⟨h1, h2⟩ := roStories_script rc vs hvs
        split at h
        · cases h
        · cases h
          simp only
          refine ⟨?_, ?_, h1, h2⟩
          · rw [List.flatMap_def, List.flatMap_def, ← h1]
          · rw [List.flatMap_def, List.flatMap_def, ← h2]

/-- body of a bare child list -/
def kidsBody (cs : List Xml) : List BodyEl := bodySpec (.node "story" [] none none cs)

/-- after a roStorySend the story's body lists what preceded the storyBody, then the storyBody's
    children in their order (storyItem as item), then what followed it -/
theorem send_body (base story : Xml) (h : convertSpec base = some story) :
    ∃ j body, base.kids.findIdx? (fun c => c.tag == "storyBody") = some j ∧ base.kids[j]? = some body ∧
      bodySpec story = kidsBody (base.kids.take j) ++
        kidsBody (body.kids.map (fun c => if c.tag == "storyItem" then c.withTag "item" else c)) ++
        kidsBody (base.kids.drop (j+1)) := by
  unfold convertSpec at h
  cases hj : base.kids.findIdx? (fun c => c.tag == "storyBody") with
  | none => rw [hj] at h; cases h
  | some j =>
    rw [hj] at h
    simp only at h
    cases hb : base.kids[j]? with
    | none => rw [hb] at h; cases h
    | some body =>
      rw [hb] at h
      simp only [Option.some.injEq] at h
      refine ⟨j, body, rfl, hb, ?_⟩
      rw [← h]
      simp only [kidsBody, bodySpec, Xml.kids_node, List.filter_append, List.map_append]

end Mrm
