/-
  Mrm/Proofs/Seq.lean — generic list lemmas for the order/permutation properties:
  key sequences (`filterMap kt`) of the list primitives used by the merges, in split form.
-/
import Mrm.Model.Merge
import Mrm.Spec.Merge

set_option linter.unusedSimpArgs false

namespace Mrm

variable {α β : Type}

/-! ### The spec's functions on split lists -/

theorem idxOf_o?_split (t : Key) (a b : List Key) (h : t ∉ a) :
    (a ++ t :: b).idxOf? t = some a.length := by
  rw [List.idxOf?, List.findIdx?_eq_some_iff_getElem]
  refine ⟨by simp, by simp, ?_⟩
  intro j hj
  have : (a ++ t :: b)[j]'(by simp; omega) = a[j] := by simp [List.getElem_append_left hj]
  rw [this]
  intro e; apply h
  have := List.getElem_mem hj
  simp at e; rw [e] at this; exact this

theorem insBefore_split_o (t : Key) (ss a b : List Key) (h : t ∉ a) :
    insBefore (some t) ss (a ++ t :: b) = a ++ ss ++ t :: b := by
  unfold insBefore
  simp [idxOf_o?_split t a b h]

theorem replaceKey_split (t : Key) (ns a b : List Key) (h : t ∉ a) :
    replaceKey t ns (a ++ t :: b) = a ++ ns ++ b := by
  unfold replaceKey
  simp [idxOf_o?_split t a b h]

/-! ### Keys of a list -/

section
variable (kt : α → Option Key)

/-- the key sequence of a list: the keys of the elements that have one -/
def ks (cs : List α) : List Key := cs.filterMap kt

/-- index of the first element with key `s` (0 if none) -/
def idx (cs : List α) (s : Key) : Nat := (cs.findIdx? (fun c => kt c == some s)).getD 0

@[simp] theorem ks_nil : ks kt ([] : List α) = [] := rfl
theorem ks_append (a b : List α) : ks kt (a ++ b) = ks kt a ++ ks kt b := by
  simp [ks, List.filterMap_append]
theorem ks_cons_some {c : α} {k : Key} (h : kt c = some k) (cs : List α) :
    ks kt (c :: cs) = k :: ks kt cs := by simp [ks, List.filterMap_cons, h]
theorem ks_cons_none {c : α} (h : kt c = none) (cs : List α) :
    ks kt (c :: cs) = ks kt cs := by simp [ks, List.filterMap_cons, h]

/-- uniqueness of the present (non-blank) keys; blank keys may repeat -/
def SomeNodup (l : List Key) : Prop := (l.filter (·.isSome)).Nodup

theorem SomeNodup.of_nodup {l : List Key} (h : l.Nodup) : SomeNodup l :=
  h.sublist List.filter_sublist

theorem SomeNodup.sublist {l₁ l₂ : List Key} (hs : l₁.Sublist l₂) (h : SomeNodup l₂) : SomeNodup l₁ :=
  List.Nodup.sublist (hs.filter _) h

theorem SomeNodup.tail {x : Key} {l : List Key} (h : SomeNodup (x :: l)) : SomeNodup l :=
  h.sublist (List.sublist_cons_self x l)

theorem SomeNodup.not_mem {s : Key} {l : List Key} (h : SomeNodup (s :: l)) (hs : s.isSome = true) :
    s ∉ l := by
  unfold SomeNodup at h
  simp only [List.filter_cons, hs, if_true, List.nodup_cons] at h
  intro hm
  exact h.1 (List.mem_filter.mpr ⟨hm, hs⟩)

theorem SomeNodup.append_left {a b : List Key} (h : SomeNodup (a ++ b)) : SomeNodup a :=
  h.sublist (List.sublist_append_left a b)

theorem SomeNodup.append_right {a b : List Key} (h : SomeNodup (a ++ b)) : SomeNodup b :=
  h.sublist (List.sublist_append_right a b)

theorem SomeNodup.disjoint {a b : List Key} (h : SomeNodup (a ++ b)) {s : Key} (hs : s.isSome = true)
    (ha : s ∈ a) : s ∉ b := by
  unfold SomeNodup at h
  rw [List.filter_append, List.nodup_append] at h
  intro hb
  exact h.2.2 s (List.mem_filter.mpr ⟨ha, hs⟩) s (List.mem_filter.mpr ⟨hb, hs⟩) rfl

/-- uniqueness of the position of a key -/
theorem idx_unique {cs : List α} (hu : SomeNodup (ks kt cs)) {i j : Nat} (hi : i < cs.length) (hj : j < cs.length)
    {s : Key} (hs : s.isSome = true) (h1 : kt cs[i] = some s) (h2 : kt cs[j] = some s) : i = j := by
  induction cs generalizing i j with
  | nil => simp at hi
  | cons c cs ih =>
    simp only [ks, List.filterMap_cons] at hu
    cases i with
    | zero =>
      cases j with
      | zero => rfl
      | succ j =>
        simp at h1 h2
        rw [h1] at hu
        exfalso; apply hu.not_mem hs
        simp only [List.mem_filterMap]
        have hj' : j < cs.length := by simpa using hj
        exact ⟨cs[j], List.getElem_mem hj', h2⟩
    | succ i =>
      cases j with
      | zero =>
        simp at h1 h2
        rw [h2] at hu
        exfalso; apply hu.not_mem hs
        simp only [List.mem_filterMap]
        have hi' : i < cs.length := by simpa using hi
        exact ⟨cs[i], List.getElem_mem hi', h1⟩
      | succ j =>
        simp at h1 h2
        have hu' : SomeNodup (ks kt cs) := by
          cases hc : kt c with
          | none => simpa [hc, ks] using hu
          | some v => rw [hc] at hu; exact hu.tail
        congr 1
        exact ih hu' (by simpa using hi) (by simpa using hj) h1 h2

theorem idx_spec {cs : List α} {s : Key} (hs : s ∈ ks kt cs) :
    ∃ h : idx kt cs s < cs.length, kt cs[idx kt cs s] = some s := by
  simp only [ks, List.mem_filterMap] at hs
  obtain ⟨c, hc, hk⟩ := hs
  have : ∃ i, cs.findIdx? (fun c => kt c == some s) = some i := by
    cases h : cs.findIdx? (fun c => kt c == some s) with
    | some i => exact ⟨i, rfl⟩
    | none =>
      rw [List.findIdx?_eq_none_iff] at h
      have := h c hc; simp [hk] at this
  obtain ⟨i, hi⟩ := this
  have hi' := hi
  rw [List.findIdx?_eq_some_iff_getElem] at hi'
  obtain ⟨hlt, hp, _⟩ := hi'
  refine ⟨by simp [idx, hi, hlt], ?_⟩
  simp only [idx, hi, Option.getD_some]
  simpa using hp

def isSrc (ss : List Key) (c : α) : Bool := match kt c with | some k => decide (k ∈ ss) | none => false

theorem findIdx?_congr' {l : List β} {p q : β → Bool} (h : ∀ x ∈ l, p x = q x) :
    l.findIdx? p = l.findIdx? q := by
  induction l with
  | nil => rfl
  | cons a l ih =>
    simp only [List.findIdx?_cons, h a (List.mem_cons_self)]
    rw [ih (fun x hx => h x (List.mem_cons_of_mem _ hx))]

/-- membership of an original index among the located source indices ⇔ its key is a source key -/
theorem src_contains_iff {cs : List α} (hu : SomeNodup (ks kt cs)) {ss : List Key} (hss : ∀ s ∈ ss, s ∈ ks kt cs)
    (hsm : ∀ s ∈ ss, s.isSome = true) {p : α × Nat} (hp : p ∈ cs.zipIdx) :
    (ss.map (idx kt cs)).contains p.2 = isSrc kt ss p.1 := by
  rw [List.mem_zipIdx_iff_getElem?, List.getElem?_eq_some_iff] at hp
  obtain ⟨hlt, hget⟩ := hp
  unfold isSrc
  cases hk : kt p.1 with
  | none =>
    simp only [List.contains_eq_mem, List.mem_map, decide_eq_false_iff_not]
    rintro ⟨s, hs, he⟩
    obtain ⟨h1, h2⟩ := idx_spec kt (hss s hs)
    have : kt cs[p.2] = some s := by simpa [← he] using h2
    rw [hget, hk] at this; cases this
  | some k =>
    simp only [List.contains_eq_mem, List.mem_map]
    by_cases hmem : k ∈ ss
    · simp only [hmem, decide_true, decide_eq_true_eq]
      refine ⟨k, hmem, ?_⟩
      obtain ⟨h1, h2⟩ := idx_spec kt (hss k hmem)
      exact idx_unique kt hu h1 hlt (hsm k hmem) h2 (by rw [hget]; exact hk)
    · simp only [hmem, decide_false, decide_eq_false_iff_not]
      rintro ⟨s, hs, he⟩
      obtain ⟨h1, h2⟩ := idx_spec kt (hss s hs)
      have : kt cs[p.2] = some s := by simpa [← he] using h2
      rw [hget, hk] at this
      cases this; exact hmem hs

/-- filtering the index-tagged list by a value predicate, then untagging -/
theorem untag_filter (cs : List α) (q : α → Bool) :
    (cs.zipIdx.filter (fun p => q p.1)).map (·.1) = cs.filter q := by
  have := @List.filter_map _ _ (Prod.fst : α × Nat → α) q cs.zipIdx
  rw [List.zipIdx_map_fst] at this
  rw [this]; rfl

theorem ks_filter_notSrc (cs : List α) (ss : List Key) :
    ks kt (cs.filter (fun c => !isSrc kt ss c)) = (ks kt cs).filter (fun k => !ss.contains k) := by
  induction cs with
  | nil => rfl
  | cons c cs ih =>
    simp only [ks] at ih ⊢
    have hc : isSrc kt ss c = (match kt c with | some k => decide (k ∈ ss) | none => false) := rfl
    cases hk : kt c with
    | none =>
      rw [hk] at hc
      simp only [List.filter_cons, hc, Bool.not_false, if_true, List.filterMap_cons, hk, ih]
    | some k =>
      rw [hk] at hc
      by_cases hm : k ∈ ss
      · simp [List.filter_cons, hc, hm, List.filterMap_cons, hk, ih]
      · simp [List.filter_cons, hc, hm, List.filterMap_cons, hk, ih]

theorem ks_moved {cs : List α} {ss : List Key} (hss : ∀ s ∈ ss, s ∈ ks kt cs) :
    ks kt ((ss.map (idx kt cs)).filterMap (fun i => cs[i]?)) = ss := by
  induction ss with
  | nil => rfl
  | cons s ss ih =>
    obtain ⟨h1, h2⟩ := idx_spec kt (hss s (List.mem_cons_self))
    have ih' := ih (fun x hx => hss x (List.mem_cons_of_mem _ hx))
    simp only [ks] at ih' ⊢
    simp only [List.map_cons, List.filterMap_cons, List.getElem?_eq_getElem h1, h2, ih']

/-- the children that stay, untagged -/
theorem moveNodes_rest {cs : List α} {ss : List Key}
    (hu : SomeNodup (ks kt cs)) (hss : ∀ s ∈ ss, s ∈ ks kt cs) (hsm : ∀ s ∈ ss, s.isSome = true) :
    cs.zipIdx.filter (fun p => !(ss.map (idx kt cs)).contains p.2)
      = cs.zipIdx.filter (fun p => !isSrc kt ss p.1) := by
  apply List.filter_congr; intro p hp; rw [src_contains_iff kt hu hss hsm hp]

/-- `move_nodes` before a target, on key sequences -/
theorem moveNodes_keys {cs : List α} {ss : List Key} {t : Key}
    (hu : SomeNodup (ks kt cs)) (hss : ∀ s ∈ ss, s ∈ ks kt cs) (hsm : ∀ s ∈ ss, s.isSome = true)
    (ht : t ∈ ks kt cs) (htm : t.isSome = true) (hts : t ∉ ss) :
    ks kt (moveNodes cs (ss.map (idx kt cs)) (some (idx kt cs t))) =
      insBefore (some t) ss ((ks kt cs).filter (fun k => !ss.contains k)) := by
  have hrest := moveNodes_rest kt hu hss hsm
  obtain ⟨ht1, ht2⟩ := idx_spec kt ht
  -- position of the target among them
  have hpos : (cs.zipIdx.filter (fun p => !isSrc kt ss p.1)).findIdx? (fun p => p.2 == idx kt cs t)
      = (cs.filter (fun c => !isSrc kt ss c)).findIdx? (fun c => kt c == some t) := by
    rw [← untag_filter cs (fun c => !isSrc kt ss c), List.findIdx?_map]
    apply findIdx?_congr'
    intro p hp
    have hp' := (List.mem_filter.mp hp).1
    rw [List.mem_zipIdx_iff_getElem?, List.getElem?_eq_some_iff] at hp'
    obtain ⟨hlt, hget⟩ := hp'
    simp only [Function.comp]
    by_cases he : p.2 = idx kt cs t
    · have : kt p.1 = some t := by rw [← hget]; simpa [he] using ht2
      simp [he, this]
    · have : kt p.1 ≠ some t := by
        intro hk; apply he
        exact idx_unique kt hu hlt ht1 htm (by rw [hget]; exact hk) ht2
      have h1 : (p.2 == idx kt cs t) = false := by simpa using he
      have h2 : (kt p.1 == some t) = false := by simpa using this
      rw [h1, h2]
  -- the target survives the removal
  have htr : t ∈ ks kt (cs.filter (fun c => !isSrc kt ss c)) := by
    rw [ks_filter_notSrc]; simp [ht, hts]
  have : ∃ i, (cs.filter (fun c => !isSrc kt ss c)).findIdx? (fun c => kt c == some t) = some i := by
    simp only [ks, List.mem_filterMap] at htr
    obtain ⟨c, hc, hk⟩ := htr
    cases h : (cs.filter (fun c => !isSrc kt ss c)).findIdx? (fun c => kt c == some t) with
    | some i => exact ⟨i, rfl⟩
    | none => rw [List.findIdx?_eq_none_iff] at h; have := h c hc; simp [hk] at this
  obtain ⟨i, hi⟩ := this
  have hi' := hi
  rw [List.findIdx?_eq_some_iff_getElem] at hi'
  obtain ⟨hlt, hp, hbefore⟩ := hi'
  generalize hr : cs.filter (fun c => !isSrc kt ss c) = r at *
  unfold moveNodes
  simp only [hrest, hpos, hi, Option.getD_some, List.map_take, List.map_drop]
  have hu2 := untag_filter cs (fun c => !isSrc kt ss c)
  simp only [hr] at hu2
  rw [show (fun p : α × Nat => p.1) = Prod.fst from rfl] at hu2
  simp only [hu2]
  -- split r at i
  have hsplit : r = r.take i ++ r[i] :: r.drop (i+1) := by simp
  have hkt : kt r[i] = some t := by simpa using hp
  have hnot : t ∉ ks kt (r.take i) := by
    simp only [ks, List.mem_filterMap, not_exists, not_and]
    intro y hy hk
    rw [List.mem_take_iff_getElem] at hy
    obtain ⟨j, hj, rfl⟩ := hy
    have := hbefore j (by omega)
    simp [hk] at this
  have hdrop : r.drop i = r[i] :: r.drop (i+1) := by simp
  have e1 : ks kt (r.take i ++ (ss.map (idx kt cs)).filterMap (fun i => cs[i]?) ++ r.drop i)
      = ks kt (r.take i) ++ ss ++ t :: ks kt (r.drop (i+1)) := by
    rw [hdrop]
    simp only [ks, List.filterMap_append, List.filterMap_cons, hkt]
    have := ks_moved kt hss; simp only [ks] at this; rw [this]
  rw [e1, ← ks_filter_notSrc, hr]
  conv => rhs; rw [hsplit]
  simp only [ks, List.filterMap_append, List.filterMap_cons, hkt]
  exact (insBefore_split_o t ss _ _ hnot).symm

/-- `move_nodes` to the end, on key sequences -/
theorem moveNodes_keys_end {cs : List α} {ss : List Key}
    (hu : SomeNodup (ks kt cs)) (hss : ∀ s ∈ ss, s ∈ ks kt cs) (hsm : ∀ s ∈ ss, s.isSome = true) :
    ks kt (moveNodes cs (ss.map (idx kt cs)) none) =
      insBefore none ss ((ks kt cs).filter (fun k => !ss.contains k)) := by
  have hrest := moveNodes_rest kt hu hss hsm
  unfold moveNodes insBefore
  simp only [hrest, List.take_length, List.drop_length, List.map_nil, List.append_nil]
  have hu2 := untag_filter cs (fun c => !isSrc kt ss c)
  rw [ks_append, hu2, ks_moved kt hss, ks_filter_notSrc]

end

end Mrm
