/-
  Mrm/Proofs/Perm.lean — moves and swaps permute the child list they work on, for every input.
-/
import Mrm.Proofs.Ops
import Mrm.Proofs.Rc

set_option linter.unusedSimpArgs false

namespace Mrm

theorem collectSources_nodup (tag : String) (mid : Option PyExc) (cs : List Xml) (target : Option Nat)
    (ids : List (Option String)) :
    ∀ (acc idxs : List Nat), acc.Nodup → collectSources tag mid cs target ids acc = .ok idxs → idxs.Nodup := by
  induction ids with
  | nil =>
    intro acc idxs ha h
    simp only [collectSources] at h
    cases h; exact ha
  | cons id ids ih =>
    intro acc idxs ha h
    unfold collectSources at h
    split at h
    · cases h
    · cases h
    · rename_i i _
      split at h
      · cases h
      · rename_i hc
        simp only [Bool.or_eq_true, not_or, Bool.not_eq_true] at hc
        apply ih (acc ++ [i]) idxs _ h
        rw [List.nodup_append]
        refine ⟨ha, by simp, ?_⟩
        intro a ha' b hb
        simp only [List.mem_singleton] at hb
        subst hb
        intro e; subst e
        have := hc.2
        simp [ha'] at this

theorem moveMany_perm (tag : String) (mid : Option PyExc) (cs : List Xml) (t : Option String)
    (ss : List (Option String)) : (moveMany tag mid cs t ss).kids.Perm cs := by
  unfold moveMany
  split
  · exact List.Perm.refl _
  · split
    · exact List.Perm.refl _
    · rename_i idxs h
      exact moveNodes_perm cs idxs _ (collectSources_nodup tag mid cs _ ss [] idxs List.nodup_nil h)

theorem swapTwo_perm (tag : String) (mid : Option PyExc) (cs : List Xml) (ids : List (Option String)) :
    (swapTwo tag mid cs ids).kids.Perm cs := by
  unfold swapTwo
  split
  · exact List.Perm.refl _
  · split
    · exact List.Perm.refl _
    · split
      · exact List.Perm.refl _
      · exact swapNodes_perm cs _ _

/-- position-by-position relation between a list and an update of one of its elements -/
theorem zip_set_all (P : Xml × Xml → Bool) (hrefl : ∀ c, P (c, c) = true) :
    ∀ (cs : List Xml) (k : Nat) (x : Xml), (∀ s, cs[k]? = some s → P (s, x) = true) →
      (cs.zip (cs.set k x)).all P = true := by
  intro cs
  induction cs with
  | nil => intro k x _; rfl
  | cons c cs ih =>
    intro k x h
    cases k with
    | zero =>
      simp only [List.set_cons_zero, List.zip_cons_cons, List.all_cons, Bool.and_eq_true]
      refine ⟨h c (by simp), ?_⟩
      have := ih cs.length x (by intro s hs; simp at hs)
      rw [List.set_eq_of_length_le (Nat.le_refl _)] at this
      exact this
    | succ k =>
      simp only [List.set_cons_succ, List.zip_cons_cons, List.all_cons, Bool.and_eq_true]
      exact ⟨hrefl c, ih k x (by intro s hs; exact h s (by simpa using hs))⟩

theorem zip_self_all (P : Xml × Xml → Bool) (hrefl : ∀ c, P (c, c) = true) (cs : List Xml) :
    (cs.zip cs).all P = true := by
  have := zip_set_all P hrefl cs cs.length (default) (by intro s hs; simp at hs)
  rw [List.set_eq_of_length_le (Nat.le_refl _)] at this
  exact this

/-- the item-level form of the permutation property, on the `roCreate` children -/
def ItemPerm (cs cs' : List Xml) : Bool :=
  cs'.length == cs.length && (cs.zip cs').all (fun p => p.2.kids.isPerm p.1.kids)

theorem itemPerm_refl (cs : List Xml) : ItemPerm cs cs = true := by
  unfold ItemPerm
  simp only [beq_self_eq_true, Bool.true_and]
  apply zip_self_all
  intro c; simp [List.isPerm_iff]

theorem inStoryAt_perm (cs : List Xml) (k : Nat) (f : List Xml → Out)
    (hf : ∀ items, (f items).kids.Perm items) : ItemPerm cs (inStoryAt cs k f).kids = true := by
  unfold inStoryAt
  split
  · exact itemPerm_refl cs
  · rename_i s hs
    unfold ItemPerm
    simp only [List.length_set, beq_self_eq_true, Bool.true_and]
    apply zip_set_all
    · intro c; simp [List.isPerm_iff]
    · intro s' hs'
      rw [hs] at hs'; cases hs'
      simp only [Xml.withKids_kids, List.isPerm_iff]
      exact hf _

theorem inStory_perm (mid : Option PyExc) (cs : List Xml) (sid : Option String) (f : List Xml → Out)
    (hf : ∀ items, (f items).kids.Perm items) : ItemPerm cs (inStory mid cs sid f).kids = true := by
  unfold inStory
  split
  · exact itemPerm_refl cs
  · exact inStoryAt_perm cs _ f hf

/-- the three story-level moves/swaps permute the `roCreate` children -/
theorem mergeRc_perm_story (k : Kind) (rc base : Xml) (mid : Option PyExc)
    (hk : k.isMoveOrSwap = true) (hs : k.isStoryLevel = true) :
    (mergeRc k rc base mid).kids.Perm rc.kids := by
  cases k <;> first | (exact absurd hk (by decide)) | (exact absurd hs (by decide)) | skip
  case StoryMove =>
    simp only [mergeRc]
    split
    · exact List.Perm.refl _
    · split
      · exact List.Perm.refl _
      · split
        · exact List.Perm.refl _
        · split
          · exact List.Perm.refl _
          · exact moveNodes_perm _ _ _ (by simp)
  case EAStorySwap => simp only [mergeRc]; exact swapTwo_perm _ _ _ _
  case EAStoryMove => simp only [mergeRc]; exact moveMany_perm _ _ _ _ _

/-- the three item-level moves/swaps permute the children of each story, in place -/
theorem mergeRc_perm_item (k : Kind) (rc base : Xml) (mid : Option PyExc)
    (hk : k.isMoveOrSwap = true) (hs : k.isStoryLevel = false) :
    ItemPerm rc.kids (mergeRc k rc base mid).kids = true := by
  cases k <;> first | (exact absurd hk (by decide)) | (exact absurd hs (by decide)) | skip
  case ItemMoveMultiple =>
    simp only [mergeRc]
    split
    · exact itemPerm_refl _
    · apply inStory_perm
      intro items
      split
      · exact List.Perm.refl _
      · exact moveMany_perm _ _ _ _ _
  case EAItemSwap => simp only [mergeRc]; exact inStory_perm _ _ _ _ (fun _ => swapTwo_perm _ _ _ _)
  case EAItemMove => simp only [mergeRc]; exact inStory_perm _ _ _ _ (fun _ => moveMany_perm _ _ _ _ _)

end Mrm
