/-
  Mrm/DriverElements.lean — the "elements" request (C20).
-/
import Lean.Data.Json
import Mrm.Model.Elements
import Mrm.Spec.Elements

open Lean

namespace Mrm

def keyJ : Option String → Json | none => .null | some s => .str s

def expJ : Exp → Json
  | .one k => Json.mkObj [("one", keyJ k)]
  | .absent => .str "absent"
  | .many ids => Json.mkObj [("many", .arr (ids.map keyJ).toArray)]

def keyOfJson : Json → Except String (Option String)
  | .null => pure none
  | .str s => pure (some s)
  | _ => throw "key"

def expOfJson (j : Json) : Except String Exp :=
  match j with
  | .str "absent" => pure .absent
  | _ =>
    match j.getObjVal? "one" with
    | .ok v => do pure (.one (← keyOfJson v))
    | .error _ => do
      let a ← (j.getObjVal? "many").bind (·.getArr?)
      pure (.many (← a.toList.mapM keyOfJson))

def exposedJ (ex : List (String × Exp)) : Json :=
  .arr (ex.map (fun (n, v) => Json.arr #[.str n, expJ v])).toArray

def exposedOfJson (j : Json) : Except String (List (String × Exp)) := do
  let a ← j.getArr?
  a.toList.mapM fun p => do
    let q ← p.getArr?
    match q.toList with
    | [.str n, v] => pure (n, ← expOfJson v)
    | _ => throw "exposed pair"

def excJ : PyExc → Json
  | .AttributeError => .str "AttributeError" | .KeyError => .str "KeyError" | .ValueError => .str "ValueError"
  | .IndexError => .str "IndexError" | .TypeError => .str "TypeError" | .NotImplementedError => .str "NotImplementedError"

/-- {"op":"elements","msg":T,"impl_exposed":…} -/
def handleElements (m : Xml) (implEx : Option Json) : Except String Json := do
  match classify m with
  | .error _ => pure (Json.mkObj [("classify_err", .bool true)])
  | .ok k =>
    match m.find k.baseTag with
    | none => pure (Json.mkObj [("classify_err", .bool true)])
    | some base =>
      let exJ : Json := match exposed k base with
        | .ok ex => Json.mkObj [("ok", exposedJ ex)]
        | .error e => Json.mkObj [("crash", excJ e)]
      let linesJ : Json := match inspectLines k m with
        | .ok ls => Json.mkObj [("ok", toJson (ls.map Line.render))]
        | .error e => Json.mkObj [("crash", excJ e)]
      let holds : Json := match implEx with
        | none => .null
        | some j => match exposedOfJson j with
          | .ok ex => .bool (holdsC20 k base ex)
          | .error _ => .null
      pure (Json.mkObj [("exposed", exJ), ("lines", linesJ), ("shaped", .bool (shaped k m)),
        ("shaped_inspect", .bool (shapedInspect k m)), ("holds", holds),
        ("mention", .arr ((mentionIds k base).map (fun x => Json.str (pyStr x))).toArray)])

end Mrm
