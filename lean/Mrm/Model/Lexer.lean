/-
  Mrm/Model/Lexer.lean — the character level of C14: `serChars` (the serialiser on character
  lists; `serialize_eq` ties it to `serialize`) and a lexer for the serialiser's output language
  (`<name a="v" …>`, `</name>`, `<name … />`, character data with the five entities and three
  character references), so that "serialise, then read back" is a function of the model:
  `parseXml (serialize t)`.  The lexer is tied to ElementTree's parser by the C14 correspondence
  (the model's reading of `str(ro)` is compared with ElementTree's at every explored state).
-/
import Mrm.Model.Serialize

namespace Mrm

/-- characters allowed in element and attribute names of the documents considered (MOS tag names
    are ASCII letters and digits; `_ - . :` and the non-ASCII letters from U+00C0 on are admitted too) -/
def isNameChar (c : Char) : Bool :=
  c.isAlphanum || c == '_' || c == '-' || c == '.' || c == ':' || (0xC0 ≤ c.toNat && c.toNat != 0xD7 && c.toNat != 0xF7)

def attrL (kv : String × String) : List Char :=
  ' ' :: kv.1.toList ++ '=' :: '"' :: escapeAttrL kv.2.toList ++ ['"']

def attrsL : List (String × String) → List Char
  | [] => []
  | kv :: rest => attrL kv ++ attrsL rest

def optCdataL : Option String → List Char
  | none => []
  | some s => escapeCdataL s.toList

mutual
/-- `_serialize_xml` on character lists -/
def serChars : Xml → List Char
  | .node tag attrs text tail kids =>
    let hasText := match text with | some t => !t.isEmpty | none => false
    ('<' :: tag.toList ++ attrsL attrs ++
      (if hasText || !kids.isEmpty then
         '>' :: optCdataL text ++ serCharsL kids ++ '<' :: '/' :: tag.toList ++ ['>']
       else [' ', '/', '>'])) ++ optCdataL tail
def serCharsL : List Xml → List Char
  | [] => []
  | k :: ks => serChars k ++ serCharsL ks
end

/-- attributes of a start tag: `( name="value")*` — returns them and the rest -/
def lexAttrs : Nat → List Char → List (String × String) → Option (List (String × String) × List Char)
  | 0, _, _ => none
  | n+1, ' ' :: cs, acc =>
    match cs with
    | '/' :: _ => some (acc.reverse, ' ' :: cs)           -- the ` />` of an empty element
    | _ =>
      let name := cs.takeWhile isNameChar
      match cs.dropWhile isNameChar with
      | '=' :: '"' :: r =>
        let v := r.takeWhile (· != '"')
        match r.dropWhile (· != '"') with
        | '"' :: r' => lexAttrs n r' ((String.ofList name, String.ofList (unescapeL v)) :: acc)
        | _ => none
      | _ => none
  | _+1, cs, acc => some (acc.reverse, cs)

/-- the lexer: start tags, end tags, empty-element tags, character data -/
def lexGo : Nat → List Char → Option (List Tok)
  | _, [] => some []
  | 0, _ :: _ => none
  | n+1, '<' :: '/' :: cs =>
    match cs.dropWhile isNameChar with
    | '>' :: r => (lexGo n r).map (.cl :: ·)
    | _ => none
  | n+1, '<' :: cs =>
    let name := cs.takeWhile isNameChar
    match lexAttrs (n+1) (cs.dropWhile isNameChar) [] with
    | some (attrs, '>' :: r) => (lexGo n r).map (.op (String.ofList name) attrs :: ·)
    | some (attrs, ' ' :: '/' :: '>' :: r) => (lexGo n r).map (fun ts => .op (String.ofList name) attrs :: .cl :: ts)
    | _ => none
  | n+1, c :: cs =>
    let txt := (c :: cs).takeWhile (· != '<')
    (lexGo n ((c :: cs).dropWhile (· != '<'))).map (.chars (String.ofList (unescapeL txt)) :: ·)

/-- read serialised XML back: lex, then build the tree -/
def parseXmlL (cs : List Char) : Option Xml := (lexGo (cs.length + 1) cs).bind parseTokens

def parseXml (s : String) : Option Xml := parseXmlL s.toList

/-- names are non-empty and made of name characters -/
def validName (s : String) : Bool := !s.isEmpty && s.toList.all isNameChar

/-- character data that survives: not the empty string, no carriage return -/
def cdataOk : Option String → Bool
  | none => true
  | some s => !s.isEmpty && !s.toList.contains '\r'

mutual
/-- the trees the round trip is claimed for: valid names, no empty-string text/tail, no U+000D in
    character data (attribute values are unrestricted) -/
def wfSer : Xml → Bool
  | .node tag attrs text tail kids =>
    validName tag && attrs.all (fun kv => validName kv.1) && cdataOk text && cdataOk tail && wfSerL kids
def wfSerL : List Xml → Bool
  | [] => true
  | k :: ks => wfSer k && wfSerL ks
end

end Mrm
