/-
  Mrm/Model/Io.lean — the S3 listing loop (utils/s3.py `get_mos_files`) and the command line
  (cli.py `detect_or_inspect`, `do_merge`, `CLI.__call__`) as pure functions of an abstract
  file system.  boto3, argparse and real streams are outside the model (C18/C19 are partial).
-/
import Mrm.Model.Collection
import Mrm.Model.Elements
import Mrm.Model.Serialize

namespace Mrm

/-! ### S3 listing -/

/-- one page of `paginator.paginate(...)`: `none` = a page without a 'Contents' key -/
abbrev Page := Option (List String)

/-- `get_mos_files` (l.32-55): collect the keys that end with the suffix; `break` at the first page
    without 'Contents' -/
def listKeys (suffix : String) : List Page → List String
  | [] => []
  | none :: _ => []
  | some ks :: rest => ks.filter (fun k => k.endsWith suffix) ++ listKeys suffix rest

/-! ### Command line -/

/-- what a path names -/
inductive FsEntry where
  | xml (doc : Xml)        -- a readable file holding well-formed XML
  | notXml                 -- a readable file that is not well-formed XML
  | missing                -- no such file
  | directory
deriving Repr

/-- one line of output -/
inductive Out1 where
  | stdout (s : String)
  | stderr (s : String)
deriving DecidableEq, Repr

/-- `mo.completed`: only running orders (and roReplace objects, which subclass RunningOrder) read the
    completion record -/
def objCompleted (k : Kind) (doc : Xml) : Bool :=
  (k == .RunningOrder || k == .RunningOrderReplace) && completed doc

/-- what `detect` prints for one file (cli.py l.199-207, 243-247): depends on that file alone -/
def detectLine (path : String) (e : FsEntry) : Out1 :=
  match e with
  | .missing => .stderr (path ++ ": Invalid (No such file or directory)")
  | .directory => .stderr (path ++ ": Invalid (Is a directory)")
  | .notXml => .stderr (path ++ ": Invalid")
  | .xml doc =>
    match classify doc with
    | .error _ => .stderr (path ++ ": Invalid")
    | .ok k => .stdout (path ++ ": " ++ (match k with
        | .RunningOrder => "RunningOrder" | .StorySend => "StorySend" | .StoryAppend => "StoryAppend"
        | .StoryDelete => "StoryDelete" | .StoryInsert => "StoryInsert" | .StoryMove => "StoryMove"
        | .StoryReplace => "StoryReplace" | .ItemDelete => "ItemDelete" | .ItemInsert => "ItemInsert"
        | .ItemMoveMultiple => "ItemMoveMultiple" | .ItemReplace => "ItemReplace"
        | .RunningOrderReplace => "RunningOrderReplace" | .MetaDataReplace => "MetaDataReplace"
        | .ReadyToAir => "ReadyToAir" | .RunningOrderEnd => "RunningOrderEnd"
        | .EAStoryReplace => "EAStoryReplace" | .EAItemReplace => "EAItemReplace"
        | .EAStoryDelete => "EAStoryDelete" | .EAItemDelete => "EAItemDelete"
        | .EAStoryInsert => "EAStoryInsert" | .EAItemInsert => "EAItemInsert"
        | .EAStorySwap => "EAStorySwap" | .EAItemSwap => "EAItemSwap"
        | .EAStoryMove => "EAStoryMove" | .EAItemMove => "EAItemMove")
        ++ (if objCompleted k doc then " (completed)" else ""))

/-- the `detect` loop, written as the Python loop is (an accumulator of output, `continue` on error) -/
def detectLoop (fs : String → FsEntry) : List String → List Out1 → List Out1
  | [], acc => acc
  | f :: rest, acc => detectLoop fs rest (acc ++ [detectLine f (fs f)])

/-- `mosromgr detect -f files…`: output and return value (None = 0) -/
def cliDetect (fs : String → FsEntry) (files : List String) : List Out1 × Nat :=
  match files with
  | [] => ([.stderr "Files or bucket name and prefix or key must be provided"], 2)
  | _ => (detectLoop fs files [], 0)

/-- `inspect`: after the detect line of a classifiable file, the object's `inspect()` lines and a
    blank line; an exception inside `inspect()` ends the command with status 2 -/
def inspectLoop (fs : String → FsEntry) : List String → List Out1 → List Out1 × Nat
  | [], acc => (acc, 0)
  | f :: rest, acc =>
    match fs f with
    | .xml doc =>
      match classify doc with
      | .error _ => inspectLoop fs rest (acc ++ [detectLine f (fs f)])
      | .ok k =>
        match inspectLines k doc with
        | .error _ => (acc ++ [detectLine f (fs f)], 2)
        | .ok ls => inspectLoop fs rest (acc ++ [detectLine f (fs f)] ++ ls.map (fun l => .stdout l.render) ++ [.stdout ""])
    | _ => inspectLoop fs rest (acc ++ [detectLine f (fs f)])

/-- outcome of `mosromgr merge` -/
structure MergeCli where
  status : Nat                       -- 0, or 2 with a message on stderr
  stdout : Option String             -- what is printed (the merged document, or the "Writing …" note)
  written : Option String            -- content of the -o file
deriving DecidableEq, Repr

/-- read every listed file as XML; `none` if one is missing, a directory or not well-formed -/
def readAll (fs : String → FsEntry) : List String → Option (List Xml)
  | [] => some []
  | f :: rest =>
    match fs f, readAll fs rest with
    | .xml d, some ds => some (d :: ds)
    | _, _ => none

def cliFail : MergeCli := ⟨2, none, none⟩

/-- the part of `do_merge` after the files have been read -/
def mergeResult (docs : List Xml) (outfile : Option (String × Bool)) (incomplete nonStrict : Bool) : MergeCli :=
  match (collection docs incomplete (!nonStrict)).err, (collection docs incomplete (!nonStrict)).run with
  | none, some run =>
    match run.err with
    | some _ => cliFail                      -- a merge error in strict mode, or a built-in exception
    | none =>
      match outfile with
      | none => ⟨0, some (serialize run.ro), none⟩
      | some o =>
        -- `open(outfile, 'w')` comes first: when the path cannot be opened (a directory, a missing
        -- parent, no permission) the OSError reaches `CLI.__call__`, which reports it and returns 2
        if o.2 then ⟨0, some ("Writing merged running order to " ++ o.1), some (serialize run.ro)⟩
        else cliFail
  | _, _ => cliFail                          -- UnknownMosFileType / InvalidMosCollection / …

/-- `mosromgr merge -f files… [-o out] [-i] [-n]` (cli.py l.249-285): status 2 with a message on
    stderr on any error, otherwise the serialisation of the merged collection.  The outfile comes
    with the one fact about it that matters: whether it can be opened for writing. -/
def cliMerge (fs : String → FsEntry) (files : List String) (outfile : Option (String × Bool))
    (incomplete nonStrict : Bool) : MergeCli :=
  if files.isEmpty then cliFail else
  match readAll fs files with
  | none => cliFail
  | some docs => mergeResult docs outfile incomplete nonStrict

end Mrm
