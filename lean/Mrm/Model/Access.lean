/-
  Mrm/Model/Access.lean — the read accessors of `RunningOrder`, `Story` and `Item`
  (mostypes.py l.228-308, moselements.py l.103-323), with Python's exceptions made explicit.

  Times are `Nat` ticks of 1 µs (see Model/Timing.lean); durations are microseconds.
-/
import Mrm.Model.Timing

namespace Mrm

/-! ### `str.isspace` / `str.strip` -/

def pyStrip (s : String) : String := String.ofList (pyStripL s.toList)

/-- `_is_technical_note` (moselements.py l.49-59) on the stripped text -/
def isBracketed (cs : List Char) : Bool :=
  (cs.head? == some '(' && cs.getLast? == some ')') || (cs.head? == some '<' && cs.getLast? == some '>')

/-! ### Items -/

structure ItemView where
  id : Option String
  slug : Option String
  type : Option String
  objectId : Option String
  mosId : Option String
  note : Option String
deriving DecidableEq, Repr

/-- `.//studioCommand[@type='note']`: first descendant with that tag and attribute -/
def findNote (payload : Xml) : Option Xml :=
  payload.descendants.find? (fun c => c.tag == "studioCommand" && c.attr "type" == some "note")

def itemView (x : Xml) : ItemView :=
  { id := Xml.childText (some x) "itemID"
    slug := Xml.childText (some x) "itemSlug"
    type := Xml.childText (some x) "objType"
    objectId := Xml.childText (some x) "objID"
    mosId := Xml.childText (some x) "mosID"
    note := ((payloadOf x).bind findNote).bind (fun n => Xml.childText (some n) "text") }

/-! ### Stories -/

/-- an element of `Story.body`: a paragraph's text or an item -/
inductive BodyEl where
  | text (s : String)
  | item (v : ItemView)
deriving DecidableEq, Repr

/-- `Story.body` (l.312-323): paragraphs (empty string when empty) and items, in document order -/
def storyBody (s : Xml) : List BodyEl :=
  s.kids.filterMap fun c =>
    if c.tag == "item" then some (.item (itemView c))
    else if c.tag == "p" then some (.text (c.text.getD ""))
    else none

/-- `Story.script` (l.300-309): `p.text and p.text.strip() and not _is_technical_note(p)` -/
def storyScript (s : Xml) : List String :=
  (s.findall "p").filterMap fun p =>
    match p.text with
    | none => none
    | some t =>
      let u := pyStripL t.toList
      if t.isEmpty || u.isEmpty || isBracketed u then none else some (String.ofList u)

/-- a time field of the story payload: `parse(mos_payload.find(tag).text)` inside
    `try … except AttributeError` — a missing tag is skipped, a blank one is `parse(None)`
    (TypeError), an unparseable one ParserError (ValueError) -/
def payloadTime (s : Xml) (tag : String) : Except PyExc (Option Nat) :=
  match (payloadOf s).bind (·.find tag) with
  | none => .ok none
  | some e =>
    match e.text with
    | none => .error .TypeError
    | some t =>
      match parseTime t with
      | some v => .ok (some v)
      | none => .error .ValueError

structure StoryView where
  id : Option String
  slug : Option String
  duration : Option Nat
  offset : Option Nat
  start : Option Nat
  stop : Option Nat
  script : List String
  body : List BodyEl
  items : List ItemView
deriving DecidableEq, Repr

/-- `Story.start_time` (l.265-281) -/
def storyStart (s : Xml) (progStart : Option Nat) (offset : Option Nat) : Except PyExc (Option Nat) := do
  match ← payloadTime s "StoryStarted" with
  | some t => pure (some t)
  | none =>
    match progStart, offset with
    | some p, some o => pure (some (p + o))
    | _, _ => pure none

/-- `Story.end_time` (l.284-297) -/
def storyEnd (s : Xml) (progStart : Option Nat) (offset : Option Nat) : Except PyExc (Option Nat) := do
  match ← payloadTime s "StoryEnded" with
  | some t => pure (some t)
  | none =>
    let st ← storyStart s progStart offset
    let d ← storyDuration s
    match st, d with
    | some a, some b => pure (some (a + b))
    | _, _ => pure none

/-- every property of one `Story` of `ro.stories` -/
def storyView (s : Xml) (progStart : Option Nat) (offset : Option Nat) :
    Except PyExc StoryView := do
  let id := Xml.childText (some s) "storyID"
  let d ← storyDuration s
  let st ← storyStart s progStart offset
  let en ← storyEnd s progStart offset
  pure { id := id, slug := Xml.childText (some s) "storySlug", duration := d, offset := offset,
         start := st, stop := en, script := storyScript s, body := storyBody s,
         items := (s.findall "item").map itemView }

/-! ### The running order -/

structure RoView where
  roSlug : Option String
  start : Option Nat
  stop : Option Nat
  duration : Option Nat
  completed : Bool
  script : List String
  body : List BodyEl
  stories : List StoryView
deriving DecidableEq, Repr

def mapExcept {α β : Type} (f : α → Except PyExc β) : List α → Except PyExc (List β)
  | [] => .ok []
  | a :: as => do
    let b ← f a
    let bs ← mapExcept f as
    pure (b :: bs)

/-- the stories walked together with the offset table: the k-th story looks up its own element, i.e.
    the k-th offset -/
def viewsFrom (progStart : Option Nat) : List Xml → List Nat → Except PyExc (List StoryView)
  | [], _ => .ok []
  | s :: ss, offs => do
    let v ← storyView s progStart offs.head?
    let vs ← viewsFrom progStart ss offs.tail
    pure (v :: vs)

/-- `ro.stories` (l.235-245) with every property of every story evaluated -/
def roStories (rc : Xml) : Except PyExc (List StoryView) :=
  let ss := rc.findall "story"
  if ss.isEmpty then .ok [] else do
    let st ← roStart rc
    let offs ← storyOffsetsFrom ss 0
    viewsFrom st ss offs

/-- `RunningOrder.duration` (l.271-278): `sum(...)`, `None` when some story has no duration -/
def sumDurations (vs : List StoryView) : Option Nat :=
  vs.foldl (fun acc v => match acc, v.duration with | some a, some d => some (a + d) | _, _ => none) (some 0)

/-- all documented read accessors of a running order -/
def roView (d : Xml) : Except PyExc RoView :=
  match d.find "roCreate" with
  | none => .error .AttributeError
  | some rc =>
    match rc.find "roSlug" with
    | none => .error .AttributeError            -- `self.base_tag.find('roSlug').text`
    | some slug => do
      let vs ← roStories rc
      let st ← roStart rc
      pure { roSlug := slug.text, start := st,
             stop := (vs.getLast?).bind (·.stop),
             duration := sumDurations vs, completed := (d.find "mosromgrmeta").isSome,
             script := vs.flatMap (·.script), body := vs.flatMap (·.body), stories := vs }

/-! ### Script and body of the running order (no timing is evaluated: fix "script/body") -/

/-- `RunningOrder.script` (mostypes.py l.290-301): the scripts of the story elements, concatenated.  The
    stories are wrapped one by one (`Story(story_tag)`), so nothing of their timing metadata is read. -/
def roScript (d : Xml) : Except PyExc (List String) :=
  match d.find "roCreate" with
  | none => .error .AttributeError                 -- `self.base_tag.findall` on `None`
  | some rc => .ok ((rc.findall "story").flatMap storyScript)

/-- `RunningOrder.body` (l.303-316) -/
def roBody (d : Xml) : Except PyExc (List BodyEl) :=
  match d.find "roCreate" with
  | none => .error .AttributeError
  | some rc => .ok ((rc.findall "story").flatMap storyBody)

end Mrm
