/-
  Mrm/Model/Serialize.lean — `ElementTree.tostring(xml, encoding='unicode')` (mostypes.py l.133-137)
  and what a reader gets back, at three levels:

  * characters: `serialize : Xml → String`, byte for byte what `_serialize_xml` writes
    (`short_empty_elements=True`; `_escape_cdata`, `_escape_attrib` of CPython 3.12);
  * character data: `escapeCdataL` / `unescapeL`, the round trip of text through the writer and the
    reader's end-of-line normalisation and entity decoding;
  * tokens: `tokens : Xml → List Tok` and a recursive-descent `parseElem` mirroring `TreeBuilder`
    (data before the first child is `text`, data after an end tag is that element's `tail`).

  Tag/attribute lexing (names, quotes, `<t />`) is not modelled as a parser; it is compared byte for
  byte with the implementation by the C14 check.  Namespaces are out of scope (MOS has none).
-/
import Mrm.Xml

namespace Mrm

/-! ### characters -/

/-- `_escape_cdata`: `&`, `<`, `>` -/
def escapeCdataL : List Char → List Char
  | [] => []
  | '&' :: cs => "&amp;".toList ++ escapeCdataL cs
  | '<' :: cs => "&lt;".toList ++ escapeCdataL cs
  | '>' :: cs => "&gt;".toList ++ escapeCdataL cs
  | c :: cs => c :: escapeCdataL cs

/-- `_escape_attrib`: `&`, `<`, `>`, `"`, and CR / LF / TAB as character references -/
def escapeAttrL : List Char → List Char
  | [] => []
  | '&' :: cs => "&amp;".toList ++ escapeAttrL cs
  | '<' :: cs => "&lt;".toList ++ escapeAttrL cs
  | '>' :: cs => "&gt;".toList ++ escapeAttrL cs
  | '"' :: cs => "&quot;".toList ++ escapeAttrL cs
  | '\r' :: cs => "&#13;".toList ++ escapeAttrL cs
  | '\n' :: cs => "&#10;".toList ++ escapeAttrL cs
  | '\t' :: cs => "&#09;".toList ++ escapeAttrL cs
  | c :: cs => c :: escapeAttrL cs

def escapeCdata (s : String) : String := String.ofList (escapeCdataL s.toList)
def escapeAttr (s : String) : String := String.ofList (escapeAttrL s.toList)

mutual
/-- `_serialize_xml` -/
def serialize : Xml → String
  | .node tag attrs text tail kids =>
    let open_ := "<" ++ tag ++ String.join (attrs.map (fun (k, v) => " " ++ k ++ "=\"" ++ escapeAttr v ++ "\""))
    let hasText := match text with | some t => !t.isEmpty | none => false
    let body :=
      if hasText || !kids.isEmpty then
        open_ ++ ">" ++ (match text with | some t => escapeCdata t | none => "") ++ serializeL kids ++ "</" ++ tag ++ ">"
      else open_ ++ " />"
    body ++ (match tail with | some t => escapeCdata t | none => "")
def serializeL : List Xml → String
  | [] => ""
  | k :: ks => serialize k ++ serializeL ks
end

/-- what the reader makes of character data written by the serialiser: XML end-of-line
    normalisation first (`\r\n` and lone `\r` become `\n`), then the predefined entities -/
def normalizeEol : List Char → List Char
  | [] => []
  | '\r' :: '\n' :: cs => '\n' :: normalizeEol cs
  | '\r' :: cs => '\n' :: normalizeEol cs
  | c :: cs => c :: normalizeEol cs

def decodeEntities : List Char → List Char
  | [] => []
  | '&' :: 'a' :: 'm' :: 'p' :: ';' :: cs => '&' :: decodeEntities cs
  | '&' :: 'l' :: 't' :: ';' :: cs => '<' :: decodeEntities cs
  | '&' :: 'g' :: 't' :: ';' :: cs => '>' :: decodeEntities cs
  | '&' :: 'q' :: 'u' :: 'o' :: 't' :: ';' :: cs => '"' :: decodeEntities cs
  | '&' :: '#' :: '1' :: '3' :: ';' :: cs => '\r' :: decodeEntities cs
  | '&' :: '#' :: '1' :: '0' :: ';' :: cs => '\n' :: decodeEntities cs
  | '&' :: '#' :: '0' :: '9' :: ';' :: cs => '\t' :: decodeEntities cs
  | c :: cs => c :: decodeEntities cs

/-- character data as read back -/
def unescapeL (cs : List Char) : List Char := decodeEntities (normalizeEol cs)

/-! ### tokens -/

inductive Tok where
  | op (tag : String) (attrs : List (String × String))
  | cl
  | chars (s : String)
deriving Repr, DecidableEq

def optChars : Option String → List Tok
  | none => []
  | some s => [.chars s]

mutual
def tokens : Xml → List Tok
  | .node t a x tl ks => .op t a :: (optChars x ++ tokensL ks ++ [.cl]) ++ optChars tl
def tokensL : List Xml → List Tok
  | [] => []
  | k :: ks => tokens k ++ tokensL ks
end

def takeChars : List Tok → Option String × List Tok
  | .chars s :: r => (some s, r)
  | r => (none, r)

mutual
/-- recursive descent with fuel, mirroring `TreeBuilder.start/data/end` -/
def parseElem : Nat → List Tok → Option (Xml × List Tok)
  | 0, _ => none
  | n+1, .op t a :: r =>
    let (x, r1) := takeChars r
    match parseKids n r1 with
    | some (ks, r2) =>
      let (tl, r3) := takeChars r2
      some (.node t a x tl ks, r3)
    | none => none
  | _+1, _ => none
def parseKids : Nat → List Tok → Option (List Xml × List Tok)
  | 0, _ => none
  | _+1, .cl :: r => some ([], r)
  | n+1, r =>
    match parseElem n r with
    | some (k, r1) =>
      match parseKids n r1 with
      | some (ks, r2) => some (k :: ks, r2)
      | none => none
    | none => none
end

mutual
def xsz : Xml → Nat
  | .node _ _ _ _ ks => 1 + xszL ks
def xszL : List Xml → Nat
  | [] => 1
  | k :: ks => xsz k + xszL ks + 1
end

/-- read a token stream back into a tree -/
def parseTokens (ts : List Tok) : Option Xml :=
  match parseElem (2 * ts.length + 2) ts with
  | some (t, []) => some t
  | _ => none

/-! ### envelope -/

/-- tags of the root's children: what the envelope invariants are about -/
def rootTags (d : Xml) : List String := d.kids.map (·.tag)

end Mrm
