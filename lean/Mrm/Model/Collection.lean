/-
  Mrm/Model/Collection.lean — `MosReader`, `MosCollection._validate` and `MosCollection.merge`
  (moscollection.py).
-/
import Mrm.Model.Merge

namespace Mrm

/-- what a `MosReader` keeps of a message: ID, running-order ID, class, and the means to restore
    it (restoring re-reads the same text, i.e. yields the same document again) -/
structure Reader where
  msgId : Nat
  roId : Option String
  kind : Kind
  doc : Xml
deriving DecidableEq, Repr, Inhabited

/-- `MosReader.from_string` (l.29-50): classify, then read `message_id` and `ro_id` -/
def mkReader (doc : Xml) : Except Err Reader :=
  match classify doc with
  | .error e => .error e
  | .ok k =>
    match messageId doc with
    | .error e => .error (.crash e)
    | .ok n =>
      match doc.find k.baseTag with
      | none => .error (.crash .AttributeError)
      | some base =>
        match base.find "roID" with
        | none => .error (.crash .AttributeError)      -- `self.base_tag.find('roID').text`
        | some r => .ok ⟨n, r.text, k, doc⟩

/-- `MosReader.__lt__` / `MosFile.__lt__`: numeric message ID -/
def Reader.le (a b : Reader) : Bool := decide (a.msgId ≤ b.msgId)

/-- `sorted(readers)`: a stable sort by message ID -/
def sortReaders (l : List Reader) : List Reader := l.mergeSort Reader.le

/-- `MosCollection._validate` (l.258-278, explicit raises): returns the restored roCreate and the
    remaining readers -/
def validate (rs : List Reader) (allowIncomplete : Bool) : Except Err (Xml × List Reader) :=
  match rs with
  | [] => .error .invalidCollection
  | r0 :: _ =>
    if !(rs.all (fun r => r.roId == r0.roId)) then .error .invalidCollection else
    let creates := rs.filter (fun r => r.kind == .RunningOrder)
    match creates with
    | [c] =>
      let deletes := rs.filter (fun r => r.kind == .RunningOrderEnd)
      if !(deletes.length < 2) then .error .invalidCollection else
      if !allowIncomplete && deletes.length != 1 then .error .invalidCollection else
      .ok (c.doc, rs.filter (fun r => r.kind != .RunningOrder))
    | _ => .error .invalidCollection

/-- outcome of `MosCollection.merge` -/
structure MergeRun where
  ro : Xml
  warns : List Warn
  err : Option Err
deriving DecidableEq, Repr

/-- `MosCollection.merge(strict=…)` (l.280-297): add each restored message; a `MosMergeError` is
    re-raised in strict mode and turned into one `MosMergeNonStrictWarning` otherwise; any other
    exception propagates -/
def mergeLoop (strict : Bool) : Xml → List Reader → List Warn → MergeRun
  | ro, [], ws => ⟨ro, ws, none⟩
  | ro, r :: rs, ws =>
    let res := addK r.kind ro r.doc
    match res.err with
    | none => mergeLoop strict res.ro rs (ws ++ res.warns)
    | some e =>
      if e.isMergeError && !strict then mergeLoop strict res.ro rs (ws ++ res.warns ++ [.nonStrict])
      else ⟨res.ro, ws ++ res.warns, some e⟩

/-- `MosCollection.from_strings(docs, allow_incomplete=…)` then `.merge(strict=…)` -/
structure CollectionResult where
  err : Option Err              -- raised by construction (classification, validation)
  readerIds : List Nat          -- after validation: the readers without the roCreate
  roMsgId : Option Nat
  run : Option MergeRun
deriving Repr

def mapM' {α β : Type} (f : α → Except Err β) : List α → Except Err (List β)
  | [] => .ok []
  | a :: as =>
    match f a with
    | .error e => .error e
    | .ok b =>
      match mapM' f as with
      | .error e => .error e
      | .ok bs => .ok (b :: bs)

def collection (docs : List Xml) (allowIncomplete strict : Bool) : CollectionResult :=
  match mapM' mkReader docs with
  | .error e => ⟨some e, [], none, none⟩
  | .ok rs =>
    match validate (sortReaders rs) allowIncomplete with
    | .error e => ⟨some e, [], none, none⟩
    | .ok (ro, rest) =>
      ⟨none, rest.map (·.msgId), (messageId ro).toOption, some (mergeLoop strict ro rest [])⟩

end Mrm
