/-
  Mrm/Model/Merge.lean — `RunningOrder.__add__` and the 24 `merge` methods (mostypes.py),
  written statement for statement over the value model.

  Conventions
  * `cs` is the child list of the running order's `roCreate` (story-level merges) or of the
    addressed `<story>` (item-level merges).  A merge returns the new child list, the mosromgr
    warnings in emission order, and the exception (if any).  The child list is returned also when
    an exception is set: whether a raising merge leaves the tree unchanged (C05) is a theorem
    about these functions, not a consequence of the result type.
  * Object identity of a child is its index in the list it was found in (`find_child` returns the
    index; `parent.remove(node)` is `eraseIdx` at that index).
  * `mid` is the exception (if any) raised by evaluating `self.message_id` while formatting an
    error or warning text.
-/
import Mrm.Model.Basic
import Mrm.Model.Classify
import Mrm.Model.Timing

namespace Mrm

/-! ### `find_child` (utils/xml.py l.38-55) -/

/-- `find_child(parent, tag)` without an ID: the first child with the tag -/
def findChildAny (cs : List Xml) (tag : String) : Option Nat := cs.findIdx? (fun c => c.tag == tag)

/-- the loop of `find_child(parent, tag, id)` for an ID that is a string -/
def findChildLoop (tag k : String) : List Xml → Nat → Except PyExc (Option Nat)
  | [], _ => .ok none
  | c :: cs, i =>
    if c.tag == tag then
      match c.find (tag ++ "ID") with
      | none => findChildLoop tag k cs (i+1)    -- a child without its ID tag is never a match (skipped)
      | some e => if e.text == some k then .ok (some i) else findChildLoop tag k cs (i+1)
    else findChildLoop tag k cs (i+1)

/-- `find_child(parent, tag, id)`; an ID of `None` (a blank ID tag) matches nothing -/
def findChildId (cs : List Xml) (tag : String) (id : Option String) : Except PyExc (Option Nat) :=
  match id with
  | none => .ok none
  | some k => findChildLoop tag k cs 0

/-! ### `move_nodes` and `swap_nodes` (utils/xml.py) -/

/-- `move_nodes(parent, nodes, before)`: remove every node (given by its index), locate `before`
    among what is left (`len(parent)` when it is `None`), insert in the given order -/
def moveNodes {α : Type} (cs : List α) (src : List Nat) (before : Option Nat) : List α :=
  let rest := cs.zipIdx.filter (fun p => !src.contains p.2)
  let moved := src.filterMap (fun i => cs[i]?)
  let pos := match before with
    | none => rest.length
    | some j => (rest.findIdx? (fun p => p.2 == j)).getD rest.length
  (rest.take pos).map (·.1) ++ moved ++ (rest.drop pos).map (·.1)

/-- `swap_nodes(parent, node1, node2)`: `parent[i1], parent[i2] = node2, node1` -/
def swapNodes {α : Type} (cs : List α) (i j : Nat) : List α :=
  match cs[i]?, cs[j]? with
  | some a, some b => (cs.set i b).set j a
  | _, _ => cs

/-! ### Accessors of the message objects (the `story`, `stories`, `item`, `items`, … properties) -/

/-- `MosElement.id` of `Story(xml)` / `Item(xml)` built without an explicit ID
    (moselements.py l.103-112): the text of the first ID tag, `None` if the tag (or `xml`) is absent -/
def elemId (x : Option Xml) (idTag : String) : Option String := Xml.childText x idTag

/-- texts of all direct children with the given tag -/
def idTexts (x : Xml) (idTag : String) : List (Option String) := (x.findall idTag).map (·.text)

/-- EA DELETE/MOVE sources: every ID of every `element_source` tag, in document order -/
def eaSourceIds (base : Xml) (idTag : String) : List (Option String) :=
  (base.findall "element_source").flatMap (fun s => idTexts s idTag)

/-! ### Loops shared by several merges -/

def failWith (cs : List Xml) (ws : List Warn) (e : Err) : Out := ⟨cs, ws, some e⟩

/-- warn-and-continue deletion: `for x in ids: find_child(...); remove or warn` -/
def deleteLoop (tag : String) (w : Warn) (mid : Option PyExc) :
    List Xml → List (Option String) → List Warn → Out
  | cs, [], ws => ⟨cs, ws, none⟩
  | cs, id :: ids, ws =>
    match findChildId cs tag id with
    | .error e => failWith cs ws (.crash e)
    | .ok (some i) => deleteLoop tag w mid (cs.eraseIdx i) ids ws
    | .ok none =>
      match mid with
      | some e => failWith cs ws (.crash e)
      | none => deleteLoop tag w mid cs ids (ws ++ [w])

/-- insertion that skips stories whose ID is already in the running order
    (StoryInsert l.690-697, EAStoryInsert l.1601-1608): the index advances only on insertion -/
def insertDedup (mid : Option PyExc) (existing : List (Option String)) :
    List Xml → Nat → List Xml → List Warn → Out
  | cs, _, [], ws => ⟨cs, ws, none⟩
  | cs, i, s :: ss, ws =>
    if existing.contains (elemId (some s) "storyID") then
      match mid with
      | some e => failWith cs ws (.crash e)
      | none => insertDedup mid existing cs i ss (ws ++ [.duplicateStory])
    else insertDedup mid existing (pyInsert cs i s) (i+1) ss ws

/-- validation loop of the multi-source moves: every source must be found, must not be the
    target node and must not repeat (identity = index) -/
def collectSources (tag : String) (mid : Option PyExc) (cs : List Xml) (target : Option Nat) :
    List (Option String) → List Nat → Except Err (List Nat)
  | [], acc => .ok acc
  | id :: ids, acc =>
    match findChildId cs tag id with
    | .error e => .error (.crash e)
    | .ok none => .error (raiseMerge mid)
    | .ok (some i) =>
      if target == some i || acc.contains i then .error (raiseMerge mid)
      else collectSources tag mid cs target ids (acc ++ [i])

/-- target lookup shared by the merges whose blank target means "at the end":
    `none` id → END (`none`), otherwise the child must be found -/
def findTarget (tag : String) (mid : Option PyExc) (cs : List Xml) (id : Option String) :
    Except Err (Option Nat) :=
  match id with
  | none => .ok none
  | some k =>
    match findChildLoop tag k cs 0 with
    | .error e => .error (.crash e)
    | .ok none => .error (raiseMerge mid)
    | .ok (some i) => .ok (some i)

/-- a lookup that must succeed (`if x is None: raise MosMergeError`) -/
def findRequired (tag : String) (mid : Option PyExc) (cs : List Xml) (id : Option String) :
    Except Err Nat :=
  match findChildId cs tag id with
  | .error e => .error (.crash e)
  | .ok none => .error (raiseMerge mid)
  | .ok (some i) => .ok i

/-- multi-source move (ItemMoveMultiple l.932-964, EAStoryMove l.1871-1892, EAItemMove l.1947-1969) -/
def moveMany (tag : String) (mid : Option PyExc) (cs : List Xml) (targetId : Option String)
    (sources : List (Option String)) : Out :=
  match findTarget tag mid cs targetId with
  | .error e => failWith cs [] e
  | .ok target =>
    match collectSources tag mid cs target sources [] with
    | .error e => failWith cs [] e
    | .ok idxs => ⟨moveNodes cs idxs target, [], none⟩

/-- swap (EAStorySwap l.1729-1748, EAItemSwap l.1797-1821) -/
def swapTwo (tag : String) (mid : Option PyExc) (cs : List Xml) (ids : List (Option String)) : Out :=
  match unpack2 ids with
  | none => failWith cs [] (.crash .ValueError)        -- `a, b = self.stories`
  | some (a, b) =>
    match findRequired tag mid cs a with
    | .error e => failWith cs [] e
    | .ok i =>
      match findRequired tag mid cs b with
      | .error e => failWith cs [] e
      | .ok j => ⟨swapNodes cs i j, [], none⟩

/-- replace one child by a list (StoryReplace, ItemReplace, EA REPLACE) -/
def replaceAt (cs : List Xml) (i : Nat) (xs : List Xml) : List Xml :=
  insertMany (cs.eraseIdx i) i xs

/-- insert before a target or at the end (ItemInsert l.760-780, EAItemInsert l.1664-1684) -/
def insertBefore (tag : String) (mid : Option PyExc) (cs : List Xml) (targetId : Option String)
    (xs : List Xml) : Out :=
  match findTarget tag mid cs targetId with
  | .error e => failWith cs [] e
  | .ok none => ⟨insertMany cs cs.length xs, [], none⟩
  | .ok (some i) => ⟨insertMany cs i xs, [], none⟩

/-! ### roStorySend conversion (l.357-377) -/

/-- `_convert_story_send_to_story_tag`: copy, retag `story`, retag the direct `storyItem`
    children of the first `storyBody` as `item`, splice the body's children in place of the body -/
def convertStorySend (base : Xml) : Except PyExc Xml :=
  match findChildAny base.kids "storyBody" with
  | none => .error .AttributeError           -- `ss_tag.find('storyBody').findall`
  | some i =>
    match base.kids[i]? with
    | none => .error .AttributeError
    | some body =>
      let children := body.kids.map (fun c => if c.tag == "storyItem" then c.withTag "item" else c)
      let withChildren := insertMany base.kids i children
      -- the body now sits after the spliced children; it is removed by identity
      .ok ((base.withTag "story").withKids (withChildren.eraseIdx (i + children.length)))

/-! ### Item-level wrapper -/

/-- run an item-level edit inside the story a lookup returned -/
def inStoryAt (cs : List Xml) (k : Nat) (f : List Xml → Out) : Out :=
  match cs[k]? with
  | none => failWith cs [] (.crash .IndexError)        -- unreachable: `k` came from a lookup
  | some s =>
    let o := f s.kids
    ⟨cs.set k (s.withKids o.kids), o.warns, o.err⟩

/-- `find_child(ro.base_tag, 'story', id)` then `raise MosMergeError` when absent, then `f` -/
def inStory (mid : Option PyExc) (cs : List Xml) (sid : Option String) (f : List Xml → Out) : Out :=
  match findRequired "story" mid cs sid with
  | .error e => failWith cs [] e
  | .ok k => inStoryAt cs k f

/-! ### roMetadataReplace (l.442-452, matching `mosExternalMetadata` by `mosSchema`) -/

def mdTarget (cs : List Xml) (source : Xml) : Option Nat :=
  if source.tag == "mosExternalMetadata" then
    cs.findIdx? (fun c => c.tag == source.tag && c.findtext "mosSchema" == source.findtext "mosSchema")
  else findChildAny cs source.tag

def metadataLoop : List Xml → List Xml → List Xml
  | cs, [] => cs
  | cs, s :: ss =>
    match mdTarget cs s with
    | none => metadataLoop (pyInsert cs cs.length s) ss
    | some i => metadataLoop (pyInsert (cs.eraseIdx i) i s) ss

/-! ### The merges on the `roCreate` child list -/

/-- IDs in `{story.id for story in ro.stories}` -/
def roStoryIds (cs : List Xml) : List (Option String) :=
  (cs.filter (fun c => c.tag == "story")).map (fun s => elemId (some s) "storyID")

/-- story-level and item-level merges: `rc` is the running order's `roCreate`, `cs` its children,
    `base` the message element, `mid` the message-ID exception -/
def mergeRc (k : Kind) (rc : Xml) (base : Xml) (mid : Option PyExc) : Out :=
  let cs := rc.kids
  let tgt := base.find "element_target"
  let src := base.find "element_source"
  match k with
  | .StorySend =>
    match convertStorySend base with
    | .error e => failWith cs [] (.crash e)
    | .ok story =>
      match findChildId cs "story" (elemId (some story) "storyID") with
      | .error e => failWith cs [] (.crash e)
      | .ok none =>
        match mid with
        | some e => failWith cs [] (.crash e)
        | none => ⟨cs, [.storyNotFound], none⟩
      | .ok (some i) => ⟨pyInsert (cs.eraseIdx i) i story, [], none⟩
  | .MetaDataReplace => ⟨metadataLoop cs base.kids, [], none⟩
  | .StoryAppend => ⟨cs ++ base.findall "story", [], none⟩
  | .StoryDelete => deleteLoop "story" .storyNotFound mid cs (idTexts base "storyID") []
  | .ItemDelete =>
    inStory mid cs (elemId (some base) "storyID") fun items =>
      deleteLoop "item" .itemNotFound mid items (idTexts base "itemID") []
  | .StoryInsert =>
    match findRequired "story" mid cs (elemId (some base) "storyID") with
    | .error e => failWith cs [] e
    | .ok i => insertDedup mid (roStoryIds cs) cs i (base.findall "story") []
  | .ItemInsert =>
    inStory mid cs (elemId (some base) "storyID") fun items =>
      insertBefore "item" mid items (elemId (some base) "itemID") (base.findall "item")
  | .StoryMove =>
    match idTexts base "storyID" with
    | [] => failWith cs [] (raiseMerge mid)
    | sid :: rest =>
      -- `target_story` is None when there is no second storyID or it is blank
      let tid : Option String := match rest with | [] => none | t :: _ => t
      match findTarget "story" mid cs tid with
      | .error e => failWith cs [] e
      | .ok target =>
        match findRequired "story" mid cs sid with
        | .error e => failWith cs [] e
        | .ok s => if target == some s then ⟨cs, [], none⟩ else ⟨moveNodes cs [s] target, [], none⟩
  | .ItemMoveMultiple =>
    match elemId (some base) "storyID" with
    | none => failWith cs [] (raiseMerge mid)
    | some sid =>
      inStory mid cs (some sid) fun items =>
        match (idTexts base "itemID").getLast? with
        | none => failWith items [] (.crash .IndexError)     -- `findall('itemID')[-1]`
        | some target => moveMany "item" mid items target (idTexts base "itemID").dropLast
  | .StoryReplace =>
    match findRequired "story" mid cs (elemId (some base) "storyID") with
    | .error e => failWith cs [] e
    | .ok i =>
      if (base.findall "story").isEmpty then failWith cs [] (raiseMerge mid)
      else ⟨replaceAt cs i (base.findall "story"), [], none⟩
  | .ItemReplace =>
    inStory mid cs (elemId (some base) "storyID") fun items =>
      match findRequired "item" mid items (elemId (some base) "itemID") with
      | .error e => failWith items [] e
      | .ok i => ⟨replaceAt items i (base.findall "item"), [], none⟩
  | .ReadyToAir => ⟨cs, [], none⟩
  | .EAStoryReplace =>
    match findRequired "story" mid cs (elemId tgt "storyID") with
    | .error e => failWith cs [] e
    | .ok i => ⟨replaceAt cs i ((src.map (·.findall "story")).getD []), [], none⟩
  | .EAItemReplace =>
    inStory mid cs (elemId tgt "storyID") fun items =>
      match findRequired "item" mid items (elemId tgt "itemID") with
      | .error e => failWith items [] e
      | .ok i => ⟨replaceAt items i ((src.map (·.findall "item")).getD []), [], none⟩
  | .EAStoryDelete => deleteLoop "story" .storyNotFound mid cs (eaSourceIds base "storyID") []
  | .EAItemDelete =>
    match findChildId cs "story" (elemId tgt "storyID") with
    | .error e => failWith cs [] (.crash e)
    | .ok none =>
      match mid with
      | some e => failWith cs [] (.crash e)
      | none => ⟨cs, [.storyNotFound], none⟩
    | .ok (some k) =>
      inStoryAt cs k fun items =>
        deleteLoop "item" .itemNotFound mid items (eaSourceIds base "itemID") []
  | .EAStoryInsert =>
    match findTarget "story" mid cs (elemId tgt "storyID") with
    | .error e => failWith cs [] e
    | .ok target =>
      insertDedup mid (roStoryIds cs) cs (target.getD cs.length)
        ((src.map (·.findall "story")).getD []) []
  | .EAItemInsert =>
    inStory mid cs (elemId tgt "storyID") fun items =>
      insertBefore "item" mid items (elemId tgt "itemID") ((src.map (·.findall "item")).getD [])
  | .EAStorySwap => swapTwo "story" mid cs ((src.map (idTexts · "storyID")).getD [])
  | .EAItemSwap =>
    inStory mid cs (elemId tgt "storyID") fun items =>
      swapTwo "item" mid items ((src.map (idTexts · "itemID")).getD [])
  | .EAStoryMove => moveMany "story" mid cs (elemId tgt "storyID") (eaSourceIds base "storyID")
  | .EAItemMove =>
    inStory mid cs (elemId tgt "storyID") fun items =>
      moveMany "item" mid items (elemId tgt "itemID") ((src.map (idTexts · "itemID")).getD [])
  -- handled at the root level / not mergeable
  | .RunningOrder | .RunningOrderReplace | .RunningOrderEnd => ⟨cs, [], none⟩

/-- the classes whose merge edits the `roCreate` child list -/
def Kind.editsRc : Kind → Bool
  | .RunningOrder | .RunningOrderReplace | .RunningOrderEnd => false
  | _ => true

/-- `other.merge(self)` for a message of class `k` -/
def merge (k : Kind) (ro msg : Xml) : Res :=
  match msg.find k.baseTag with
  | none => ⟨ro, [], some (.crash .AttributeError)⟩      -- unreachable after classification
  | some base =>
    match k with
    | .RunningOrder => ⟨ro, [], some (.crash .NotImplementedError)⟩  -- `MosFile.merge`
    | .RunningOrderEnd =>
      -- `SubElement(ro.xml, 'mosromgrmeta').append(copy of roDelete)` (l.1239-1240)
      ⟨ro.withKids (ro.kids ++ [.node "mosromgrmeta" [] none none [base]]), [], none⟩
    | .RunningOrderReplace =>
      match findChildAny ro.kids "roCreate" with
      | none => ⟨ro, [], some (.crash .AttributeError)⟩
      | some i => ⟨ro.withKids (pyInsert (ro.kids.eraseIdx i) i (base.withTag "roCreate")), [], none⟩
    | _ =>
      match findChildAny ro.kids "roCreate" with
      | none => ⟨ro, [], some (.crash .AttributeError)⟩
      | some i =>
        match ro.kids[i]? with
        | none => ⟨ro, [], some (.crash .AttributeError)⟩
        | some rc =>
          let o := mergeRc k rc base (msgIdExc msg)
          ⟨ro.withKids (ro.kids.set i (rc.withKids o.kids)), o.warns, o.err⟩

/-- `RunningOrder.__add__` (l.207-218) for a message already classified as `k` -/
def addK (k : Kind) (ro msg : Xml) : Res :=
  if completed ro then ⟨ro, [], some .completed⟩ else merge k ro msg

/-- `ro + MosFile.from_string(msg)`: classification happens when the message object is built -/
def add (ro msg : Xml) : Res :=
  match classify msg with
  | .error e => ⟨ro, [], some e⟩
  | .ok k => addK k ro msg

end Mrm
