/-
  Mrm/Model/Heap.lean — the aliasing model for C13: trees whose nodes carry their object identity.

  Python `Element` objects have identity; a Lean value has none.  Here every node carries a label
  (Python's `id()`), a *world* is the list of all live trees — the running order(s) first, then
  every message object — and a mutation of object `l` is applied to EVERY occurrence of label `l`
  in EVERY tree of the world: exactly what happens when two parents hold the same `Element`.
  `copy` relabels a subtree with fresh labels (`copy.deepcopy`); `erase` forgets labels (content).
-/
import Mrm.Xml

namespace Mrm

inductive LX where
  | node (lbl : Nat) (tag : String) (attrs : List (String × String)) (text tail : Option String) (kids : List LX)
deriving Repr, Inhabited

namespace LX

mutual
def labels : LX → List Nat
  | .node l _ _ _ _ ks => l :: labelsL ks
def labelsL : List LX → List Nat
  | [] => []
  | k :: ks => labels k ++ labelsL ks
end

mutual
/-- forget identities: the content -/
def erase : LX → Xml
  | .node _ t a x tl ks => .node t a x tl (eraseL ks)
def eraseL : List LX → List Xml
  | [] => []
  | k :: ks => erase k :: eraseL ks
end

mutual
/-- apply `f` to the child list of every node labelled `l` -/
def upd (l : Nat) (f : List LX → List LX) : LX → LX
  | .node l' t a x tl ks => .node l' t a x tl (if l' = l then f (updL l f ks) else updL l f ks)
def updL (l : Nat) (f : List LX → List LX) : List LX → List LX
  | [] => []
  | k :: ks => upd l f k :: updL l f ks
end

mutual
/-- `copy.deepcopy`: the same content under fresh labels `n, n+1, …`; returns the next free label -/
def copy (n : Nat) : LX → LX × Nat
  | .node _ t a x tl ks => let r := copyL (n+1) ks; (.node n t a x tl r.1, r.2)
def copyL (n : Nat) : List LX → List LX × Nat
  | [] => ([], n)
  | k :: ks => let r1 := copy n k; let r2 := copyL r1.2 ks; (r1.1 :: r2.1, r2.2)
end

end LX

/-- all live trees (running orders first, then message objects) and the next unused label -/
structure World where
  trees : List LX
  next : Nat
deriving Repr, Inhabited

def World.labels (w : World) : List Nat := w.trees.flatMap LX.labels

/-- separation: no object occurs twice — neither inside one tree nor in two trees — and every label
    in use is below `next` -/
def World.Sep (w : World) : Prop := w.labels.Nodup ∧ ∀ l ∈ w.labels, l < w.next

/-- a mutation of object `l` reaches every tree that holds it -/
def World.upd (w : World) (l : Nat) (f : List LX → List LX) : World :=
  { w with trees := w.trees.map (LX.upd l f) }

/-- Python `list.insert` on labelled children -/
def lxInsert (ks : List LX) (i : Nat) (x : LX) : List LX := ks.take i ++ x :: ks.drop i

/-- the merge operations at object level -/
inductive Op where
  /-- insert a deep copy of `src` at index `i` under object `parent` (what the repaired merges do) -/
  | insertCopy (parent i : Nat) (src : LX)
  /-- insert `src` itself (what the pinned merges did) -/
  | insertRef (parent i : Nat) (src : LX)
  /-- `parent.remove(child at index i)` -/
  | removeAt (parent i : Nat)
  /-- exchange two children of `parent` -/
  | swapAt (parent i j : Nat)
  /-- move the child at `i` before position `j` of what is left -/
  | moveAt (parent i j : Nat)
deriving Repr

def lxSwap (ks : List LX) (i j : Nat) : List LX :=
  match ks[i]?, ks[j]? with
  | some a, some b => (ks.set i b).set j a
  | _, _ => ks

def lxMove (ks : List LX) (i j : Nat) : List LX :=
  match ks[i]? with
  | some a => lxInsert (ks.eraseIdx i) j a
  | none => ks

def World.apply (w : World) : Op → World
  | .insertCopy p i src =>
    let c := LX.copy w.next src
    { trees := (w.trees.map (LX.upd p (fun ks => lxInsert ks i c.1))), next := c.2 }
  | .insertRef p i src => w.upd p (fun ks => lxInsert ks i src)
  | .removeAt p i => w.upd p (fun ks => ks.eraseIdx i)
  | .swapAt p i j => w.upd p (fun ks => lxSwap ks i j)
  | .moveAt p i j => w.upd p (fun ks => lxMove ks i j)

def Op.parent : Op → Nat
  | .insertCopy p _ _ | .insertRef p _ _ | .removeAt p _ | .swapAt p _ _ | .moveAt p _ _ => p

def Op.isRef : Op → Bool
  | .insertRef _ _ _ => true
  | _ => false

/-- run a history; every operation must address an object of the running order `trees[0]` as it is
    at that moment (merges only mutate the running order) and must not insert by reference -/
def World.run (w : World) : List Op → Option World
  | [] => some w
  | op :: ops =>
    match w.trees with
    | [] => none
    | ro :: _ =>
      if op.isRef || !(ro.labels.contains op.parent) then none
      else (w.apply op).run ops

end Mrm
