/-
  Mrm/Model/Elements.lean — what the message objects expose (C20): the `story`, `stories`,
  `item`, `items`, `source_story`, `target_story`, `source_stories` properties of every `MosFile`
  subclass and the lines their `inspect()` prints (mostypes.py), as the Python is written.
-/
import Mrm.Model.Merge
import Mrm.Model.Access

namespace Mrm

/-- the value of an accessor: an element object with its `.id`, `None`, or a list of objects -/
inductive Exp where
  | one (id : Option String)
  | absent
  | many (ids : List (Option String))
deriving DecidableEq, Repr

/-- accessor name ↦ value, in a fixed order per class; `AttributeError`/`IndexError` where the
    property itself raises -/
def exposed (k : Kind) (base : Xml) : Except PyExc (List (String × Exp)) :=
  let tgt := base.find "element_target"
  let src := base.find "element_source"
  let b := some base
  let carriedIds (x : Option Xml) (tag : String) : List (Option String) :=
    (match x with | none => [] | some x => x.findall tag).map (fun c => elemId (some c) (tag ++ "ID"))
  match k with
  | .StorySend =>
    match convertStorySend base with
    | .error e => .error e
    | .ok st => .ok [("story", .one (elemId (some st) "storyID"))]
  | .StoryAppend => .ok [("stories", .many (carriedIds b "story"))]
  | .StoryDelete => .ok [("stories", .many (idTexts base "storyID"))]
  | .StoryInsert => .ok [("target_story", .one (elemId b "storyID")), ("source_stories", .many (carriedIds b "story"))]
  | .StoryMove =>
    let ids := idTexts base "storyID"
    .ok [("source_story", match ids with | [] => .absent | s :: _ => .one s),
         ("target_story", match ids with
            | _ :: t :: _ => (match t with | none => .absent | some _ => .one t)
            | _ => .absent)]
  | .StoryReplace => .ok [("story", .one (elemId b "storyID")), ("stories", .many (carriedIds b "story"))]
  | .ItemDelete => .ok [("story", .one (elemId b "storyID")), ("items", .many (idTexts base "itemID"))]
  | .ItemInsert => .ok [("story", .one (elemId b "storyID")), ("item", .one (elemId b "itemID")),
                        ("items", .many (carriedIds b "item"))]
  | .ItemMoveMultiple =>
    match (idTexts base "itemID").getLast? with
    | none => .error .IndexError
    | some t => .ok [("story", .one (elemId b "storyID")),
                     ("item", match t with | none => .absent | some _ => .one t),
                     ("items", .many (idTexts base "itemID").dropLast)]
  | .ItemReplace => .ok [("story", .one (elemId b "storyID")), ("item", .one (elemId b "itemID")),
                         ("items", .many (carriedIds b "item"))]
  | .EAStoryReplace => .ok [("story", .one (elemId tgt "storyID")), ("stories", .many (carriedIds src "story"))]
  | .EAItemReplace => .ok [("story", .one (elemId tgt "storyID")), ("item", .one (elemId tgt "itemID")),
                           ("items", .many (carriedIds src "item"))]
  | .EAStoryDelete => .ok [("stories", .many (eaSourceIds base "storyID"))]
  | .EAItemDelete => .ok [("story", .one (elemId tgt "storyID")), ("items", .many (eaSourceIds base "itemID"))]
  | .EAStoryInsert => .ok [("story", .one (elemId tgt "storyID")), ("stories", .many (carriedIds src "story"))]
  | .EAItemInsert => .ok [("story", .one (elemId tgt "storyID")), ("item", .one (elemId tgt "itemID")),
                          ("items", .many (carriedIds src "item"))]
  | .EAStorySwap => .ok [("stories", .many ((src.map (idTexts · "storyID")).getD []))]
  | .EAItemSwap => .ok [("story", .one (elemId tgt "storyID")), ("items", .many ((src.map (idTexts · "itemID")).getD []))]
  | .EAStoryMove => .ok [("story", match tgt with | none => .absent | some _ => .one (elemId tgt "storyID")),
                         ("stories", .many (eaSourceIds base "storyID"))]
  | .EAItemMove => .ok [("story", .one (elemId tgt "storyID")), ("item", .one (elemId tgt "itemID")),
                        ("items", .many ((src.map (idTexts · "itemID")).getD []))]
  | _ => .ok []

/-- `print(x)` of an optional ID -/
def pyStr (k : Option String) : String := k.getD "None"

/-- one printed line = a fixed label followed by a value (possibly empty) -/
abbrev Line := String × String

def Line.render (l : Line) : String := l.1 ++ l.2

/-- the value of an `Exp.one` / `Exp.many` accessor as used by `inspect()` -/
def expId : Exp → Except PyExc (Option String)
  | .one k => .ok k
  | .absent => .error .AttributeError      -- `None.id`
  | .many _ => .error .AttributeError

/-- `inspect()` of every class (mostypes.py), as (label, value) lines -/
def inspectLines (k : Kind) (m : Xml) : Except PyExc (List Line) :=
  match m.find k.baseTag with
  | none => .error .AttributeError
  | some base =>
    let tgt := base.find "element_target"
    let src := base.find "element_source"
    let b := some base
    let ids (x : Option Xml) (tag : String) : List (Option String) :=
      (match x with | none => [] | some x => x.findall tag).map (fun c => elemId (some c) (tag ++ "ID"))
    let each (label : String) (xs : List (Option String)) : List Line := xs.map (fun x => (label, pyStr x))
    match k with
    | .RunningOrder =>
      match base.find "roSlug" with
      | none => .error .AttributeError
      | some slug =>
        .ok (("RO: ", pyStr slug.text) :: each "STORY: " ((base.findall "story").map (fun s => elemId (some s) "storyID")))
    | .StorySend =>
      match convertStorySend base with
      | .error e => .error e
      | .ok st => .ok [("SEND STORY: ", pyStr (elemId (some st) "storyID"))]
    | .MetaDataReplace => .ok (("NEW METATDATA:", "") :: base.kids.map (fun t => ("  " ++ t.tag ++ ": ", t.text.getD "")))
    | .StoryAppend => .ok (each "ADD STORY: " (ids b "story"))
    | .StoryDelete => .ok (each "DELETE STORY: " (idTexts base "storyID"))
    | .ItemDelete => .ok (("IN STORY: ", pyStr (elemId b "storyID")) :: each "  DELETE ITEM: " (idTexts base "itemID"))
    | .StoryInsert => .ok (("AFTER STORY: ", pyStr (elemId b "storyID")) :: each "  INSERT STORY: " (ids b "story"))
    | .ItemInsert => .ok (("IN STORY: ", pyStr (elemId b "storyID")) :: each "INSERT ITEM: " (ids b "item"))
    | .StoryMove => .ok [("MOVE STORY: ", pyStr ((idTexts base "storyID").head?.bind id))]
    | .ItemMoveMultiple =>
      .ok (("IN STORY: ", pyStr (elemId b "storyID")) :: each "  MOVE ITEM: " (idTexts base "itemID").dropLast)
    | .StoryReplace =>
      .ok (("REPLACE STORY: ", pyStr (elemId b "storyID") ++ " WITH:") :: each "  STORY: " (ids b "story"))
    | .ItemReplace =>
      .ok (("IN STORY: ", pyStr (elemId b "storyID")) :: ("REPLACE ITEM: ", pyStr (elemId b "itemID") ++ " WITH:") ::
           each "  ITEM: " (ids b "item"))
    | .ReadyToAir => .ok [("READY TO AIR", "")]
    | .RunningOrderReplace =>
      .ok (("REPLACE RO:", "") :: base.kids.filterMap (fun t =>
        match t.text with
        | none => none
        | some x => let u := pyStripL x.toList
                    if x.isEmpty || u.isEmpty then none else some (" " ++ t.tag ++ ": ", String.ofList u)))
    | .RunningOrderEnd =>
      match base.find "roID" with
      | none => .error .AttributeError
      | some r => .ok [("RO DELETE: ", pyStr r.text)]
    | .EAStoryReplace =>
      .ok (("REPLACE STORY: ", pyStr (elemId tgt "storyID") ++ " WITH:") :: each "  STORY: " (ids src "story"))
    | .EAItemReplace =>
      .ok (("IN STORY: ", pyStr (elemId tgt "storyID")) :: ("REPLACE ITEM: ", pyStr (elemId tgt "itemID") ++ " WITH:") ::
           each "  ITEM: " (ids src "item"))
    | .EAStoryDelete => .ok (each "DELETE STORY: " (eaSourceIds base "storyID"))
    | .EAItemDelete => .ok (("IN STORY: ", pyStr (elemId tgt "storyID")) :: each "  DELETE ITEM: " (eaSourceIds base "itemID"))
    | .EAStoryInsert => .ok (("AFTER STORY: ", pyStr (elemId tgt "storyID")) :: each "  INSERT STORY: " (ids src "story"))
    | .EAItemInsert =>
      .ok (("IN STORY: ", pyStr (elemId tgt "storyID")) :: ("  BEFORE ITEM: ", pyStr (elemId tgt "itemID")) ::
           each "    INSERT ITEM: " (ids src "item"))
    | .EAStorySwap =>
      match unpack2 ((src.map (idTexts · "storyID")).getD []) with
      | none => .error .ValueError
      | some (a, c) => .ok [("SWAP STORY: ", pyStr a), ("WITH STORY: ", pyStr c)]
    | .EAItemSwap =>
      match unpack2 ((src.map (idTexts · "itemID")).getD []) with
      | none => .error .ValueError
      | some (a, c) => .ok [("IN STORY: ", pyStr (elemId tgt "storyID")), ("  SWAP ITEM: ", pyStr a), ("  WITH ITEM: ", pyStr c)]
    | .EAStoryMove => .ok (each "MOVE STORY: " (eaSourceIds base "storyID"))
    | .EAItemMove =>
      .ok (("IN STORY: ", pyStr (elemId tgt "storyID")) :: each "  MOVE ITEM: " ((src.map (idTexts · "itemID")).getD []))

end Mrm
