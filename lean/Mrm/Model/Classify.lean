/-
  Mrm/Model/Classify.lean — `MosFile._classify` (mostypes.py l.99-126) and
  `ElementAction._classify` (l.1259-1290).
-/
import Mrm.Model.Basic

namespace Mrm

/-- `tag_class_map`, in table (dict insertion) order; `none` stands for `ElementAction` -/
def tagTable : List (String × Option Kind) :=
  [ ("roCreate", some .RunningOrder), ("roStorySend", some .StorySend),
    ("roStoryAppend", some .StoryAppend), ("roStoryDelete", some .StoryDelete),
    ("roStoryInsert", some .StoryInsert), ("roStoryMove", some .StoryMove),
    ("roStoryReplace", some .StoryReplace), ("roItemDelete", some .ItemDelete),
    ("roItemInsert", some .ItemInsert), ("roItemMoveMultiple", some .ItemMoveMultiple),
    ("roItemReplace", some .ItemReplace), ("roReplace", some .RunningOrderReplace),
    ("roMetadataReplace", some .MetaDataReplace), ("roReadyToAir", some .ReadyToAir),
    ("roDelete", some .RunningOrderEnd), ("roElementAction", none) ]

/-- the `(operation, target has itemID, source has itemID) → class` table -/
def eaTable : List ((String × Bool × Bool) × Kind) :=
  [ (("REPLACE", false, false), .EAStoryReplace), (("REPLACE", true, false), .EAItemReplace),
    (("DELETE", false, false), .EAStoryDelete), (("DELETE", false, true), .EAItemDelete),
    (("INSERT", false, false), .EAStoryInsert), (("INSERT", true, false), .EAItemInsert),
    (("SWAP", false, false), .EAStorySwap), (("SWAP", false, true), .EAItemSwap),
    (("MOVE", false, false), .EAStoryMove), (("MOVE", true, true), .EAItemMove) ]

/-- `ElementAction._classify` on the `roElementAction` element -/
def classifyEA (ea : Xml) : Except Err Kind :=
  let targetItem := match ea.find "element_target" with
    | none => false
    | some t => !(t.findall "itemID").isEmpty
  match ea.find "element_source" with
  | none => .error .unknownType
  | some src =>
    let sourceItem := !(src.findall "itemID").isEmpty
    match ea.attr "operation" with
    | none => .error .unknownType
    | some op =>
      match eaTable.find? (fun p => p.1 == (op, targetItem, sourceItem)) with
      | some p => .ok p.2
      | none => .error .unknownType

/-- `MosFile._classify`: the first table entry whose tag is a direct child of the root wins -/
def classifyWith (x : Xml) : List (String × Option Kind) → Except Err Kind
  | [] => .error .unknownType
  | (t, k) :: rest =>
    match x.find t with
    | none => classifyWith x rest
    | some e =>
      match k with
      | some k => .ok k
      | none => classifyEA e

def classify (x : Xml) : Except Err Kind := classifyWith x tagTable

end Mrm
