/-
  Mrm/Model/Basic.lean — outcomes, message classes, and the small pieces of Python that every
  other model file uses.  No Mathlib import.
-/
import Mrm.Xml
import Mrm.Py

namespace Mrm

/-- built-in Python exceptions that can escape from the modelled code -/
inductive PyExc where
  | AttributeError | KeyError | ValueError | IndexError | TypeError | NotImplementedError
deriving DecidableEq, Repr, Inhabited

/-- exception classes as the properties see them: the library's own, or a built-in (`crash`) -/
inductive Err where
  | merge            -- MosMergeError
  | completed        -- MosCompletedMergeError (a MosMergeError)
  | unknownType      -- UnknownMosFileType
  | invalidCollection-- InvalidMosCollection
  | crash (e : PyExc)
deriving DecidableEq, Repr, Inhabited

/-- is this one of mosromgr's own exceptions (`MosRoMgrException`)? -/
def Err.isLib : Err → Bool
  | .crash _ => false
  | _ => true

/-- is this a `MosMergeError` (the class the non-strict loop downgrades)? -/
def Err.isMergeError : Err → Bool
  | .merge | .completed => true
  | _ => false

/-- `MosRoMgrWarning` subclasses -/
inductive Warn where
  | storyNotFound | itemNotFound | duplicateStory | nonStrict
  /-- any other `MosRoMgrWarning` category: never produced by the model; an implementation that emits one is observed
      with it (and so differs from every specification that lists the documented categories) -/
  | other
deriving DecidableEq, Repr, Inhabited

/-- the 25 classes `MosFile._classify` / `ElementAction._classify` can return -/
inductive Kind where
  | RunningOrder | StorySend | StoryAppend | StoryDelete | StoryInsert | StoryMove | StoryReplace
  | ItemDelete | ItemInsert | ItemMoveMultiple | ItemReplace | RunningOrderReplace
  | MetaDataReplace | ReadyToAir | RunningOrderEnd
  | EAStoryReplace | EAItemReplace | EAStoryDelete | EAItemDelete | EAStoryInsert | EAItemInsert
  | EAStorySwap | EAItemSwap | EAStoryMove | EAItemMove
deriving DecidableEq, Repr, Inhabited

/-- `base_tag_name` of each class -/
def Kind.baseTag : Kind → String
  | .RunningOrder => "roCreate" | .StorySend => "roStorySend" | .StoryAppend => "roStoryAppend"
  | .StoryDelete => "roStoryDelete" | .StoryInsert => "roStoryInsert" | .StoryMove => "roStoryMove"
  | .StoryReplace => "roStoryReplace" | .ItemDelete => "roItemDelete" | .ItemInsert => "roItemInsert"
  | .ItemMoveMultiple => "roItemMoveMultiple" | .ItemReplace => "roItemReplace"
  | .RunningOrderReplace => "roReplace" | .MetaDataReplace => "roMetadataReplace"
  | .ReadyToAir => "roReadyToAir" | .RunningOrderEnd => "roDelete"
  | _ => "roElementAction"

/-- the result of `ro += msg`: the tree persists also when an exception propagates -/
structure Res where
  ro : Xml
  warns : List Warn
  err : Option Err
deriving DecidableEq, Repr, Inhabited

/-- the result of a merge on one child list -/
structure Out where
  kids : List Xml
  warns : List Warn
  err : Option Err
deriving DecidableEq, Repr, Inhabited

/-- ASCII decimal digits only (what the generators produce for `messageID`) -/
def isAsciiDigits (s : String) : Bool := !s.isEmpty && s.toList.all (fun c => '0' ≤ c && c ≤ '9')

/-- value of an ASCII digit string -/
def digitsVal (cs : List Char) : Nat := cs.foldl (fun n c => 10 * n + (c.toNat - '0'.toNat)) 0

/-- the 29 code points for which `str.isspace()` is true (checked exhaustively against the
    interpreter by the C17 check) -/
def pyIsSpace (c : Char) : Bool :=
  let n := c.toNat
  (0x09 ≤ n && n ≤ 0x0D) || (0x1C ≤ n && n ≤ 0x20) || n == 0x85 || n == 0xA0 || n == 0x1680 ||
  (0x2000 ≤ n && n ≤ 0x200A) || n == 0x2028 || n == 0x2029 || n == 0x202F || n == 0x205F || n == 0x3000

/-- `str.strip()` on a list of characters -/
def pyStripL (cs : List Char) : List Char :=
  ((cs.dropWhile pyIsSpace).reverse.dropWhile pyIsSpace).reverse

/-- the blanks `int()` and `float()` strip: `str.isspace` without the four ASCII separators
    U+001C..U+001F (`float('1\x1f')` is a `ValueError` although `'\x1f'.isspace()`) -/
def pyIsNumSpace (c : Char) : Bool := pyIsSpace c && !(0x1C ≤ c.toNat && c.toNat ≤ 0x1F)

def pyNumStripL (cs : List Char) : List Char :=
  ((cs.dropWhile pyIsNumSpace).reverse.dropWhile pyIsNumSpace).reverse

/-- drop the single underscores Python allows between digits (`1_000`); `none` when an underscore is
    leading, trailing or doubled -/
def dropDigitSeparators : List Char → Option (List Char)
  | [] => some []
  | [c] => if c == '_' then none else some [c]
  | c :: d :: rest =>
    if c == '_' then none
    else if d == '_' then
      match rest with
      | [] => none
      | e :: _ => if e == '_' then none else (dropDigitSeparators rest).map (c :: ·)
    else (dropDigitSeparators (d :: rest)).map (c :: ·)

/-- `int(s)` for the non-negative decimal literals Python accepts: surrounding whitespace (the
    `str.isspace` table), an optional `+`, ASCII digits with single underscores between them.
    (Not modelled, never generated: a `-` sign, non-ASCII digits.) -/
def pyInt (s : String) : Option Nat :=
  let cs0 := pyNumStripL s.toList
  let cs := match cs0 with | '+' :: r => r | r => r
  match dropDigitSeparators cs with
  | none => none
  | some ds => if !ds.isEmpty && ds.all (fun c => '0' ≤ c && c ≤ '9') then some (digitsVal ds) else none

/-- `int(self.xml.find('messageID').text)` (mostypes.py l.168-172): a missing tag is
    `AttributeError`, an empty one `TypeError`, a text `int()` rejects `ValueError` -/
def messageId (m : Xml) : Except PyExc Nat :=
  match m.find "messageID" with
  | none => .error .AttributeError
  | some e =>
    match e.text with
    | none => .error .TypeError
    | some s => match pyInt s with | some n => .ok n | none => .error .ValueError

/-- the exception, if any, raised by evaluating `self.message_id` inside an error/warning text -/
def msgIdExc (m : Xml) : Option PyExc :=
  match messageId m with
  | .ok _ => none
  | .error e => some e

/-- `raise MosMergeError(f"… {self.message_id} …")` -/
def raiseMerge (mid : Option PyExc) : Err :=
  match mid with
  | some e => .crash e
  | none => .merge

/-- `RunningOrder.completed` (mostypes.py l.281-286) -/
def completed (ro : Xml) : Bool := (ro.find "mosromgrmeta").isSome

end Mrm
