/-
  Mrm/Model/Basic.lean — outcomes, message classes, and the small pieces of Python that every
  other model file uses.  No Mathlib import.
-/
import Mrm.Xml
import Mrm.Py

namespace Mrm

/-- built-in Python exceptions that can escape from the modelled code -/
inductive PyExc where
  | AttributeError | KeyError | ValueError | IndexError | TypeError | NotImplementedError
deriving DecidableEq, Repr, Inhabited

/-- exception classes as the properties see them: the library's own, or a built-in (`crash`) -/
inductive Err where
  | merge            -- MosMergeError
  | completed        -- MosCompletedMergeError (a MosMergeError)
  | unknownType      -- UnknownMosFileType
  | invalidCollection-- InvalidMosCollection
  | crash (e : PyExc)
deriving DecidableEq, Repr, Inhabited

/-- is this one of mosromgr's own exceptions (`MosRoMgrException`)? -/
def Err.isLib : Err → Bool
  | .crash _ => false
  | _ => true

/-- is this a `MosMergeError` (the class the non-strict loop downgrades)? -/
def Err.isMergeError : Err → Bool
  | .merge | .completed => true
  | _ => false

/-- `MosRoMgrWarning` subclasses -/
inductive Warn where
  | storyNotFound | itemNotFound | duplicateStory | nonStrict
deriving DecidableEq, Repr, Inhabited

/-- the 25 classes `MosFile._classify` / `ElementAction._classify` can return -/
inductive Kind where
  | RunningOrder | StorySend | StoryAppend | StoryDelete | StoryInsert | StoryMove | StoryReplace
  | ItemDelete | ItemInsert | ItemMoveMultiple | ItemReplace | RunningOrderReplace
  | MetaDataReplace | ReadyToAir | RunningOrderEnd
  | EAStoryReplace | EAItemReplace | EAStoryDelete | EAItemDelete | EAStoryInsert | EAItemInsert
  | EAStorySwap | EAItemSwap | EAStoryMove | EAItemMove
deriving DecidableEq, Repr, Inhabited

/-- `base_tag_name` of each class -/
def Kind.baseTag : Kind → String
  | .RunningOrder => "roCreate" | .StorySend => "roStorySend" | .StoryAppend => "roStoryAppend"
  | .StoryDelete => "roStoryDelete" | .StoryInsert => "roStoryInsert" | .StoryMove => "roStoryMove"
  | .StoryReplace => "roStoryReplace" | .ItemDelete => "roItemDelete" | .ItemInsert => "roItemInsert"
  | .ItemMoveMultiple => "roItemMoveMultiple" | .ItemReplace => "roItemReplace"
  | .RunningOrderReplace => "roReplace" | .MetaDataReplace => "roMetadataReplace"
  | .ReadyToAir => "roReadyToAir" | .RunningOrderEnd => "roDelete"
  | _ => "roElementAction"

/-- the result of `ro += msg`: the tree persists also when an exception propagates -/
structure Res where
  ro : Xml
  warns : List Warn
  err : Option Err
deriving DecidableEq, Repr, Inhabited

/-- the result of a merge on one child list -/
structure Out where
  kids : List Xml
  warns : List Warn
  err : Option Err
deriving DecidableEq, Repr, Inhabited

/-- ASCII decimal digits only (what the generators produce for `messageID`) -/
def isAsciiDigits (s : String) : Bool := !s.isEmpty && s.toList.all (fun c => '0' ≤ c && c ≤ '9')

/-- value of an ASCII digit string -/
def digitsVal (cs : List Char) : Nat := cs.foldl (fun n c => 10 * n + (c.toNat - '0'.toNat)) 0

/-- `int(self.xml.find('messageID').text)` (mostypes.py l.168-172).
    Modelled on ASCII digit strings; a missing tag is `AttributeError`, an empty one `TypeError`,
    anything else `ValueError` (strings with signs, blanks or underscores are not generated). -/
def messageId (m : Xml) : Except PyExc Nat :=
  match m.find "messageID" with
  | none => .error .AttributeError
  | some e =>
    match e.text with
    | none => .error .TypeError
    | some s => if isAsciiDigits s then .ok (digitsVal s.toList) else .error .ValueError

/-- the exception, if any, raised by evaluating `self.message_id` inside an error/warning text -/
def msgIdExc (m : Xml) : Option PyExc :=
  match messageId m with
  | .ok _ => none
  | .error e => some e

/-- `raise MosMergeError(f"… {self.message_id} …")` -/
def raiseMerge (mid : Option PyExc) : Err :=
  match mid with
  | some e => .crash e
  | none => .merge

/-- `RunningOrder.completed` (mostypes.py l.281-286) -/
def completed (ro : Xml) : Bool := (ro.find "mosromgrmeta").isSome

end Mrm
