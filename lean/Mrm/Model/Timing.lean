/-
  Mrm/Model/Timing.lean — durations, offsets, start and end times
  (moselements.py `_get_story_duration`, `_get_story_offsets`, `Story.offset/start_time/end_time`;
   mostypes.py `RunningOrder.start_time/end_time/duration`).

  Numbers: durations are `float(text)`.  The model does not model IEEE rounding: it works in exact
  microseconds (`Nat`) and accepts only decimal strings that denote a whole number of microseconds
  ("12", "3.5", "0.125", "7.25"), for which Python's float arithmetic and `sum()` are exact.
  Times are `Nat` ticks of 1/8 s since 0000-03-01T00:00:00 (proleptic Gregorian);
  `dateutil.parser.parse` is modelled on the one format `YYYY-MM-DDTHH:MM:SS`.
-/
import Mrm.Model.Basic

namespace Mrm

/-- the unit of every duration and time of the model: one microsecond (what `datetime` resolves) -/
def ticksPerSecond : Nat := 1000000

def isDigit (c : Char) : Bool := '0' ≤ c && c ≤ '9'

/-- a run of ASCII digits as a number -/
def natOfDigits? (cs : List Char) : Option Nat :=
  if !cs.isEmpty && cs.all isDigit then some (digitsVal cs) else none

/-- the exponent part after `e`/`E`: `[+-]digits` -/
def pyExponent? (cs : List Char) : Option Int :=
  match cs with
  | '+' :: d => (natOfDigits? d).map Int.ofNat
  | '-' :: d => (natOfDigits? d).map (fun n => - Int.ofNat n)
  | d => (natOfDigits? d).map Int.ofNat

/-- `float(s)` for the decimal literals Python accepts - surrounding whitespace (the `str.isspace`
    table), an optional `+`, `digits[.digits]`, `.digits`, `digits.`, an optional exponent
    `e|E[+-]digits` - whenever the value is a non-negative whole number of microseconds; the result is in microseconds.
    Every other string is `ValueError` HERE - this is the VALUE model used by the accessors, whose
    domain (C15/C16) is the running orders on which it returns.  Whether Python's `float()` accepts a
    string at all (a `-` sign, underscores, `inf`/`nan`, more than six decimals, exponents beyond a
    double - all accepted) is `pyFloatAccepts` below, which is what merges depend on;
    `pyFloat_ok_accepts` proves the value model never accepts what Python rejects. -/
def pyFloat (s : String) : Except PyExc Nat :=
  let cs0 := pyNumStripL s.toList
  let cs := match cs0 with | '+' :: r => r | r => r
  let mant := cs.takeWhile (fun c => c != 'e' && c != 'E')
  let ex := cs.dropWhile (fun c => c != 'e' && c != 'E')
  let ip := mant.takeWhile isDigit
  let fr? : Option (List Char) :=
    match mant.dropWhile isDigit with
    | [] => some []
    | '.' :: fr => if fr.all isDigit then some fr else none
    | _ => none
  let e? : Option Int := match ex with | [] => some 0 | _ :: d => pyExponent? d
  match fr?, e? with
  | some fr, some e =>
    if ip.isEmpty && fr.isEmpty then .error .ValueError else
    let n := ticksPerSecond * digitsVal (ip ++ fr)
    let sh : Int := e - Int.ofNat fr.length
    if sh ≥ 0 then .ok (n * 10 ^ sh.toNat)
    else if n % 10 ^ (-sh).toNat == 0 then .ok (n / 10 ^ (-sh).toNat)
    else .error .ValueError
  | _, _ => .error .ValueError

/-- `digit (["_"] digit)*`: the `digitpart` of Python's float grammar -/
def digitPartRest : List Char → Bool
  | [] => true
  | '_' :: c :: cs => isDigit c && digitPartRest cs
  | c :: cs => isDigit c && digitPartRest cs

def isDigitPart : List Char → Bool
  | [] => false
  | c :: cs => isDigit c && digitPartRest cs

/-- does `float(s)` return (rather than raise `ValueError`)?  Python's grammar for ASCII strings:
    blanks stripped, an optional sign, then `inf` / `infinity` / `nan` in any case, or
    `[digitpart] "." digitpart | digitpart ["."]` with an optional exponent `e|E [sign] digitpart`.
    This is what a MERGE needs to know about a duration (evaluating `ro.stories` calls `float` on every
    story's timing fields and never looks at the values): not-a-number, infinite, negative and
    many-decimal durations are all accepted.  `pyFloat` below additionally gives the VALUE, for the
    accessors, on the strings whose value is a whole number of microseconds.
    (Not modelled: non-ASCII decimal digits, which `float` also accepts.) -/
def pyFloatAccepts (s : String) : Bool :=
  let cs0 := pyNumStripL s.toList
  let cs := match cs0 with | '+' :: r => r | '-' :: r => r | r => r
  let lw := cs.map Char.toLower
  if lw == "inf".toList || lw == "infinity".toList || lw == "nan".toList then true else
  let mant := cs.takeWhile (fun c => c != 'e' && c != 'E')
  let ex := cs.dropWhile (fun c => c != 'e' && c != 'E')
  let ip := mant.takeWhile (fun c => c != '.')
  let numOk := match mant.dropWhile (fun c => c != '.') with
    | [] => isDigitPart ip
    | _ :: fr => (ip.isEmpty || isDigitPart ip) && (fr.isEmpty || isDigitPart fr) && !(ip.isEmpty && fr.isEmpty)
  let exOk := match ex with
    | [] => true
    | _ :: d => isDigitPart (match d with | '+' :: r => r | '-' :: r => r | r => r)
  numOk && exOk

/-- the exception of `float(e.text)`, if any: `float(None)` is a `TypeError` -/
def floatExc (e : Xml) : Option PyExc :=
  match e.text with
  | none => some .TypeError
  | some s => if pyFloatAccepts s then none else some .ValueError

/-- `float(e.text)`: `float(None)` is a `TypeError` -/
def floatOfText (e : Xml) : Except PyExc Nat :=
  match e.text with
  | none => .error .TypeError
  | some s => pyFloat s

def isLeap (y : Nat) : Bool := (y % 4 == 0 && y % 100 != 0) || y % 400 == 0

def daysInMonth (y m : Nat) : Nat :=
  match m with
  | 1 => 31 | 2 => if isLeap y then 29 else 28 | 3 => 31 | 4 => 30 | 5 => 31 | 6 => 30
  | 7 => 31 | 8 => 31 | 9 => 30 | 10 => 31 | 11 => 30 | 12 => 31 | _ => 0

/-- days since 0000-03-01 (Hinnant's `days_from_civil`, shifted), for years ≥ 1 -/
def daysFromCivil (y m d : Nat) : Nat :=
  let y' := if m ≤ 2 then y - 1 else y
  let mp := if m > 2 then m - 3 else m + 9
  let doy := (153 * mp + 2) / 5 + d - 1
  365 * y' + y' / 4 - y' / 100 + y' / 400 + doy

def num (cs : List Char) : Option Nat := if !cs.isEmpty && cs.all isDigit then some (digitsVal cs) else none

/-- the zone designator after the seconds: none (a naive time), `Z`, or `±HH:MM`.  The result is a
    code: 0 = naive, `1 + 1440 + offset in minutes` = aware.  `none` models `ParserError`. -/
def parseZone (cs : List Char) : Option Nat :=
  match cs with
  | [] => some 0
  | ['Z'] => some (1 + 1440)
  | [sg, h1, h2, ':', m1, m2] =>
    match num [h1, h2], num [m1, m2] with
    | some h, some m =>
      if h < 24 && m < 60 then
        if sg == '+' then some (1 + 1440 + (60 * h + m))
        else if sg == '-' then some (1 + 1440 - (60 * h + m))
        else none
      else none
    | _, _ => none
  | _ => none

/-- an aware datetime keeps its zone through `+ timedelta`: the zone code rides above every clock value -/
def zoneUnit : Nat := 2 ^ 60

/-- an optional fraction of a second, `.digits` (at most six digits), in microseconds;
    returns the microseconds and what follows the fraction -/
def parseFraction (cs : List Char) : Option (Nat × List Char) :=
  match cs with
  | '.' :: rest =>
    let fr := rest.takeWhile isDigit
    let k := fr.length
    if 1 ≤ k && k ≤ 6 && (digitsVal fr * ticksPerSecond) % (10 ^ k) == 0 then some (digitsVal fr * ticksPerSecond / 10 ^ k, rest.dropWhile isDigit)
    else none
  | _ => some (0, cs)

/-- `dateutil.parser.parse(s)` on `YYYY-MM-DD` `T`|space `HH:MM:SS` [`.fraction`] followed by nothing,
    `Z` or `±HH:MM`; `none` models `ParserError` (a ValueError).  The value is the wall-clock time in
    microseconds since the model's epoch, plus `zoneUnit` times the zone code (Python: the local
    fields and the tzinfo).  dateutil accepts many more spellings; the correspondence check generates
    only these. -/
def parseTime (s : String) : Option Nat :=
  match pyStripL s.toList with          -- surrounding blanks (a pretty-printed field) are ignored
  | y1::y2::y3::y4::'-'::m1::m2::'-'::d1::d2::sep::h1::h2::':'::n1::n2::':'::s1::s2::rest =>
    if sep != 'T' && sep != ' ' then none else
    match num [y1,y2,y3,y4], num [m1,m2], num [d1,d2], num [h1,h2], num [n1,n2], num [s1,s2], parseFraction rest with
    | some y, some m, some d, some h, some n, some sec, some (fr, zone) =>
      match parseZone zone with
      | none => none
      | some z =>
        if 1 ≤ y && 1 ≤ m && m ≤ 12 && 1 ≤ d && d ≤ daysInMonth y m && h < 24 && n < 60 && sec < 60 then
          some (ticksPerSecond * (((daysFromCivil y m d) * 24 + h) * 60 + n) * 60 + ticksPerSecond * sec + fr + zoneUnit * z)
        else none
    | _, _, _, _, _, _, _ => none
  | _ => none

/-- `mosExternalMetadata/mosPayload` of a story or item (first of each), `None`-tolerant -/
def payloadOf (s : Xml) : Option Xml := (s.find "mosExternalMetadata").bind (·.find "mosPayload")

/-- `_get_story_duration` (moselements.py l.26-46, with the `payload is None` guard) -/
def storyDuration (s : Xml) : Except PyExc (Option Nat) :=
  match payloadOf s with
  | none => .ok none
  | some p =>
    match p.find "StoryDuration" with
    | some e => (floatOfText e).map some
    | none =>
      match p.find "TextTime", p.find "MediaTime" with
      | none, none => .ok none
      | tt, mt => do
        let a ← match tt with | some e => floatOfText e | none => pure 0
        let b ← match mt with | some e => floatOfText e | none => pure 0
        pure (some (a + b))

/-- the exception `_get_story_duration` raises, if any (same control flow, values ignored) -/
def storyDurationExc (s : Xml) : Option PyExc :=
  match payloadOf s with
  | none => none
  | some p =>
    match p.find "StoryDuration" with
    | some e => floatExc e
    | none =>
      match (p.find "TextTime").bind floatExc with
      | some x => some x
      | none => (p.find "MediaTime").bind floatExc

/-- the first exception `_get_story_offsets` meets, going through the stories in order -/
def storyOffsetsExc : List Xml → Option PyExc
  | [] => none
  | s :: ss => match storyDurationExc s with
    | some x => some x
    | none => storyOffsetsExc ss

/-- `_get_story_offsets` (l.13-24): `{story element: offset}` - keyed by the element, so the table is
    the list of offsets by position (each story element occurs once in `ro.stories`; that no element
    occurs twice in a running order is C13's separation invariant).  A missing duration counts
    as 0.  Returns `none` for an empty story list (`if all_stories:`). -/
def storyOffsetsFrom : List Xml → Nat → Except PyExc (List Nat)
  | [], _ => .ok []
  | s :: ss, t => do
    let d ← storyDuration s
    let rest ← storyOffsetsFrom ss (t + d.getD 0)
    pure (t :: rest)

def storyOffsets (all : List Xml) : Except PyExc (Option (List Nat)) :=
  if all.isEmpty then .ok none else (storyOffsetsFrom all 0).map some

/-- `RunningOrder.start_time` (mostypes.py l.248-257) on the `roCreate` element -/
def roStart (rc : Xml) : Except PyExc (Option Nat) :=
  match Xml.childText (some rc) "roEdStart" with
  | none => .ok none
  | some s =>
    match parseTime s with
    | some t => .ok (some t)
    | none => .error .ValueError

/-- the exception, if any, raised by evaluating `ro.stories` (l.235-245): the list comprehension
    evaluates `self.start_time`, then `Story(...)` → `_get_story_offsets`, for the first story -/
def storiesExc (rc : Xml) : Option PyExc :=
  let ss := rc.findall "story"
  if ss.isEmpty then none else
  match roStart rc with
  | .error e => some e
  | .ok _ => storyOffsetsExc ss

end Mrm
