/-
  Mrm/Proofs/RoIdP.lean — C14: the running-order ID is kept by messages addressed to that running
  order (targets).
-/
import Mrm.Proofs.Frame
import Mrm.Model.Collection

namespace Mrm

/-- the running order's ID: text of the first roID child of its roCreate -/
def roIdText (d : Xml) : Option String := (rcOf d).bind (fun rc => Xml.childText (some rc) "roID")

/-- the roCreate has a roID child (the schema's required tag) -/
def hasRoId (d : Xml) : Bool := ((rcOf d).bind (fun rc => rc.find "roID")).isSome

/-- "addressed to that running order": the only messages that write the roID are roReplace (whose
    content becomes the roCreate) and roMetadataReplace (which replaces same-tag children); they must
    carry the running order's own ID — roReplace exactly one way: a roID child with that text;
    roMetadataReplace: every roID child it carries has that text -/
def sameRo (i : MergeInput) : Bool :=
  match i.m.find i.k.baseTag with
  | none => false
  | some base =>
    match i.k with
    | .RunningOrderReplace => (base.find "roID").isSome && Xml.childText (some base) "roID" == roIdText i.d
    | .MetaDataReplace => (base.findall "roID").all (fun r => r.text == roIdText i.d)
    | _ => true

/-- one merge step keeps the running-order ID -/
theorem roid_step (i : MergeInput) (h : DomC03 i = true) (hid : hasRoId i.d = true) (hs : sameRo i = true) :
    roIdText (addK i.k i.d i.m).ro = roIdText i.d ∧ hasRoId (addK i.k i.d i.m).ro = true := by
  sorry

end Mrm
