/-
  Mrm/Proofs/Frame.lean — frame lemmas for C03.
-/
import Mrm.Proofs.Rc

namespace Mrm

theorem frame_any (i : MergeInput) (h : DomC03 i = true) :
    holdsC03 i (addK i.k i.d i.m) = true := by
  sorry

end Mrm
