import Mrm.Proofs.Rc

namespace Mrm

theorem warns_any (i : MergeInput) (h : DomC06 i = true) :
    holdsC06 i (addK i.k i.d i.m) = true := by
  sorry

end Mrm
