import Mrm.Proofs.Rc

namespace Mrm

theorem payload_any (i : MergeInput) (h : DomC04 i = true) :
    holdsC04 i (addK i.k i.d i.m) = true := by
  sorry

end Mrm
