/-
  Mrm/Proofs/Order.lean — refinement of the merges to the declarative ID-sequence functions
  (C01, C02) and the permutation property of moves and swaps.
-/
import Mrm.Proofs.Rc

namespace Mrm

theorem order_story (i : MergeInput) (h : DomOrder i = true) (hs : i.k.isStoryLevel = true) :
    holdsOrder i (addK i.k i.d i.m) = true := by
  sorry

theorem order_item (i : MergeInput) (h : DomOrder i = true) (hs : i.k.isItemLevel = true) :
    holdsOrder i (addK i.k i.d i.m) = true := by
  sorry

theorem perm_any (i : MergeInput) : holdsPerm i (addK i.k i.d i.m) = true := by
  sorry

end Mrm
