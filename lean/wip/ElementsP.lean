/-
  Mrm/Proofs/ElementsP.lean — C20 targets.
-/
import Mrm.Spec.Elements

namespace Mrm

/-- the accessors never raise on a shaped message, and expose exactly the named IDs -/
theorem exposed_spec (k : Kind) (m base : Xml) (hs : shaped k m = true) (hb : m.find k.baseTag = some base) :
    ∃ ex, exposed k base = .ok ex ∧ holdsC20 k base ex = true := by
  sorry

/-- `inspect()` never raises on a shaped message (of a mergeable class) -/
theorem inspect_total (k : Kind) (m : Xml) (hs : shapedInspect k m = true) :
    ∃ ls, inspectLines k m = .ok ls := by
  sorry

/-- `inspect()` mentions every source / carried ID it names: some printed line has it as its value
    (for the REPLACE headers the value is followed by " WITH:", those name the target, not a source) -/
theorem inspect_mentions (k : Kind) (m base : Xml) (ls : List Line) (hb : m.find k.baseTag = some base)
    (hk : k ≠ .StorySend) (h : inspectLines k m = .ok ls) :
    ∀ x ∈ mentionIds k base, ∃ l ∈ ls, l.2 = pyStr x := by
  sorry

end Mrm
