/-
  Mrm/Proofs/SerializeP.lean — C14 targets: token round trip, escaping, envelope invariants.
-/
import Mrm.Model.Serialize
import Mrm.Model.Collection
import Mrm.Spec.Merge

namespace Mrm

/-! ### tokens -/

/-- the token stream of any tree reads back as that tree -/
theorem tokens_roundtrip (t : Xml) : parseTokens (tokens t) = some t := by
  sorry

/-! ### character data -/

/-- entity decoding inverts `_escape_cdata` for every string -/
theorem decode_escapeCdata (cs : List Char) : decodeEntities (escapeCdataL cs) = cs := by
  sorry

/-- the reader's end-of-line normalisation leaves escaped text alone when it has no carriage return -/
theorem normalizeEol_escapeCdata (cs : List Char) (h : '\r' ∉ cs) : normalizeEol (escapeCdataL cs) = escapeCdataL cs := by
  sorry

/-- text and tails without U+000D survive the write/read cycle, markup-significant characters included -/
theorem cdata_roundtrip (cs : List Char) (h : '\r' ∉ cs) : unescapeL (escapeCdataL cs) = cs := by
  sorry

/-- attribute values survive for every string: CR, LF and TAB are written as character references -/
theorem attr_roundtrip (cs : List Char) : unescapeL (escapeAttrL cs) = cs := by
  sorry

/-- the hypothesis `'\r' ∉ cs` is necessary: `_escape_cdata` writes U+000D raw and the reader
    normalises it to U+000A (the open known finding of C14) -/
theorem cdata_cr_counterexample : unescapeL (escapeCdataL "a\rb".toList) = "a\nb".toList := by
  sorry

/-! ### envelope -/

/-- one merge step, for EVERY input: the root element itself and every root child that is not a
    `roCreate` stay where they are, unchanged; the list of root-child tags only ever grows by one
    `mosromgrmeta`, and only when a roDelete is merged into a running order that is not completed -/
theorem root_step (k : Kind) (d m : Xml) :
    (addK k d m).ro.tag = d.tag ∧ (addK k d m).ro.attrs = d.attrs ∧ (addK k d m).ro.text = d.text ∧
    (addK k d m).ro.tail = d.tail ∧
    (∀ (j : Nat) (c : Xml), d.kids[j]? = some c → c.tag ≠ "roCreate" → (addK k d m).ro.kids[j]? = some c) ∧
    (rootTags (addK k d m).ro = rootTags d ∨
      (rootTags (addK k d m).ro = rootTags d ++ ["mosromgrmeta"] ∧ k = .RunningOrderEnd ∧ completed d = false)) := by
  sorry

/-- the envelope invariant: exactly the running-order elements there were, at most one completion record -/
def EnvInv (d0 d : Xml) : Prop :=
  (rootTags d).count "roCreate" = (rootTags d0).count "roCreate" ∧
  (rootTags d).count "mosromgrmeta" ≤ 1 ∧
  messageId d = messageId d0 ∧
  (rootTags d).filter (fun t => t != "mosromgrmeta") = (rootTags d0).filter (fun t => t != "mosromgrmeta")

theorem envInv_step (d0 d m : Xml) (k : Kind) (h : EnvInv d0 d) : EnvInv d0 (addK k d m).ro := by
  sorry

/-- in every state reachable from a roCreate document without a completion record, by any sequence
    of messages of any type (strict or not, whatever fails): exactly one running-order element per
    original one, the original message ID, at most one completion record -/
theorem envInv_reachable (d0 : Xml) (rs : List Reader) (ws : List Warn) (strict : Bool)
    (h0 : (rootTags d0).count "mosromgrmeta" = 0) : EnvInv d0 (mergeLoop strict d0 rs ws).ro := by
  sorry

end Mrm
