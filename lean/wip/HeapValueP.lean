/-
  Mrm/Proofs/HeapValueP.lean — C13: under separation the labelled (identity-carrying) run projects
  onto the value-level run — what licenses modelling `parent.remove(node)` / `insert` / move / swap
  on plain values (`eraseIdx`, `take ++ x :: drop`, …) in Model/Merge.lean.  Targets.
-/
import Mrm.Proofs.HeapP

namespace Mrm

open LX

/-- value-level update: apply `f` to the child list of the node at `path` -/
def updV (f : List Xml → List Xml) : List Nat → Xml → Xml
  | [], x => x.withKids (f x.kids)
  | i :: rest, x =>
    match x.kids[i]? with
    | some c => x.withKids (x.kids.set i (updV f rest c))
    | none => x

mutual
/-- the path (child indices from the root) of the node labelled `l`, if it occurs -/
def pathOf (l : Nat) : LX → Option (List Nat)
  | .node l' _ _ _ _ ks => if l' = l then some [] else pathOfL l ks 0
def pathOfL (l : Nat) : List LX → Nat → Option (List Nat)
  | [], _ => none
  | k :: ks, i =>
    match pathOf l k with
    | some p => some (i :: p)
    | none => pathOfL l ks (i+1)
end

/-- `f` on labelled children and `g` on plain children are the same list surgery -/
def Natural (f : List LX → List LX) (g : List Xml → List Xml) : Prop :=
  ∀ ks, eraseL (f ks) = g (eraseL ks)

/-- in a tree without repeated labels, mutating object `l` is, on the content, the value-level edit at
    the path of `l` -/
theorem erase_upd (l : Nat) (f : List LX → List LX) (g : List Xml → List Xml) (hn : Natural f g) (t : LX)
    (hnd : t.labels.Nodup) (p : List Nat) (hp : pathOf l t = some p) :
    (t.upd l f).erase = updV g p t.erase := by
  sorry

/-- the four list edits of the merges are natural: the labelled and the plain version agree on content -/
theorem natural_eraseIdx (i : Nat) : Natural (fun ks => ks.eraseIdx i) (fun ks => ks.eraseIdx i) := by
  sorry

theorem natural_insert (i : Nat) (x : LX) :
    Natural (fun ks => lxInsert ks i x) (fun ks => ks.take i ++ x.erase :: ks.drop i) := by
  sorry

theorem natural_swap (i j : Nat) :
    Natural (fun ks => lxSwap ks i j)
      (fun ks => match ks[i]?, ks[j]? with | some a, some b => (ks.set i b).set j a | _, _ => ks) := by
  sorry

/-- C13 ⇒ value semantics: every non-reference operation of a history, applied to a separated world,
    changes the running order's *content* exactly as the corresponding edit on plain values at the
    addressed node, and changes no other tree's content at all -/
theorem value_model_sound (ro : LX) (rest : List LX) (n : Nat) (p i : Nat) (path : List Nat)
    (hs : World.Sep ⟨ro :: rest, n⟩) (hp : pathOf p ro = some path) :
    ((World.apply ⟨ro :: rest, n⟩ (.removeAt p i)).trees.map LX.erase) =
      updV (fun ks => ks.eraseIdx i) path ro.erase :: rest.map LX.erase := by
  sorry

end Mrm
