/-
  Driver.lean — JSON line protocol in front of the executable model.
  One request object per line, one response object per line; stateless.
  Usage:  driver            (stdin → stdout, flushed after every line)
          driver IN OUT     (batch: file → file)
-/
import Lean.Data.Json
import Mrm.Model.Basic
import Mrm.Model.Classify
import Mrm.Model.Timing
import Mrm.Model.Merge
import Mrm.DriverOps

open Lean Mrm

partial def loop (h : IO.FS.Stream) (out : IO.FS.Stream) (flush : Bool) : IO Unit := do
  let line ← h.getLine
  if line.isEmpty then return ()
  let resp := match Json.parse line with
    | .error e => Json.mkObj [("error", .str s!"json: {e}")]
    | .ok j => match handle j with
      | .ok r => r
      | .error e => Json.mkObj [("error", .str e)]
  out.putStrLn (Json.compress resp)
  if flush then out.flush
  loop h out flush

def main (args : List String) : IO UInt32 := do
  match args with
  | [inp, outp] =>
    let hi ← IO.FS.Handle.mk inp .read
    let ho ← IO.FS.Handle.mk outp .write
    loop (IO.FS.Stream.ofHandle hi) (IO.FS.Stream.ofHandle ho) false
    ho.flush
    return 0
  | _ =>
    loop (← IO.getStdin) (← IO.getStdout) true
    return 0
