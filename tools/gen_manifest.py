#!/usr/bin/env python3
"""Regenerate MANIFEST.json from the table below and lean/theorems.json (claimed = has theorems and
a registered check)."""
import json
import os
import sys

HERE = os.path.dirname(os.path.dirname(os.path.abspath(__file__)))
sys.path.insert(0, HERE)

PY = '/venv/bin/python'

# pid -> (design section, partial?, what the theorems establish, what is differential only)
TABLE = {
    'C01': ('§6 C01', False, 'for every running order (any size, any interleaved metadata) and every story-level message whose references resolve, the model\'s story-ID sequence after the merge equals the protocol\'s declarative list function; moves and swaps are permutations of the children for every input; composed along every history of resolving story-level messages (C01_history)', ''),
    'C02': ('§6 C02', False, 'the same one level down: item-ID sequence of the addressed story (first story with the ID), any interleaving of paragraphs, item IDs free to repeat in other stories; composed along every history into the item table of ALL stories (C02_history)', ''),
    'C03': ('§6 C03', False, 'frame theorems: everything the message does not name (by tag and non-blank ID) is identical and keeps its relative order, at root, roCreate and story level; a blank or unknown reference names nothing; composed along histories: what no message of a history names is identical and in order at the end (C03_history)', ''),
    'C04': ('§6 C04', False, 'carried stories/items arrive deep-equal, contiguous and in message order; roStorySend arrives as pre ++ body-children(retagged) ++ post; roReplace content becomes the roCreate; carried metadata present', ''),
    'C05': ('§6 C05', False, 'for every message of every class and shape and every running order: if the model\'s merge ends in MosMergeError/MosCompletedMergeError the tree is the tree it was given; lifted to non-strict histories; C05_total: for EVERY running order and EVERY message with a readable messageID, any exception at all (merge error or built-in) leaves the tree unchanged', ''),
    'C06': ('§6 C06', False, 'the model either raises MosMergeError or emits exactly one warning of the documented category per unresolvable/duplicate element, in message order, and applies every other named element - for any container, blank and repeated IDs included (one occurrence per mention)', ''),
    'C07': ('§6 C07', False, 'roDelete marks completion and appends exactly one record; a completed running order refuses every message unchanged (step and history); no other class completes; completed documents classify as RunningOrder', ''),
    'C08': ('§6 C08', True, 'classification of the model depends only on the direct message-element children; total: never a built-in exception; the roElementAction table is decided by (operation, target has itemID, source has itemID)', 'expat well-formedness decisions (MosInvalidXML), independence from the warning filter, file/str/bytes equivalence: differential execution'),
    'C09': ('§6 C09', False, 'the collection merge loop equals the left fold of add over the sorted messages; strict stops at the first error with the prefix applied; non-strict skips exactly the failing messages with one MosMergeNonStrictWarning each', ''),
    'C10': ('§6 C10', False, 'sorting readers by numeric message ID is permutation-invariant for distinct IDs; the decimal parser is the numeric value; ties keep the supplied order (stable sort: C10_stable, C10_stable_determined)', ''),
    'C11': ('§6 C11', True, 'validate accepts iff non-empty, one roID, exactly one roCreate, at most one roDelete (exactly one unless incomplete allowed); every rejection is InvalidMosCollection', 'that python -O does not weaken the checks: differential execution in a -O subprocess'),
    'C12': ('§6 C12', False, 'for every running order that has a roCreate (whatever its stories, items and timing metadata look like) and every schema-shaped message the model never yields a built-in exception; a history invariant preserved by merges composes the statement along histories (a non-strict merge runs to the end); the value model of float() accepts only what Python\'s grammar accepts (pyFloat_ok_accepts)', ''),
    'C13': ('§6 C13', True, 'on the labelled-tree aliasing model: copies carry fresh labels, mutations of running-order objects cannot change a message, separation is invariant over every history of copy-inserting merges, and under separation the labelled run projects onto the value-level run', 'object identity in CPython (id()-disjointness monitor on the real code)'),
    'C14': ('§6 C14', True, 'character-level round trip: every tree with valid names and CR-free non-empty character data reads back from its serialisation as exactly itself (model lexer + tree builder); token-level round trip for any tree; escaping round trips; envelope invariant (running-order element count, message ID, at most one completion record) along every history; the running-order ID is kept by messages addressed to it', 'that ElementTree\'s parser reads the serialiser\'s output as the model\'s lexer does, and that str(ro) is byte for byte the model\'s serialisation: compared at every explored state; one open known finding (U+000D in character data, stdlib serialiser)'),
    'C15': ('§6 C15', False, 'on running orders whose stories/items have IDs and whose optional data is numeric/parseable, no accessor of the model raises; stories/items are listed in document order; every item field incl. the note (first studioCommand type=note at any depth) agrees with the document; absent data is None; the check also demands the C16 and C17 specifications (timing, script and body are read accessors too)', ''),
    'C16': ('§6 C16', False, 'duration precedence, running-order duration = sum, offsets = prefix sums by position (repeated story IDs or not), start/end derivations incl. zone designators, over exact microseconds (decimal durations with up to six decimals); the code\'s element-keyed offset dictionary equals the positional table whenever no story element occurs twice (C16_offsets_by_element, tied to C13\'s separation), and differs otherwise (counterexample theorem)', ''),
    'C17': ('§6 C17', False, 'body = paragraphs and items in document order; script = stripped non-empty non-bracketed paragraphs in order; running-order script/body = concatenation over stories - for every document that has a roCreate, whatever its timing metadata, IDs and slugs (C17_text_any)', ''),
    'C18': ('§6 C18', True, 'paginated listing returns every key with the suffix across all pages (no empty page before a non-empty one); reader metadata is that of the restored object', 'real file I/O, bytes decoding, boto3 protocol: differential execution through an injected fake client'),
    'C19': ('§6 C19', True, 'detect output is the per-file map of the library classification (order preserved, one bad file cannot affect another line); merge output is the serialisation of the library merge; exit codes (an outfile that cannot be opened, and no input at all, are status 2)', 'argparse, real stdout/stderr, file writing: differential execution of mosromgr.cli.main in-process'),
    'C20': ('§6 C20', False, 'exposed sources are exactly the IDs at the schema position, one element per ID, in order; a blank target is exposed as None; inspect lines are total on shaped messages and on running-order documents (whatever their timing metadata) and mention every source / carried / listed story ID; the element objects of carried stories / items answer what the accessor theorems of C15 say of the same elements', ''),
}


def main():
    from harness import registry
    with open(os.path.join(HERE, 'lean', 'theorems.json')) as f:
        thms = json.load(f)
    pending_reason = {}
    pr = os.path.join(HERE, 'tools', 'pending.json')
    if os.path.exists(pr):
        pending_reason = json.load(open(pr))
    checks, na = [], []
    for pid in sorted(TABLE):
        sec, partial, proved, diff = TABLE[pid]
        if pid in registry.CHECKS and thms.get(pid):
            text = ('Lean 4 theorems about a hand-written executable model, for all inputs/histories: ' + proved +
                    '. The model is tied to /repo on every run by a correspondence check (real code and model '
                    'on the same generated inputs; the Lean spec is evaluated on the real code\'s observation).')
            if partial:
                text += ' PARTIAL: ' + diff + '.'
            checks.append({
                'property_id': pid,
                'quick_cmd': f'{PY} run.py check {pid} --tier quick',
                'thorough_cmd': f'{PY} run.py check {pid} --tier thorough',
                'evidence_file': f'evidence/{pid}.json',
                'replay_cmd_template': f'{PY} run.py replay {{path}}',
                'engine': 'lean4-model+correspondence',
                'level_claimed': {'category': 'proof', 'text': text, 'design_ref': sec},
                'level_note': ('Trusted: Lean kernel (axioms propext, Quot.sound, Classical.choice only; audited per run); '
                               'the hand-written model is validated against the code by differential execution on '
                               'bounded-exhaustive and seeded random inputs, not proved equal to it; CPython/ElementTree '
                               'primitives are modelled, not verified (DESIGN.md §8).'),
                'technique': ('machine-checked proof in Lean 4 (induction / refinement over a hand-written model) + '
                              'differential correspondence check model vs. code' + (' (partial)' if partial else '')),
            })
        else:
            na.append({'property_id': pid,
                       'reason': pending_reason.get(pid, 'not claimed yet: the Lean theorems and correspondence check for this property are still being built (see DESIGN.md §10); the technique applies')})
    man = {
        'version': 1,
        'setup_cmd': 'cd lean && lake build',
        'hooks': {'guard': 'BBC_MOSROMGR_VERIF', 'enable': 'no hooks are needed: every observation point is public API; the guard name is reserved and unused',
                  'baseline_off_cmd': 'cd /repo && /venv/bin/python -m pytest -q -p no:cacheprovider',
                  'source_commits': [], 'add_only': True},
        'engines': [{'name': 'lean4-model+correspondence', 'path': 'run.py',
                     'serves_properties': [c['property_id'] for c in checks],
                     'kind_free_text': 'Lean 4 model, specs and theorems (lean/), compiled model driver over a JSON line protocol, Python correspondence harness (harness/)'}],
        'checks': checks,
        'not_applicable': na,
        'notes': 'See DESIGN.md. KNOWN_FINDINGS.json lists repaired defects (fix: commits in /repo) and open findings.',
    }
    with open(os.path.join(HERE, 'MANIFEST.json'), 'w') as f:
        json.dump(man, f, indent=1)
    print('claimed:', [c['property_id'] for c in checks])
    print('not claimed:', [n['property_id'] for n in na])


if __name__ == '__main__':
    main()
