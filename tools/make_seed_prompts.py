#!/usr/bin/env python3
"""Build the prompts for a round of seeded defects (one prompt per pair of properties).

    make_seed_prompts.py <round> <first defect number> [ideas.txt]

Writes /tmp/seed_out<round>/PROMPT_<A>_<B>.txt and creates the worktrees /tmp/seed<round>_<ID> of /repo HEAD.
The agents get the property text, the titles of every defect tried so far, and nothing from /verif."""
import json, os, subprocess, sys

PAIRS = [('C01', 'C02'), ('C03', 'C04'), ('C05', 'C06'), ('C07', 'C12'), ('C08', 'C11'), ('C09', 'C10'), ('C13', 'C14'),
         ('C15', 'C16'), ('C17', 'C20'), ('C18', 'C19')]
rnd, first = sys.argv[1], int(sys.argv[2])
ideas = open(sys.argv[3]).read().strip() if len(sys.argv) > 3 else ''
out = f'/tmp/seed_out{rnd}'
os.makedirs(out, exist_ok=True)
props = {json.loads(l)['id']: json.loads(l) for l in open('/verif/properties.jsonl')}
tried = {}
for base in ('/verif/seeded', '/verif/seeded_retired', '/verif/seeded_harmless'):
    for d in sorted(os.listdir(base)):
        mp = os.path.join(base, d, 'meta.json')
        if os.path.exists(mp):
            m = json.load(open(mp))
            tried.setdefault(m.get('property', d.split('_')[0]), []).append(m.get('title', '?'))
HEAD = f'''You are helping test a verification framework by writing realistic *seeded defects* (mutations) for the open-source Python library bbc/mosromgr (a library that classifies MOS broadcast running-order XML messages and merges them into a running order using xml.etree.ElementTree). You are NOT given the verification framework; work only from the property text below and the library source.

You have your own scratch git worktree of the library for each property (paths below). Work ONLY inside those worktrees and inside {out}/. Never read, write or cd into /repo or /verif. Do not commit anything.

Environment: run Python as `/venv/bin/python`; to import the library from a worktree use `PYTHONPATH=<worktree>`. The existing test suite is run with: `cd <worktree> && /venv/bin/python -m pytest -q -p no:cacheprovider` (196 tests, all pass on the unmodified worktree). No network.

For EACH property below, produce TWO NEW seeded defects (different mechanism / different code site from each other AND from the ones listed under 'ALREADY TRIED' for that property - those are known). {ideas}
Each defect:
 1. is a small source change to the library under <worktree>/mosromgr/ (a change a developer could plausibly make);
 2. BREAKS the property stated below (makes the library violate it for some input/history/configuration inside the property's quantifier);
 3. still imports/compiles and still passes the ENTIRE existing test suite unchanged (196 passed) - verify this by running it;
 4. needs something specific to manifest - a particular relative position of elements, a multi-step sequence of operations, an unusual but legitimate input, two cooperating sites that each look fine alone - NOT something that ordinary use or the simplest possible input would expose at once;
 5. comes with a demonstration: a small standalone script `demo.py` that takes no arguments, imports mosromgr from PYTHONPATH, builds its inputs inline (XML strings), prints what it observes, and exits with status 1 (with a message) when run against the mutated worktree and status 0 when run against the unmodified library. Verify both: run it with the change applied (must exit 1) and with the change reverted (must exit 0). IMPORTANT: never use `git stash` (the stash is shared between worktrees and other agents are working concurrently): save your change with `git diff > patch.diff`, revert with `git checkout -- .`, re-apply with `git apply patch.diff`.

Deliverables, for property <ID> and defect number <n> in {{{first},{first + 1}}}: create directory {out}/<ID>_<n>/ containing
   - patch.diff   : output of `git -C <worktree> diff` for that single defect alone (relative to the unmodified worktree HEAD; it must apply cleanly with `git apply` to a clean checkout),
   - demo.py      : the demonstration script,
   - meta.json    : {{"property": "<ID>", "title": "...one line...", "what_it_breaks": "...", "needs_to_manifest": "...what specific input/sequence/position is required...", "why_tests_still_pass": "...", "verified": {{"tests_pass_with_patch": true/false, "demo_fails_with_patch": true/false, "demo_passes_without_patch": true/false}}}}
Make the two defects independent: patch.diff of defect {first + 1} must be relative to the clean worktree too (revert defect {first} first). Leave the worktree clean (git checkout -- .) when you finish.

Be honest in meta.json: if you could not achieve one of the three verifications, say so (false) rather than claiming it. The demo must demonstrate a violation of THE PROPERTY AS STATED (not merely some behavioural difference).

Keep your own replies and tool outputs short (do not print whole files; use head/tail/grep; write files with heredocs). When done, reply with a short summary (a few lines per defect): the file/function changed, what input triggers it, and the verification results.

WORKTREES AND PROPERTIES
'''
for a, b in PAIRS:
    text = HEAD
    for pid in (a, b):
        wt = f'/tmp/seed{rnd}_{pid}'
        subprocess.run(['git', '-C', '/repo', 'worktree', 'remove', '--force', wt], capture_output=True)
        subprocess.run(['git', '-C', '/repo', 'worktree', 'add', '-q', '--detach', wt, 'HEAD'], check=True)
        p = props[pid]
        q = p.get('quantifier') or p.get('quantified_over') or {}
        text += f"\n=== worktree for {pid}: {wt} ===\nPROPERTY {pid}: {p.get('title')}\nSTATEMENT: {p.get('statement')}\nQUANTIFIED OVER: {q.get('text', q) if isinstance(q, dict) else q}\n\nALREADY TRIED for this property (do NOT repeat these):\n"
        text += ''.join(f' - {t}\n' for t in tried.get(pid, []))
    open(os.path.join(out, f'PROMPT_{a}_{b}.txt'), 'w').write(text)
    print(os.path.join(out, f'PROMPT_{a}_{b}.txt'), len(text))
