#!/usr/bin/env python3
"""Run the registered checks against the seeded defects (each applied in its own scratch worktree of
/repo, never in /repo itself; MRM_REPO points the harness at it).  Prints one line per (defect, check)."""
import json, os, shutil, subprocess, sys, tempfile
from concurrent.futures import ThreadPoolExecutor

PY = '/venv/bin/python'
SEEDED = '/verif/seeded'


def sh(cmd, cwd=None, env=None, timeout=1800):
    p = subprocess.run(cmd, cwd=cwd, env=env, stdout=subprocess.PIPE, stderr=subprocess.STDOUT, text=True, timeout=timeout)
    return p.returncode, p.stdout


def run(name, pids, tier='quick'):
    wt = f'/tmp/mut_{name}'
    sh(['git', '-C', '/repo', 'worktree', 'remove', '--force', wt])
    sh(['git', '-C', '/repo', 'worktree', 'add', '-q', '--detach', wt, 'HEAD'])
    out = []
    scratch = tempfile.mkdtemp(prefix='mutev_')
    try:
        rc, o = sh(['git', 'apply', os.path.join(SEEDED, name, 'patch.diff')], cwd=wt)
        if rc != 0:
            return [(name, '-', 'patch does not apply', o[-200:])]
        env = dict(os.environ, MRM_REPO=wt, VERIF_EVIDENCE_DIR=scratch, VERIF_REPLAY_DIR=scratch,
                   PYTHONDONTWRITEBYTECODE='1')
        for pid in pids:
            rc, o = sh([PY, '/verif/run.py', 'check', pid, '--tier', tier], cwd='/verif', env=env)
            lines = [l for l in o.strip().split('\n') if l.startswith(('VIOLATION', 'KNOWN', 'INFRA'))]
            out.append((name, pid, rc, (next((l for l in lines if l.startswith("VIOLATION")), lines[0] if lines else o.strip().split("\n")[-1])[:200])))
    finally:
        sh(['git', '-C', '/repo', 'worktree', 'remove', '--force', wt])
        shutil.rmtree(scratch, ignore_errors=True)
    return out


def main():
    registered = subprocess.run([PY, '/verif/run.py', 'list'], capture_output=True, text=True, cwd='/verif').stdout.split()
    names = sorted(os.listdir(SEEDED))
    args = sys.argv[1:]
    allp = '--all-checks' in args
    args = [a for a in args if not a.startswith('--')]
    if args:
        names = [n for n in names if any(n.startswith(a) for a in args)]
    jobs = []
    for n in names:
        own = n.split('_')[0]
        pids = registered if allp else [p for p in registered if p == own]
        if pids:
            jobs.append((n, pids))
    with ThreadPoolExecutor(int(os.environ.get("SEED_JOBS","4"))) as ex:
        for res in ex.map(lambda a: run(*a), jobs):
            for r in res:
                print(*r)
                sys.stdout.flush()


if __name__ == '__main__':
    main()
