#!/usr/bin/env python3
"""Systematic mutation sweep (informational; not part of any registered check).

    mutation_sweep.py gen                 enumerate first-order AST mutants of /repo/mosromgr -> WORK/mutants.json
    mutation_sweep.py filter [jobs]       run the library's own test suite on each; keep the survivors
    mutation_sweep.py check  [jobs]       run the quick checks on each survivor (most relevant first) until one
                                          reports a violation; survivors no check reports are listed for review
    mutation_sweep.py report              write notes/mutation_sweep.md

Every mutant lives in its own scratch copy of the library under WORK (default /tmp/mutsweep), never in /repo;
MRM_REPO points the harness at the copy.  The seeded defects under seeded/ are written by people who read a
property; this sweep instead visits every expression of the library with the classical operators, so it
finds code sites no seeded defect touched."""
import ast
import json
import os
import random
import shutil
import subprocess
import sys
import tempfile
from concurrent.futures import ThreadPoolExecutor

PY = '/venv/bin/python'
REPO = '/repo'
WORK = os.environ.get('MUTSWEEP_WORK', '/tmp/mutsweep')
FILES = ['mosromgr/mostypes.py', 'mosromgr/moselements.py', 'mosromgr/moscollection.py', 'mosromgr/cli.py',
         'mosromgr/utils/xml.py', 'mosromgr/utils/s3.py']

CMP = {ast.Eq: ast.NotEq, ast.NotEq: ast.Eq, ast.Lt: ast.LtE, ast.LtE: ast.Lt, ast.Gt: ast.GtE, ast.GtE: ast.Gt,
       ast.Is: ast.IsNot, ast.IsNot: ast.Is, ast.In: ast.NotIn, ast.NotIn: ast.In}
BIN = {ast.Add: ast.Sub, ast.Sub: ast.Add, ast.Mult: ast.FloorDiv, ast.Div: ast.Mult}


class Collector(ast.NodeVisitor):
    def __init__(self, src):
        self.src = src
        self.lines = src.split('\n')
        self.out = []
        self.scope = []

    def seg(self, node):
        return ast.get_source_segment(self.src, node)

    def add(self, node, new_src, op):
        if not hasattr(node, 'end_col_offset'):
            return
        old = self.seg(node)
        if old is None or old == new_src:
            return
        self.out.append({'line': node.lineno, 'col': node.col_offset, 'end_line': node.end_lineno,
                         'end_col': node.end_col_offset, 'old': old, 'new': new_src, 'op': op,
                         'scope': '.'.join(self.scope)})

    def visit_ClassDef(self, node):
        self.scope.append(node.name)
        self.generic_visit(node)
        self.scope.pop()

    def visit_FunctionDef(self, node):
        self.scope.append(node.name)
        # skip docstrings
        body = node.body
        if body and isinstance(body[0], ast.Expr) and isinstance(body[0].value, ast.Constant) and isinstance(body[0].value.value, str):
            body = body[1:]
        for d in node.decorator_list:
            pass
        for stmt in body:
            self.visit(stmt)
        self.scope.pop()

    def visit_Compare(self, node):
        if len(node.ops) == 1 and type(node.ops[0]) in CMP:
            new = ast.Compare(left=node.left, ops=[CMP[type(node.ops[0])]()], comparators=node.comparators)
            self.add(node, ast.unparse(new), 'cmp')
        self.generic_visit(node)

    def visit_BoolOp(self, node):
        new = ast.BoolOp(op=ast.Or() if isinstance(node.op, ast.And) else ast.And(), values=node.values)
        self.add(node, ast.unparse(new), 'boolop')
        for i in range(len(node.values)):               # drop one operand
            rest = node.values[:i] + node.values[i + 1:]
            new = rest[0] if len(rest) == 1 else ast.BoolOp(op=node.op, values=rest)
            self.add(node, ast.unparse(new), 'dropoperand')
        self.generic_visit(node)

    def visit_BinOp(self, node):
        if type(node.op) in BIN and not (isinstance(node.op, (ast.Add, ast.Mod)) and self._stringy(node)):
            new = ast.BinOp(left=node.left, op=BIN[type(node.op)](), right=node.right)
            self.add(node, ast.unparse(new), 'binop')
        self.generic_visit(node)

    def _stringy(self, node):
        return any(isinstance(n, (ast.JoinedStr,)) or (isinstance(n, ast.Constant) and isinstance(n.value, str))
                   for n in ast.walk(node))

    def visit_UnaryOp(self, node):
        if isinstance(node.op, ast.Not):
            self.add(node, '(' + ast.unparse(node.operand) + ')', 'dropnot')
        self.generic_visit(node)

    def _cond(self, test):
        if not isinstance(test, ast.UnaryOp):
            self.add(test, 'not (' + ast.unparse(test) + ')', 'negate')

    def visit_If(self, node):
        self._cond(node.test)
        self.generic_visit(node)

    def visit_IfExp(self, node):
        self._cond(node.test)
        self.generic_visit(node)

    def visit_While(self, node):
        self._cond(node.test)
        self.generic_visit(node)

    def visit_comprehension(self, node):
        for c in node.ifs:
            self._cond(c)
        self.generic_visit(node)

    def visit_Constant(self, node):
        v = node.value
        if isinstance(v, bool):
            self.add(node, repr(not v), 'const')
        elif isinstance(v, int):
            self.add(node, repr(v + 1), 'const')
            if v == 0:
                self.add(node, '-1', 'const')
            else:
                self.add(node, repr(v - 1), 'const')
        elif v is None:
            pass

    def visit_JoinedStr(self, node):     # do not mutate inside f-strings
        pass

    def visit_Return(self, node):
        if node.value is not None and not (isinstance(node.value, ast.Constant) and node.value.value is None):
            self.add(node, 'return None', 'retnone')
        self.generic_visit(node)

    def visit_Expr(self, node):
        if isinstance(node.value, ast.Call):
            self.add(node, 'pass', 'delcall')
        self.generic_visit(node)

    def visit_Assign(self, node):
        self.generic_visit(node)

    def visit_AugAssign(self, node):
        if isinstance(node.op, ast.Add):
            self.add(node, ast.unparse(ast.AugAssign(target=node.target, op=ast.Sub(), value=node.value)), 'augop')
        self.generic_visit(node)

    def visit_Break(self, node):
        self.add(node, 'continue', 'break')

    def visit_Continue(self, node):
        self.add(node, 'break', 'continue')

    def visit_Raise(self, node):
        self.add(node, 'pass', 'delraise')
        self.generic_visit(node)

    def visit_Subscript(self, node):
        if isinstance(node.slice, ast.Slice):
            s = node.slice
            if s.lower is not None and s.upper is None and s.step is None:
                self.add(node, ast.unparse(node.value), 'dropslice')
        self.generic_visit(node)

    def visit_Call(self, node):
        f = node.func
        name = f.attr if isinstance(f, ast.Attribute) else getattr(f, 'id', '')
        swaps = {'find': 'findall', 'findall': 'iter', 'iter': 'findall', 'append': 'insert0', 'deepcopy': 'copy',
                 'sorted': 'list', 'strip': 'rstrip', 'lstrip': 'strip', 'rstrip': 'strip', 'findtext': 'find',
                 'any': 'all', 'all': 'any', 'min': 'max', 'max': 'min', 'extend': 'append'}
        if name in ('deepcopy',):
            if len(node.args) == 1:
                self.add(node, ast.unparse(node.args[0]), 'dropcopy')
                self.add(node, 'copy.copy(' + ast.unparse(node.args[0]) + ')', 'shallowcopy')
        elif name == 'sorted' and node.args:
            self.add(node, 'list(' + ast.unparse(node.args[0]) + ')', 'dropsort')
        elif name in ('any', 'all', 'min', 'max'):
            new = ast.Call(func=ast.Name(id=swaps[name]), args=node.args, keywords=node.keywords)
            self.add(node, ast.unparse(new), 'callswap')
        elif name in ('strip', 'lstrip', 'rstrip') and isinstance(f, ast.Attribute):
            self.add(node, ast.unparse(f.value), 'dropstrip')
        elif name == 'iter' and isinstance(f, ast.Attribute):
            new = ast.Call(func=ast.Attribute(value=f.value, attr='findall'), args=node.args, keywords=node.keywords)
            self.add(node, ast.unparse(new), 'iter->findall')
        elif name == 'findall' and isinstance(f, ast.Attribute):
            new = ast.Call(func=ast.Attribute(value=f.value, attr='iter'), args=node.args, keywords=node.keywords)
            self.add(node, ast.unparse(new), 'findall->iter')
        if len(node.args) == 2 and not node.keywords and name not in ('isinstance', 'getattr', 'join', 'SubElement'):
            a, b = node.args
            if type(a) is type(b) or (isinstance(a, (ast.Name, ast.Attribute)) and isinstance(b, (ast.Name, ast.Attribute))):
                new = ast.Call(func=f, args=[b, a], keywords=[])
                self.add(node, ast.unparse(new), 'swapargs')
        self.generic_visit(node)


def gen():
    os.makedirs(WORK, exist_ok=True)
    muts = []
    for rel in FILES:
        src = open(os.path.join(REPO, rel), encoding='utf-8').read()
        c = Collector(src)
        c.visit(ast.parse(src))
        for m in c.out:
            m['file'] = rel
            muts.append(m)
    # skip logging / repr only sites: they cannot break a property
    keep = []
    for m in muts:
        if m['scope'].endswith(('__repr__',)):
            continue
        if m['old'].lstrip().startswith(('logger.', 'logging.')):
            continue
        keep.append(m)
    for i, m in enumerate(keep):
        m['id'] = i
    json.dump(keep, open(os.path.join(WORK, 'mutants.json'), 'w'), indent=0)
    from collections import Counter
    print(len(keep), 'mutants', Counter(m['op'] for m in keep).most_common())
    print(Counter(m['file'] for m in keep))


def apply_mutant(m, root):
    path = os.path.join(root, m['file'])
    src = open(os.path.join(REPO, m['file']), encoding='utf-8').read()
    lines = src.split('\n')
    # byte offsets -> ast columns are utf-8 byte offsets
    def off(line, col):
        pre = '\n'.join(lines[:line - 1])
        b = lines[line - 1].encode('utf-8')[:col].decode('utf-8')
        return (len(pre) + 1 if line > 1 else 0) + len(b)
    s, e = off(m['line'], m['col']), off(m['end_line'], m['end_col'])
    assert src[s:e] == m['old'], (src[s:e], m['old'])
    new = src[:s] + m['new'] + src[e:]
    ast.parse(new)
    with open(path, 'w', encoding='utf-8') as f:
        f.write(new)


def fresh_copy(root):
    shutil.rmtree(root, ignore_errors=True)
    os.makedirs(root)
    for name in os.listdir(REPO):
        if name in ('.git', '.pytest_cache', '__pycache__', 'docs', '.github'):
            continue
        s = os.path.join(REPO, name)
        d = os.path.join(root, name)
        if os.path.isdir(s):
            shutil.copytree(s, d, ignore=shutil.ignore_patterns('__pycache__'))
        else:
            shutil.copy2(s, d)


def run_tests(root):
    env = dict(os.environ, PYTHONPATH=root, PYTHONDONTWRITEBYTECODE='1')
    try:
        p = subprocess.run([PY, '-m', 'pytest', '-x', '-q', '-p', 'no:cacheprovider', '--timeout=120'], cwd=root, env=env,
                           stdout=subprocess.PIPE, stderr=subprocess.STDOUT, text=True, timeout=400)
    except subprocess.TimeoutExpired:
        return False, 'timeout'
    return p.returncode == 0, p.stdout.strip().split('\n')[-1]


def filt(jobs):
    muts = json.load(open(os.path.join(WORK, 'mutants.json')))
    res_path = os.path.join(WORK, 'filter.jsonl')
    done = set()
    if os.path.exists(res_path):
        done = {json.loads(l)['id'] for l in open(res_path)}
    todo = [m for m in muts if m['id'] not in done]
    import threading
    lock = threading.Lock()
    roots = {}

    def work(m):
        k = threading.get_ident()
        root = roots.get(k)
        if root is None:
            root = os.path.join(WORK, f'f{len(roots)}_{k}')
            roots[k] = root
            fresh_copy(root)
        try:
            apply_mutant(m, root)
            ok, last = run_tests(root)
        except (SyntaxError, AssertionError) as e:
            ok, last = False, f'not applicable: {e}'[:100]
        finally:
            shutil.copy2(os.path.join(REPO, m['file']), os.path.join(root, m['file']))
        with lock:
            with open(res_path, 'a') as f:
                f.write(json.dumps({'id': m['id'], 'survives': ok, 'last': last}) + '\n')
    with ThreadPoolExecutor(jobs) as ex:
        list(ex.map(work, todo))
    for r in roots.values():
        shutil.rmtree(r, ignore_errors=True)
    rows = [json.loads(l) for l in open(res_path)]
    print(sum(r['survives'] for r in rows), 'survivors of', len(rows))


SPEED = ['C11', 'C10', 'C18', 'C19', 'C20', 'C08', 'C17', 'C16', 'C15', 'C09', 'C07', 'C13', 'C14', 'C12', 'C06', 'C05',
         'C04', 'C03', 'C02', 'C01']


def order_for(m):
    f, s = m['file'], m['scope']
    first = []
    if f.endswith('cli.py'):
        first = ['C19', 'C20', 'C08']
    elif f.endswith('s3.py'):
        first = ['C18', 'C10', 'C09']
    elif f.endswith('moscollection.py'):
        first = ['C09', 'C10', 'C11', 'C18', 'C07', 'C05', 'C06']
    elif f.endswith('moselements.py'):
        first = ['C15', 'C16', 'C17', 'C20', 'C12']
    elif f.endswith('xml.py'):
        first = ['C01', 'C02', 'C03', 'C04', 'C05', 'C06', 'C12']
    else:
        tail = s.split('.')[-1]
        cls = s.split('.')[0]
        if tail in ('merge', '__add__') or 'merge' in tail or tail.startswith('_find') or tail.startswith('_get_target'):
            if 'Item' in cls:
                first = ['C02', 'C06', 'C05', 'C03', 'C04', 'C12', 'C01']
            elif cls in ('RunningOrderEnd',):
                first = ['C07', 'C14', 'C05']
            elif cls in ('RunningOrder', 'MosFile'):
                first = ['C07', 'C05', 'C12', 'C13', 'C01']
            else:
                first = ['C01', 'C06', 'C05', 'C03', 'C04', 'C12', 'C02']
        elif tail in ('_classify', 'from_file', 'from_string', 'from_s3', '__init__', 'base_tag', '_base_tag') or 'classify' in tail:
            first = ['C08', 'C18', 'C12', 'C19']
        elif tail in ('__str__', 'to_dict', 'dict'):
            first = ['C14', 'C15']
        elif tail in ('__lt__', '__gt__', 'message_id', '__eq__'):
            first = ['C10', 'C09', 'C14']
        elif tail == 'inspect':
            first = ['C20', 'C19']
        elif cls == 'RunningOrder':
            first = ['C15', 'C16', 'C17', 'C07', 'C14']
        else:
            first = ['C20', 'C15', 'C04', 'C01', 'C02', 'C12']
    # sites that can reach a property only through one door are not run against the other checks
    if f.endswith('cli.py'):
        return ['C19', 'C20', 'C18', 'C08', 'C11']
    if f.endswith('s3.py'):
        return ['C18', 'C10', 'C09', 'C19', 'C11']
    if s.split('.')[-1] == 'inspect':
        return ['C20', 'C19', 'C13', 'C12']
    rest = [p for p in SPEED if p not in first]
    return first + rest


def check(jobs):
    muts = {m['id']: m for m in json.load(open(os.path.join(WORK, 'mutants.json')))}
    surv = [json.loads(l) for l in open(os.path.join(WORK, 'filter.jsonl'))]
    surv = sorted({r['id'] for r in surv if r['survives']})
    res_path = os.path.join(WORK, 'check.jsonl')
    done = set()
    if os.path.exists(res_path):
        done = {json.loads(l)['id'] for l in open(res_path)}
    only = os.environ.get('MUTSWEEP_ONLY')
    todo = [i for i in surv if i not in done]
    if only:
        todo = [int(x) for x in only.split(',')]
    random.Random(7).shuffle(todo)
    import threading
    lock = threading.Lock()

    def work(i):
        m = muts[i]
        root = os.path.join(WORK, f'c{i}')
        fresh_copy(root)
        scratch = tempfile.mkdtemp(prefix='mutsweep-ev-')
        hits, log = None, []
        try:
            apply_mutant(m, root)
            env = dict(os.environ, MRM_REPO=root, VERIF_EVIDENCE_DIR=scratch, VERIF_REPLAY_DIR=scratch,
                       PYTHONDONTWRITEBYTECODE='1')
            for pid in order_for(m):
                try:
                    p = subprocess.run([PY, '/verif/run.py', 'check', pid, '--tier', 'quick'], cwd='/verif', env=env,
                                       stdout=subprocess.PIPE, stderr=subprocess.STDOUT, text=True, timeout=1800)
                    rc, o = p.returncode, p.stdout
                except subprocess.TimeoutExpired:
                    rc, o = 2, 'timeout'
                v = [l for l in o.split('\n') if l.startswith('VIOLATION')]
                log.append((pid, rc, (v[0] if v else o.strip().split('\n')[-1])[:160]))
                if rc == 1 and v:
                    hits = pid
                    break
        finally:
            shutil.rmtree(root, ignore_errors=True)
            shutil.rmtree(scratch, ignore_errors=True)
        with lock:
            with open(res_path, 'a') as f:
                f.write(json.dumps({'id': i, 'detected_by': hits, 'log': log}) + '\n')
            print(i, m['file'], m['scope'], m['line'], m['op'], '->', hits, flush=True)
    with ThreadPoolExecutor(jobs) as ex:
        list(ex.map(work, todo))


def report():
    muts = {m['id']: m for m in json.load(open(os.path.join(WORK, 'mutants.json')))}
    filt_rows = {}
    for l in open(os.path.join(WORK, 'filter.jsonl')):
        r = json.loads(l)
        filt_rows[r['id']] = r
    chk = {}
    if os.path.exists(os.path.join(WORK, 'check.jsonl')):
        for l in open(os.path.join(WORK, 'check.jsonl')):
            r = json.loads(l)
            chk[r['id']] = r
    surv = [i for i, r in filt_rows.items() if r['survives']]
    out = ['# Mutation sweep (tools/mutation_sweep.py)', '',
           f'{len(muts)} first-order mutants of /repo/mosromgr; {len(filt_rows) - len(surv)} killed by the library\'s own '
           f'test suite; {len(surv)} survive it; {len(chk)} of the survivors were run against the quick checks.', '']
    det = [i for i in chk if chk[i]['detected_by']]
    und = [i for i in chk if not chk[i]['detected_by']]
    out.append(f'Reported by a check with a failing input or broken correspondence: {len(det)}; reported by none: {len(und)}.')
    out.append('')
    from collections import Counter
    c = Counter(chk[i]['detected_by'] for i in det)
    out.append('Detected by (first check tried that reports): ' + ', '.join(f'{k}: {v}' for k, v in sorted(c.items())))
    out.append('')
    out.append('## Survivors no check reports')
    out.append('')
    out.append('| id | site | operator | change | verdict |')
    out.append('|---|---|---|---|---|')
    verdicts = {}
    vp = '/verif/notes/mutation_verdicts.json'
    if os.path.exists(vp):
        verdicts = json.load(open(vp))
    for i in sorted(und):
        m = muts[i]
        old = m['old'].replace('\n', ' ').replace('|', '\\|')[:70]
        new = m['new'].replace('\n', ' ').replace('|', '\\|')[:70]
        key = f"{m['file']}:{m['line']}:{m['col']}:{m['op']}:{m['new'][:40]}"
        out.append(f"| {i} | {m['file']}:{m['line']} {m['scope']} | {m['op']} | `{old}` → `{new}` | {verdicts.get(key, '')} |")
    open('/verif/notes/mutation_sweep.md', 'w').write('\n'.join(out) + '\n')
    print('\n'.join(out[:12]))


if __name__ == '__main__':
    cmd = sys.argv[1]
    jobs = int(sys.argv[2]) if len(sys.argv) > 2 else 8
    {'gen': gen, 'filter': lambda: filt(jobs), 'check': lambda: check(jobs), 'report': report}[cmd]()
