#!/usr/bin/env python3
"""Informational: line/branch coverage of /repo/mosromgr reached by the quick checks (single process).
Writes notes/coverage_of_checks.txt.  Not part of any registered check."""
import glob, os, subprocess, sys, tempfile, shutil
PY = '/venv/bin/python'
tmp = tempfile.mkdtemp(prefix='mrm-cov-')
try:
    env = dict(os.environ, VERIF_COVERAGE=os.path.join(tmp, 'cov'), VERIF_EVIDENCE_DIR=tmp, VERIF_REPLAY_DIR=tmp)
    pids = sys.argv[1:] or subprocess.run([PY, '/verif/run.py', 'list'], capture_output=True, text=True).stdout.split()
    for pid in pids:
        p = subprocess.run([PY, '/verif/run.py', 'check', pid], cwd='/verif', env=env, capture_output=True, text=True)
        print(pid, p.stdout.strip().split('\n')[-1][:150]); sys.stdout.flush()
    subprocess.run([PY, '-m', 'coverage', 'combine', '--data-file', os.path.join(tmp, 'all')] + glob.glob(os.path.join(tmp, 'cov.*')), check=True, capture_output=True)
    rep = subprocess.run([PY, '-m', 'coverage', 'report', '--data-file', os.path.join(tmp, 'all'), '-m', '--include', '/repo/mosromgr/*'],
                         capture_output=True, text=True).stdout
    open('/verif/notes/coverage_of_checks.txt', 'w').write(rep)
    print(rep)
finally:
    shutil.rmtree(tmp, ignore_errors=True)
