#!/usr/bin/env python3
"""Confirm seeded defects: patch applies to /repo HEAD in a scratch worktree, the 196 tests pass
with it, the demo exits 1 with it and 0 without it.  Confirmed ones are copied to /verif/seeded/."""
import json, os, shutil, subprocess, sys
from concurrent.futures import ThreadPoolExecutor

SRC = os.environ.get('SEED_SRC', '/tmp/seed_out')
DST = '/verif/seeded'
PY = '/venv/bin/python'


def sh(cmd, cwd=None, env=None, timeout=900):
    p = subprocess.run(cmd, cwd=cwd, env=env, shell=isinstance(cmd, str), stdout=subprocess.PIPE,
                       stderr=subprocess.STDOUT, text=True, timeout=timeout)
    return p.returncode, p.stdout


def confirm(name):
    d = os.path.join(SRC, name)
    wt = f'/tmp/confirm_{name}'
    sh(f'git -C /repo worktree remove --force {wt}')
    rc, out = sh(f'git -C /repo worktree add -q --detach {wt} HEAD')
    res = {'name': name}
    try:
        env = dict(os.environ, PYTHONPATH=wt, PYTHONDONTWRITEBYTECODE='1')
        rc0, out0 = sh([PY, os.path.join(d, 'demo.py')], cwd=d, env=env)
        res['demo_without_patch_exit'] = rc0
        rc, out = sh(['git', 'apply', os.path.join(d, 'patch.diff')], cwd=wt)
        res['applies'] = rc == 0
        if rc != 0:
            res['apply_out'] = out[-500:]
            return res
        rc, out = sh([PY, '-m', 'pytest', '-q', '-p', 'no:cacheprovider', '-x'], cwd=wt, env=env)
        res['tests_pass'] = (rc == 0 and '196 passed' in out)
        res['tests_tail'] = out.strip().split('\n')[-1]
        rc1, out1 = sh([PY, os.path.join(d, 'demo.py')], cwd=d, env=env)
        res['demo_with_patch_exit'] = rc1
        res['demo_with_patch_tail'] = out1.strip().split('\n')[-3:]
        res['confirmed'] = res['applies'] and res['tests_pass'] and rc1 == 1 and rc0 == 0
    finally:
        sh(f'git -C /repo worktree remove --force {wt}')
    return res


def main():
    names = sorted(n for n in os.listdir(SRC) if os.path.isdir(os.path.join(SRC, n)) and
                   os.path.exists(os.path.join(SRC, n, 'patch.diff')))
    if len(sys.argv) > 1:
        names = [n for n in names if n in sys.argv[1:]]
    with ThreadPoolExecutor(8) as ex:
        results = list(ex.map(confirm, names))
    os.makedirs(DST, exist_ok=True)
    for r in results:
        print(json.dumps({k: v for k, v in r.items() if k != 'demo_with_patch_tail'}))
        if r.get('confirmed'):
            dst = os.path.join(DST, r['name'])
            os.makedirs(dst, exist_ok=True)
            for f in ('patch.diff', 'demo.py'):
                shutil.copy(os.path.join(SRC, r['name'], f), dst)
            meta = json.load(open(os.path.join(SRC, r['name'], 'meta.json')))
            meta['confirmed_by_main'] = {
                'ran': 'tools/confirm_seeded.py: scratch worktree of /repo HEAD; git apply patch.diff; '
                       'pytest (196 passed); demo.py exit 1 with patch, exit 0 without',
                'repo_head': subprocess.run(['git', '-C', '/repo', 'rev-parse', '--short', 'HEAD'],
                                            capture_output=True, text=True).stdout.strip(),
                'tests': r['tests_tail'], 'demo_with_patch_exit': r['demo_with_patch_exit'],
                'demo_without_patch_exit': r['demo_without_patch_exit']}
            json.dump(meta, open(os.path.join(dst, 'meta.json'), 'w'), indent=1)


if __name__ == '__main__':
    main()
