#!/usr/bin/env python3
"""notes/seeded_matrix_raw.txt (output of run_seeded.py --all-checks) -> notes/seeded_matrix.md"""
import collections, json, os, sys
raw = sys.argv[1] if len(sys.argv) > 1 else '/verif/notes/seeded_matrix_raw.txt'
by = collections.defaultdict(dict)
for l in open(raw):
    p = l.split(' ', 3)
    if len(p) >= 3 and p[0][:1] == 'C' and '_' in p[0]:
        by[p[0]][p[1]] = (p[2], p[3] if len(p) > 3 else '')
pids = sorted({p for m in by.values() for p in m})
out = ['# Seeded defects x checks (quick tier)', '',
       'F = reported with a failing input on the real code; N = reported as a broken correspondence only '
       '(`no-failing-input-found`); . = silent; ! = infrastructure failure. Own property in **bold** column position (the defect id prefix).', '',
       '| defect | ' + ' | '.join(pids) + ' |', '|---|' + '---|' * len(pids)]
for m in sorted(by):
    row = []
    for p in pids:
        v = by[m].get(p)
        if v is None:
            row.append(' ')
        elif v[0] == '1':
            row.append('N' if 'no-failing-input-found' in v[1] else 'F')
        elif v[0] == '0':
            row.append('.')
        else:
            row.append('!')
    out.append(f'| {m} | ' + ' | '.join(row) + ' |')
open('/verif/notes/seeded_matrix.md', 'w').write('\n'.join(out) + '\n')
own = [(m, by[m].get(m.split('_')[0], ('?', ''))) for m in sorted(by)]
print('own-check results:', collections.Counter(('F' if v[0] == '1' and 'no-failing' not in v[1] else 'N' if v[0] == '1' else v[0]) for _, v in own))
