#!/usr/bin/env python3
"""For every `fix:` commit of /repo: revert it on top of HEAD in a scratch worktree (never in /repo) and run the quick
check of every property the fix is recorded under in KNOWN_FINDINGS.json - each must report a violation again
("a fixed entry suppresses nothing").  Reverts that do not apply cleanly on HEAD are listed as such."""
import json, os, subprocess, sys, shutil, tempfile
from concurrent.futures import ThreadPoolExecutor
PY = '/venv/bin/python'


def sh(cmd, cwd=None, env=None):
    p = subprocess.run(cmd, cwd=cwd, env=env, stdout=subprocess.PIPE, stderr=subprocess.STDOUT, text=True)
    return p.returncode, p.stdout


def props_of(commit, findings):
    out = []
    for f in findings:
        if f.get('commit') and commit.startswith(f['commit'][:7]):
            out += [f['property']] + list(f.get('also_affects') or [])
    return sorted(set(out))


def one(args):
    commit, subject, pids = args
    wt = f'/tmp/revert_{commit[:7]}'
    sh(['git', '-C', '/repo', 'worktree', 'remove', '--force', wt])
    sh(['git', '-C', '/repo', 'worktree', 'add', '-q', '--detach', wt, 'HEAD'])
    res = {'commit': commit[:7], 'subject': subject, 'checks': {}}
    scratch = tempfile.mkdtemp(prefix='revert-ev-')
    try:
        rc, out = sh(['git', '-c', 'user.name=x', '-c', 'user.email=x@x', 'revert', '--no-commit', commit], cwd=wt)
        if rc != 0:
            res['reverts_cleanly'] = False
            return res
        res['reverts_cleanly'] = True
        rc, out = sh([PY, '-m', 'pytest', '-q', '-p', 'no:cacheprovider', '-x'], cwd=wt, env=dict(os.environ, PYTHONPATH=wt))
        res['tests'] = out.strip().split('\n')[-1]
        env = dict(os.environ, MRM_REPO=wt, VERIF_EVIDENCE_DIR=scratch, VERIF_REPLAY_DIR=scratch, PYTHONDONTWRITEBYTECODE='1')
        for pid in pids:
            rc, out = sh([PY, '/verif/run.py', 'check', pid], cwd='/verif', env=env)
            v = [l for l in out.split('\n') if l.startswith('VIOLATION')]
            res['checks'][pid] = (rc, (v[0] if v else out.strip().split('\n')[-1])[:140])
    finally:
        sh(['git', '-C', '/repo', 'worktree', 'remove', '--force', wt])
        shutil.rmtree(scratch, ignore_errors=True)
    return res


def main():
    kf = json.load(open('/verif/KNOWN_FINDINGS.json'))
    findings = kf['findings'] if isinstance(kf, dict) and 'findings' in kf else kf
    rc, log = sh(['git', '-C', '/repo', 'log', '--format=%H %s'])
    jobs = []
    for line in log.strip().split('\n'):
        h, subj = line.split(' ', 1)
        if subj.startswith('fix:'):
            pids = props_of(h, findings)
            jobs.append((h, subj, pids))
    with ThreadPoolExecutor(int(os.environ.get('REVERT_JOBS', '4'))) as ex:
        for r in ex.map(one, jobs):
            print(json.dumps(r))
            sys.stdout.flush()


if __name__ == '__main__':
    main()
