#!/venv/bin/python
"""Entry point of the verification machinery.

    run.py check <ID> [--tier quick|thorough]     decide one property (exit 0 / 1 / 2)
    run.py replay <replay.json>                   re-run a recorded failing input on the current tree
    run.py setup                                  build the Lean project and the driver
    run.py list                                   properties with a registered check

Exit codes: 0 = held on everything explored; 1 = VIOLATION line printed; 2 = infrastructure failure.
Environment: VERIF_SEED (int, default 0), VERIF_TIER (overrides --tier).
"""
import argparse
import json
import os
import sys
import traceback

HERE = os.path.dirname(os.path.abspath(__file__))
sys.path.insert(0, HERE)
os.environ.setdefault('PYTHONDONTWRITEBYTECODE', '1')
sys.dont_write_bytecode = True


def main(argv=None):
    ap = argparse.ArgumentParser()
    sub = ap.add_subparsers(dest='cmd', required=True)
    c = sub.add_parser('check')
    c.add_argument('pid')
    c.add_argument('--tier', default='quick', choices=['quick', 'thorough'])
    r = sub.add_parser('replay')
    r.add_argument('path')
    sub.add_parser('setup')
    sub.add_parser('list')
    args = ap.parse_args(argv)

    from harness import lean
    # every scratch file of a run (forked workers and subprocesses included) lives under one directory
    # that is removed when the run ends: pool workers do not run atexit handlers
    import shutil
    import tempfile
    scratch = None
    if args.cmd in ('check', 'replay'):
        scratch = tempfile.mkdtemp(prefix='mrm-run-')
        os.environ['TMPDIR'] = scratch
        tempfile.tempdir = scratch
    try:
        if args.cmd == 'setup':
            ok, secs, out = lean.lake_build()
            print(out[-3000:])
            print(f'lake build: {"ok" if ok else "FAILED"} in {secs:.1f}s')
            return 0 if ok else 2
        from harness import registry
        if args.cmd == 'list':
            for pid in sorted(registry.CHECKS):
                print(pid)
            return 0
        if args.cmd == 'check':
            tier = os.environ.get('VERIF_TIER') or args.tier
            if tier not in ('quick', 'thorough'):
                tier = args.tier
            seed = int(os.environ.get('VERIF_SEED', '0') or 0)
            if args.pid not in registry.CHECKS:
                print(f'no check registered for {args.pid}')
                return 2
            return registry.run_check(args.pid, tier, seed)
        if args.cmd == 'replay':
            with open(args.path, encoding='utf-8') as f:
                payload = json.load(f)
            return registry.replay(payload)
    except lean.InfraError as e:
        print(f'INFRASTRUCTURE FAILURE: {e}')
        return 2
    except Exception:  # noqa: BLE001
        traceback.print_exc()
        print('INFRASTRUCTURE FAILURE: unexpected exception in the harness')
        return 2
    finally:
        if scratch:
            shutil.rmtree(scratch, ignore_errors=True)
    return 2


if __name__ == '__main__':
    sys.exit(main())
