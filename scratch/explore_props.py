import sys, time, collections, json
sys.path.insert(0, '/verif')
from harness import gen_pos, impl, lean, treejson as TJ
cases = list(gen_pos.all_cases(sys.argv[1] if len(sys.argv) > 1 else 'quick'))
reqs = []; obs = []
for c in cases:
    ro_text = TJ.to_text(c['ro']); msg_text = TJ.to_text(c['msg'])
    ro_t = TJ.parse(ro_text); msg_t = TJ.parse(msg_text)
    k = impl.classify_text(msg_text)
    if 'err' in k:
        obs.append(None); reqs.append({'op': 'add', 'ro': ro_t, 'msg': msg_t}); continue
    o = impl.add_texts(ro_text, msg_text)
    obs.append(o)
    reqs.append({'op': 'add', 'ro': ro_t, 'msg': msg_t, 'impl': o})
resp = lean.run_batch(reqs)
stat = collections.Counter(); ex = {}
for c, o, r in zip(cases, obs, resp):
    if o is None: stat['classify_err'] += 1; continue
    if r['model'] != o: stat['DISAGREE'] += 1; ex.setdefault('DISAGREE', c['label'])
    for pid, v in r['props'].items():
        key = (pid, 'dom' if v['dom'] else 'out', 'holds' if v['holds'] else 'FAILS')
        stat[key] += 1
        if not v['holds'] and v['dom']:
            ex.setdefault(key + (c['cls'],), (c['label'], o['err'], o['warns']))
for k in sorted(stat, key=str): print(k, stat[k])
for k in sorted(ex, key=str): print('EX', k, ex[k])
