import sys, time, collections, json
sys.path.insert(0, '/verif')
from harness import gen_pos, impl, lean, treejson as TJ

t0 = time.time()
cases = list(gen_pos.all_cases(sys.argv[1] if len(sys.argv) > 1 else 'quick'))
print('cases', len(cases), 'gen', round(time.time() - t0, 2))
byc = collections.Counter(c['cls'] for c in cases)
print(dict(byc))
t0 = time.time()
reqs = []; obs = []
ncls = 0
for c in cases:
    ro_text = TJ.to_text(c['ro']); msg_text = TJ.to_text(c['msg'])
    ro_t = TJ.parse(ro_text); msg_t = TJ.parse(msg_text)
    k = impl.classify_text(msg_text)
    if 'err' in k:
        o = {'err': 'classify:' + k['err'], 'warns': [], 'ro': ro_t}
        ncls += 1
    else:
        if k['kind'] != c['cls']:
            print('CLASS MISMATCH', c['label'], k)
        o = impl.add_texts(ro_text, msg_text)
    obs.append(o)
    reqs.append({'op': 'add', 'ro': ro_t, 'msg': msg_t})
print('impl', round(time.time() - t0, 2), 'classify errs', ncls)
t0 = time.time()
resp = lean.run_batch(reqs)
print('model', round(time.time() - t0, 2))
dis = collections.Counter(); ex = {}
for c, o, r in zip(cases, obs, resp):
    me = r['err']
    oe = o['err']
    if oe and oe.startswith('classify:'):
        oe = oe[len('classify:'):]
    if me != oe or r['warns'] != o['warns'] or r['ro'] != o['ro']:
        what = ('err' if me != oe else '') + ('warn' if r['warns'] != o['warns'] else '') + ('tree' if r['ro'] != o['ro'] else '')
        dis[(c['cls'], what)] += 1
        ex.setdefault((c['cls'], what), (c['label'], oe, me, o['warns'], r['warns']))
print('disagreements', sum(dis.values()))
for k in sorted(dis):
    print(k, dis[k], ex[k])

if len(sys.argv) > 2 and sys.argv[2] == 'dump':
    import os, hashlib
    best = {}
    for c, o, r in zip(cases, obs, resp):
        oe = o['err']
        if oe and oe.startswith('classify:'): oe = oe[len('classify:'):]
        if r['err'] != oe or r['warns'] != o['warns'] or r['ro'] != o['ro']:
            what = ('err' if r['err'] != oe else '') + ('warn' if r['warns'] != o['warns'] else '') + ('tree' if r['ro'] != o['ro'] else '')
            key = (c['cls'], what)
            size = len(json.dumps(c['ro'])) + len(json.dumps(c['msg']))
            # prefer cases where the impl did not crash (pure ordering defects) and small size
            if key not in best or size < best[key][0]:
                best[key] = (size, c, o, r)
    os.makedirs('corpus', exist_ok=True)
    for (cls, what), (size, c, o, r) in sorted(best.items()):
        d = {'origin': 'pinned tree 33ae397, first correspondence run', 'label': c['label'], 'cls': cls,
             'ro_text': TJ.to_text(c['ro']), 'msg_text': TJ.to_text(c['msg']),
             'pinned_impl': {'err': o['err'], 'warns': o['warns'], 'ro_text': TJ.to_text(o['ro'])},
             'model': {'err': r['err'], 'warns': r['warns'], 'ro_text': TJ.to_text(r['ro'])}}
        with open(f'corpus/pinned-{cls}-{what}.json', 'w') as f:
            json.dump(d, f, indent=1, ensure_ascii=False)
    print('dumped', len(best))
