import Lean.Data.Json
open Lean

inductive Xml where
  | node (tag : String) (attrs : List (String × String)) (text : Option String) (tail : Option String) (kids : List Xml)
deriving Inhabited

def optStr : Json → Except String (Option String)
  | .null => pure none
  | .str s => pure (some s)
  | _ => throw "optStr"

partial def Xml.ofJson : Json → Except String Xml
  | .arr #[.str tag, .arr attrs, tx, tl, .arr kids] => do
    let as ← attrs.toList.mapM fun
      | .arr #[.str k, .str v] => pure (k, v)
      | _ => throw "attr"
    let ks ← kids.toList.mapM Xml.ofJson
    pure (.node tag as (← optStr tx) (← optStr tl) ks)
  | _ => throw "node"

def optJ : Option String → Json | none => .null | some s => .str s
partial def Xml.toJson : Xml → Json
  | .node t a x tl ks => .arr #[.str t, .arr (a.map fun (k,v) => .arr #[.str k, .str v]).toArray, optJ x, optJ tl, .arr (ks.map Xml.toJson).toArray]

def Xml.kids : Xml → List Xml | .node _ _ _ _ k => k
def Xml.tag : Xml → String | .node t _ _ _ _ => t
def Xml.text : Xml → Option String | .node _ _ x _ _ => x

partial def loop (h : IO.FS.Stream) (out : IO.FS.Stream) : IO Unit := do
  let line ← h.getLine
  if line.isEmpty then return ()
  match Json.parse line with
  | .error e => out.putStrLn (Json.compress (Json.mkObj [("error", .str e)]))
  | .ok j =>
    match (j.getObjVal? "doc").bind Xml.ofJson with
    | .error e => out.putStrLn (Json.compress (Json.mkObj [("error", .str e)]))
    | .ok x =>
      let lens := x.kids.map fun k => (k.text.getD "").length
      out.putStrLn (Json.compress (Json.mkObj [("doc", x.toJson), ("lens", toJson lens)]))
  out.flush
  loop h out

def main : IO Unit := do
  let i ← IO.getStdin
  let o ← IO.getStdout
  loop i o
