variable {α : Type}

def pyInsert (l : List α) (i : Nat) (x : α) : List α := l.take i ++ x :: l.drop i

def insertMany : List α → Nat → List α → List α
  | l, _, [] => l
  | l, i, x :: xs => insertMany (pyInsert l i x) (i+1) xs

theorem pyInsert_split (a b : List α) (x : α) : pyInsert (a ++ b) a.length x = a ++ x :: b := by
  simp [pyInsert]

theorem insertMany_split (a b xs : List α) :
    insertMany (a ++ b) a.length xs = a ++ xs ++ b := by
  induction xs generalizing a with
  | nil => simp [insertMany]
  | cons x xs ih =>
    simp only [insertMany, pyInsert_split]
    have := ih (a ++ [x])
    simpa using this

theorem insertMany_eq (l : List α) (i : Nat) (xs : List α) (h : i ≤ l.length) :
    insertMany l i xs = l.take i ++ xs ++ l.drop i := by
  have := insertMany_split (l.take i) (l.drop i) xs
  simpa [List.length_take, Nat.min_eq_left h] using this
#print axioms insertMany_eq
