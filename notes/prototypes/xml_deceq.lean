inductive Xml where
  | node (tag : String) (attrs : List (String × String)) (text : Option String) (tail : Option String) (kids : List Xml)
deriving Repr, Inhabited

mutual
def Xml.decEq : (a b : Xml) → Decidable (a = b)
  | .node t1 a1 x1 l1 k1, .node t2 a2 x2 l2 k2 =>
    if h1 : t1 = t2 then
      if h2 : a1 = a2 then
        if h3 : x1 = x2 then
          if h4 : l1 = l2 then
            match Xml.decEqList k1 k2 with
            | isTrue h5 => isTrue (by subst h1 h2 h3 h4 h5; rfl)
            | isFalse h5 => isFalse (by intro h; injection h with _ _ _ _ h; exact h5 h)
          else isFalse (by intro h; injection h with _ _ _ h _; exact h4 h)
        else isFalse (by intro h; injection h with _ _ h _ _; exact h3 h)
      else isFalse (by intro h; injection h with _ h _ _ _; exact h2 h)
    else isFalse (by intro h; injection h with h _ _ _ _; exact h1 h)
def Xml.decEqList : (as bs : List Xml) → Decidable (as = bs)
  | [], [] => isTrue rfl
  | [], _ :: _ => isFalse (by intro h; cases h)
  | _ :: _, [] => isFalse (by intro h; cases h)
  | a :: as, b :: bs =>
    match Xml.decEq a b, Xml.decEqList as bs with
    | isTrue h1, isTrue h2 => isTrue (by subst h1 h2; rfl)
    | isFalse h1, _ => isFalse (by intro h; injection h with h _; exact h1 h)
    | _, isFalse h2 => isFalse (by intro h; injection h with _ h; exact h2 h)
end
instance : DecidableEq Xml := Xml.decEq

def Xml.kids : Xml → List Xml | .node _ _ _ _ k => k
def Xml.tag : Xml → String | .node t _ _ _ _ => t
def Xml.size : Xml → Nat
  | .node _ _ _ _ k => 1 + sizeList k
where sizeList : List Xml → Nat
  | [] => 0
  | x :: xs => x.size + sizeList xs

def Xml.descendants : Xml → List Xml
  | .node _ _ _ _ k => go k
where go : List Xml → List Xml
  | [] => []
  | x :: xs => x :: x.descendants ++ go xs

example : Xml.node "a" [] none none [Xml.node "b" [] none none []] ≠ Xml.node "a" [] none none [] := by decide
#eval (Xml.node "a" [] none none [Xml.node "b" [] none none [.node "c" [("x","y")] (some "t") none []]]).descendants.map (·.tag)
#print axioms Xml.decEq
