inductive Xml where
  | node (tag : String) (attrs : List (String × String)) (text : Option String) (tail : Option String) (kids : List Xml)
deriving Repr, Inhabited

inductive Tok where
  | op (tag : String) (attrs : List (String × String))
  | cl
  | chars (s : String)
deriving Repr, DecidableEq

def optChars : Option String → List Tok
  | none => []
  | some s => [.chars s]

mutual
def tokens : Xml → List Tok
  | .node t a x tl ks => .op t a :: (optChars x ++ tokensL ks ++ [.cl]) ++ optChars tl
def tokensL : List Xml → List Tok
  | [] => []
  | k :: ks => tokens k ++ tokensL ks
end

def takeChars : List Tok → Option String × List Tok
  | .chars s :: r => (some s, r)
  | r => (none, r)

-- fuel-based recursive descent mirroring TreeBuilder
mutual
def parseElem : Nat → List Tok → Option (Xml × List Tok)
  | 0, _ => none
  | n+1, .op t a :: r =>
    let (x, r1) := takeChars r
    match parseKids n r1 with
    | some (ks, r2) =>
      let (tl, r3) := takeChars r2
      some (.node t a x tl ks, r3)
    | none => none
  | _+1, _ => none
def parseKids : Nat → List Tok → Option (List Xml × List Tok)
  | 0, _ => none
  | _+1, .cl :: r => some ([], r)
  | n+1, r =>
    match parseElem n r with
    | some (k, r1) =>
      match parseKids n r1 with
      | some (ks, r2) => some (k :: ks, r2)
      | none => none
    | none => none
end

/-- rest must not start with chars (else it would be swallowed as a tail) -/
def NoLeadChars : List Tok → Prop
  | .chars _ :: _ => False
  | _ => True

mutual
def Xml.sz : Xml → Nat
  | .node _ _ _ _ ks => 1 + szL ks
def szL : List Xml → Nat
  | [] => 1
  | k :: ks => k.sz + szL ks + 1
end

theorem takeChars_opt (o : Option String) (r : List Tok) (h : NoLeadChars r) :
    takeChars (optChars o ++ r) = (o, r) := by
  cases o with
  | none =>
    simp [optChars]
    cases r with
    | nil => rfl
    | cons t r => cases t <;> simp_all [takeChars, NoLeadChars]
  | some s => simp [optChars, takeChars]

theorem noLead_tokens (t : Xml) (r : List Tok) : NoLeadChars (tokens t ++ r) := by
  cases t; simp [tokens, NoLeadChars]

theorem noLead_tokensL_cl (ks : List Xml) (r : List Tok) : NoLeadChars (tokensL ks ++ .cl :: r) := by
  cases ks with
  | nil => simp [tokensL, NoLeadChars]
  | cons k ks => simp only [tokensL, List.append_assoc]; exact noLead_tokens _ _

mutual
theorem parseElem_tokens (t : Xml) (r : List Tok) (n : Nat) (hn : t.sz < n) (hr : NoLeadChars r) :
    parseElem n (tokens t ++ r) = some (t, r) := by
  match t, n with
  | .node tg a x tl ks, n+1 =>
    simp only [tokens, List.cons_append, List.append_assoc, parseElem]
    rw [takeChars_opt x _ (noLead_tokensL_cl ks _)]
    simp only
    have hk : szL ks < n := by simp [Xml.sz] at hn; omega
    have := parseKids_tokens ks (optChars tl ++ r) n hk
    rw [List.nil_append, this]
    simp only
    rw [takeChars_opt tl r hr]
theorem parseKids_tokens (ks : List Xml) (r : List Tok) (n : Nat) (hn : szL ks < n) :
    parseKids n (tokensL ks ++ .cl :: r) = some (ks, r) := by
  match ks, n with
  | [], n+1 => simp [tokensL, parseKids]
  | k :: ks, n+1 =>
    have h1 : k.sz < n := by simp [szL] at hn; omega
    have h2 : szL ks < n := by simp [szL] at hn; omega
    have e1 := parseElem_tokens k (tokensL ks ++ .cl :: r) n h1 (noLead_tokensL_cl ks r)
    have e2 := parseKids_tokens ks r n h2
    simp only [tokensL, List.append_assoc]
    cases k with
    | node tg a x tl kk =>
      simp only [tokens, List.cons_append, List.append_assoc] at e1 ⊢
      simp only [parseKids]
      rw [e1]; simp only; rw [e2]
end

theorem roundtrip (t : Xml) : parseElem (t.sz + 1) (tokens t) = some (t, []) := by
  have := parseElem_tokens t [] (t.sz + 1) (by omega) (by simp [NoLeadChars])
  simpa using this
#print axioms roundtrip
