variable {α : Type}

def pyInsert (l : List α) (i : Nat) (x : α) : List α := l.take i ++ x :: l.drop i

/-- find_child: index of first element satisfying p -/
def locate (p : α → Bool) (l : List α) : Option Nat := l.findIdx? p

theorem locate_split {p : α → Bool} {l : List α} {i : Nat} (h : locate p l = some i) :
    ∃ a x b, l = a ++ x :: b ∧ a.length = i ∧ p x = true ∧ ∀ y ∈ a, p y = false := by
  unfold locate at h
  rw [List.findIdx?_eq_some_iff_getElem] at h
  obtain ⟨hi, hp, hlt⟩ := h
  refine ⟨l.take i, l[i], l.drop (i+1), ?_, ?_, hp, ?_⟩
  · simp
  · simp [List.length_take]; omega
  · intro y hy
    rw [List.mem_take_iff_getElem] at hy
    obtain ⟨j, hj, rfl⟩ := hy
    have := hlt j (by omega)
    simpa using this

theorem locate_append_of_none {p : α → Bool} {a : List α} (x : α) (b : List α)
    (ha : ∀ y ∈ a, p y = false) (hx : p x = true) : locate p (a ++ x :: b) = some a.length := by
  unfold locate
  rw [List.findIdx?_eq_some_iff_getElem]
  refine ⟨by simp, by simp [hx], ?_⟩
  intro j hj
  have : (a ++ x :: b)[j]'(by simp; omega) = a[j] := by simp [List.getElem_append_left hj]
  rw [this]; simpa using ha _ (List.getElem_mem hj)

/-- single move, fixed-code style: remove source, locate target afterwards, insert -/
def move1 (ps pt : α → Bool) (l : List α) : Option (List α) :=
  match locate ps l with
  | none => none
  | some i =>
    let x := l[i]?
    let l' := l.eraseIdx i
    match locate pt l', x with
    | some j, some x => some (pyInsert l' j x)
    | _, _ => none

/-- source before target -/
theorem move1_fwd (ps pt : α → Bool) (a b c : List α) (s t : α)
    (hs : ps s) (ht : pt t) (has : ∀ y ∈ a, ps y = false)
    (hat : ∀ y ∈ a, pt y = false) (hbt : ∀ y ∈ b, pt y = false) :
    move1 ps pt (a ++ s :: b ++ t :: c) = some (a ++ b ++ s :: t :: c) := by
  have h1 : locate ps (a ++ s :: b ++ t :: c) = some a.length := by
    have := locate_append_of_none (p := ps) s (b ++ t :: c) has hs
    simpa using this
  have h2 : (a ++ s :: b ++ t :: c).eraseIdx a.length = a ++ b ++ t :: c := by
    simp [List.eraseIdx_append_of_length_le]
  have h3 : locate pt (a ++ b ++ t :: c) = some (a ++ b).length := by
    apply locate_append_of_none t c _ ht
    intro y hy; rcases List.mem_append.mp hy with h | h
    · exact hat y h
    · exact hbt y h
  have h4 : (a ++ s :: b ++ t :: c)[a.length]? = some s := by simp
  simp only [move1, h1, h2, h3, h4]
  congr 1
  have := @pyInsert_split
  sorry
