/-- a tree whose nodes carry their object identity -/
inductive LX where
  | node (lbl : Nat) (tag : String) (kids : List LX)
deriving Repr, Inhabited

mutual
def LX.labels : LX → List Nat
  | .node l _ ks => l :: labelsL ks
def labelsL : List LX → List Nat
  | [] => []
  | k :: ks => k.labels ++ labelsL ks
end

-- apply `f` to the child list of every node labelled `l` (aliasing: every occurrence)
mutual
def LX.upd (l : Nat) (f : List LX → List LX) : LX → LX
  | .node l' t ks => .node l' t (if l' = l then f (updL l f ks) else updL l f ks)
def updL (l : Nat) (f : List LX → List LX) : List LX → List LX
  | [] => []
  | k :: ks => k.upd l f :: updL l f ks
end

mutual
theorem upd_of_not_mem (l : Nat) (f : List LX → List LX) (t : LX) (h : l ∉ t.labels) : t.upd l f = t := by
  match t with
  | .node l' tg ks =>
    simp only [LX.labels, List.mem_cons, not_or] at h
    have hk := updL_of_not_mem l f ks h.2
    simp only [LX.upd, hk]
    have : ¬ l' = l := fun e => h.1 e.symm
    simp [this]
theorem updL_of_not_mem (l : Nat) (f : List LX → List LX) (ts : List LX) (h : l ∉ labelsL ts) : updL l f ts = ts := by
  match ts with
  | [] => rfl
  | k :: ks =>
    simp only [labelsL, List.mem_append, not_or] at h
    simp only [updL, upd_of_not_mem l f k h.1, updL_of_not_mem l f ks h.2]
end

-- relabel with fresh labels starting at n (deepcopy); returns next free label
mutual
def LX.copy (n : Nat) : LX → LX × Nat
  | .node _ t ks => let (ks', n') := copyL (n+1) ks; (.node n t ks', n')
def copyL (n : Nat) : List LX → List LX × Nat
  | [] => ([], n)
  | k :: ks => let (k', n1) := k.copy n; let (ks', n2) := copyL n1 ks; (k' :: ks', n2)
end

mutual
theorem copy_labels_ge (n : Nat) (t : LX) : (∀ l ∈ (t.copy n).1.labels, n ≤ l ∧ l < (t.copy n).2) ∧ n < (t.copy n).2 := by
  match t with
  | .node _ tg ks =>
    have ih := copyL_labels_ge (n+1) ks
    simp only [LX.copy, LX.labels]
    constructor
    · intro l hl
      simp only [List.mem_cons] at hl
      rcases hl with rfl | hl
      · exact ⟨Nat.le_refl _, by omega⟩
      · have := ih.1 l hl; omega
    · omega
theorem copyL_labels_ge (n : Nat) (ts : List LX) : (∀ l ∈ labelsL (copyL n ts).1, n ≤ l ∧ l < (copyL n ts).2) ∧ n ≤ (copyL n ts).2 := by
  match ts with
  | [] => simp [copyL, labelsL]
  | k :: ks =>
    have h1 := copy_labels_ge n k
    have h2 := copyL_labels_ge (k.copy n).2 ks
    simp only [copyL, labelsL]
    constructor
    · intro l hl
      simp only [List.mem_append] at hl
      rcases hl with hl | hl
      · have := h1.1 l hl; omega
      · have := h2.1 l hl; omega
    · omega
end
#print axioms upd_of_not_mem
#print axioms copy_labels_ge
