structure Reader where
  id : Int
  payload : String
deriving DecidableEq, Repr

def le (a b : Reader) : Bool := decide (a.id ≤ b.id)
def sortReaders (l : List Reader) : List Reader := l.mergeSort le

theorem le_trans' (a b c : Reader) : le a b = true → le b c = true → le a c = true := by
  simp [le]; omega
theorem le_total' (a b : Reader) : (le a b || le b a) = true := by
  simp [le]; omega

theorem sort_sorted (l : List Reader) : (sortReaders l).Pairwise (fun a b => le a b = true) :=
  List.pairwise_mergeSort le_trans' le_total' l

theorem inj_of_nodup_map {l : List Reader} (h : (l.map (·.id)).Nodup) {a b : Reader}
    (ha : a ∈ l) (hb : b ∈ l) (e : a.id = b.id) : a = b := by
  induction l with
  | nil => simp at ha
  | cons x xs ih =>
    simp only [List.map_cons, List.nodup_cons, List.mem_map, not_exists, not_and] at h
    simp only [List.mem_cons] at ha hb
    rcases ha with rfl | ha <;> rcases hb with rfl | hb
    · rfl
    · exact absurd e.symm (h.1 b hb)
    · exact absurd e (h.1 a ha)
    · exact ih h.2 ha hb

theorem sort_perm_invariant (l l' : List Reader) (hnd : (l.map (·.id)).Nodup) (hp : l'.Perm l) :
    sortReaders l' = sortReaders l := by
  apply List.Perm.eq_of_pairwise (le := fun a b => le a b = true)
  · intro a b ha hb hab hba
    have ha' : a ∈ l := by simpa [sortReaders] using (List.mem_mergeSort.mp ha) |> hp.subset
    have hb' : b ∈ l := by simpa [sortReaders] using (List.mem_mergeSort.mp hb)
    have hid : a.id = b.id := by simp [le] at hab hba; omega
    exact inj_of_nodup_map hnd ha' hb' hid
  · exact sort_sorted l'
  · exact sort_sorted l
  · exact ((List.mergeSort_perm l' le).trans hp).trans (List.mergeSort_perm l le).symm
#print axioms sort_perm_invariant
example : sortReaders [⟨100,"c"⟩, ⟨9,"a"⟩, ⟨10,"b"⟩] = [⟨9,"a"⟩, ⟨10,"b"⟩, ⟨100,"c"⟩] := by
  have h := sort_perm_invariant [⟨9,"a"⟩, ⟨10,"b"⟩, ⟨100,"c"⟩] [⟨100,"c"⟩, ⟨9,"a"⟩, ⟨10,"b"⟩] (by decide) (by decide)
  rw [h]; exact List.mergeSort_of_pairwise (by decide)
