"""Which machinery decides which property."""
import glob
import json
import os

import random

from . import core, gen_fuzz, gen_pos, hist_run, merge_family, treejson as TJ

CHECKS = {}


def corpus_cases():
    """Minimised past failures (DESIGN.md §3.5): replayed first on every run."""
    out = []
    for path in sorted(glob.glob(os.path.join(core.VERIF, 'corpus', '*.json'))):
        with open(path, encoding='utf-8') as f:
            d = json.load(f)
        if 'ro_text' not in d or 'msg_text' not in d:
            continue
        try:
            out.append({'family': 'corpus', 'cls': d.get('cls', '?'),
                        'label': 'corpus:' + os.path.basename(path),
                        'ro': TJ.parse(d['ro_text']), 'msg': TJ.parse(d['msg_text'])})
        except Exception:  # noqa: BLE001
            continue
    return out


def merge_cases(pid, tier, seed):
    cases = corpus_cases() + gen_pos.odd_cases()
    if pid == 'C01':
        cases += list(gen_pos.story_cases() if tier == 'quick'
                      else gen_pos.story_cases(ns=(0, 1, 2, 3, 4, 5), max_src=3, big_patterns=gen_pos.B.PATTERNS))
    elif pid == 'C02':
        cases += list(gen_pos.item_cases(ms=(0, 1, 2, 3, 4), big_patterns=('every',)) if tier == 'quick'
                      else gen_pos.item_cases(ms=(0, 1, 2, 3, 4, 5), max_src=3, positions=(0, 1, 2),
                                              big_patterns=('plain', 'lead', 'between', 'trail', 'every')))
    else:
        if tier == 'quick':
            cases += list(gen_pos.story_cases(ns=(0, 1, 2, 3), patterns=('lead', 'none', 'every')))
            cases += list(gen_pos.item_cases(ms=(0, 1, 2, 3), item_patterns=('plain', 'every', 'first'), positions=(1,)))
        else:
            cases += list(gen_pos.story_cases(ns=(0, 1, 2, 3, 4, 5), max_src=3, big_patterns=('every', 'lead')))
            cases += list(gen_pos.item_cases(ms=(0, 1, 2, 3, 4), max_src=3, positions=(0, 1, 2)))
        cases += list(gen_pos.other_cases())
    # G-fuzz: random structural mutations (blanked / duplicated / dropped / look-alike children, attributes, tails)
    rng = random.Random(seed * 7 + 11)
    base = [c for c in cases if c['family'] in ('story', 'item', 'odd', 'other')]
    rng.shuffle(base)
    for c in base[:(1500 if tier == 'quick' else 15000)]:
        d = dict(c)
        which = rng.random()
        try:
            if which < 0.5:
                d['msg'] = gen_fuzz.mutate(rng, c['msg'])
            elif which < 0.8:
                d['ro'] = gen_fuzz.mutate(rng, c['ro'])
            else:
                d['msg'], d['ro'] = gen_fuzz.mutate(rng, c['msg']), gen_fuzz.mutate(rng, c['ro'])
            d.pop('msg_text', None)
            d.pop('ro_text', None)
            TJ.to_text(d['msg']), TJ.to_text(d['ro'])
        except Exception:  # noqa: BLE001 - a mutation that is not serialisable is dropped
            continue
        d['label'] = 'fuzz|' + c['label']
        d['family'] = 'fuzz'
        cases.append(d)
    # mixed content: the same cases with a distinct tail text after every element of both documents
    for c in base[:(1200 if tier == 'quick' else 12000):2] + [c for c in cases if c['family'] == 'odd'][::3]:
        d = dict(c)
        which = rng.random()
        d['ro'] = gen_fuzz.with_tails(c['ro'], 'r') if which < 0.8 else c['ro']
        d['msg'] = gen_fuzz.with_tails(c['msg'], 'm') if which > 0.4 else c['msg']
        d.pop('msg_text', None)
        d.pop('ro_text', None)
        d['label'] = 'tails|' + c['label']
        d['family'] = 'tails'
        cases.append(d)
    # G-hist: every step of seeded random histories run on live objects ("from every reachable state")
    n_hist = 150 if tier == 'quick' else 1500
    hists = hist_run.run_histories([seed * 100003 + k for k in range(n_hist)],
                                   max_steps=12 if tier == 'quick' else 40, live=True)
    cases += hist_run.history_cases(hists)
    # scripted: a message object is added, its content edited in the running order, and the same object added again
    cases += hist_run.history_cases(hist_run.run_reuse_histories())
    # scripted: a multi-element message fails at its k-th element, then valid messages touch what it had looked up
    cases += hist_run.history_cases(hist_run.run_fault_then_valid_histories())
    # scripted: histories on 2100-element running orders (count-preserving edits, then look-ups of the edited elements)
    cases += hist_run.history_cases(hist_run.run_big_histories())
    # scripted: every class of message into running orders whose timing metadata is nan / inf / out of range
    cases += hist_run.history_cases(hist_run.run_corner_histories())
    return cases


def make_merge_check(pid):
    def run(tier, seed):
        cases = merge_cases(pid, tier, seed)
        oc = merge_family.evaluate(pid, cases)
        if pid in ('C01', 'C02', 'C03', 'C04', 'C06'):
            merge_family.history_level(oc, pid, cases)
        if pid == 'C05':
            from . import coll_family
            coll_family.fault_collections_check(oc, tier)
        if pid == 'C06':
            # "nothing skipped silently" also holds for what a collection does with re-used readers and late messages
            from . import coll_family
            coll_family.completed_collections_check(oc, pid)
            coll_family.reuse_and_remerge_check(oc, pid)
        if pid == 'C07':
            # the collection's `completed`, before and after its merge, and collections over re-used readers
            from . import coll_family
            coll_family.run_stage_checks(oc, pid, tier, seed)
            # ... and the written-out running order read back through the command line (file, S3 prefix, S3 key)
            from . import io_family
            io_family.detect_completed_check(oc, pid)
            # ... and what the command line itself writes out (real processes; a failing and a late message among them)
            from . import ser_family
            ser_family.cli_written_out(oc)
        if pid == 'C12':
            # whether float() raises on a timing field is what a merge depends on: the model's grammar against the interpreter's
            from . import access_family
            access_family.numbers_check(oc, seed)
            # "classifying any well-formed XML document": through every documented source and declared encoding
            from . import io_family
            io_family.escape_check(oc, pid)
        oc.exhaustive = False
        oc.extra['exhaustive_part'] = 'the G-pos scope is enumerated completely; histories, fuzz and odd shapes are samples'
        oc.extra['scope'] = ('G-pos enumerated completely for the tier scope (see harness/gen_pos.py and '
                             'registry.merge_cases) + every step of seeded random state-aware histories run on '
                             'live objects (G-hist) + random structural mutations of those cases (G-fuzz) + unusual shapes (G-odd) + corpus of past failures')
        return oc
    return run


for _pid in ('C01', 'C02', 'C03', 'C04', 'C05', 'C06', 'C07', 'C12'):
    CHECKS[_pid] = {'run': make_merge_check(_pid), 'signatures': merge_family.SIGNATURES.get(_pid, {}), 'search': None}


from . import coll_family  # noqa: E402

CHECKS['C09'] = {'run': coll_family.run_c09, 'signatures': {}, 'search': None}
CHECKS['C10'] = {'run': coll_family.run_c10, 'signatures': {}, 'search': None}
CHECKS['C11'] = {'run': coll_family.run_c11, 'signatures': {}, 'search': None}


from . import access_family  # noqa: E402

for _pid in ('C15', 'C16', 'C17'):
    CHECKS[_pid] = {'run': (lambda pid: (lambda tier, seed: access_family.evaluate(pid, tier, seed)))(_pid),
                    'signatures': {}, 'search': None}


from . import class_family  # noqa: E402

CHECKS['C08'] = {'run': class_family.run_c08, 'signatures': {}, 'search': None}


from . import elem_family  # noqa: E402

CHECKS['C20'] = {'run': elem_family.run_c20, 'signatures': {}, 'search': None}


from . import ser_family  # noqa: E402

CHECKS['C14'] = {'run': ser_family.run_c14, 'signatures': ser_family.SIGNATURES, 'search': None}


from . import alias_family  # noqa: E402

CHECKS['C13'] = {'run': alias_family.run_c13, 'signatures': {}, 'search': None}


from . import io_family  # noqa: E402

CHECKS['C18'] = {'run': io_family.run_c18, 'signatures': {}, 'search': None}
CHECKS['C19'] = {'run': io_family.run_c19, 'signatures': {}, 'search': None}


def run_check(pid, tier, seed):
    chk = CHECKS[pid]
    return core.decide(pid, tier, seed, chk['run'], signatures=chk.get('signatures'),
                       search=chk.get('search'), assumptions=chk.get('assumptions', ()))


def replay(payload):
    pid = payload['property']
    fl = payload.get('failing_input')
    if fl is None:
        print(f'replay names a broken correspondence/theorem, not an input: {json.dumps(payload.get("broken"), default=str)[:600]}')
        # re-run the quick check: it re-evaluates the same correspondence and obligations
        return run_check(pid, 'quick', int(payload.get('seed', 0)))
    if fl.get('kind') == 'add':
        failing, detail = merge_family.replay_add(pid, fl)
        print(json.dumps(detail, indent=1, ensure_ascii=False)[:4000])
        if failing:
            print(f'VIOLATION property={pid} replay=(this file): still fails on the current tree')
            return 1
        print(f'{pid}: the recorded input no longer fails on the current tree')
        return 0
    handler = REPLAYERS.get(fl.get('kind'))
    if handler is None:
        print('unknown replay kind', fl.get('kind'))
        return 2
    return handler(pid, fl)


REPLAYERS = {'sources': io_family.replay_c18, 'sources-bytes': io_family.replay_c18, 'sources-escape': io_family.replay_c18, 'cli-noinput': io_family.replay_c19_s3, 'cli-detect-completed': io_family.replay_c19_s3, 'listing': io_family.replay_c18, 'collection-sources': io_family.replay_c18, 'cli': io_family.replay_c19, 'cli-s3': io_family.replay_c19_s3, 'cli-process': io_family.replay_c19_s3, 'alias-history': alias_family.replay, 'alias-targeted': alias_family.replay, 'alias-fresh-process': alias_family.replay, 'roundtrip': ser_family.replay, 'roundtrip-locale': ser_family.replay_locale, 'roundtrip-cli': ser_family.replay_cli, 'elements': elem_family.replay, 'elements-carried': elem_family.replay, 'elements-sources': elem_family.replay_sources, 'classify': class_family.replay, 'classify-bytes': class_family.replay, 'access': access_family.replay, 'access-text': access_family.replay_text, 'access-sources': access_family.replay_sources, 'collection': coll_family.replay, 'collection-perm': coll_family.replay, 'validate': coll_family.replay, 'collection-stages': coll_family.replay}
