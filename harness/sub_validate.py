"""Run in a fresh interpreter (e.g. `python -O -m harness.sub_validate in.json out.json`)."""
import json
import sys

from harness import coll_family


def main():
    inp, outp = sys.argv[1], sys.argv[2]
    with open(inp) as f:
        cases = json.load(f)
    res = [coll_family.validate_obs(c['docs'], c['allow']) for c in cases]
    with open(outp, 'w') as f:
        json.dump({'optimize': sys.flags.optimize, 'results': res}, f)


if __name__ == '__main__':
    main()
