"""The decision rule shared by every check (DESIGN.md §2.2), the proof audit, evidence and replays."""
import hashlib
import json
import os
import re
import subprocess
import sys
import tempfile
import time

from . import lean

VERIF = lean.VERIF
EVIDENCE_DIR = os.environ.get('VERIF_EVIDENCE_DIR') or os.path.join(VERIF, 'evidence')
REPLAY_DIR = os.environ.get('VERIF_REPLAY_DIR') or os.path.join(VERIF, 'replays')
ALLOWED_AXIOMS = {'propext', 'Quot.sound', 'Classical.choice'}
FORBIDDEN = re.compile(r'\b(sorry|admit|native_decide|bv_decide|implemented_by|unsafe)\b|^\s*axiom\s|maxHeartbeats\s+0\b')

TRUSTED_BASE = [
    'Lean 4.33.0 kernel; axioms allowed in property theorems: propext, Quot.sound, Classical.choice '
    '(audited with #print axioms on every run; no sorry/admit/native_decide/bv_decide/axiom in sources)',
    'hand-written Lean model of mosromgr (lean/Mrm/Model): tied to /repo only by this correspondence '
    'check (differential execution on generated inputs), not proved equal to the Python text',
    'harness: treejson neutral ElementTree reader, document builders, JSON line protocol, driver JSON '
    'codec, error/warning canonicalisation',
    'CPython list.insert/remove/slicing, dict, sorted, int(), float() on dyadic decimals, '
    'xml.etree.ElementTree parser/serialiser, copy.deepcopy, warnings: modelled, not verified',
]


def stable_hash(obj):
    return hashlib.sha1(json.dumps(obj, sort_keys=True, ensure_ascii=False).encode('utf-8')).hexdigest()


class Outcome:
    """What one correspondence run produced for one property."""

    def __init__(self, pid):
        self.pid = pid
        self.evaluations = 0
        self.in_domain = 0
        self.disagreements = []   # model ≠ implementation on this property's projection
        self.failing = []         # inputs on which the REAL code's observation falsifies the spec
        self.nontrivial = set()   # hashes of distinct non-trivial inputs
        self.stats = {}
        self.samples = []
        self.exhaustive = False
        self.rule = ''
        self.extra = {}
        self.notes = []

    def count(self, key, n=1):
        self.stats[key] = self.stats.get(key, 0) + n


# ---- proof obligations ---------------------------------------------------------------------------

def theorems_for(pid):
    with open(os.path.join(lean.LEAN_DIR, 'theorems.json'), encoding='utf-8') as f:
        return json.load(f).get(pid, [])


def grep_forbidden():
    """Forbidden tokens in model/spec/proof sources (comments stripped)."""
    hits = []
    for root, _, files in os.walk(os.path.join(lean.LEAN_DIR, 'Mrm')):
        for fn in files:
            if not fn.endswith('.lean'):
                continue
            path = os.path.join(root, fn)
            src = open(path, encoding='utf-8').read()
            src = re.sub(r'/-.*?-/', lambda m: '\n' * m.group(0).count('\n'), src, flags=re.S)
            for n, line in enumerate(src.split('\n'), 1):
                line = line.split('--', 1)[0]
                if FORBIDDEN.search(line):
                    hits.append(f'{os.path.relpath(path, lean.LEAN_DIR)}:{n}: {line.strip()}')
    return hits


def audit(pid, tier='quick'):
    """Build, then check every theorem registered for `pid`: present, sorry-free, axioms allowed.
    Returns dict(ok, obligations, discharged, problems, build_s, checker_cmd)."""
    names = theorems_for(pid)
    ok_build, build_s, out = lean.lake_build()
    res = {'obligations': len(names), 'discharged': 0, 'problems': [], 'build_s': round(build_s, 2),
           'theorems': names,
           'checker_cmd': 'cd lean && lake build && lake env lean <generated #print axioms file> '
                          '(python run.py check %s)' % pid}
    if not ok_build:
        res['problems'].append('lake build failed: ' + out[-1500:])
        res['ok'] = False
        return res
    hits = grep_forbidden()
    if hits:
        res['problems'].append('forbidden tokens: ' + '; '.join(hits[:5]))
    if not names:
        res['problems'].append('no theorem registered')
        res['ok'] = False
        return res
    src = 'import Mrm.Props.All\nopen Mrm\n' + '\n'.join(f'#print axioms {n}' for n in names) + '\n'
    with tempfile.NamedTemporaryFile('w', suffix='.lean', delete=False, dir=os.path.join(lean.LEAN_DIR, '.lake')) as f:
        f.write(src)
        tmp = f.name
    try:
        p = subprocess.run(['lake', 'env', 'lean', tmp], cwd=lean.LEAN_DIR, stdout=subprocess.PIPE,
                           stderr=subprocess.STDOUT, text=True, timeout=900)
    finally:
        os.unlink(tmp)
    text = p.stdout
    found = {}
    for m in re.finditer(r"'([^']+)' depends on axioms: \[([^\]]*)\]", text, flags=re.S):
        found[m.group(1)] = {a.strip() for a in m.group(2).replace('\n', ' ').split(',') if a.strip()}
    for m in re.finditer(r"'([^']+)' does not depend on any axioms", text):
        found[m.group(1)] = set()
    for n in names:
        full = n if n.startswith('Mrm.') else 'Mrm.' + n
        ax = found.get(full, found.get(n))
        if ax is None:
            res['problems'].append(f'theorem {n} missing or does not compile')
            continue
        bad = ax - ALLOWED_AXIOMS
        if bad:
            res['problems'].append(f'theorem {n} depends on {sorted(bad)}')
            continue
        res['discharged'] += 1
    if p.returncode != 0 and not res['problems']:
        res['problems'].append('axiom audit failed: ' + text[-800:])
    if tier == 'thorough' and not res['problems']:
        # independent re-check of the compiled .olean files of every module the property theorems depend on
        mods = []
        for root, _, files in os.walk(os.path.join(lean.LEAN_DIR, 'Mrm')):
            for fn in files:
                if fn.endswith('.lean') and not fn.startswith('Driver'):
                    rel = os.path.relpath(os.path.join(root, fn), lean.LEAN_DIR)[:-5]
                    mods.append(rel.replace(os.sep, '.'))
        t0 = time.time()
        cache = os.path.join(lean.LEAN_DIR, '.lake', 'leanchecker.ok')
        with lean.build_lock():          # nobody rebuilds the .olean files while they are being re-checked
            digest = lean.olean_digest()
            cached = os.path.exists(cache) and open(cache).read().strip() == digest
            if cached:
                # the very same compiled files were already accepted by leanchecker (digest over every .olean)
                res['leanchecker'] = {'modules': len(mods), 'exit': 0, 'seconds': 0.0, 'cached_for_olean_digest': digest[:16]}
            else:
                try:
                    q = subprocess.run(['lake', 'env', 'leanchecker'] + sorted(mods), cwd=lean.LEAN_DIR, stdout=subprocess.PIPE,
                                       stderr=subprocess.STDOUT, text=True, timeout=3000)
                    res['leanchecker'] = {'modules': len(mods), 'exit': q.returncode, 'seconds': round(time.time() - t0, 1),
                                          'olean_digest': digest[:16]}
                    if q.returncode != 0:
                        res['problems'].append('leanchecker rejected the compiled modules: ' + q.stdout[-600:])
                    else:
                        with open(cache, 'w') as f:
                            f.write(digest)
                except subprocess.TimeoutExpired:
                    res['leanchecker'] = {'modules': len(mods), 'exit': 'timeout'}
    res['ok'] = not res['problems'] and res['discharged'] == res['obligations']
    return res


# ---- known findings ------------------------------------------------------------------------------

def load_findings():
    path = os.path.join(VERIF, 'KNOWN_FINDINGS.json')
    if not os.path.exists(path):
        return []
    with open(path, encoding='utf-8') as f:
        return json.load(f)['findings']


def match_open_finding(pid, failing, signatures):
    """Return the open finding whose signature function accepts this failing input, if any."""
    for fd in load_findings():
        if fd.get('property') != pid or fd.get('status') != 'open':
            continue
        fn = signatures.get(fd.get('signature'))
        if fn is not None and fn(failing):
            return fd
    return None


# ---- replay / evidence / verdict -----------------------------------------------------------------

def write_replay(pid, seed, n, payload):
    os.makedirs(REPLAY_DIR, exist_ok=True)
    path = os.path.join(REPLAY_DIR, f'{pid}-{seed}-{n}.json')
    with open(path, 'w', encoding='utf-8') as f:
        json.dump(payload, f, indent=1, ensure_ascii=False, default=str)
    return path


def write_evidence(pid, tier, seed, aud, oc, wall, violations, extra_assumptions=()):
    os.makedirs(EVIDENCE_DIR, exist_ok=True)
    cov = {
        'obligations': aud['obligations'],
        'discharged': aud['discharged'],
        'checker_cmd': aud['checker_cmd'],
        'trusted_base': TRUSTED_BASE,
        'theorems': aud['theorems'],
        'proof_problems': aud['problems'],
        'evaluations': oc.evaluations,
        'in_domain': oc.in_domain,
        'distinct_nontrivial': len(oc.nontrivial),
        'rule': oc.rule,
        'samples': oc.samples[:6],
        'exhaustive': oc.exhaustive,
        'correspondence_disagreements': len(oc.disagreements),
        'failing_inputs': len(oc.failing),
        'distribution': dict(sorted(oc.stats.items())),
        'lake_build_s': aud['build_s'],
    }
    if 'leanchecker' in aud:
        cov['leanchecker'] = aud['leanchecker']
    cov.update(oc.extra)
    ev = {
        'property_id': pid, 'tier': tier, 'seed': seed, 'level': 'proof', 'coverage': cov,
        'assumptions': ['the Lean model equals the Python code on all inputs, not only on the inputs generated by this run (validated by differential execution, not proved)',
                        'CPython / ElementTree / dateutil primitives behave as modelled (DESIGN.md section 8)',
                        'Lean 4.33.0 kernel; axioms propext, Quot.sound, Classical.choice'] + list(extra_assumptions) + oc.notes,
        'wall_s': round(wall, 2), 'violations': violations,
    }
    with open(os.path.join(EVIDENCE_DIR, f'{pid}.json'), 'w', encoding='utf-8') as f:
        json.dump(ev, f, indent=1, ensure_ascii=False, default=str)


def decide(pid, tier, seed, run, signatures=None, search=None, assumptions=()):
    """The rule of DESIGN.md §2.2.  `run(tier, seed) -> Outcome`; `search(outcome) -> [failing]` is the
    focused neighbourhood search used when the correspondence or a proof obligation is broken."""
    t0 = time.time()
    signatures = signatures or {}
    aud = audit(pid, tier)
    try:
        oc = run(tier, seed)
    except Exception as e:  # noqa: BLE001
        # The harness completes on the unchanged tree.  If it is the LIBRARY that raised (innermost frame in
        # mosromgr/) at a point where the harness does not expect it to, the code no longer behaves as the
        # model says: a broken correspondence, reported as such - not an infrastructure failure.
        import traceback
        from . import impl
        tb = traceback.extract_tb(e.__traceback__)
        if not (tb and os.path.abspath(tb[-1].filename).startswith(os.path.join(impl.REPO, 'mosromgr') + os.sep)):
            raise
        oc = Outcome(pid)
        oc.disagreements.append({'kind': 'harness-aborted', 'what': 'the library raised where the unchanged library (and the model) does not; '
                                 'the correspondence run could not complete', 'impl': impl.err_name(e),
                                 'traceback': [f'{f.filename}:{f.lineno} {f.name}' for f in tb[-6:]]})
        oc.rule = 'run aborted'
    lines = []
    n_viol = 0
    unlisted = []
    known_seen = {}
    for fl in oc.failing:
        fd = match_open_finding(pid, fl, signatures)
        if fd is not None:
            known_seen.setdefault(fd['signature'], (fd, fl))
        else:
            unlisted.append(fl)
    for sig, (fd, fl) in known_seen.items():
        lines.append(f'KNOWN-FINDING: property={pid} {fd["what"]}')
    broken = (not aud['ok']) or bool(oc.disagreements)
    if not unlisted and broken and search is not None:
        extra = [f for f in search(oc) if match_open_finding(pid, f, signatures) is None]
        unlisted.extend(extra)
    if unlisted:
        fl = min(unlisted, key=lambda f: len(json.dumps(f, default=str)))
        payload = {'property': pid, 'seed': seed, 'tier': tier, 'verdict': 'failing-input',
                   'failing_input': fl, 'other_failing_inputs': len(unlisted) - 1,
                   'contradicts': aud['theorems'], 'proof_problems': aud['problems']}
        path = write_replay(pid, seed, 0, payload)
        lines.append(f'VIOLATION property={pid} replay={path}')
        n_viol = len(unlisted)
    elif broken:
        what = {'proof_problems': aud['problems'],
                'first_disagreements': oc.disagreements[:3],
                'disagreements': len(oc.disagreements)}
        payload = {'property': pid, 'seed': seed, 'tier': tier, 'verdict': 'no-failing-input-found',
                   'broken': what, 'theorems': aud['theorems']}
        path = write_replay(pid, seed, 0, payload)
        lines.append(f'VIOLATION property={pid} replay={path} no-failing-input-found')
        n_viol = 1
    wall = time.time() - t0
    write_evidence(pid, tier, seed, aud, oc, wall, n_viol, assumptions)
    for l in lines:
        print(l)
    summary = (f'{pid} {tier} seed={seed}: theorems {aud["discharged"]}/{aud["obligations"]}, '
               f'{oc.evaluations} evaluations ({oc.in_domain} in domain, {len(oc.nontrivial)} distinct '
               f'non-trivial), {len(oc.disagreements)} disagreements, {len(oc.failing)} failing inputs, '
               f'{wall:.1f}s')
    print(summary)
    sys.stdout.flush()
    return 1 if n_viol else 0
