"""C13: the sharing monitor (object identity is runtime behaviour; the aliasing model's prediction —
separation: no Element object shared between a message and a running order, or between two
running orders, and none occurring twice — is observed on the real objects with id())."""
import json
import random
import warnings

from . import build as B, gen_hist, treejson as TJ
from .build import ABSENT, BLANK
from .core import Outcome, stable_hash
from .treejson import E


def ids_of(elem):
    return [id(e) for e in elem.iter()]


VIA = ['add']          # the entry point the histories of this family use: `ro + msg`, or `msg.merge(ro)` directly


def merge(ro, mo):
    from . import impl
    via = VIA[0]
    if via == 'merge' and ro.completed:
        via = 'add'        # (on a completed running order only `+` refuses: the direct call is for open ones)
    return impl.add(ro, mo, via=via)


def inspect_quietly(mo):
    """Everything a caller may LOOK at on a message object: inspect(), dict, repr, str of the element wrappers it
    exposes, their accessors.  Looking is not editing."""
    import contextlib, io
    try:
        with contextlib.redirect_stdout(io.StringIO()), warnings.catch_warnings():
            warnings.simplefilter('ignore')
            mo.inspect()
    except Exception:  # noqa: BLE001 - what inspect() prints or raises is C20's
        pass
    for read in (lambda: mo.dict, lambda: repr(mo), lambda: mo.message_id, lambda: mo.ro_id, lambda: mo.completed):
        try:
            read()
        except Exception:  # noqa: BLE001
            pass
    for name in ('story', 'stories', 'source_stories', 'target_story', 'source_story', 'item', 'items'):
        try:
            v = getattr(mo, name)
        except Exception:  # noqa: BLE001
            continue
        for w in (v if isinstance(v, list) else [v]):
            if w is None:
                continue
            for read in (lambda: str(w), lambda: repr(w), lambda: w.id, lambda: w.slug, lambda: [str(i) for i in w.items], lambda: w.body,
                         lambda: w.script, lambda: w.duration, lambda: w.note):
                try:
                    read()
                except Exception:  # noqa: BLE001
                    pass


def monitor_history(oc, hseed, tier):
    """One live history; after every step: separation, message objects unchanged, re-use = fresh."""
    from . import impl
    rng = random.Random(hseed)
    g = gen_hist.Gen(rng)
    ro_text = TJ.to_text(g.ro(rng.randrange(1, 5)))
    try:
        ro = impl.load(ro_text)
        other = impl.load(ro_text)             # a second running order fed by the same message objects
        assert type(ro).__name__ == 'RunningOrder'
    except Exception as e:  # noqa: BLE001
        oc.disagreements.append({'kind': 'load', 'what': 'the running-order document is not read as a RunningOrder (the model classifies it as one)',
                                 'impl': impl.err_name(e), 'text': ro_text[:1500]})
        return [ro_text]
    n = rng.randrange(2, (10 if tier == 'quick' else 25) + 1)
    merged = []                                # (text, object, str at merge time)
    docs = [ro_text]
    for k in range(n):
        state = TJ.to_tree(ro.xml)
        if merged and rng.random() < 0.15:
            # the same message object once more into the same running order (a retransmission)
            text, mo, _, cls = rng.choice(merged)
            docs.append(text)
        else:
            cls, msg = gen_hist.random_message(g, state, 700 + k, cls=rng.choice(CARRY_BIAS) if rng.random() < 0.6 else None)
            text = TJ.to_text(msg)
            docs.append(text)
            try:
                mo = impl.load(text)
            except Exception:  # noqa: BLE001
                continue
        before_msg = str(mo)
        if rng.random() < 0.5:
            inspect_quietly(mo)                # inspecting a message is not editing it
        ro_text_before = str(ro)
        o_step = merge(ro, mo)
        if oc.extra.get('pairs') is not None and TJ.parse(ro_text_before) == state:
            oc.extra['pairs'].append((ro_text_before, text, {'err': o_step['err'], 'warns': o_step['warns'], 'text': str(ro)},
                                      f'history seed={hseed} step {k} ({cls})'))
        merge(other, mo)                       # the same object into another running order
        merged.append((text, mo, before_msg, cls))
        oc.evaluations += 1
        oc.in_domain += 1
        oc.count('class:' + cls)
        rec = {'kind': 'alias-history', 'history': docs[:], 'label': f'history seed={hseed} after step {k} ({cls})'}
        bad = []
        ro_ids = ids_of(ro.xml)
        oth_ids = ids_of(other.xml)
        if len(set(ro_ids)) != len(ro_ids):
            bad.append('an Element occurs twice inside the running order')
        if set(ro_ids) & set(oth_ids):
            bad.append('two running orders share Element objects')
        for (t, m, s0, c) in merged:
            if set(ids_of(m.xml)) & (set(ro_ids) | set(oth_ids)):
                bad.append(f'a {c} message object shares Element objects with a running order')
                break
        for (t, m, s0, c) in merged:
            if str(m) != s0:
                bad.append(f'an earlier {c} message object was modified by the merge or by a later merge')
                break
        # re-use of an earlier message object == a freshly parsed copy
        if merged and rng.random() < 0.7:
            t, m, s0, c = rng.choice(merged)
            snapshot = str(ro)
            try:
                ra, rb = impl.load(snapshot), impl.load(snapshot)
            except Exception as e:  # noqa: BLE001
                oc.disagreements.append({'kind': 'load', 'what': 'the serialised running order is not read back (the model reads it as a RunningOrder)',
                                         'impl': impl.err_name(e), 'text': snapshot[:1500]})
                ra = None
            if ra is not None:
                oa = merge(ra, m)
                ob = merge(rb, impl.load(t))
                oc.count('reuse-checks')
                if (oa['err'], oa['warns'], str(ra)) != (ob['err'], ob['warns'], str(rb)):
                    bad.append(f're-merging the same {c} message object differs from merging a fresh copy')
        if bad:
            oc.failing.append(dict(rec, spec='; '.join(bad)))
        if cls in CARRY:
            h = stable_hash([hseed, k])
            oc.nontrivial.add(h)
    collection_reuse(oc, docs, f'history seed={hseed}')
    return docs


def collection_reuse(oc, docs, label):
    """The collection layer over the same messages: readers restore a fresh object every time, so two
    collections built from one list of readers never share a tree and merge to the same result."""
    from . import impl
    from mosromgr.moscollection import MosCollection, MosReader
    with warnings.catch_warnings():
        warnings.simplefilter('ignore')
        try:
            readers = [MosReader.from_string(t) for t in docs]
        except Exception:  # noqa: BLE001 - documents a reader cannot index (odd envelopes) belong to C18
            return
        oc.evaluations += 1
        oc.in_domain += 1
        oc.count('collection-reuse')
        bad = []
        for r in readers:
            a, b = r.mos_object, r.mos_object
            if a is b or set(ids_of(a.xml)) & set(ids_of(b.xml)):
                bad.append('a reader restores the same tree twice')
                break
        results = []
        trees = []
        for _ in range(2):
            try:
                mc = MosCollection(sorted(readers), allow_incomplete=True)
            except Exception as e:  # noqa: BLE001
                results.append(('invalid', impl.err_name(e)))
                continue
            first = str(mc.ro)
            try:
                mc.merge(strict=False)
            except Exception as e:  # noqa: BLE001
                results.append((first, 'merge raised ' + impl.err_name(e), str(mc.ro)))
            else:
                results.append((first, None, str(mc.ro)))
            trees.append(mc.ro.xml)
        if len(results) == 2 and results[0] != results[1]:
            bad.append('a second collection over the same readers starts from / merges to a different running order')
        if len(trees) == 2 and set(ids_of(trees[0])) & set(ids_of(trees[1])):
            bad.append('two collections over the same readers share Element objects')
    if bad:
        oc.failing.append({'kind': 'alias-history', 'history': list(docs), 'label': label + ' (collection over the same readers, twice)',
                           'spec': '; '.join(bad), 'collection': True})
    oc.nontrivial.add(stable_hash(['coll', docs]))


CARRY = {'StorySend', 'StoryAppend', 'StoryInsert', 'StoryReplace', 'ItemInsert', 'ItemReplace', 'MetaDataReplace',
         'RunningOrderReplace', 'RunningOrderEnd', 'EAStoryReplace', 'EAItemReplace', 'EAStoryInsert', 'EAItemInsert'}
CARRY_BIAS = sorted(CARRY - {'RunningOrderEnd'}) + ['ItemDelete', 'ItemInsert', 'ItemReplace', 'EAItemDelete', 'MetaDataReplace']


def _with_tails(t):
    t = list(t)
    t[4] = [list(c) for c in t[4]]
    for k, c in enumerate(t[4]):
        c[3] = f' note {k} between the elements '
    return t


def targeted(oc, when=''):
    """Three-step histories per carrying class: merge X; edit inside the carried story; inspect and re-use X."""
    from . import impl
    X = lambda: B.story('X', [B.item('X1'), B.p('text'), B.item('X2')], md=B.timing_md(duration='3'))
    carriers = {
        'StoryAppend': B.story_append([X()]),
        'StoryInsert': B.story_insert('A', [X()]),
        'StoryReplace': B.story_replace('A', [X()]),
        'StorySend': B.story_send('A', [B.item('X1'), B.p('text'), B.item('X2')]),
        'EAStoryInsert': B.ea('INSERT', {'storyID': 'A'}, [[X()]]),
        'EAStoryReplace': B.ea('REPLACE', {'storyID': 'A'}, [[X()]]),
        'EAStoryReplace-new-version-of-itself': B.ea('REPLACE', {'storyID': 'X'}, [[X()]]),
        'StoryReplace-new-version-of-itself': B.story_replace('X', [X()]),
        'StorySend-new-version-of-itself': B.story_send('X', [B.item('X1'), B.p('text'), B.item('X2')]),
        'RunningOrderReplace': B.ro_replace([X(), B.story('B', [B.item('I1')])]),
        'ItemInsert': B.item_insert('A', 'I1', [B.item('X1', extra=[E('note', text='n')])]),
        'ItemReplace': B.item_replace('A', 'I1', [B.item('X1', extra=[E('note', text='n')])]),
        'EAItemInsert': B.ea('INSERT', {'storyID': 'A', 'itemID': 'I1'}, [[B.item('X1')]]),
        'EAItemReplace': B.ea('REPLACE', {'storyID': 'A', 'itemID': 'I1'}, [[B.item('X1')]]),
        'MetaDataReplace': B.metadata_replace([E('roSlug', text='new'), B.timing_md(duration='5', schema='s1')]),
        'StoryAppend-namespaced-payload': B.story_append([B.story('X', [B.item('X1', extra=[E('mosExternalMetadata', E('mosPayload', E('{urn:example}Owner', text='o', attrs={'{urn:example}k': 'v'})))]),
                                                                        B.item('X2')])]),
        'StoryInsert-mixed-content': B.story_insert('A', [_with_tails(B.story('X', [B.item('X1'), B.p('text'), B.item('X2')]))]),
    }
    # messages that carry nothing: they look elements up, move, swap or delete them - re-used on a second running order
    # they must act on THAT running order, and their own tree stays as it was (targets absent, blank or present)
    movers = {
        'ItemMoveMultiple': B.item_move_multiple('A', ['X2', 'I1']),
        'ItemMoveMultiple-to-the-end': B.item_move_multiple('A', ['I1', BLANK]),
        'StoryMove': B.story_move(['X', 'A']),
        'StoryMove-to-the-end': B.story_move(['A', BLANK]),
        'EAStoryMove': B.ea('MOVE', {'storyID': 'A'}, [B.ids('storyID', ['X', 'B'])]),
        'EAStoryMove-no-target': B.ea('MOVE', ABSENT, [B.ids('storyID', ['A'])]),
        'EAStoryMove-blank-target': B.ea('MOVE', {'storyID': BLANK}, [B.ids('storyID', ['A', 'B'])]),
        'EAItemMove': B.ea('MOVE', {'storyID': 'A', 'itemID': 'I1'}, [B.ids('itemID', ['X2'])]),
        'EAItemMove-to-the-end': B.ea('MOVE', {'storyID': 'A', 'itemID': BLANK}, [B.ids('itemID', ['I1'])]),
        'EAStorySwap': B.ea('SWAP', ABSENT, [B.ids('storyID', ['A', 'X'])]),
        'EAStorySwap-blank-target': B.ea('SWAP', {'storyID': BLANK}, [B.ids('storyID', ['X', 'B'])]),
        'EAItemSwap': B.ea('SWAP', {'storyID': 'A'}, [B.ids('itemID', ['I1', 'X2'])]),
        'StoryDelete': B.story_delete(['B', 'nowhere']),
        'EAStoryDelete-no-target': B.ea('DELETE', ABSENT, [B.ids('storyID', ['B'])]),
        'EAStoryDelete-blank-target': B.ea('DELETE', {'storyID': BLANK}, [B.ids('storyID', ['B'])]),
        'ItemDelete': B.item_delete('A', ['I1']),
        'EAItemDelete': B.ea('DELETE', {'storyID': 'A'}, [B.ids('itemID', ['I1', 'nowhere'])]),
        'EAStoryInsert-no-target': B.ea('INSERT', ABSENT, [[X()]]),
        'EAStoryInsert-blank-target': B.ea('INSERT', {'storyID': BLANK}, [[X()]]),
        'EAItemInsert-to-the-end': B.ea('INSERT', {'storyID': 'A', 'itemID': BLANK}, [[B.item('N1')]]),
        'ItemInsert-to-the-end': B.item_insert('A', BLANK, [B.item('N1')]),
        'ReadyToAir': B.ready_to_air(),
        'RunningOrderEnd': B.ro_delete(),
        # IDs spread over several element_source tags
        'EAStoryMove-two-blocks': B.ea('MOVE', {'storyID': 'A'}, [B.ids('storyID', ['X']), B.ids('storyID', ['B'])]),
        'EAStoryDelete-two-blocks': B.ea('DELETE', ABSENT, [B.ids('storyID', ['B']), B.ids('storyID', ['nowhere'])]),
        'EAItemDelete-two-blocks': B.ea('DELETE', {'storyID': 'A'}, [B.ids('itemID', ['I1']), B.ids('itemID', ['X2'])]),
        'EAItemMove-two-blocks': B.ea('MOVE', {'storyID': 'A', 'itemID': 'I1'}, [B.ids('itemID', ['X2']), B.ids('itemID', ['X1'])]),
        'EAStoryInsert-two-blocks': B.ea('INSERT', {'storyID': 'A'}, [[X()], [B.story('Y', [])]]),
        'EAStorySwap-two-blocks': B.ea('SWAP', ABSENT, [B.ids('storyID', ['A']), B.ids('storyID', ['B'])]),
    }
    carriers.update(movers)
    sid = lambda c: 'A' if (c in movers or c in ('StorySend', 'ItemInsert', 'ItemReplace', 'EAItemInsert', 'EAItemReplace')) else 'X'
    base_cls = lambda c: c.split('-')[0]
    for cname, carrier in carriers.items():
        s = sid(cname)
        # the same object once more after the running order has changed back to the SAME NUMBER of children (a story
        # deleted after one was added): a live running order behaves like a freshly read one of identical content
        ro_text = TJ.to_text(B.ro_doc([B.story('A', [B.item('I1'), B.item('X1'), B.item('X2')]), B.story('B', [B.item('I1')]),
                                       B.story('C', [])] + ([B.story('X', [B.item('X1'), B.item('old')])] if 'itself' in cname else []),
                                      extra=[B.timing_md(duration='1', schema='s1')]))
        ctext = TJ.to_text(carrier)
        for restore in (B.story_delete(['C']), B.story_replace('C', [B.story('C2', [])]), B.ro_replace([B.story('A', [B.item('I1'), B.item('X1'), B.item('X2')]), B.story('B', [B.item('I1')]), B.story('Z', [])])):
            ro = impl.load(ro_text)
            x = impl.load(ctext)
            merge(ro, x)
            merge(ro, impl.load(TJ.to_text(restore)))
            now = str(ro)
            o_live = merge(ro, x)
            fresh = impl.load(now)
            o_fresh = merge(fresh, impl.load(ctext))
            oc.evaluations += 1
            oc.in_domain += 1
            oc.count('targeted-remerge:' + cname)
            if (o_live['err'], o_live['warns'], str(ro)) != (o_fresh['err'], o_fresh['warns'], str(fresh)):
                oc.failing.append({'kind': 'alias-targeted', 'label': f'{cname}, then {TJ.to_text(restore)[:60]}..., then the same object again{when}', 'ro_text': ro_text,
                                   'carrier': ctext, 'edit': TJ.to_text(restore), 'cls': cname, 'story': s, 'remerge': True,
                                   'spec': 'adding the same message object again to the live running order differs from adding a fresh copy to a freshly read running order of identical content',
                                   'impl': {'live': [o_live['err'], o_live['warns']], 'fresh': [o_fresh['err'], o_fresh['warns']]}})
        edits = {
            'item delete': B.item_delete(s, ['X1']),
            'item insert': B.item_insert(s, BLANK, [B.item('NEW')]),
            'item replace': B.item_replace(s, 'X1', [B.item('R1'), B.item('R2')]),
            'ea item delete': B.ea('DELETE', {'storyID': s}, [B.ids('itemID', ['X2', 'X1'])]),
            'metadata replace': B.metadata_replace([E('roSlug', text='changed'), B.timing_md(duration='9', schema='s1')]),
            'ro delete': B.ro_delete(),
        }
        for ename, edit in edits.items():
            ro_text = TJ.to_text(B.ro_doc([B.story('A', [B.item('I1'), B.item('X1'), B.item('X2')]), B.story('B', [B.item('I1')]),
                                           B.story('X', [B.item('X1'), B.item('old')])],
                                          extra=[B.timing_md(duration='1', schema='s1')]))
            ctext, etext = TJ.to_text(carrier), TJ.to_text(edit)
            ro, ro2 = impl.load(ro_text), impl.load(ro_text)
            x = impl.load(ctext)
            s0 = str(x)
            merge(ro, x)
            inspect_quietly(x)
            merge(ro, impl.load(etext))
            oc.evaluations += 1
            oc.in_domain += 1
            oc.count('targeted:' + cname)
            bad = []
            if str(x) != s0:
                bad.append('the message object was modified by a later edit of the running order')
            if set(ids_of(x.xml)) & set(ids_of(ro.xml)):
                bad.append('the message object shares Element objects with the running order')
            fresh = impl.load(ro_text)
            o_re = merge(ro2, x)
            o_fr = merge(fresh, impl.load(ctext))
            if (o_re['err'], o_re['warns'], str(ro2)) != (o_fr['err'], o_fr['warns'], str(fresh)):
                bad.append('merging the re-used object into another running order differs from merging a fresh copy')
            if set(ids_of(ro.xml)) & set(ids_of(ro2.xml)):
                bad.append('two running orders share Element objects through the message')
            # a later change to one running order must not show in the other
            snap2 = str(ro2)
            merge(ro, impl.load(TJ.to_text(B.item_delete(s, ['X2']))))
            if str(ro2) != snap2:
                bad.append('editing one running order changed the other')
            h = stable_hash([cname, ename])
            oc.nontrivial.add(h)
            if bad:
                oc.failing.append({'kind': 'alias-targeted', 'label': f'{cname} then {ename}{when}', 'ro_text': ro_text,
                                   'carrier': ctext, 'edit': etext, 'cls': cname, 'story': s, 'spec': '; '.join(bad)})
            elif len(oc.samples) < 3:
                oc.samples.append({'label': f'{cname} then {ename}', 'carrier': ctext[:600], 'edit': etext[:400]})


def fresh_process_check(oc, pairs):
    """The result of a merge depends only on the two contents: the same (running order text, message text)
    pairs executed in a fresh interpreter, in the opposite order, must give what this long-lived process got."""
    import os, shutil, subprocess, sys, tempfile
    from .lean import InfraError, VERIF
    tmp = tempfile.mkdtemp(prefix='mrm-c13-')
    try:
        order = list(reversed(range(len(pairs))))
        inp, outp = os.path.join(tmp, 'in.json'), os.path.join(tmp, 'out.json')
        with open(inp, 'w') as f:
            json.dump([[pairs[i][0], pairs[i][1]] for i in order], f)
        env = dict(os.environ, PYTHONPATH=VERIF, PYTHONDONTWRITEBYTECODE='1')
        p = subprocess.run([sys.executable, '-m', 'harness.sub_merge', inp, outp], cwd=VERIF, env=env,
                           stdout=subprocess.PIPE, stderr=subprocess.STDOUT, text=True, timeout=1200)
        if p.returncode != 0:
            raise InfraError('sub-interpreter failed: ' + p.stdout[-1500:])
        with open(outp) as f:
            res = json.load(f)['results']
    finally:
        shutil.rmtree(tmp, ignore_errors=True)
    for i, r in zip(order, res):
        ro_text, msg_text, here, label = pairs[i]
        oc.evaluations += 1
        oc.in_domain += 1
        if r != here:
            oc.failing.append({'kind': 'alias-fresh-process', 'label': label, 'ro_text': ro_text, 'msg_text': msg_text,
                               'spec': 'the result of a merge depends only on the content of the running order and of the message: '
                                       'the same two documents merged in a fresh interpreter give a different result',
                               'impl': {'this_process': {k: (v[:600] if isinstance(v, str) else v) for k, v in here.items()},
                                        'fresh_process': {k: (v[:600] if isinstance(v, str) else v) for k, v in r.items()}}})
    oc.count('fresh-process-pairs', len(pairs))


def run_c13(tier, seed):
    oc = Outcome('C13')
    targeted(oc)
    # ... and once more after collections have been merged in this process - one of them strictly, failing half-way:
    # nothing a collection does may change how later merges treat their payload
    from mosromgr.moscollection import MosCollection
    coll = [TJ.to_text(B.ro_doc([B.story('A', [B.item('I1')])], message_id='1')), TJ.to_text(B.story_append([B.story('N', [B.item('n1')])], message_id='2')),
            TJ.to_text(B.item_replace('A', 'nowhere', [B.item('r')], message_id='3')), TJ.to_text(B.story_insert('A', [B.story('M', [])], message_id='4')),
            TJ.to_text(B.ro_delete(message_id='9'))]
    for strict in (True, False, True):
        with warnings.catch_warnings():
            warnings.simplefilter('ignore')
            try:
                MosCollection.from_strings(coll).merge(strict=strict)
            except Exception:  # noqa: BLE001 - the strict merge is meant to fail at message 3
                pass
    targeted(oc, when=' (after a strict collection merge failed earlier in the process)')
    # ... and through the other entry point, msg.merge(ro), which `+` itself calls
    VIA[0] = 'merge'
    try:
        targeted(oc, when=' (messages applied with msg.merge(ro))')
    finally:
        VIA[0] = 'add'
    oc.extra['pairs'] = []
    n_hist = 80 if tier == 'quick' else 6000
    for k in range(n_hist):
        monitor_history(oc, seed * 9973 + 37 * k, tier)
    from . import coll_family
    coll_family.reuse_and_remerge_check(oc, 'C13')
    pairs = oc.extra.pop('pairs')
    fresh_process_check(oc, pairs if tier == 'quick' else pairs[:20000])
    oc.extra['monitor'] = ('after every step: id()-sets of the running order, of a second running order fed the same message '
                           'objects, and of every message object merged so far are pairwise disjoint and duplicate-free; '
                           'str(msg) unchanged; re-merging an earlier object == merging a fresh parse')
    oc.rule = ('targeted three-step histories (every carrying class and every looking-up / moving / deleting class, with present, blank and absent targets, x 6 later edits) and every step of live random histories biased '
               'towards carrying classes; non-trivial = the step merges a payload-carrying message')
    return oc


def replay(pid, fl):
    from . import impl
    oc = Outcome(pid)
    if fl['kind'] == 'alias-targeted' and fl.get('remerge'):
        ro = impl.load(fl['ro_text'])
        x = impl.load(fl['carrier'])
        merge(ro, x)
        merge(ro, impl.load(fl['edit']))
        now = str(ro)
        o_live = merge(ro, x)
        fresh = impl.load(now)
        o_fresh = merge(fresh, impl.load(fl['carrier']))
        bad = (o_live['err'], o_live['warns'], str(ro)) != (o_fresh['err'], o_fresh['warns'], str(fresh))
    elif fl['kind'] == 'alias-targeted':
        ro, ro2 = impl.load(fl['ro_text']), impl.load(fl['ro_text'])
        x = impl.load(fl['carrier'])
        s0 = str(x)
        merge(ro, x)
        merge(ro, impl.load(fl['edit']))
        bad = str(x) != s0 or bool(set(ids_of(x.xml)) & set(ids_of(ro.xml)))
        fresh = impl.load(fl['ro_text'])
        o_re, o_fr = merge(ro2, x), merge(fresh, impl.load(fl['carrier']))
        bad = bad or (o_re['err'], o_re['warns'], str(ro2)) != (o_fr['err'], o_fr['warns'], str(fresh))
        bad = bad or bool(set(ids_of(ro.xml)) & set(ids_of(ro2.xml)))
    elif fl['kind'] == 'alias-fresh-process':
        print('a difference between a long-lived and a fresh interpreter: re-running the C13 check (it regenerates the same histories)')
        from . import registry
        return registry.run_check(pid, 'quick', 0)
    elif fl.get('collection'):
        oc2 = Outcome(pid)
        collection_reuse(oc2, fl['history'], 'replay')
        bad = bool(oc2.failing)
    else:
        docs = fl['history']
        ro, other = impl.load(docs[0]), impl.load(docs[0])
        merged = []
        bad = False
        for t in docs[1:]:
            try:
                mo = impl.load(t)
            except Exception:  # noqa: BLE001
                continue
            s0 = str(mo)
            inspect_quietly(mo)
            merge(ro, mo)
            merge(other, mo)
            merged.append((t, mo, s0))
            ro_ids, oth_ids = ids_of(ro.xml), ids_of(other.xml)
            bad = bad or len(set(ro_ids)) != len(ro_ids) or bool(set(ro_ids) & set(oth_ids))
            for (tt, m, s) in merged:
                bad = bad or bool(set(ids_of(m.xml)) & (set(ro_ids) | set(oth_ids))) or str(m) != s
        for (tt, m, s) in merged:
            snapshot = str(ro)
            ra, rb = impl.load(snapshot), impl.load(snapshot)
            oa, ob = merge(ra, m), merge(rb, impl.load(tt))
            bad = bad or (oa['err'], oa['warns'], str(ra)) != (ob['err'], ob['warns'], str(rb))
    if bad:
        print(f'VIOLATION property={pid} replay=(this file): still fails on the current tree')
        return 1
    print(f'{pid}: the recorded history no longer fails on the current tree')
    return 0
