"""Document builders: running orders and the 24 message kinds, as JSON trees.

ID arguments: a string is the ID text, ``BLANK`` (None) produces an empty tag (``<storyID/>``),
``ABSENT`` omits the tag altogether.
"""
from .treejson import E

BLANK = None


class _Absent:
    def __repr__(self):
        return 'ABSENT'


ABSENT = _Absent()


def idtag(name, value):
    """``[<name>value</name>]``, ``[<name/>]`` or ``[]``."""
    if value is ABSENT:
        return []
    return [E(name, text=value)]


def item(iid, *, slug=True, extra=()):
    ch = idtag('itemID', iid)
    if slug:
        ch.append(E('itemSlug', text=f'slug of {iid}'))
    ch.append(E('objID', text=f'obj-{iid}'))
    ch.append(E('mosID', text='mos.test'))
    ch.extend(extra)
    return E('item', *ch)


def timing_md(duration=None, text_time=None, media_time=None, started=None, ended=None,
              payload=True, schema='http://example.org/schema'):
    """A ``mosExternalMetadata`` block carrying the optional timing fields."""
    pl = []
    for name, v in (('StoryDuration', duration), ('TextTime', text_time), ('MediaTime', media_time),
                    ('StoryStarted', started), ('StoryEnded', ended)):
        if v is not None:
            pl.append(E(name, text=v if v != '' else None))
    ch = [E('mosSchema', text=schema)]
    if payload:
        ch.append(E('mosPayload', *pl))
    return E('mosExternalMetadata', *ch)


def story(sid, body=(), *, slug=True, md=None, tag='story'):
    """A ``<story>``; ``body`` is the list of children after the ID/slug (items, <p>, anything)."""
    ch = idtag('storyID', sid)
    if slug:
        ch.append(E('storySlug', text=f'slug of {sid}'))
    if md is not None:
        ch.append(md)
    ch.extend(body)
    return E(tag, *ch)


def p(text=None):
    return E('p', text=text)


def envelope(message_id, base, *, mos_id='mos.test', ncs_id='ncs.test', extra=()):
    ch = [E('mosID', text=mos_id), E('ncsID', text=ncs_id)]
    ch.extend(idtag('messageID', message_id))
    ch.extend(extra)
    ch.append(base)
    return E('mos', *ch)


def md_elem(i):
    """A non-story child of roCreate used as interleaved metadata."""
    return E('roTrigger' if i % 2 else 'roChannel', text=f'meta{i}')


PATTERNS = ('lead', 'none', 'between', 'trail', 'every')


def ro_create(stories, *, pattern='lead', ro_id='RO1', slug='RO slug', ed_start=None, extra=()):
    """``<roCreate>`` with the stories placed according to ``pattern``:
    lead    – roID, roSlug, metadata, then the stories (the shape of the test fixture)
    none    – the stories first (child index = story index), roID/roSlug after them
    between – roID, roSlug, stories with a metadata element between each pair
    trail   – roID first, stories, then roSlug and metadata
    every   – metadata before, between and after the stories
    """
    head = [E('roID', text=ro_id), E('roSlug', text=slug)]
    if ed_start is not None:
        head.append(E('roEdStart', text=ed_start))
    head.extend(extra)
    stories = list(stories)
    between = []
    for i, s in enumerate(stories):
        if i:
            between.append(md_elem(i))
        between.append(s)
    if pattern == 'lead':
        ch = head + [md_elem(90)] + stories
    elif pattern == 'none':
        ch = stories + head
    elif pattern == 'between':
        ch = head + between
    elif pattern == 'trail':
        ch = head[:1] + stories + head[1:] + [md_elem(91)]
    elif pattern == 'every':
        ch = head + [md_elem(92)] + between + [md_elem(93), md_elem(94)]
    else:
        raise ValueError(pattern)
    return E('roCreate', *ch)


def ro_doc(stories, *, message_id='1000', **kw):
    return envelope(message_id, ro_create(stories, **kw))


# ---- messages ------------------------------------------------------------------------------------

def _msg(tag, message_id, ro_id, children, attrs=None):
    return envelope(message_id, E(tag, *(idtag('roID', ro_id) + list(children)), attrs=attrs))


def story_send(sid, body=(), *, message_id='2000', ro_id='RO1', pre=(), post=(), slug=True,
               body_present=True):
    """roStorySend: ``pre`` children, storyID, slug, the storyBody (its children are ``body``),
    ``post`` children.  storyItem elements are given as items and retagged here."""
    ch = list(pre) + idtag('storyID', sid)
    if slug:
        ch.append(E('storySlug', text=f'sent slug of {sid}'))
    if body_present:
        b = []
        for c in body:
            if c[0] == 'item':
                c = ['storyItem'] + c[1:]
            b.append(c)
        ch.append(E('storyBody', *b))
    ch.extend(post)
    return _msg('roStorySend', message_id, ro_id, ch)


def story_append(stories, *, message_id='2001', ro_id='RO1'):
    return _msg('roStoryAppend', message_id, ro_id, stories)


def story_delete(ids, *, message_id='2002', ro_id='RO1'):
    return _msg('roStoryDelete', message_id, ro_id, [t for i in ids for t in idtag('storyID', i)])


def story_insert(target, stories, *, message_id='2003', ro_id='RO1'):
    return _msg('roStoryInsert', message_id, ro_id, idtag('storyID', target) + list(stories))


def story_move(ids, *, message_id='2004', ro_id='RO1'):
    return _msg('roStoryMove', message_id, ro_id, [t for i in ids for t in idtag('storyID', i)])


def story_replace(target, stories, *, message_id='2005', ro_id='RO1'):
    return _msg('roStoryReplace', message_id, ro_id, idtag('storyID', target) + list(stories))


def item_delete(sid, iids, *, message_id='2006', ro_id='RO1'):
    return _msg('roItemDelete', message_id, ro_id,
                idtag('storyID', sid) + [t for i in iids for t in idtag('itemID', i)])


def item_insert(sid, iid, items, *, message_id='2007', ro_id='RO1'):
    return _msg('roItemInsert', message_id, ro_id,
                idtag('storyID', sid) + idtag('itemID', iid) + list(items))


def item_move_multiple(sid, iids, *, message_id='2008', ro_id='RO1'):
    return _msg('roItemMoveMultiple', message_id, ro_id,
                idtag('storyID', sid) + [t for i in iids for t in idtag('itemID', i)])


def item_replace(sid, iid, items, *, message_id='2009', ro_id='RO1'):
    return _msg('roItemReplace', message_id, ro_id,
                idtag('storyID', sid) + idtag('itemID', iid) + list(items))


def ready_to_air(*, message_id='2010', ro_id='RO1'):
    return _msg('roReadyToAir', message_id, ro_id, [E('roAir', text='READY')])


def ro_replace(stories, *, message_id='2011', ro_id='RO1', slug='replaced slug', pattern='lead',
               **kw):
    rc = ro_create(stories, pattern=pattern, ro_id=ro_id, slug=slug, **kw)
    rc[0] = 'roReplace'
    return envelope(message_id, rc)


def metadata_replace(children, *, message_id='2012', ro_id='RO1'):
    return _msg('roMetadataReplace', message_id, ro_id, children)


def ro_delete(*, message_id='9999', ro_id='RO1'):
    return _msg('roDelete', message_id, ro_id, [])


def ea(operation, target, sources, *, message_id='2100', ro_id='RO1'):
    """roElementAction.  ``target``: ABSENT (no element_target), or a dict with optional keys
    'storyID' / 'itemID' (values: text, BLANK or ABSENT).  ``sources``: a list of element_source
    children lists (one list per element_source tag; normally one)."""
    ch = []
    if target is not ABSENT:
        t = []
        for k in ('storyID', 'itemID'):
            if k in target:
                t.extend(idtag(k, target[k]))
        ch.append(E('element_target', *t))
    for src in sources:
        ch.append(E('element_source', *src))
    attrs = {} if operation is ABSENT else {'operation': operation}
    return _msg('roElementAction', message_id, ro_id, ch, attrs=attrs)


def ids(name, values):
    """``[<name>v</name>, ...]`` for an element_source."""
    return [t for v in values for t in idtag(name, v)]
