"""Run the real implementation (imported from /repo's working tree) and record observations."""
import logging
import sys
import warnings

import os
REPO = os.environ.get('MRM_REPO', '/repo')
if REPO not in sys.path:
    sys.path.insert(0, REPO)
sys.dont_write_bytecode = True

if os.environ.get('VERIF_COVERAGE'):
    # informational only (tools/coverage_of_checks.py): which lines/branches of mosromgr the checks reach
    import atexit
    import coverage as _coverage
    _cov = _coverage.Coverage(data_file=os.environ['VERIF_COVERAGE'], data_suffix=True, branch=True,
                              include=[REPO + '/mosromgr/*'])
    _cov.start()
    atexit.register(lambda: (_cov.stop(), _cov.save()))

import mosromgr  # noqa: E402
from mosromgr import mostypes, moscollection, moselements, exc  # noqa: E402
from mosromgr.mostypes import MosFile, RunningOrder  # noqa: E402

from . import treejson  # noqa: E402

assert mosromgr.__file__.startswith(REPO + '/'), mosromgr.__file__

# ---- process configuration the outcome must not depend on -----------------------------------------
# The library logs (it calls logging.basicConfig(level=INFO) at import); whether logging is disabled, at the
# library's default level, or at DEBUG is the application's business and changes nothing a property talks
# about.  Every observation runs under one of the three, chosen from a hash of its input (so a replay picks
# the same one) and recorded with the observation.
LOG_MODES = ('logging-disabled', 'logging-default', 'logging-debug')
logging.getLogger().handlers[:] = [logging.NullHandler()]          # never write log records anywhere


def cfg_for(key):
    import zlib
    return LOG_MODES[zlib.crc32(key.encode('utf-8', 'surrogatepass')) % 3]


def apply_cfg(mode):
    lib = logging.getLogger('mosromgr')
    if mode == 'logging-disabled':
        logging.disable(logging.CRITICAL)
        lib.setLevel(logging.NOTSET)
    else:
        logging.disable(logging.NOTSET)
        lib.setLevel(logging.DEBUG if mode == 'logging-debug' else logging.NOTSET)
    return mode


apply_cfg('logging-disabled')


def err_name(e):
    """Map an exception to the small enum the properties talk about."""
    if e is None:
        return None
    if isinstance(e, exc.MosCompletedMergeError):
        return 'MosCompletedMergeError'
    if isinstance(e, exc.MosMergeError):
        return 'MosMergeError'
    if isinstance(e, exc.UnknownMosFileType):
        return 'UnknownMosFileType'
    if isinstance(e, exc.InvalidMosCollection):
        return 'InvalidMosCollection'
    if isinstance(e, exc.MosInvalidXML):
        return 'MosInvalidXML'
    if isinstance(e, exc.MosRoMgrException):
        return 'MosRoMgrException'
    for cls in (AttributeError, KeyError, IndexError, TypeError, NotImplementedError, ValueError):
        if isinstance(e, cls):
            return 'crash:' + cls.__name__
    return 'crash:' + type(e).__name__


def lib_warnings(ws):
    return [w.category.__name__ for w in ws if issubclass(w.category, exc.MosRoMgrWarning)]


def classify_text(text):
    """-> ('kind', name) or ('err', name)"""
    apply_cfg(cfg_for(text if isinstance(text, str) else repr(text)))
    try:
        with warnings.catch_warnings():
            warnings.simplefilter('ignore')
            mo = MosFile.from_string(text)
        return {'kind': type(mo).__name__}
    except Exception as e:  # noqa: BLE001
        return {'err': err_name(e)}


def load(text):
    with warnings.catch_warnings():
        warnings.simplefilter('ignore')
        return MosFile.from_string(text)


_REREAD = None


def _reread_path():
    """One path per PROCESS, re-used for every write in that process (a forked worker must not inherit its parent's:
    two processes writing the same file would read each other's documents)."""
    global _REREAD
    if _REREAD is None or _REREAD[0] != os.getpid() or not os.path.isdir(os.path.dirname(_REREAD[1])):
        import atexit, shutil, tempfile
        d = tempfile.mkdtemp(prefix='mrm-reread-')
        atexit.register(shutil.rmtree, d, True)
        _REREAD = (os.getpid(), os.path.join(d, 'running-order.mos.xml'))
    return _REREAD[1]


def inspect_quietly(mo):
    import contextlib, io
    try:
        with contextlib.redirect_stdout(io.StringIO()), warnings.catch_warnings():
            warnings.simplefilter('ignore')
            mo.inspect()
    except Exception:  # noqa: BLE001 - what inspect() prints or raises is C20's business
        pass


def add(ro, msg, via='add'):
    """``ro += msg`` on live objects (via='merge': the documented ``msg.merge(ro)``, which is what
    ``+`` calls on a running order that is not completed); returns the observation (err, warns, tree after)."""
    err = None
    cfg = apply_cfg(cfg_for(str(msg)))
    if len(str(msg)) % 2:
        inspect_quietly(msg)           # looking at a message is not editing it: what it carries arrives as sent
    with warnings.catch_warnings(record=True) as w:
        warnings.simplefilter('always')
        # the library never relies on deprecated behaviour: a DeprecationWarning (e.g. Element truth-testing, which
        # raises under -W error and in future interpreters) is reported as what it becomes there - an exception
        warnings.filterwarnings('error', category=DeprecationWarning)
        if len(str(msg)) % 3 == 1:
            # a caller looks at the running order's timing right before it adds the message - in the same warnings context:
            # nothing the library does while answering may silence what the merge reports
            for read_ in (lambda: ro.start_time, lambda: ro.duration, lambda: [s_.offset for s_ in ro.stories]):
                try:
                    read_()
                except Exception:  # noqa: BLE001 - what the accessors do with odd timing is C15's
                    pass
        try:
            r = (ro + msg) if via == 'add' else msg.merge(ro)
            if r is not ro:
                err = 'crash:ReturnedOtherObject'
        except Exception as e:  # noqa: BLE001
            err = err_name(e)
    out = {'err': err, 'warns': lib_warnings(w), 'ro': treejson.to_tree(ro.xml),
           'completed_attr': bool(ro.completed), 'cfg': cfg}
    if ro.xml.find('mosromgrmeta') is not None:
        # the running order is completed now: the same message once more, with every warning promoted to
        # an error (python -W error) - the refusal must not depend on the interpreter's warning filter
        with warnings.catch_warnings():
            warnings.simplefilter('error')
            try:
                ro + msg
                werr = None
            except Exception as e:  # noqa: BLE001
                werr = err_name(e)
        out['werror'] = {'err': werr, 'unchanged': treejson.to_tree(ro.xml) == out['ro']}
    if out['completed_attr'] or ro.xml.find('mosromgrmeta') is not None:
        # a completed running order written out and read back
        try:
            with warnings.catch_warnings():
                warnings.simplefilter('ignore')
                back = MosFile.from_string(str(ro))
            out['reread'] = {'cls': type(back).__name__, 'completed': bool(back.completed)}
            # ... and saved over the same path every time, then loaded from it: what is read is what was just written
            path = _reread_path()
            with open(path, 'w', encoding='utf-8', newline='') as f:
                f.write(str(ro))
            os.utime(path, (1000000000, 1000000000))
            with warnings.catch_warnings():
                warnings.simplefilter('ignore')
                fb = MosFile.from_file(path)
            if (type(fb).__name__, bool(fb.completed), str(fb)) != (type(back).__name__, bool(back.completed), str(back)):
                out['reread'] = {'cls': type(fb).__name__, 'completed': bool(fb.completed), 'from_file_differs_from_string': True}
            if out['reread'] == {'cls': 'RunningOrder', 'completed': True}:
                # the written-out and re-read running order refuses further messages like the original
                before = treejson.to_tree(back.xml)
                try:
                    back + msg
                    rerr = None
                except Exception as e:  # noqa: BLE001
                    rerr = err_name(e)
                out['reread']['refuses'] = [rerr, treejson.to_tree(back.xml) == before]
        except Exception as e:  # noqa: BLE001
            out['reread'] = {'err': err_name(e)}
    return out


def add_texts(ro_text, msg_text):
    """Parse both documents freshly, add, observe."""
    ro = load(ro_text)
    msg = load(msg_text)
    done = ro.completed   # read the flag before the merge too (a cached flag must not go stale)
    # both documented entry points: `ro + msg`, and `msg.merge(ro)` directly (what `+` calls once it has checked that the
    # running order is not completed - on a completed one only `+` refuses, so the direct call is used on open ones only)
    import zlib
    direct = not done and zlib.crc32(msg_text.encode('utf-8', 'surrogatepass')) % 3 == 0
    out = add(ro, msg, via='merge' if direct else 'add')
    out['via'] = 'merge' if direct else 'add'
    return out
