"""C18 (sources interchangeable, readers faithful, S3 listing) and C19 (command line)."""
import contextlib
import io
import itertools
import json
import os
import random
import shutil
import sys
import subprocess
import tempfile
import warnings

from . import build as B, class_family, coll_family, gen_hist, gen_pos, hist_run, treejson as TJ
from .build import ABSENT, BLANK
from .core import Outcome, stable_hash
from .treejson import E


# ---- C18 -----------------------------------------------------------------------------------------

def source_docs(tier, rng):
    out = []
    seen = set()
    for lbl, doc in class_family.documents('quick'):
        t = TJ.to_text(doc)
        if 'payload=full' in lbl and 'envelope=standard' in lbl or lbl.startswith('EA op=\'MOVE\'') or lbl in ('unicode', 'html'):
            if t not in seen:
                seen.add(t)
                out.append((lbl, t))
    # the same documents written differently: comments, processing instructions, CDATA, a declaration,
    # entity references - nothing of this may make one source kind differ from another
    def textual(t, k):
        i = t.index('>') + 1                                  # just inside the root
        j = t.rindex('</')                                    # just before the root's end tag
        forms = [t[:i] + '<!-- a comment -->' + t[i:], t[:j] + '<!-- trailing comment -->' + t[j:],
                 t[:i] + '<?proc instr?>' + t[i:], '<?xml version="1.0" encoding="UTF-8"?>\n' + t + '\n',
                 '<!-- before the root -->' + t, t.replace('<roID>', '<roID><!-- inside an ID -->', 1),
                 t.replace('</roID>', '<![CDATA[]]></roID>', 1), t.replace('<roID>', '<roID>&#82;', 1)]
        return forms[k % len(forms)], ['comment inside root', 'comment at the end', 'processing instruction', 'declaration',
                                       'comment before root', 'comment inside roID', 'empty CDATA in roID', 'character reference in roID'][k % len(forms)]
    for k, (lbl, t) in enumerate(list(out)):
        for kk in (k, k + 3):
            tt, what = textual(t, kk)
            out.append((f'{lbl} [{what}]', tt))
    # IDs as a pretty-printer or a vendor writes them: padded, on their own line, case variants - metadata is the text itself
    for what, rid, mid in (('padded roID', '  RO1 ', '12'), ('roID on its own line', '\n      RO-7\n    ', '13'), ('tab in roID', 'RO\t1', '14'),
                           ('padded messageID', 'RO1', ' 15 '), ('messageID on its own line', 'RO1', '\n   16\n  '), ('zero-padded messageID', 'ro1', '0017'), ('blank roID', B.BLANK, '18'), ('whitespace roID', '   ', '19')):
        out.append((f'{what}: roStoryAppend', TJ.to_text(B.story_append([B.story('P1', [])], message_id=mid, ro_id=rid))))
        out.append((f'{what}: roCreate', TJ.to_text(B.ro_doc([B.story('P1', [])], message_id=mid, ro_id=rid))))
        out.append((f'{what}: roDelete', TJ.to_text(B.ro_delete(message_id=mid, ro_id=rid))))
    # vendor payloads in XML namespaces (prefixed, default, on attributes): every source keeps them as they are
    NS = '{urn:example:vendor}'
    out.append(('namespaced payload: roStorySend', TJ.to_text(B.story_send('A', [B.item('a1', extra=[E('mosExternalMetadata', E('mosSchema', text='v'), E('mosPayload',
                E(NS + 'clip', E(NS + 'dur', text='3'), E('dur', text='4'), attrs={NS + 'kind': 'a', 'kind': 'b'})))]), B.p('x')], message_id='31'))))
    out.append(('namespaced payload: roCreate', TJ.to_text(B.ro_doc([B.story('A', [B.item('a1', extra=[E(NS + 'note', text='n')])], md=E('mosExternalMetadata', E('mosSchema', text='v'),
                E('mosPayload', E(NS + 'StoryDuration', text='9'), E('StoryDuration', text='5'))))], message_id='32'))))
    out.append(('namespaced payload: roElementAction', TJ.to_text(B.ea('INSERT', {'storyID': 'A'}, [[B.story('N', [E(NS + 'p', text='foreign paragraph'), B.p('real')])]], message_id='33'))))
    g = gen_hist.Gen(rng)
    out.append(('attribute values with quotes', TJ.to_text(B.story_append([B.story('Q', [B.item('Q1', extra=[E('x', text='t', attrs={'note': 'the "late" edition', 'a': "it's", 'nl': 'a\nb', 'amp': 'a&b<c>'})])])], message_id='77'))))
    for k in range(20 if tier == 'quick' else 200):
        out.append((f'rich running order #{k}', TJ.to_text(g.ro(rng.randrange(0, 4)))))
    state = TJ.canon(g.ro(3))
    for k in range(60 if tier == 'quick' else 5000):
        cls, msg = gen_hist.random_message(g, state, 300 + k)
        out.append((f'random {cls} #{k}', TJ.to_text(msg)))
    return out


def from_all_sources(data_text, data_bytes=None):
    """class and str() of the object built from file / str / bytes / fake S3 object"""
    from . import impl
    from mosromgr.mostypes import MosFile
    raw = data_bytes if data_bytes is not None else data_text.encode('utf-8')
    res = {}
    impl.apply_cfg(impl.cfg_for(raw.hex()))
    tmp = tempfile.mkdtemp(prefix='mrm-src-')
    try:
        path = os.path.join(tmp, 'doc.mos.xml')
        with open(path, 'wb') as f:
            f.write(raw)
        coll_family.install_fake_s3(coll_family.FakeS3({'k/doc.mos.xml': raw}))
        import pathlib
        makers = {'file': lambda: MosFile.from_file(path), 'file-pathlib': lambda: MosFile.from_file(pathlib.Path(path)),
                  'bytes': lambda: MosFile.from_string(raw),
                  's3': lambda: MosFile.from_s3(bucket_name='b', mos_file_key='k/doc.mos.xml')}
        if data_bytes is None:
            makers['str'] = lambda: MosFile.from_string(data_text)
        # the typed constructors (SomeClass.from_...) skip classification: same class and document from every source
        from mosromgr import mostypes as _mt
        for tname in ('StoryAppend', 'RunningOrder', 'RunningOrderEnd', 'ElementAction', 'EAStoryMove'):
            tcls = getattr(_mt, tname)
            makers['typed-' + tname + '/file'] = lambda tcls=tcls: tcls.from_file(path)
            makers['typed-' + tname + '/bytes'] = lambda tcls=tcls: tcls.from_string(raw)
            makers['typed-' + tname + '/s3'] = lambda tcls=tcls: tcls.from_s3(bucket_name='b', mos_file_key='k/doc.mos.xml')
        for name, mk in makers.items():
            try:
                with warnings.catch_warnings():
                    warnings.simplefilter('ignore')
                    mo = mk()
                res[name] = {'cls': type(mo).__name__, 'str': str(mo),
                             'faithful': TJ.to_tree(mo.xml) == TJ.parse(raw)}
            except Exception as e:  # noqa: BLE001
                res[name] = {'err': impl.err_name(e)}
    finally:
        shutil.rmtree(tmp, ignore_errors=True)
    return res


def sources_agree(res):
    """The untyped constructors agree with one another, and so do the three sources of each typed constructor."""
    groups = {}
    for k, v in res.items():
        groups.setdefault(k.split('/')[0] if k.startswith('typed-') else 'untyped', []).append(v)
    return all(all(v == vs[0] for v in vs) for vs in groups.values()) and not any(v.get('faithful') is False for v in groups['untyped'])


def untyped(res):
    return {k: v for k, v in res.items() if not k.startswith('typed-')}


def escape_check(oc, pid='C12'):
    """C12, first clause: classifying a well-formed document never escapes with a built-in exception - whichever
    documented way the document comes in (str, bytes, file, S3 object; typed constructors) and whatever encoding its
    XML declaration names.  Only the KIND of outcome is judged here (C08 and C18 judge the class and the content)."""
    import codecs
    docs = {'roDelete': TJ.to_text(E('mos', E('mosID', text='caf\u00e9'), E('messageID', text='7'), E('roDelete', E('roID', text='R\u00d6-\u00e9')))),
            'roCreate': TJ.to_text(B.ro_doc([B.story('\u00c5', [B.item('\u00e5-1'), B.p('na\u00efve \u20ac')])], message_id='1', slug='\u00dcbersicht')),
            'unknown': '<mos><mosID>x</mosID><something\u00c9lse/></mos>',
            'ascii only': TJ.to_text(B.story_append([B.story('S1', [])], message_id='3'))}
    for name, body in docs.items():
        for enc, decl, bom in (('iso-8859-1', 'ISO-8859-1', b''), ('utf-16', 'UTF-16', b''), ('utf-8', 'UTF-8', b''), ('utf-8', None, codecs.BOM_UTF8),
                               ('utf-16-be', 'UTF-16', codecs.BOM_UTF16_BE), ('utf-16-le', 'UTF-16', codecs.BOM_UTF16_LE), ('cp1252', 'windows-1252', b''),
                               ('ascii', 'US-ASCII', b''), ('utf-8', None, b'')):
            try:
                data = bom + (('<?xml version="1.0" encoding="%s"?>' % decl if decl else '') + body).encode(enc)
                if not decl and not bom:
                    data = b'\n  \n' + data + b'\n'           # (blank lines around an undeclared document are harmless to a parser)
            except UnicodeEncodeError:
                continue                                   # this content has no spelling in that encoding
            res = from_all_sources(None, data)
            oc.evaluations += 1
            oc.in_domain += 1
            oc.count('classification-sources')
            # (a typed constructor handed a document of another class is not classification: not judged here)
            bad = {k: v['err'] for k, v in untyped(res).items() if 'err' in v and str(v['err']).startswith('crash:')}
            if bad:
                oc.failing.append({'kind': 'sources-escape', 'data_hex': data.hex(), 'label': f'{name} encoded as {enc}{"+BOM" if bom else ""}',
                                   'spec': 'classifying a well-formed XML document escaped with a built-in exception', 'impl': bad})
    # ... and as the documents of a collection (which classifies them to index them and again to restore them): documents in
    # an XML namespace, prefixed message elements, envelopes with another root name - built and merged non-strictly
    nsd = lambda t: t.replace('<mos>', '<mos xmlns="urn:example:mos">', 1)
    ro_t = TJ.to_text(B.ro_doc([B.story('A', [B.item('a1')])], message_id='1'))
    ap_t = TJ.to_text(B.story_append([B.story('N', [])], message_id='2'))
    mv_t = TJ.to_text(B.ea('MOVE', B.ABSENT, [B.ids('storyID', ['A', 'nowhere'])], message_id='3'))
    rd_t = TJ.to_text(B.ro_delete(message_id='4'))
    sets = {'all documents in a default namespace': [nsd(ro_t), nsd(ap_t), nsd(mv_t), nsd(rd_t)],
            'messages in a default namespace': [ro_t, nsd(ap_t), nsd(mv_t), rd_t],
            'prefixed envelope': [t.replace('<mos>', '<m:mos xmlns:m="urn:example:mos">', 1).replace('</mos>', '</m:mos>') for t in (ro_t, ap_t, rd_t)],
            'root named MOS': [t.replace('<mos>', '<MOS>', 1).replace('</mos>', '</MOS>') for t in (ro_t, ap_t, rd_t)],
            'plain': [ro_t, ap_t, mv_t, rd_t]}
    for name, docs in sets.items():
        for via in ('strings', 'files', 's3'):
            o = coll_family.impl_collection(docs, True, False, via=via)
            oc.evaluations += 1
            oc.in_domain += 1
            oc.count('classification-in-collections')
            errs = [e for e in (o['err'], (o['run'] or {}).get('err')) if e and str(e).startswith('crash:')]
            if errs:
                oc.failing.append({'kind': 'collection-sources', 'docs': docs, 'label': f'{name}, collection from {via}', 'escape': True,
                                   'spec': 'building and non-strictly merging a collection of well-formed documents escaped with a built-in exception', 'impl': errs})


def detect_completed_check(oc, pid='C07'):
    """C07, read-back clause, through the command line: a running order that was completed by a roDelete, written out,
    is reported by `mosromgr detect` / `inspect` as `RunningOrder (completed)` - from a file, from an S3 prefix and
    from a single S3 key - and one that never received a roDelete is never reported completed."""
    from . import impl
    docs = {}
    for n, stories in (('empty', []), ('two', [B.story('A', [B.item('a1')]), B.story('B', [])])):
        for done in (False, True):
            ro = impl.load(TJ.to_text(B.ro_doc(stories, message_id='1')))
            ro += impl.load(TJ.to_text(B.story_append([B.story('N', [B.p('x')])], message_id='2')))
            if done:
                ro += impl.load(TJ.to_text(B.ro_delete(message_id='3')))
            docs[f'{n}-{"completed" if done else "open"}.mos.xml'] = (str(ro), bool(ro.completed))
    for to_file in (True, False):
        seq = [TJ.to_text(B.ro_doc([B.story('A', [B.item('a1')]), B.story('B', [])], message_id='1')), TJ.to_text(B.story_delete(['B'], message_id='2')),
               TJ.to_text(B.ro_delete(message_id='3'))]
        r = cli_merge_tree(seq, to_file)
        oc.evaluations += 1
        oc.in_domain += 1
        oc.count('cli-merge-readback')
        if r.get('cls') != 'RunningOrder' or r.get('completed') is not True:
            oc.failing.append({'kind': 'cli-detect-completed', 'cmd': 'merge', 'argv': ['merge', '-f', '...'] + (['-o', 'out.xml'] if to_file else []),
                               'label': f'merge {"-o over an existing, longer file" if to_file else "to stdout"}, read back',
                               'spec': 'the completed running order the command line writes out reads back as a RunningOrder that is still completed',
                               'impl': {k_: v_ for k_, v_ in r.items() if k_ != 'tree'}})
    root = tempfile.mkdtemp(prefix='mrm-c07-cli-')
    try:
        for name, (text, _) in docs.items():
            with open(os.path.join(root, name), 'w', encoding='utf-8') as f:
                f.write(text)
        objs = {'ro/' + name: text.encode('utf-8') for name, (text, _) in docs.items()}
        for cmd in ('detect', 'inspect'):
            routes = [('files', [cmd, '-f'] + [os.path.join(root, n) for n in sorted(docs)], [os.path.join(root, n) for n in sorted(docs)]),
                      ('s3 prefix', [cmd, '-b', 'bucket', '-p', 'ro/'], ['ro/' + n for n in sorted(docs)])]
            routes += [('s3 key', [cmd, '-b', 'bucket', '-k', 'ro/' + n], ['ro/' + n]) for n in sorted(docs)]
            for route, argv, shown in routes:
                coll_family.install_fake_s3(coll_family.FakeS3(objs, page_size=3))
                so, se, rv = run_cli(argv)
                oc.evaluations += 1
                oc.in_domain += 1
                oc.count('cli-detect-completed:' + route)
                got = [l for l in split_lines(so) if any(l.startswith(p_ + ': ') for p_ in shown)]
                exp = [f'{p_}: RunningOrder' + (' (completed)' if docs[os.path.basename(p_)][1] else '') for p_ in shown]
                if got != exp or rv not in (None, 0):
                    oc.failing.append({'kind': 'cli-detect-completed', 'cmd': cmd, 'argv': argv[:4], 'label': f'{cmd} over {route}',
                                       'spec': 'a completed running order written out is reported as "RunningOrder (completed)" by the command line, an open one without the marker',
                                       'impl': {'stdout': so[:800], 'stderr': se[:300], 'returned': str(rv)}, 'expected': exp})
    finally:
        shutil.rmtree(root, ignore_errors=True)


def cli_merge_tree(docs, to_file, extra=()):
    """`mosromgr merge -f <docs as files> [-o out]` in-process -> the tree read back from what was written, or {'status': …}.
    The -o target exists already and is longer than anything that will be written."""
    from . import impl
    root = tempfile.mkdtemp(prefix='mrm-cli-route-')
    cwd0 = os.getcwd()
    try:
        paths = []
        for i, t in enumerate(docs):
            p = os.path.join(root, f'd{i:02d}.mos.xml')
            with open(p, 'wb') as f:
                f.write(coll_family.doc_bytes(t))
            paths.append(p)
        outp = os.path.join(root, 'out.xml')
        if to_file:
            with open(outp, 'w', encoding='utf-8') as f:
                f.write('<mos><old>' + 'previous, longer content ' * 2000 + '</old></mos>\n')
        so, se, rv = run_cli(['merge'] + list(extra) + ['-f'] + paths + (['-o', outp] if to_file else []))
        if rv not in (None, 0):
            return {'status': rv, 'stderr': se[-300:]}
        try:
            with warnings.catch_warnings():
                warnings.simplefilter('ignore')
                back = impl.MosFile.from_file(outp) if to_file else impl.MosFile.from_string(so)
            return {'tree': TJ.to_tree(back.xml), 'cls': type(back).__name__, 'completed': bool(back.completed)}
        except Exception as e:  # noqa: BLE001
            return {'unreadable': impl.err_name(e)}
    finally:
        os.chdir(cwd0)
        shutil.rmtree(root, ignore_errors=True)


def reader_obs(text):
    """MosReader metadata vs the object it restores, via the three constructors."""
    from . import impl
    from mosromgr.moscollection import MosReader
    out = {}
    raw = text.encode('utf-8')
    tmp = tempfile.mkdtemp(prefix='mrm-rdr-')
    try:
        path = os.path.join(tmp, 'doc.mos.xml')
        with open(path, 'wb') as f:
            f.write(raw)
        coll_family.install_fake_s3(coll_family.FakeS3({'k/doc.mos.xml': raw}))
        makers = {'string': lambda: MosReader.from_string(text), 'file': lambda: MosReader.from_file(path),
                  's3': lambda: MosReader.from_s3('b', 'k/doc.mos.xml')}
        for name, mk in makers.items():
            try:
                with warnings.catch_warnings():
                    warnings.simplefilter('ignore')
                    mr = mk()
                    a, b = mr.mos_object, mr.mos_object
                ok = (mr.message_id == a.message_id and mr.ro_id == a.ro_id and mr.mos_type is type(a)
                      and str(a) == str(b) and a is not b and a.xml is not b.xml
                      and not (set(map(id, a.xml.iter())) & set(map(id, b.xml.iter()))))
                out[name] = {'message_id': mr.message_id, 'ro_id': mr.ro_id, 'mos_type': mr.mos_type.__name__,
                             'restored': {'message_id': a.message_id, 'ro_id': a.ro_id, 'cls': type(a).__name__},
                             'faithful_and_fresh': ok}
            except Exception as e:  # noqa: BLE001
                out[name] = {'err': impl.err_name(e)}
    finally:
        shutil.rmtree(tmp, ignore_errors=True)
    return out


def listing_cases(tier):
    """(pages, prefix, suffix): pages are lists of keys; every page non-empty after the prefix filter, or
    the listing is empty (how S3 answers)."""
    keysets = [[], ['a/1.mos.xml'], ['a/1.mos.xml', 'a/2.txt'], ['a/x.mos.xml', 'a/y.mos.xml', 'a/z.json'],
               ['a/only.txt'], ['a/deep/3.mos.xml', 'a/.mos.xml', 'a/4.mos.xmlx'],
               ['a/UPPER.MOS.XML', 'a/lower.mos.xml', 'a/Mixed.Mos.Xml', 'a/note.TXT'],
               ['a/near-mos.xml', 'a/near.mos_xml', 'a/near.mosaxml', 'a/nearxmos.xml', 'a/real.mos.xml', 'a/x.mos.xml.bak', 'a/y.txt+'],
               # names that begin with a dot, names with blanks, commas and brackets: a key is a string that ends with the suffix or not
               ['a/dot/.mos.xml', 'a/dot/.1001.mos.xml', 'a/.hidden/x.mos.xml', '.mos.xml', 'a/Fri, 01 Jan/n 1.mos.xml', 'a/roCreate[1].mos.xml']]
    out = []
    maxp = 3 if tier == 'quick' else 4
    for npages in range(0, maxp + 1):
        for combo in itertools.product(range(1, len(keysets)), repeat=npages):
            pages = [[f'p{pi}-{k}'.replace('p%d-a/' % pi, 'a/%d-' % pi) if False else k.replace('a/', f'a/{pi}_') for k in keysets[c]]
                     for pi, c in enumerate(combo)]
            prefixes = ['a/', '']
            if pages and pages[0]:
                k0 = pages[0][0]
                prefixes += [k0, k0[:-4], k0[:-2]]          # a complete key; prefixes ending inside the suffix
            for prefix in prefixes:
                for suffix in ('.mos.xml', '.txt', ''):
                    out.append((pages, prefix, suffix))
                if any('near' in k for pg in pages for k in pg):
                    for suffix in ('.txt+', 'mos.xml', '.mos.xml.bak', '(.mos.xml)', '[x]ml', '.*'):     # the suffix is a literal string, not a pattern
                        out.append((pages, prefix, suffix))
                if any('UPPER' in k for pg in pages for k in pg):
                    for suffix in ('.MOS.XML', '.Mos.Xml', '.TXT'):      # the suffix test is case-sensitive on both sides
                        out.append((pages, prefix, suffix))
    return out


def run_c18(tier, seed):
    from . import impl, lean
    from mosromgr.utils import s3 as s3mod
    oc = Outcome('C18')
    rng = random.Random(seed * 53 + 2)
    # 1. sources
    for lbl, text in source_docs(tier, rng):
        oc.evaluations += 1
        oc.in_domain += 1
        res = from_all_sources(text)
        oc.count('sources')
        vals = list(untyped(res).values())
        if not sources_agree(res):
            oc.failing.append({'kind': 'sources', 'text': text, 'label': lbl,
                               'spec': 'file, str, bytes and S3 object with the same content give the same class and serialisation',
                               'impl': {k: (v if 'err' in v else v['cls']) for k, v in res.items()}})
        rd = reader_obs(text)
        if 'err' not in vals[0] and '<messageID>' in text and '<roID' in text:
            for name, o in rd.items():
                if 'err' in o or not o['faithful_and_fresh'] or o['mos_type'] != vals[0]['cls']:
                    oc.failing.append({'kind': 'sources', 'text': text, 'label': lbl + ' reader/' + name,
                                       'spec': 'a reader reports the ID, running-order ID and class of what it restores, and restores a fresh equal object',
                                       'impl': o})
        h = stable_hash(text)
        oc.nontrivial.add(h)
        if len(oc.samples) < 2:
            oc.samples.append({'label': lbl, 'text': text[:500], 'sources': {k: v.get('cls', v.get('err')) for k, v in res.items()}})
    # other encodings: bytes, file and S3 object must agree with the str of the same content
    body = TJ.to_text(E('mos', E('mosID', text='café'), E('messageID', text='7'), E('roDelete', E('roID', text='RÖ-é'))))
    import codecs
    variants = []
    for enc, decl, bom in (('iso-8859-1', 'ISO-8859-1', b''), ('utf-16', 'UTF-16', b''), ('utf-8', 'UTF-8', b''), ('utf-8', 'UTF-8', codecs.BOM_UTF8),
                           ('utf-16-be', 'UTF-16', codecs.BOM_UTF16_BE), ('utf-16-le', 'UTF-16', codecs.BOM_UTF16_LE), ('cp1252', 'windows-1252', b'')):
        for trailer in ('', '\n', '\r\n  \n'):           # trailing blanks after the root are part of many stored files
            variants.append((f'{enc}{"+BOM" if bom else ""} trailer={trailer!r}', bom + ('<?xml version="1.0" encoding="%s"?>' % decl + body + trailer).encode(enc)))
    for enc, data in variants:
        res = from_all_sources(None, data)
        expect = from_all_sources(body)['str']
        oc.evaluations += 1
        oc.count('encodings')
        if any(v != expect for v in untyped(res).values()) or not sources_agree(res):
            oc.failing.append({'kind': 'sources-bytes', 'data_hex': data.hex(), 'body': body, 'label': f'content encoded as {enc}',
                               'spec': 'file, bytes and S3 object agree with the string of the same content',
                               'impl': {k: (v if 'err' in v else v['cls']) for k, v in res.items()}, 'expected': expect['cls']})
    # 2. listing
    cases = listing_cases(tier)
    reqs = []
    obs = []
    for pages, prefix, suffix in cases:
        fake = coll_family.FakeS3({}, pages=pages)
        coll_family.install_fake_s3(fake)
        got = s3mod.get_mos_files('bucket', prefix or None, suffix=suffix) if prefix else s3mod.get_mos_files('bucket', suffix=suffix)
        obs.append(got)
        flt = [[k for k in pg if k.startswith(prefix)] for pg in pages]
        model_pages = [pg if pg else None for pg in flt] if any(flt) or not pages else [None]
        if pages and not any(flt):
            model_pages = [None] * len(pages)
        reqs.append({'op': 'listkeys', 'suffix': suffix, 'pages': model_pages})
    resps = lean.run_batch(reqs)
    for (pages, prefix, suffix), got, r in zip(cases, obs, resps):
        oc.evaluations += 1
        oc.in_domain += 1
        oc.count('listing pages=%d' % len(pages))
        rec = {'kind': 'listing', 'pages': pages, 'prefix': prefix, 'suffix': suffix, 'label': f'{len(pages)} pages prefix={prefix!r} suffix={suffix!r}'}
        expect = [k for pg in pages for k in pg if k.startswith(prefix) and k.endswith(suffix)]
        flt = [[k for k in pg if k.startswith(prefix)] for pg in pages]
        nogap = all(flt) or not any(flt)
        if got != r['keys']:
            oc.disagreements.append(dict(rec, what='listing', impl=got, model=r['keys']))
        if nogap and got != expect:
            oc.failing.append(dict(rec, spec='every key under the prefix with the suffix, across all result pages', impl=got, expected=expect))
        if len(pages) >= 2:
            oc.nontrivial.add(stable_hash([pages, prefix, suffix]))
    # 3. the three collection constructors give the same merged result
    coll_lists = [(f'history seed={h["seed"]}', h['docs'])
                  for h in hist_run.run_histories([seed * 811 + k for k in range(12 if tier == 'quick' else 120)], max_steps=6)]
    # messages tied on the message ID are applied in the order they were supplied, whatever the constructor
    t_ro = TJ.to_text(B.ro_doc([B.story('A', [B.item('a1')])], message_id='3'))
    t1, t2 = (TJ.to_text(B.story_append([B.story(n)], message_id='5')) for n in ('T1', 'T2'))
    t_ins = TJ.to_text(B.story_insert('A', [B.story('T3')], message_id='5'))
    t_del = TJ.to_text(B.story_delete(['T3'], message_id='5'))
    for k, lst in enumerate([[t_ro, t1, t2], [t_ro, t2, t1], [t2, t_ro, t1], [t1, t2, t_ro], [t_ro, t_ins, t_del], [t_ro, t_del, t_ins],
                             [t_del, t2, t_ins, t_ro, t1]]):
        coll_lists.append((f'tied message IDs #{k}', lst))
    # the same delivery stored twice (two files / keys / list entries with identical content) is two messages
    # documents of several hundred KiB given as str with a non-UTF-8 declaration (files and S3 objects hold the bytes
    # in the declared encoding): readers restore what they were given
    decl = '<?xml version="1.0" encoding="ISO-8859-1"?>'
    big_story = B.story('BIG', [B.p('caf\u00e9 \u00a3 ' + 'x' * 1000) for _ in range(300)])
    coll_lists.append(('300 KiB documents declared ISO-8859-1', [decl + t_ro, decl + TJ.to_text(B.story_append([big_story], message_id='5')),
                                                                 decl + TJ.to_text(B.story_append([B.story('Z\u00fc', [B.p('na\u00efve ' * 40000)])], message_id='6'))]))
    coll_lists.append(('same content twice', [t_ro, t1, t1]))
    coll_lists.append(('same content twice, interleaved', [t1, t_ro, t2, t1]))
    coll_lists.append(('roCreate twice', [t_ro, t_ro, t1]))
    # a document among the others that is not a running-order message, or not XML at all: every constructor refuses alike
    coll_lists.append(('an unknown MOS message among the documents', [t_ro, '<mos><mosID>m</mosID><messageID>4</messageID><heartbeat><time>now</time></heartbeat></mos>', t1]))
    coll_lists.append(('a non-XML document among the documents', [t_ro, t1, 'this is not xml <']))
    coll_lists.append(('no roDelete, allow_incomplete', [t_ro, t1, TJ.to_text(B.ready_to_air(message_id='7'))]))
    coll_lists.append(('carriage returns as character references', [t_ro, TJ.to_text(B.story_append([B.story('CR', [B.p('line one' + gen_hist.CR + 'line two')])], message_id='5')).replace(gen_hist.CR, '&#13;'),
                                                                 TJ.to_text(B.story_send('CR', [B.p('a' + gen_hist.CR), B.item('i')], message_id='6')).replace(gen_hist.CR, '&#13;')]))
    nsd = lambda t: t.replace('<mos>', '<mos xmlns="urn:example:mos">', 1)
    coll_lists.append(('documents in a default namespace', [nsd(t_ro), nsd(t1), nsd(t2)]))
    coll_lists.append(('one message in a default namespace', [t_ro, nsd(t1), t2]))
    for label, docs in coll_lists:
        h = {'docs': docs, 'seed': label}
        for allow in (True, False):
            outs = {via: coll_family.impl_collection(h['docs'], allow, False, via=via) for via in ('strings', 'files', 's3')}
            oc.evaluations += 1
            oc.in_domain += 1
            oc.count('collections')
            key = lambda o: (o['err'], o['reader_ids'], o['text'], o['run']['warns'] if o['run'] else None)
            if len({json.dumps(key(o)) for o in outs.values()}) != 1:
                oc.failing.append({'kind': 'collection-sources', 'docs': h['docs'], 'label': label + f' allow_incomplete={allow}', 'allow_incomplete': allow,
                                   'spec': 'collections built from files, strings and S3 keys over the same contents are accepted / refused alike and merge to the same result',
                                   'impl': {k: {'err': o['err'], 'reader_ids': o['reader_ids']} for k, o in outs.items()}})
    oc.rule = ('documents of every class and random rich documents through file/str/bytes/fake S3 (incl. ISO-8859-1 and UTF-16 '
               'bytes); reader metadata and double restore; all listings of 0..%d pages over 5 key sets x 2 prefixes x 3 suffixes '
               '(enumerated); three collection constructors; non-trivial = distinct document or a listing of >= 2 pages' % (3 if tier == 'quick' else 4))
    oc.exhaustive = False
    oc.extra['exhaustive_part'] = 'the listing space (pages x key sets x prefixes x suffixes) is enumerated completely; documents are samples'
    return oc


def replay_c18(pid, fl):
    from . import lean
    from mosromgr.utils import s3 as s3mod
    bad = False
    if fl['kind'] == 'sources':
        res = from_all_sources(fl['text'])
        vals = list(untyped(res).values())
        bad = not sources_agree(res)
        rd = reader_obs(fl['text'])
        if 'err' not in vals[0] and '<messageID>' in fl['text'] and '<roID' in fl['text']:
            bad = bad or any('err' in o or not o['faithful_and_fresh'] or o['mos_type'] != vals[0]['cls'] for o in rd.values())
    elif fl['kind'] == 'sources-bytes':
        res = from_all_sources(None, bytes.fromhex(fl['data_hex']))
        expect = from_all_sources(fl['body'])['str']
        bad = any(v != expect for v in untyped(res).values()) or not sources_agree(res)
    elif fl['kind'] == 'sources-escape':
        res = from_all_sources(None, bytes.fromhex(fl['data_hex']))
        esc = {k: v['err'] for k, v in untyped(res).items() if 'err' in v and str(v['err']).startswith('crash:')}
        print({'escaped': esc})
        bad = bool(esc)
    elif fl['kind'] == 'listing':
        coll_family.install_fake_s3(coll_family.FakeS3({}, pages=fl['pages']))
        got = s3mod.get_mos_files('bucket', fl['prefix'] or None, suffix=fl['suffix'])
        expect = [k for pg in fl['pages'] for k in pg if k.startswith(fl['prefix']) and k.endswith(fl['suffix'])]
        print({'impl': got, 'expected': expect})
        bad = got != expect
    elif fl['kind'] == 'collection-sources':
        outs = {via: coll_family.impl_collection(fl['docs'], fl.get('allow_incomplete', True), False, via=via) for via in ('strings', 'files', 's3')}
        bad = len({json.dumps((o['err'], o['reader_ids'], o['text'])) for o in outs.values()}) != 1
    if bad:
        print(f'VIOLATION property={pid} replay=(this file): still fails on the current tree')
        return 1
    print(f'{pid}: the recorded input no longer fails on the current tree')
    return 0


# ---- C19 -----------------------------------------------------------------------------------------

VERIF_DIR = os.path.dirname(os.path.dirname(os.path.abspath(__file__)))


def run_cli(argv):
    """mosromgr.cli.main(argv) in-process -> (stdout, stderr, return value | 'SystemExit:n')"""
    from mosromgr import cli
    from . import impl
    impl.apply_cfg(impl.cfg_for(' '.join(os.path.basename(a) for a in argv)))
    out, err = io.StringIO(), io.StringIO()
    with contextlib.redirect_stdout(out), contextlib.redirect_stderr(err):
        try:
            rv = cli.CLI()(argv)
        except SystemExit as e:
            rv = f'SystemExit:{e.code}'
        except Exception as e:  # noqa: BLE001 - the command died with a traceback: what a shell would show as status 1
            rv = f'raised:{type(e).__name__}'
    return out.getvalue(), err.getvalue(), rv


def inspect_lines_of(mo):
    """what the library's own inspect() prints for the object (no blank lines); None when it raises"""
    import contextlib, io as _io
    buf = _io.StringIO()
    try:
        with contextlib.redirect_stdout(buf), warnings.catch_warnings():
            warnings.simplefilter('ignore')
            mo.inspect()
    except Exception:  # noqa: BLE001 - C20's business
        return None
    return [l for l in buf.getvalue().split('\n') if l.strip()]


def file_pool(rng):
    """name -> ('xml', text) | ('notxml', text) | ('missing',) | ('directory',)"""
    g = gen_hist.Gen(rng)
    ro = g.ro(3)
    state = TJ.canon(ro)
    pool = {'ro.mos.xml': ('xml', TJ.to_text(ro))}
    done = TJ.canon(ro)
    done[4].append(E('mosromgrmeta', E('roDelete', E('roID', text='RO1'))))
    pool['completed.mos.xml'] = ('xml', TJ.to_text(done))
    for k, cls in enumerate(gen_hist.CLASSES):
        _, msg = gen_hist.random_message(g, state, 40 + k, cls=cls)
        pool[f'm{k:02d}_{cls}.mos.xml'] = ('xml', TJ.to_text(msg))
    pool['compact_roReplace.mos.xml'] = ('xml', TJ.to_text(B.ro_replace([B.story('X', [B.item('X1')])], message_id='90')))
    pool['delete.mos.xml'] = ('xml', TJ.to_text(B.ro_delete(message_id='99')))
    rr_done = TJ.canon(B.ro_replace([B.story('X', [B.item('X1')])], message_id='98'))
    rr_done[4].append(E('mosromgrmeta', E('roDelete', E('roID', text='RO1'))))
    pool['completed_roReplace.mos.xml'] = ('xml', TJ.to_text(rr_done))
    # messages with empty fields, no IDs, no payload: inspect must get through every classifiable one
    pool['mdr_empty_fields.mos.xml'] = ('xml', TJ.to_text(B.metadata_replace([E('roSlug'), E('roChannel'), E('roEdStart', text=' ')], message_id='91')))
    pool['append_nothing.mos.xml'] = ('xml', TJ.to_text(B.story_append([], message_id='92')))
    pool['insert_idless.mos.xml'] = ('xml', TJ.to_text(B.story_insert(B.BLANK, [B.story(B.ABSENT, [], slug=False), B.story(B.BLANK, [E('item')])], message_id='93')))
    pool['send_bare.mos.xml'] = ('xml', TJ.to_text(B.story_send(B.BLANK, [], slug=False, message_id='94')))
    pool['itemreplace_blank.mos.xml'] = ('xml', TJ.to_text(B.item_replace(B.BLANK, B.BLANK, [E('item', E('itemID'))], message_id='95')))
    pool['ea_move_notarget.mos.xml'] = ('xml', TJ.to_text(B.ea('MOVE', B.ABSENT, [B.ids('storyID', [B.BLANK])], message_id='96')))
    pool['ea_swap_blank.mos.xml'] = ('xml', TJ.to_text(B.ea('SWAP', {'storyID': B.BLANK}, [B.ids('itemID', [B.BLANK, B.BLANK])], message_id='97')))
    # roElementAction messages without any element_target (classifiable: the operation and the source decide)
    pool['ea_insert_notarget.mos.xml'] = ('xml', TJ.to_text(B.ea('INSERT', B.ABSENT, [[B.story('NT1', [])]], message_id='70')))
    pool['ea_replace_notarget.mos.xml'] = ('xml', TJ.to_text(B.ea('REPLACE', B.ABSENT, [[B.story('NT2', [])]], message_id='71')))
    pool['ea_itemdelete_notarget.mos.xml'] = ('xml', TJ.to_text(B.ea('DELETE', B.ABSENT, [B.ids('itemID', ['i1', 'i2'])], message_id='72')))
    pool['ea_itemswap_notarget.mos.xml'] = ('xml', TJ.to_text(B.ea('SWAP', B.ABSENT, [B.ids('itemID', ['i1', 'i2'])], message_id='73')))
    pool['ea_storydelete_notarget.mos.xml'] = ('xml', TJ.to_text(B.ea('DELETE', B.ABSENT, [B.ids('storyID', ['A'])], message_id='74')))
    # names with glob metacharacters, next to files their pattern would match
    pool['story[1].mos.xml'] = ('xml', TJ.to_text(B.story_append([B.story('G1')], message_id='81')))
    pool['story1.mos.xml'] = ('xml', TJ.to_text(B.story_delete(['A'], message_id='82')))
    pool['st*ry1.mos.xml'] = ('xml', TJ.to_text(B.ready_to_air(message_id='83')))
    pool['story?.mos.xml'] = ('xml', TJ.to_text(B.story_move(['A', 'B'], message_id='84')))
    pool['@studio-b.mos.xml'] = ('xml', TJ.to_text(B.story_append([B.story('AT')], message_id='85')))
    pool['.hidden.mos.xml'] = ('xml', TJ.to_text(B.ready_to_air(message_id='86')))
    pool['name with blanks é.mos.xml'] = ('xml', TJ.to_text(B.story_delete(['A'], message_id='87')))
    pool['notxml.txt'] = ('notxml', 'this is not xml <')
    pool['empty.xml'] = ('notxml', '')
    pool['unknown.xml'] = ('xml', '<mos><mosID>x</mosID><somethingElse/></mos>')
    pool['html.xml'] = ('xml', '<html><body/></html>')
    pool['missing.mos.xml'] = ('missing',)
    pool['adir'] = ('directory',)
    pool['0004%20roStoryMove.mos.xml'] = ('missing',)
    pool['archive%d'] = ('directory',)
    pool['100%s.mos.xml'] = ('xml', TJ.to_text(B.ready_to_air(message_id='89')))
    # running orders whose timing metadata is not numeric / not a time: classifiable, so inspect lists their stories and goes on
    pool['clock_durations_ro.mos.xml'] = ('xml', TJ.to_text(B.ro_doc([B.story('J1', [B.item('j1')], md=B.timing_md(duration='00:01:30')), B.story('J2', [])], message_id='1')))
    pool['junk_start_ro.mos.xml'] = ('xml', TJ.to_text(B.ro_doc([B.story('J1', [], md=B.timing_md(text_time='nan', media_time=''))], message_id='1', ed_start='tomorrow-ish')))
    # files that are not UTF-8: another declared encoding (classifiable like any other), and bytes that are no XML at all
    accents = TJ.to_text(B.story_append([B.story('caf\u00e9', [B.p('na\u00efve \u00a320')])], message_id='88'))
    pool['latin1.mos.xml'] = ('xmlbytes', ('<?xml version="1.0" encoding="ISO-8859-1"?>' + accents).encode('iso-8859-1'), accents)
    pool['utf16.mos.xml'] = ('xmlbytes', ('<?xml version="1.0" encoding="UTF-16"?>' + accents).encode('utf-16'), accents)
    pool['binary.dat'] = ('notxmlbytes', bytes(range(128, 256)) + b'\x00\xff\xfe<mos>')
    return pool


def materialise(pool, root):
    for name, spec in pool.items():
        p = os.path.join(root, name)
        if spec[0] in ('xml', 'notxml'):
            with open(p, 'w', encoding='utf-8') as f:
                f.write(spec[1])
        elif spec[0] in ('xmlbytes', 'notxmlbytes'):
            with open(p, 'wb') as f:
                f.write(spec[1])
        elif spec[0] == 'directory':
            os.makedirs(p, exist_ok=True)


def spell_path(root, n, how):
    """The same file named the ways a command line names files: absolute, bare relative, ./relative."""
    return os.path.join(root, n) if how == 'abs' else (n if how == 'bare' else './' + n)


def model_files(pool, names, root, how='abs'):
    out = []
    for n in names:
        spec = pool[n]
        path = spell_path(root, n, how)
        if spec[0] == 'xml':
            out.append([path, TJ.parse(spec[1])])
        elif spec[0] == 'xmlbytes':
            out.append([path, TJ.parse(spec[2])])
        else:
            out.append([path, {'notxml': 'notxml', 'notxmlbytes': 'notxml', 'missing': 'missing', 'directory': 'directory'}[spec[0]]])
    return out


OLD_CONTENT = '<!-- older, longer content -->' + 'x' * 200000


def outfile_writable(path):
    """Can `open(path, 'w')` succeed? (an existing directory or a missing parent directory cannot)"""
    return not os.path.isdir(path) and os.path.isdir(os.path.dirname(path) or '.')


def split_lines(s):
    return s.split('\n')[:-1] if s else []


def run_c19(tier, seed):
    from . import impl, lean
    from mosromgr.moscollection import MosCollection
    oc = Outcome('C19')
    rng = random.Random(seed * 71 + 4)
    root = tempfile.mkdtemp(prefix='mrm-cli-')
    cwd0 = os.getcwd()
    try:
        pool = file_pool(rng)
        materialise(pool, root)
        names = sorted(pool)
        jobs = []
        # detect / inspect over file lists mixing every kind
        lists = [[n] for n in names]
        for _ in range(60 if tier == 'quick' else 600):
            lists.append(rng.sample(names, rng.randrange(2, 7)))
        for _ in range(15 if tier == 'quick' else 150):
            lst = rng.sample(names, rng.randrange(2, 5))
            lists.append(lst + [lst[0]] + lst[-1:])            # the same path listed again: reported again
        for lst in lists:
            for cmd in ('detect', 'inspect'):
                jobs.append((cmd, lst, {}))
        # (-s / -p / -k filter an S3 listing; with -f they have nothing to say about the files)
        for lst in lists[::9]:
            for extra in (['-s', '.mos.xml'], ['-s', '.txt'], ['-p', 'm0'], ['-k', lst[0]]):
                jobs.append(('detect', lst, {'extra_argv': extra}))
                jobs.append(('inspect', lst, {'extra_argv': extra}))
        # merge: collections from histories (files written to disk) x option combinations
        hist = hist_run.run_histories([seed * 1237 + k for k in range(10 if tier == 'quick' else 300)], max_steps=6)
        merge_sets = []
        for h in hist:
            hn = []
            for i, t in enumerate(h['docs']):
                n = f'h{h["seed"]}_{i:02d}.mos.xml'
                pool[n] = ('xml', t)
                hn.append(n)
            materialise({n: pool[n] for n in hn}, root)
            merge_sets.append(hn)
            merge_sets.append(hn + [rng.choice(['notxml.txt', 'missing.mos.xml', 'unknown.xml', 'adir'])])
            merge_sets.append(list(reversed(hn)))
        merge_sets.append(['ro.mos.xml'])
        merge_sets.append(['ro.mos.xml', 'delete.mos.xml'])
        merge_sets.append(['ro.mos.xml', 'ro.mos.xml', 'delete.mos.xml'])
        merge_sets.append(['delete.mos.xml'])
        # messages that share one message ID are merged in the order they are listed (the sort is stable):
        # file names whose alphabetical order is the opposite of the listing order, both ways round
        tie = {'tie_ro.mos.xml': B.ro_doc([B.story('A', [B.item('a1')])], message_id='3'),
               'zz_tie_first.mos.xml': B.story_append([B.story('T1')], message_id='5'),
               'aa_tie_second.mos.xml': B.story_append([B.story('T2')], message_id='5'),
               'mm_tie_insert.mos.xml': B.story_insert('A', [B.story('T3')], message_id='5'),
               'bb_tie_delete.mos.xml': B.story_delete(['T3'], message_id='5'),
               'tie_end.mos.xml': B.ro_delete(message_id='5')}
        for n, d in tie.items():
            pool[n] = ('xml', TJ.to_text(d))
        materialise({n: pool[n] for n in tie}, root)
        for order in (['zz_tie_first.mos.xml', 'aa_tie_second.mos.xml'], ['aa_tie_second.mos.xml', 'zz_tie_first.mos.xml'],
                      ['mm_tie_insert.mos.xml', 'bb_tie_delete.mos.xml', 'zz_tie_first.mos.xml'],
                      ['bb_tie_delete.mos.xml', 'mm_tie_insert.mos.xml', 'aa_tie_second.mos.xml'],
                      ['zz_tie_first.mos.xml', 'tie_end.mos.xml', 'aa_tie_second.mos.xml'],
                      ['tie_end.mos.xml', 'zz_tie_first.mos.xml']):
            merge_sets.append(['tie_ro.mos.xml'] + order)
            merge_sets.append(order + ['tie_ro.mos.xml'])
        for ms in merge_sets:
            for inc in (False, True):
                for ns in (False, True):
                    for outf in (None, 'merged_out.xml'):
                        jobs.append(('merge', ms, {'incomplete': inc, 'non_strict': ns, 'outfile': outf}))
        # an outfile that cannot be opened for writing is an error like any other
        for ms in merge_sets[::3] + merge_sets[-12:]:
            for outf in ('adir', os.path.join('no', 'such', 'dir', 'out.xml')):
                k = len(jobs)
                jobs.append(('merge', ms, {'incomplete': bool(k % 2), 'non_strict': bool((k // 2) % 2), 'outfile': outf}))
        # the same commands over a (fake) S3 bucket: -b/-p/-s/-k
        s3_names = [n for n in sorted(pool) if pool[n][0] in ('xml', 'notxml')]
        s3_objects = {'pfx/' + n: pool[n][1].encode('utf-8') for n in s3_names}
        # (key names with commas and blanks: a key is one string, however it reads)
        for odd in ('Fri, 01 Jan 2021/ro, final.mos.xml', 'Nyhetsmorgon, TV4/a b.mos.xml'):
            s3_objects['pfx/' + odd] = pool['ro.mos.xml'][1].encode('utf-8')
            pool['' + odd] = pool['ro.mos.xml']
        s3_jobs = []
        for suffix in (None, '.mos.xml', '.xml', '.txt'):
            eff = suffix or '.mos.xml'
            keys = [k for k in sorted(s3_objects) if k.endswith(eff)]
            for cmd in ('detect', 'inspect'):
                s3_jobs.append((cmd, keys, ['-b', 'bucket', '-p', 'pfx/'] + (['-s', suffix] if suffix else [])))
        for k in list(sorted(s3_objects))[:: max(1, len(s3_objects) // 12)] + [k_ for k_ in s3_objects if ',' in k_]:
            s3_jobs.append(('detect', [k], ['-b', 'bucket', '-k', k]))
            s3_jobs.append(('inspect', [k], ['-b', 'bucket', '-k', k]))
        reqs = []
        for cmd, keys, argv in s3_jobs:
            files = [[k, TJ.parse(pool[k[4:]][1]) if pool[k[4:]][0] == 'xml' else 'notxml'] for k in keys]
            reqs.append({'op': 'cli', 'cmd': cmd, 'files': files})
        for (cmd, keys, argv), r in zip(s3_jobs, lean.run_batch(reqs)):
            coll_family.install_fake_s3(coll_family.FakeS3(s3_objects, page_size=7))
            so, se, rv = run_cli([cmd] + argv)
            status = 0 if rv is None else rv
            oc.evaluations += 1
            oc.in_domain += 1
            oc.count('cmd:' + cmd + '/s3')
            rec = {'kind': 'cli-s3', 'cmd': cmd, 'argv': argv, 'keys': keys, 'label': f'{cmd} {" ".join(argv)}'}
            m_out = ''.join(l[1] + '\n' for l in r['lines'] if l[0] == 'out')
            m_err = ''.join(l[1] + '\n' for l in r['lines'] if l[0] == 'err')
            is_detect = lambda l: any(l.startswith(k_ + ': ') for k_ in keys)
            marked = lambda lines: [l.split(': ')[0] for l in lines if ': Invalid' in l]
            if keys and r['status'] == 0 and ([l for l in split_lines(so) if is_detect(l)], marked(split_lines(se)), status) != \
                    ([l for l in split_lines(m_out) if is_detect(l)], marked(split_lines(m_err)), 0):
                oc.disagreements.append(dict(rec, what='cli output (S3)', impl={'stdout': so[:1500], 'stderr': se[:600], 'status': status},
                                             model={'stdout': m_out[:1500], 'stderr': m_err[:600]}))
            exp_out, exp_err, exp_body, body_known = [], [], [], True
            for k in keys:
                spec = pool[k[4:]]
                try:
                    with warnings.catch_warnings():
                        warnings.simplefilter('ignore')
                        mo = impl.MosFile.from_string(spec[1].encode('utf-8'))
                    exp_out.append(f'{k}: {type(mo).__name__}' + (' (completed)' if mo.completed else ''))
                    exp_body.append(exp_out[-1])
                    il = inspect_lines_of(mo)
                    body_known = body_known and il is not None
                    exp_body.extend(il or [])
                except Exception:  # noqa: BLE001
                    exp_err.append(k)
            got = [l for l in split_lines(so) if any(l.startswith(k + ': ') for k in keys)]
            bad = []
            if cmd == 'detect' and (got != exp_out or status != 0):
                bad.append('detect over S3 keys differs from the library classification of each object in listing order')
            elif cmd == 'detect' and [l for l in split_lines(so) if l.strip()] != exp_out:
                bad.append('detect over S3 keys prints something besides one class line per classifiable object')
            if (cmd == 'detect' or r['status'] == 0) and [l.split(': ')[0] for l in split_lines(se) if ': Invalid' in l] != exp_err:
                bad.append('invalid objects are not all marked (or others were skipped)')
            if cmd == 'inspect' and r['status'] == 0 and status != 0:
                bad.append(f'inspect aborted with {status}: {se[-200:]}')
            if cmd == 'inspect' and r['status'] == 0 and body_known and keys and [l for l in split_lines(so) if l.strip()] != exp_body:
                bad.append("inspect over S3 keys does not print, for every classifiable object in order, its class line followed by what the library's inspect() prints for it")
            if bad:
                oc.failing.append(dict(rec, spec='; '.join(bad), impl={'stdout': so[:1200], 'stderr': se[:600], 'status': status}))
            oc.nontrivial.add(stable_hash(['s3', cmd, argv]))
        # merge over S3: history collections stored as objects
        for hn in [ms for ms in merge_sets if all(pool[n][0] == 'xml' for n in ms)][:12]:
            objs = {f'coll/{i:03d}_{n}': pool[n][1].encode('utf-8') for i, n in enumerate(hn)}
            paths = [os.path.join(root, n) for n in hn]
            for inc in (False, True):
                for ns in (False, True):
                    coll_family.install_fake_s3(coll_family.FakeS3(objs, page_size=3))
                    so, se, rv = run_cli(['merge', '-b', 'bucket', '-p', 'coll/', '-s', '.xml'] + (['-i'] if inc else []) + (['-n'] if ns else []))
                    status = 0 if rv is None else rv
                    # the prefix is a string prefix of the keys, not a folder: one that ends inside the names lists the same keys
                    coll_family.install_fake_s3(coll_family.FakeS3(objs, page_size=3))
                    sp, ep, rp = run_cli(['merge', '--bucket-name=bucket', '--prefix=coll/0', '-s', '.xml'] + (['-i'] if inc else []) + (['-n'] if ns else []))
                    if (sp, 0 if rp is None else rp) != (so, status) and all(k.startswith('coll/0') for k in objs):
                        oc.failing.append({'kind': 'cli-s3', 'cmd': 'merge', 'argv': ['--bucket-name=bucket', '--prefix=coll/0'], 'keys': sorted(objs),
                                           'label': f'merge over S3 with a prefix that ends inside the key names incomplete={inc} non_strict={ns}',
                                           'spec': 'the prefix selects the keys that start with it (it need not end in a slash)',
                                           'impl': {'prefix coll/0': {'status': rp, 'stdout': sp[:300], 'stderr': ep[:300]}, 'prefix coll/': {'status': status, 'stdout': so[:300]}}})
                    sf, ef, rf = run_cli(['merge', '-f'] + paths + (['-i'] if inc else []) + (['-n'] if ns else []))
                    oc.evaluations += 1
                    oc.in_domain += 1
                    oc.count('cmd:merge/s3')
                    # files AND a bucket given: the listed files are what is merged (as for detect / inspect)
                    other = {'coll/000_other.mos.xml': TJ.to_text(B.ro_doc([B.story('OTHER-BUCKET-CONTENT', [])], message_id='1')).encode('utf-8'),
                             'coll/001_other.mos.xml': TJ.to_text(B.ro_delete(message_id='2')).encode('utf-8')}
                    coll_family.install_fake_s3(coll_family.FakeS3(other, page_size=3))
                    sb, eb, rb = run_cli(['merge', '-f'] + paths + ['-b', 'bucket', '-p', 'coll/'] + (['-i'] if inc else []) + (['-n'] if ns else []))
                    if (sb, 0 if rb is None else rb) != (sf, 0 if rf is None else rf):
                        oc.failing.append({'kind': 'cli-s3', 'cmd': 'merge', 'argv': ['-f', '...', '-b', 'bucket', '-p', 'coll/'], 'keys': sorted(other),
                                           'label': f'merge -f files -b bucket incomplete={inc} non_strict={ns}',
                                           'spec': 'with files listed, merge merges the listed files (a bucket named as well changes nothing)',
                                           'impl': {'with_bucket': {'status': rb, 'stdout': sb[:400], 'stderr': eb[:200]}, 'files_only': {'status': rf, 'stdout': sf[:400]}}})
                    if (so, status) != (sf, 0 if rf is None else rf):
                        oc.failing.append({'kind': 'cli-s3', 'cmd': 'merge', 'argv': ['-b', 'bucket', '-p', 'coll/'], 'keys': sorted(objs),
                                           'label': f'merge over S3 incomplete={inc} non_strict={ns}',
                                           'spec': 'merge over S3 keys gives what merge over files with the same contents gives',
                                           'impl': {'s3': {'status': status, 'stdout': so[:600], 'stderr': se[:300]},
                                                    'files': {'status': rf, 'stdout': sf[:600]}}})
        # merge with nothing to merge (no -f, no -b) is an error like any other: status 2 and a message on stderr
        for extra in ([], ['-i'], ['-n'], ['-n', '-i'], ['-o', os.path.join(root, 'never-written.xml')]):
            so, se, rv = run_cli(['merge'] + extra)
            status = 0 if rv is None else (int(rv.split(':')[1]) if isinstance(rv, str) and rv.split(':')[1].lstrip('-').isdigit() else rv)
            m = lean.run_batch([{'op': 'cli', 'cmd': 'merge', 'files': [], 'incomplete': '-i' in extra, 'non_strict': '-n' in extra}])[0]
            oc.evaluations += 1
            oc.in_domain += 1
            oc.count('cmd:merge/no-input')
            rec = {'kind': 'cli-noinput', 'cmd': 'merge', 'argv': ['merge'] + extra, 'label': 'merge ' + ' '.join(extra) + ' (no input)'}
            if m['status'] != 2:
                oc.disagreements.append(dict(rec, what='cli status', impl={'status': status}, model={'status': m['status']}))
            if status != 2 or not se.strip() or os.path.exists(os.path.join(root, 'never-written.xml')):
                oc.failing.append(dict(rec, spec='merge with no input is an error: exit status 2 with a message on stderr, nothing written',
                                       impl={'status': status, 'returned': str(rv), 'stderr': se[:300], 'stdout': so[:200]}))
        reqs = []
        for cmd, lst, opts in jobs:
            how = opts.setdefault('paths', ('abs', 'bare', 'dot')[len(reqs) % 3] if all(os.sep not in n for n in lst) else 'abs')
            r = {'op': 'cli', 'cmd': cmd, 'files': model_files(pool, lst, root, how)}
            if cmd == 'merge':
                r['incomplete'] = opts['incomplete']
                r['non_strict'] = opts['non_strict']
                if opts['outfile']:
                    r['outfile'] = os.path.join(root, opts['outfile'])
                    r['outfile_writable'] = outfile_writable(r['outfile'])
            reqs.append(r)
        resps = lean.run_batch(reqs)
        os.chdir(root)                      # relative spellings are relative to the directory holding the files
        for (cmd, lst, opts), r in zip(jobs, resps):
            oc.evaluations += 1
            oc.in_domain += 1
            oc.count('cmd:' + cmd)
            paths = [spell_path(root, n, opts.get('paths', 'abs')) for n in lst]
            rec = {'kind': 'cli', 'cmd': cmd, 'files': [[n] + [x.hex() if isinstance(x, bytes) else x for x in pool[n]] for n in lst], 'opts': opts, 'label': f'{cmd} {" ".join(lst)} {opts}'}
            if cmd in ('detect', 'inspect'):
                so, se, rv = run_cli([cmd] + list(opts.get('extra_argv', [])) + ['-f'] + paths)
                status = 0 if rv is None else rv
                m_out = [l[1] for l in r['lines'] if l[0] == 'out']
                m_err = [l[1] for l in r['lines'] if l[0] == 'err']
                bad = []
                if r['status'] == 0:
                    # compared: the detect lines (path: Class [(completed)]) in order, which paths are marked invalid, the status;
                    # the wording of inspect() bodies and of the invalid marker is not part of the property
                    is_detect = lambda l: any(l.startswith(p_ + ': ') for p_ in paths)
                    marked = lambda lines: [l.split(': ')[0] for l in lines if ': Invalid' in l]
                    if ([l for l in split_lines(so) if is_detect(l)], marked(split_lines(se)), status) != \
                            ([l for l in m_out if is_detect(l)], marked(m_err), 0):
                        oc.disagreements.append(dict(rec, what='cli output', impl={'stdout': so[:1500], 'stderr': se[:800], 'status': status},
                                                     model={'stdout': m_out[:40], 'stderr': m_err[:20], 'status': r['status']}))
                elif status != 2:
                    oc.disagreements.append(dict(rec, what='cli status', impl={'status': status, 'stderr': se[:500]}, model={'status': r['status']}))
                # the property, checked against the library directly: one line per file, in order
                exp_out, exp_err, exp_body, body_known = [], [], [], True
                for n, p in zip(lst, paths):
                    try:
                        with warnings.catch_warnings():
                            warnings.simplefilter('ignore')
                            mo = impl.MosFile.from_file(p)
                        exp_out.append(f'{p}: {type(mo).__name__}' + (' (completed)' if mo.completed else ''))
                        exp_body.append(exp_out[-1])
                        il = inspect_lines_of(mo)
                        body_known = body_known and il is not None
                        exp_body.extend(il or [])
                    except Exception:  # noqa: BLE001
                        exp_err.append(p)
                got_detect = [l for l in split_lines(so) if any(l.startswith(p + ': ') for p in paths)]
                if cmd == 'detect' and got_detect != exp_out:
                    bad.append('detect lines differ from the library classification of each file in order')
                elif cmd == 'detect' and [l for l in split_lines(so) if l.strip()] != exp_out:
                    bad.append('detect prints something besides one class line per classifiable file')
                if cmd == 'inspect' and r['status'] == 0 and body_known and [l for l in split_lines(so) if l.strip()] != exp_body:
                    bad.append("inspect does not print, for every classifiable file in order, its class line followed by what the library's inspect() prints for it")
                if [l.split(': ')[0] for l in split_lines(se) if ': Invalid' in l] != exp_err and (cmd == 'detect' or r['status'] == 0):
                    bad.append('invalid/unreadable files are not all marked (or others were skipped)')
                if cmd == 'detect' and status != 0:
                    bad.append(f'detect returned {status}')
                if cmd == 'inspect' and r['status'] == 0 and status != 0:
                    bad.append(f'inspect aborted with {status}: {se[-200:]}')
                if bad:
                    oc.failing.append(dict(rec, spec='; '.join(bad), impl={'stdout': so[:1500], 'stderr': se[:800], 'status': status}))
                if any(pool[n][0] != 'xml' for n in lst) and len(lst) > 1:
                    oc.nontrivial.add(stable_hash([cmd, lst]))
            else:
                outp = os.path.join(root, opts['outfile']) if opts['outfile'] else None
                if outp and (os.path.isfile(outp) or (not os.path.exists(outp) and outfile_writable(outp))):
                    # the target already exists and is longer than anything that will be written
                    with open(outp, 'w', encoding='utf-8') as f:
                        f.write(OLD_CONTENT)
                argv = ['merge', '-f'] + paths + (['-o', outp] if outp else []) + (['-i'] if opts['incomplete'] else []) + \
                       (['-n'] if opts['non_strict'] else [])
                so, se, rv = run_cli(argv)
                status = 0 if rv is None else rv
                written = open(outp, encoding='utf-8', newline='').read() if outp and os.path.isfile(outp) else None
                if written == OLD_CONTENT:
                    written = None           # the older file was left alone: nothing was written
                got = {'status': status, 'stdout': so, 'written': written}
                model = {'status': r['status'], 'stdout': (r['stdout'] + '\n') if r['stdout'] is not None else '', 'written': r['written']}
                if got != model:
                    oc.disagreements.append(dict(rec, what='merge outcome', impl={k: (v[:1500] if isinstance(v, str) else v) for k, v in got.items()},
                                                 model={k: (v[:1500] if isinstance(v, str) else v) for k, v in model.items()}))
                # against the library
                bad = []
                try:
                    with warnings.catch_warnings():
                        warnings.simplefilter('ignore')
                        mc = MosCollection.from_files(paths, allow_incomplete=opts['incomplete'])
                        mc.merge(strict=not opts['non_strict'])
                    lib = str(mc)
                except Exception:  # noqa: BLE001
                    lib = None
                if lib is None or (outp and not outfile_writable(outp)):
                    if status != 2 or not se or so or written is not None:
                        bad.append('an error must give status 2 with a message on stderr and write nothing')
                else:
                    if status != 0:
                        bad.append(f'status {status} although the library merge succeeds')
                    if outp:
                        if written != lib:
                            bad.append('the -o file is not the serialisation of the merged collection')
                    elif so != lib + '\n':
                        bad.append('stdout is not the serialisation of the merged collection')
                if bad:
                    oc.failing.append(dict(rec, spec='; '.join(bad), impl={'status': status, 'stderr': se[:400], 'stdout': so[:400]}))
                oc.count('merge:' + ('ok' if lib is not None else 'error'))
                oc.nontrivial.add(stable_hash(['merge', lst, opts]))
        # the real command in a real process whose stdout is NOT UTF-8: either the exact serialisation comes out (every
        # character encodable) or it is an error (status 2, nothing on stdout) - never something else with status 0
        enc_sets = {'latin-1 content': [TJ.to_text(B.ro_doc([B.story('A', [B.p('caf\u00e9 \u00a320')])], message_id='1', slug='\u00dcbersicht')),
                                        TJ.to_text(B.story_append([B.story('B', [B.p('na\u00efve')])], message_id='2')), TJ.to_text(B.ro_delete(message_id='3'))],
                    'beyond latin-1': [TJ.to_text(B.ro_doc([B.story('A', [B.p('\u20ac 5, \u201cquoted\u201d, \u0175, \u041a\u0438\u0435\u0432, \U0001d11e')])], message_id='1')),
                                       TJ.to_text(B.ro_delete(message_id='3'))]}
        for label, docs in enc_sets.items():
            fns = []
            for k, t in enumerate(docs):
                fn = os.path.join(root, f'enc_{label[:3]}_{k}.mos.xml')
                with open(fn, 'w', encoding='utf-8') as f:
                    f.write(t)
                fns.append(fn)
            with warnings.catch_warnings():
                warnings.simplefilter('ignore')
                mc = MosCollection.from_files(fns)
                mc.merge()
            lib = str(mc)
            for enc in ('latin-1', 'ascii', 'utf-8'):
                code = 'import sys; sys.path.insert(0, %r); from mosromgr.cli import main; sys.exit(main(sys.argv[1:]) or 0)' % impl.REPO
                env = dict(os.environ, PYTHONIOENCODING=enc, PYTHONDONTWRITEBYTECODE='1')
                pr = subprocess.run([sys.executable, '-c', code, 'merge', '-f'] + fns, stdout=subprocess.PIPE, stderr=subprocess.PIPE, env=env, timeout=120)
                oc.evaluations += 1
                oc.in_domain += 1
                oc.count('cmd:merge/real-process')
                try:
                    want = (lib + '\n').encode(enc)
                except UnicodeEncodeError:
                    want = None
                ok = (pr.returncode == 0 and pr.stdout == want) if want is not None else (pr.returncode == 2 and pr.stdout == b'' and pr.stderr != b'')
                if not ok:
                    oc.failing.append({'kind': 'cli-process', 'label': f'merge in a real process, stdout encoding {enc}, {label}', 'docs': docs, 'encoding': enc,
                                       'spec': 'merge writes exactly the serialisation of the merged collection and exits 0, or exits 2 with a message on stderr and nothing on stdout',
                                       'impl': {'status': pr.returncode, 'stdout': pr.stdout[:300].decode('latin-1'), 'stderr': pr.stderr[-300:].decode('latin-1')}})
        if len(oc.samples) < 1:
            oc.samples.append({'files': names[:8], 'example': 'detect -f ' + ' '.join(names[:3])})
    finally:
        os.chdir(cwd0)
        shutil.rmtree(root, ignore_errors=True)
    oc.rule = ('file lists mixing valid messages of every class, a completed running order, non-XML, unknown XML, a missing path '
               'and a directory, for detect and inspect; merge over history collections (complete, with an intruder, reversed) x '
               '{--incomplete} x {--non-strict} x {stdout, -o}; non-trivial = a list with a bad file, or any merge')
    return oc


def replay_c19(pid, fl):
    root = tempfile.mkdtemp(prefix='mrm-cli-')
    try:
        pool = {f[0]: tuple(bytes.fromhex(x) if i == 1 and f[1] in ('xmlbytes', 'notxmlbytes') else x for i, x in enumerate(f[1:])) for f in fl['files']}
        materialise(pool, root)
        opts = fl['opts']
        paths = [spell_path(root, f[0], opts.get('paths', 'abs')) for f in fl['files']]
        os.chdir(root)
        if fl['cmd'] == 'merge':
            outp = os.path.join(root, opts['outfile']) if opts.get('outfile') else None
            argv = ['merge', '-f'] + paths + (['-o', outp] if outp else []) + (['-i'] if opts['incomplete'] else []) + (['-n'] if opts['non_strict'] else [])
        else:
            argv = [fl['cmd']] + list(opts.get('extra_argv', [])) + ['-f'] + paths
        so, se, rv = run_cli(argv)
        print(json.dumps({'stdout': so[:2000], 'stderr': se[:1000], 'return': rv}, indent=1))
    finally:
        os.chdir(VERIF_DIR)
        shutil.rmtree(root, ignore_errors=True)
    print('re-run `run.py check C19` to evaluate the recorded case against the model and the library')
    from . import registry
    return registry.run_check(pid, 'quick', 0)


def replay_c19_s3(pid, fl):
    print('S3 command-line case: re-running the C19 check (the bucket contents are generated by the check)')
    from . import registry
    return registry.run_check(pid, 'quick', 0)
