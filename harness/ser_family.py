"""Correspondence run for C14 (serialisation round trip and envelope invariants)."""
import json
import random

from . import access_family, build as B, gen_hist, hist_run, treejson as TJ
from .core import Outcome, stable_hash
from .treejson import E

CR = '@@CR@@'


def has_cr(t):
    """Does any text or tail of the tree contain U+000D? (signature of the open known finding)"""
    if (t[2] and '\r' in t[2]) or (t[3] and '\r' in t[3]):
        return True
    return any(has_cr(c) for c in t[4])


def sig_cr(fl):
    return bool(fl.get('state_has_cr'))


SIGNATURES = {'cr-in-chardata': sig_cr}

RICH_TEXTS = ['\u0645\u06cc\u200c\u062e\u0648\u0627\u0647\u0645 zwnj', '\U0001f468\u200d\U0001f469\u200d\U0001f467 zwj', 'soft\u00adhyphen \u200f rlm \ufeff bom', '\ue000 private \U000e0001 tag',
              'e\u0301 decomposed', '\u2126 ohm \u212b angstrom', '\ufb01 ligature',  'plain', 'a & b', '<tag>', 'x > y', '"quoted"', "it's", 'Ünï ☃ 𝄞 日本', ' lead', 'trail ', '\n  ', 'tab\there',
              'nl\nhere', '&amp; literally', '&#13; literally', ']]>', '--', ' nbsp', ' ls', 'a\u0085b', '']


def rich_doc(rng, with_cr):
    def txt():
        t = rng.choice(RICH_TEXTS)
        if with_cr and rng.random() < 0.3:
            t = (t or '') + 'l1' + CR + 'l2'
        return t or None

    def node(depth):
        attrs = {}
        for k in range(rng.randrange(0, 3)):
            attrs[rng.choice(['type', 'id', 'x', 'lang', 'gr\u00f6\u00dfe'])] = rng.choice(['v', 'a&b', '<q>', '"dq"', "s'q", 'nl\nv', 'tab\tv', 'cr\rv', 'Ünï', ''])
        kids = [node(depth + 1) for _ in range(rng.randrange(0, 3 if depth < 3 else 1))]
        return E(rng.choice(['mosExternalMetadata', 'mosPayload', 'em', 'b', 'studioCommand', 'x-y', 'ns_tag', '\u00dcberschrift', '\u65e5\u672c', 'caf\u00e9.x']), *kids,
                 text=txt(), tail=txt(), attrs=attrs)

    stories = []
    for k in range(rng.randrange(0, 4)):
        body = []
        for _ in range(rng.randrange(0, 4)):
            c = rng.random()
            if c < 0.4:
                p = B.p(txt())
                p[3] = txt()
                body.append(p)
            elif c < 0.7:
                body.append(B.item(f'i{k}{len(body)}', extra=[node(1)]))
            else:
                body.append(node(0))
        stories.append(B.story(f'S{k}', body, md=rng.choice([None, B.timing_md(duration='2.5')])))
    doc = B.ro_doc(stories, pattern=rng.choice(B.PATTERNS), slug=txt() or 'slug')
    doc[2] = rng.choice([None, '\n  '])
    return doc


def to_source(doc):
    return TJ.to_text(doc).replace(CR, '&#13;')


def check_state(oc, pid, ro, tree, label, rec_extra, original):
    """All C14 checks on one live running order `ro` whose tree is `tree`."""
    from . import impl
    text = str(ro)
    rec = dict(rec_extra, kind='roundtrip', label=label, text=text, state_has_cr=has_cr(tree))
    oc.evaluations += 1
    oc.in_domain += 1
    bad = []
    try:
        ro2 = impl.load(text)
    except Exception as e:  # noqa: BLE001
        oc.failing.append(dict(rec, spec='the serialisation is well-formed XML', impl={'err': impl.err_name(e)}))
        return None
    tree2 = TJ.to_tree(ro2.xml)
    if type(ro2).__name__ != 'RunningOrder':
        bad.append('re-read object is a %s' % type(ro2).__name__)
    if str(ro2) != text:
        bad.append('serialise(read(serialise)) differs')
    if tree2 != tree:
        bad.append('the re-read tree differs (text, attributes or special characters not intact)')
    v1, v2 = access_family.read_view(ro), access_family.read_view(ro2)
    key = lambda v: None if 'view' not in v else ([(s['id'], [i['id'] for i in s['items']]) for s in v['view']['stories']], v['view']['completed'])
    if key(v1) != key(v2):
        bad.append('stories/items/completed of the live object differ from the re-read one')
    elif v1 != v2:
        # the same stories and items - but not the same running order: some accessor (times, durations, slugs, script,
        # body) of the live object answers differently from the object read back from its own serialisation
        diff = [k_ for k_ in (v1.get('view') or {}) if (v1.get('view') or {}).get(k_) != (v2.get('view') or {}).get(k_)] or ['crash' if 'crash' in v1 or 'crash' in v2 else '?']
        bad.append('the live object and the one read back from its serialisation answer differently: ' + ', '.join(sorted(diff))[:200])
    # envelope
    root = tree
    n_rc = sum(1 for c in root[4] if c[0] == 'roCreate')
    n_meta = sum(1 for c in root[4] if c[0] == 'mosromgrmeta')
    if n_rc != 1:
        bad.append(f'{n_rc} running-order elements in the envelope')
    if n_meta > 1:
        bad.append(f'{n_meta} completion records')
    try:
        if ro.message_id != original['message_id']:
            bad.append('message ID changed')
        if ro.ro_id != original['ro_id']:
            bad.append('running-order ID changed')
        if bool(ro.completed) != (n_meta == 1):
            bad.append('completed flag disagrees with the completion record')
    except Exception as e:  # noqa: BLE001
        bad.append('envelope accessor raised ' + impl.err_name(e))
    if bad:
        oc.failing.append(dict(rec, spec='; '.join(bad)))
    return text


def locale_check(oc, texts):
    import os, shutil, subprocess, sys, tempfile
    from . import impl
    if not texts:
        return
    tmp = tempfile.mkdtemp(prefix='mrm-c14-')
    try:
        for k, t in enumerate(texts):
            with open(os.path.join(tmp, f's{k}.mos.xml'), 'w', encoding='utf-8', newline='') as f:
                f.write(t)
        code = ("import sys, json, os; sys.path.insert(0, %r)\n"
                "from mosromgr.mostypes import MosFile\n"
                "out = []\n"
                "for k in range(%d):\n"
                "    try: out.append(str(MosFile.from_file(os.path.join(%r, 's%%d.mos.xml' %% k))))\n"
                "    except Exception as e: out.append('ERR ' + type(e).__name__)\n"
                "sys.stdout.buffer.write(json.dumps(out).encode('ascii'))" % (impl.REPO, len(texts), tmp))
        env = dict(os.environ, LC_ALL='C', LANG='C', PYTHONUTF8='0', PYTHONCOERCECLOCALE='0', PYTHONDONTWRITEBYTECODE='1')
        env.pop('PYTHONIOENCODING', None)
        p = subprocess.run([sys.executable, '-c', code], env=env, stdout=subprocess.PIPE, stderr=subprocess.PIPE, timeout=300)
        try:
            got = json.loads(p.stdout.decode('ascii'))
        except Exception:  # noqa: BLE001
            got = None
        for k, t in enumerate(texts):
            oc.evaluations += 1
            oc.in_domain += 1
            oc.count('locale-C-from_file')
            if got is None or ('\r' not in t and got[k] != t):
                oc.failing.append({'kind': 'roundtrip-locale', 'label': 'serialisation written to a file and loaded from it under LC_ALL=C, PYTHONUTF8=0', 'text': t[:3000],
                                   'state_has_cr': False, 'spec': 'the serialised running order reads back to an identical running order (from a file, whatever the locale)',
                                   'impl': (got[k][:600] if got else {'exit': p.returncode, 'stderr': p.stderr[-400:].decode('latin-1')})})
                break
    finally:
        shutil.rmtree(tmp, ignore_errors=True)


def _envelope_plans():
    """Running orders in every envelope layout x the messages that touch the envelope or the roCreate."""
    X = B.story('X', [B.item('x1'), B.p('text & more')])
    base = B.ro_doc([B.story('A', [B.item('a1')]), B.story('B', [])], message_id='17')
    kids = base[4]
    variants = [kids[-1:] + kids[:-1],                                   # roCreate first
                [k for k in kids if k[0] in ('messageID', 'roCreate')],  # bare
                [kids[-1]] + [k for k in kids if k[0] == 'messageID'],   # roCreate, then messageID
                [E('mosExtra', text='x')] + kids + [E('mosTrailer', text='y')],
                kids]
    seqs = [[('RunningOrderReplace', B.ro_replace([X], message_id='20'))],
            [('RunningOrderReplace', B.ro_replace([X], message_id='20')), ('RunningOrderReplace', B.ro_replace([], message_id='21', pattern='none'))],
            [('MetaDataReplace', B.metadata_replace([E('roSlug', text='s<>&')], message_id='20')), ('RunningOrderReplace', B.ro_replace([X], message_id='21')),
             ('RunningOrderEnd', B.ro_delete(message_id='22'))],
            [('StorySend', B.story_send('A', [B.p('sent')], message_id='20')), ('RunningOrderEnd', B.ro_delete(message_id='21')),
             ('RunningOrderReplace', B.ro_replace([X], message_id='22')), ('RunningOrderEnd', B.ro_delete(message_id='23'))],
            [('RunningOrderEnd', B.ro_delete(message_id='20', ro_id='OTHER')), ('StoryAppend', B.story_append([X], message_id='21'))],
            # messages addressed to another running order, unknown references, duplicates: whatever warns or fails on the way
            [('RunningOrderReplace', B.ro_replace([X], message_id='20', ro_id='OTHER-RO')), ('StorySend', B.story_send('ZZ', [B.p('x')], message_id='21')),
             ('StoryInsert', B.story_insert('X', [X], message_id='22')), ('RunningOrderReplace', B.ro_replace([X], message_id='23', ro_id=B.BLANK)),
             ('StoryDelete', B.story_delete(['X', 'ZZ'], message_id='24'))],
            # a newsroom system sends a story again whenever it is saved: the same message, unchanged, under new message IDs
            [('StorySend', B.story_send('A', [B.p('sent'), B.item('n1')], message_id='20')), ('StorySend', B.story_send('A', [B.p('sent'), B.item('n1')], message_id='21')),
             ('StorySend', B.story_send('A', [B.p('sent'), B.item('n1')], message_id='22')), ('StoryReplace', B.story_replace('B', [X], message_id='23')),
             ('StoryReplace', B.story_replace('X', [X], message_id='24')), ('RunningOrderReplace', B.ro_replace([X], message_id='25')),
             ('RunningOrderReplace', B.ro_replace([X], message_id='26')), ('MetaDataReplace', B.metadata_replace([E('roSlug', text='same')], message_id='27')),
             ('MetaDataReplace', B.metadata_replace([E('roSlug', text='same')], message_id='28')), ('StorySend', B.story_send('X', [B.item('x1'), B.p('text & more')], message_id='29')),
             ('StorySend', B.story_send('X', [B.item('x1'), B.p('text & more')], message_id='30')), ('RunningOrderEnd', B.ro_delete(message_id='31'))]]
    out = []
    for v in variants:
        for sq in seqs:
            out.append(([base[0], base[1], base[2], base[3], list(v)], sq))
    return out


def cli_written_out(oc):
    """The serialisation as the command line writes it out (`mosromgr merge`, to stdout and to -o, in real processes whose
    stdout encoding varies): whenever the command succeeds, what it wrote reads back as the running order the library's
    own merge of the same files gives - identical content, still completed.  (Whether it should succeed is C19's.)"""
    import os, shutil, subprocess, sys, tempfile, warnings
    from . import impl
    from mosromgr.moscollection import MosCollection
    from mosromgr.mostypes import MosFile
    sets = {'warning on the way': [TJ.to_text(B.ro_doc([B.story('A', [B.p('caf\u00e9 \u00a320'), B.item('a1')]), B.story('B', [])], message_id='1', slug='\u00dcbersicht')),
                                   TJ.to_text(B.story_delete(['A', 'nowhere', 'B'], message_id='2')),
                                   TJ.to_text(B.story_append([B.story('C', [B.p('na\u00efve')])], message_id='3')), TJ.to_text(B.ro_delete(message_id='4'))],
            'beyond latin-1': [TJ.to_text(B.ro_doc([B.story('A', [B.p('\u20ac 5, \u201cquoted\u201d, \u041a\u0438\u0435\u0432, \U0001d11e')])], message_id='1')),
                               TJ.to_text(B.story_insert('A', [B.story('A', [])], message_id='2')), TJ.to_text(B.ro_delete(message_id='3'))],
            'plain ascii': [TJ.to_text(B.ro_doc([B.story('A', [B.item('a1'), B.p('{{HEADLINE}} and {{0}} are text like any other')])], message_id='1', slug='{{slug}}')), TJ.to_text(B.ro_delete(message_id='2'))],
            'a failing and a late message': [TJ.to_text(B.ro_doc([B.story('A', [B.item('a1')])], message_id='1')), TJ.to_text(B.item_replace('A', 'nowhere', [B.item('n')], message_id='2')),
                                             TJ.to_text(B.story_append([B.story('B', [B.p('{{HEADLINE}} {json: 1} 100%')])], message_id='3')), TJ.to_text(B.ro_delete(message_id='4')),
                                             TJ.to_text(B.story_append([B.story('LATE', [])], message_id='5'))]}
    root = tempfile.mkdtemp(prefix='mrm-c14-cli-')
    try:
        for label, docs in sets.items():
            fns = []
            for k, t in enumerate(docs):
                fn = os.path.join(root, f'{label[:3]}_{k}.mos.xml')
                with open(fn, 'w', encoding='utf-8') as f:
                    f.write(t)
                fns.append(fn)
            with warnings.catch_warnings():
                warnings.simplefilter('ignore')
                mc = MosCollection.from_files(fns)
                mc.merge(strict=False)
            want = TJ.to_tree(mc.ro.xml)
            codes = {}
            for enc in ('utf-8', 'latin-1', 'ascii'):
                for to_file in (False, True):
                    outp = os.path.join(root, 'out.xml')
                    # the output file exists already and is LONGER than what will be written (a periodic re-merge of a
                    # running order that shrank): what is read back is the new document, nothing of the old one
                    with open(outp, 'w', encoding='utf-8') as f:
                        f.write('<mos><old>' + 'previous, longer content ' * 400 + '</old></mos>\n')
                    code = 'import sys; sys.path.insert(0, %r); from mosromgr.cli import main; sys.exit(main(sys.argv[1:]) or 0)' % impl.REPO
                    env = dict(os.environ, PYTHONIOENCODING=enc, PYTHONDONTWRITEBYTECODE='1')
                    pr = subprocess.run([sys.executable, '-c', code, 'merge', '-n', '-f'] + fns + (['-o', outp] if to_file else []),
                                        stdout=subprocess.PIPE, stderr=subprocess.PIPE, env=env, timeout=120)
                    oc.evaluations += 1
                    oc.count('cli-written-out')
                    codes[(enc, to_file)] = pr.returncode
                    if to_file and codes.get((enc, False)) == 0 and pr.returncode != 0:
                        oc.failing.append({'kind': 'roundtrip-cli', 'label': f'merge -o file fails where merge to stdout succeeds, stdout encoding {enc}, {label}', 'docs': docs,
                                           'encoding': enc, 'to_file': True, 'state_has_cr': False,
                                           'spec': 'the running order that can be written to stdout can be written to a file (the file is UTF-8 whatever the terminal is)',
                                           'impl': {'status': pr.returncode, 'stderr': pr.stderr[-300:].decode('latin-1')}})
                    if pr.returncode != 0:
                        continue
                    oc.in_domain += 1
                    try:
                        with warnings.catch_warnings():
                            warnings.simplefilter('ignore')
                            back = MosFile.from_file(outp) if to_file else MosFile.from_string(pr.stdout.decode(enc))
                        got = {'cls': type(back).__name__, 'completed': bool(back.completed), 'same': TJ.to_tree(back.xml) == want}
                    except Exception as e:  # noqa: BLE001
                        got = {'err': impl.err_name(e)}
                    if got != {'cls': 'RunningOrder', 'completed': True, 'same': True}:
                        oc.failing.append({'kind': 'roundtrip-cli', 'label': f'merge {"-o file" if to_file else "to stdout"}, stdout encoding {enc}, {label}', 'docs': docs,
                                           'encoding': enc, 'to_file': to_file, 'state_has_cr': False,
                                           'spec': 'what `mosromgr merge` wrote out does not read back as the merged running order (identical content, still completed)',
                                           'impl': dict(got, stdout=pr.stdout[:300].decode('latin-1'), stderr=pr.stderr[-200:].decode('latin-1'))})
    finally:
        shutil.rmtree(root, ignore_errors=True)


def run_c14(tier, seed):
    from . import impl, lean
    oc = Outcome('C14')
    rng = random.Random(seed * 101 + 7)
    states = []        # (tree, text) for the model comparison
    # G-rich documents, pristine
    for k in range(120 if tier == 'quick' else 10000):
        with_cr = (k % 6 == 0)
        src = to_source(rich_doc(rng, with_cr))
        ro = impl.load(src)
        tree = TJ.to_tree(ro.xml)
        original = {'message_id': ro.message_id, 'ro_id': ro.ro_id}
        if tree != TJ.parse(src):
            oc.failing.append({'kind': 'roundtrip', 'source': src, 'label': f'rich doc #{k}', 'text': src, 'state_has_cr': False,
                               'spec': 'the document as loaded by the library differs from what the XML says (text, attributes or special characters not intact)'})
        text = check_state(oc, 'C14', ro, tree, f'rich doc #{k}' + (' (with U+000D)' if with_cr else ''), {'source': src}, original)
        if text is not None:
            states.append((tree, text))
        oc.count('rich-docs')
    # payloads in XML namespaces (vendor metadata does that; MOS itself has none): the round trip is checked on the
    # library alone - the model does not know namespaces, so these states are not sent to it
    ns_payloads = ['<clip xmlns="urn:example:clip"><len>3</len></clip>', '<v:clip xmlns:v="urn:example:v" v:kind="a"><v:len>3</v:len></v:clip>',
                   '<a xmlns="urn:a"><b xmlns="urn:b"><c xmlns=""/></b></a>', '<x xmlns:p="urn:p" p:attr="1"/>']
    for k, pl in enumerate(ns_payloads):
        item = '<item><itemID>n%d</itemID><mosExternalMetadata><mosSchema>s</mosSchema><mosPayload>%s</mosPayload></mosExternalMetadata></item>' % (k, pl)
        src = '<mos><mosID>m</mosID><messageID>1</messageID><roCreate><roID>RO1</roID><roSlug>s</roSlug><story><storyID>A</storyID>%s</story></roCreate></mos>' % item
        send = ('<mos><mosID>m</mosID><messageID>2</messageID><roStorySend><roID>RO1</roID><storyID>A</storyID><storyBody>%s<p>t</p></storyBody></roStorySend></mos>'
                % item.replace('<item>', '<storyItem>').replace('</item>', '</storyItem>'))
        plain = '<mos><mosID>m</mosID><messageID>1</messageID><roCreate><roID>RO1</roID><roSlug>s</roSlug><story><storyID>A</storyID></story></roCreate></mos>'
        for label, first, msgs in ((f'namespaced payload #{k} in the roCreate', src, []), (f'namespaced payload #{k} arriving by roStorySend', plain, [send]),
                                   (f'plain document after namespaced ones #{k}', plain, [])):
            ro = impl.load(first)
            original = {'message_id': ro.message_id, 'ro_id': ro.ro_id}
            for m in msgs:
                impl.add(ro, impl.load(m))
            check_state(oc, 'C14', ro, TJ.to_tree(ro.xml), label, {'source': first, 'then': msgs}, original)
            oc.count('namespaced')
    # every state of live histories
    n_hist = 80 if tier == 'quick' else 5000
    plans = []
    for hs in range(n_hist):
        plans.append(('random', seed * 6007 + 29 * hs))
    plans += [('envelope', k) for k in range(len(_envelope_plans()))]
    plans += [('envelope-werr', k) for k in range(len(_envelope_plans()))]      # the same with the library's warnings as errors
    for kind, hseed in plans:
        hrng = random.Random(hseed)
        g = gen_hist.Gen(hrng, odd_message_ids=True)
        if kind == 'random':
            ro_text = TJ.to_text(g.ro(hrng.randrange(0, 5)))
            n = hrng.randrange(1, (10 if tier == 'quick' else 30) + 1)
            fixed = None
        else:
            ro_tree, fixed = _envelope_plans()[hseed]
            hseed = hseed + (1000003 if kind == 'envelope-werr' else 0)
            ro_text = TJ.to_text(ro_tree)
            n = len(fixed)
        try:
            ro = impl.load(ro_text)
            assert type(ro).__name__ == 'RunningOrder'
        except Exception as e:  # noqa: BLE001
            # a well-formed document with a roCreate that the library does not read as a RunningOrder
            oc.disagreements.append({'kind': 'load', 'what': 'the running-order document is not read as a RunningOrder (the model classifies it as one)',
                                     'impl': impl.err_name(e), 'text': ro_text[:1500]})
            continue
        original = {'message_id': ro.message_id, 'ro_id': ro.ro_id}
        delete_at = hrng.randrange(0, n) if (kind == 'random' and hrng.random() < 0.4) else None
        docs = [ro_text]
        script = []
        objects = []
        for k in range(n):
            state = TJ.to_tree(ro.xml)
            mo, obj = None, None
            if fixed is not None:
                cls, msg = fixed[k]
                msg_text = TJ.to_text(msg)
            elif objects and hrng.random() < 0.06:
                obj = hrng.randrange(len(objects))
                cls, msg_text, mo = objects[obj]        # the same message object added again
            elif k == delete_at:
                cls, msg = 'RunningOrderEnd', B.ro_delete(message_id=str(500 + k))
                msg_text = TJ.to_text(msg)
            else:
                cls, msg = gen_hist.random_message(g, state, 500 + k)
                msg_text = TJ.to_text(msg)
            docs.append(msg_text)
            if mo is None:
                try:
                    mo = impl.load(msg_text)
                except Exception:  # noqa: BLE001
                    script.append({'msg_text': msg_text, 'obj': None, 'via': 'add'})
                    continue
                obj = len(objects)
                objects.append((cls, msg_text, mo))
            # str(ro) was evaluated by the previous check_state: msg.merge(ro) is the documented route that
            # `+` itself takes on a running order that is not completed
            via = 'merge' if (not ro.completed and hrng.random() < 0.15) else 'add'
            script.append({'msg_text': msg_text, 'obj': obj, 'via': via})
            if (kind == 'random' and hseed % 4 == 1) or kind == 'envelope-werr':
                # an application that turns the library's warnings into errors and carries on after catching them:
                # whatever state that leaves is a reachable state, and it must serialise and read back like any other
                import warnings as _w
                from mosromgr import exc as _exc
                via = 'add'
                script[-1]['via'] = 'add-warnings-as-errors'
                with _w.catch_warnings():
                    _w.simplefilter('error', _exc.MosRoMgrWarning)
                    try:
                        ret_ = ro + mo
                    except Exception:  # noqa: BLE001
                        ret_ = ro
            else:
                ret_ = None if impl.add(ro, mo, via=via)['err'] == 'crash:ReturnedOtherObject' else ro
            if ret_ is not ro:
                # `ro += msg` is the documented way to merge: what the merge hands back IS the running order of the next
                # state, and it must be the running order (anything else does not serialise to one)
                oc.failing.append({'kind': 'roundtrip', 'label': f'history {kind} seed={hseed} step {k} ({cls}, via {via})', 'state_has_cr': False,
                                   'live_history': {'ro_text': ro_text, 'script': list(script)}, 'text': msg_text,
                                   'spec': 'the merge handed back something that is not the running order it was given: after `ro += msg` '
                                           'there is no running order to serialise'})
            tree = TJ.to_tree(ro.xml)
            # a message that is NOT addressed to this running order (its roID differs from the running order's at that
            # moment) may bring its own ID along (roReplace, roMetadataReplace carry a roID child): the claim about the
            # original running-order ID is for messages addressed to it
            mt = TJ.parse(msg_text)
            mbase = next((c for c in mt[4] if TJ.find(c, 'roID') is not None), None)
            src = TJ.find(state, 'roCreate')
            if mbase is not None and src is not None and TJ.child_text(mbase, 'roID') != TJ.child_text(src, 'roID'):
                try:
                    original = dict(original, ro_id=ro.ro_id)
                except Exception:  # noqa: BLE001
                    pass
            text = check_state(oc, 'C14', ro, tree, f'history {kind} seed={hseed} after step {k} ({cls}, via {via})',
                               {'live_history': {'ro_text': ro_text, 'script': list(script)}}, original)
            oc.count('after:' + cls)
            if text is not None:
                states.append((tree, text))
    # written to a file and loaded from it in a process whose locale encoding is NOT UTF-8 (LC_ALL=C, UTF-8 mode off):
    # files are XML documents in the encoding they declare (UTF-8 by default), whatever the locale
    locale_check(oc, [t for _, t in states if any(ord(ch) > 127 for ch in t)][:25] + [t for _, t in states][:5])
    # ... and written out by the command line (stdout in three encodings, -o file), read back
    cli_written_out(oc)
    # ... and by a collection: read back through a collection, merged twice (one completion record)
    from . import coll_family
    coll_family.reuse_and_remerge_check(oc, 'C14')
    # model: serialize byte for byte
    resps = lean.run_batch([{'op': 'serialize', 'doc': t} for t, _ in states])
    for (tree, text), r in zip(states, resps):
        if r['text'] != text:
            oc.disagreements.append({'kind': 'serialize', 'what': 'serialisation differs byte for byte', 'impl': text[:2000],
                                     'model': r['text'][:2000]})
        if not r['tokens_roundtrip']:
            oc.disagreements.append({'kind': 'serialize', 'what': 'token round trip of the model failed', 'impl': text[:2000]})
        h = stable_hash(text)
        if h not in oc.nontrivial:
            oc.nontrivial.add(h)
            if len(oc.samples) < 3 and len(oc.nontrivial) % 151 == 1:
                oc.samples.append({'text': text[:1200]})
    # model: reading the serialisation back (lexer + tree builder) against ElementTree's own parser
    presps = lean.run_batch([{'op': 'parse', 'text': text} for _, text in states])
    for (tree, text), r in zip(states, presps):
        et = TJ.parse(text)
        if r['doc'] is None:
            oc.count('info:model-lexer-rejects')
            oc.disagreements.append({'kind': 'parse', 'what': 'the model lexer rejects a serialisation ElementTree reads', 'impl': text[:1500]})
        elif r['doc'] != et:
            oc.disagreements.append({'kind': 'parse', 'what': 'the model reads the serialisation differently from ElementTree',
                                     'impl': TJ.to_text(et)[:1500], 'model': TJ.to_text(r['doc'])[:1500], 'text': text[:1500]})
        else:
            oc.count('model-reads-like-ElementTree')
    oc.rule = ('random rich documents (nested metadata, attributes, mixed text and tails, Unicode, markup-significant characters, '
               'character references incl. &#13;) and every state of live random histories (all 24 classes incl. roReplace, '
               'roMetadataReplace, roStorySend, roDelete); distinct by serialised text')
    return oc


def replay(pid, fl):
    from . import impl
    oc = Outcome(pid)
    if 'source' in fl:
        ro = impl.load(fl['source'])
        original = {'message_id': ro.message_id, 'ro_id': ro.ro_id}
        for m in fl.get('then', []):
            impl.add(ro, impl.load(m))
    elif 'live_history' in fl:
        lh = fl['live_history']
        ro = impl.load(lh['ro_text'])
        original = {'message_id': ro.message_id, 'ro_id': ro.ro_id}
        objects = {}
        for st in lh['script']:
            str(ro)
            if st['obj'] is None:
                continue
            if st['obj'] not in objects:
                objects[st['obj']] = impl.load(st['msg_text'])
            if st['via'] == 'add-warnings-as-errors':
                import warnings as _w
                from mosromgr import exc as _exc
                with _w.catch_warnings():
                    _w.simplefilter('error', _exc.MosRoMgrWarning)
                    try:
                        if (ro + objects[st['obj']]) is not ro:
                            oc.failing.append({'spec': 'the merge handed back something that is not the running order'})
                    except Exception:  # noqa: BLE001
                        pass
            else:
                if impl.add(ro, objects[st['obj']], via=st['via'])['err'] == 'crash:ReturnedOtherObject':
                    oc.failing.append({'spec': 'the merge handed back something that is not the running order'})
    else:
        docs = fl['history']
        ro = impl.load(docs[0])
        original = {'message_id': ro.message_id, 'ro_id': ro.ro_id}
        for t in docs[1:]:
            try:
                impl.add(ro, impl.load(t))
            except Exception:  # noqa: BLE001
                pass
    tree = TJ.to_tree(ro.xml)
    if 'source' in fl and not fl.get('then') and tree != TJ.parse(fl['source']):
        oc.failing.append({'spec': 'the loaded document differs from what the XML says'})
    check_state(oc, pid, ro, tree, 'replay', {}, original)
    print(json.dumps([f.get('spec') for f in oc.failing], indent=1))
    if oc.failing:
        print(f'VIOLATION property={pid} replay=(this file): still fails on the current tree')
        return 1
    print(f'{pid}: the recorded input no longer fails on the current tree')
    return 0


def replay_locale(pid, fl):
    oc = Outcome(pid)
    locale_check(oc, [fl['text']])
    if oc.failing:
        print(f'VIOLATION property={pid} replay=(this file): still fails on the current tree')
        return 1
    print(f'{pid}: the recorded input no longer fails on the current tree')
    return 0


def replay_cli(pid, fl):
    oc = Outcome(pid)
    cli_written_out(oc)
    if oc.failing:
        print(f'VIOLATION property={pid} replay=(this file): still fails on the current tree')
        return 1
    print(f'{pid}: the recorded input no longer fails on the current tree')
    return 0
